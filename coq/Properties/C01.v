(* C01 — Buffer: each consumer sees a gap-free, duplicate-free FIFO run of the put order.
   Model: Model/Buffer.v. A schedule is ANY list of events: operations of any thread (each one critical section of the
   code), runs of the cleaner (EClean) and of the shutdown watchers (ESettle), in any order. Statements only. *)
From Coq Require Import List ZArith Bool Arith.
From BB.Model Require Import Buffer.
From BB.Proofs Require Buffer.
Import ListNotations.

(* One total put order: the log only ever grows at its end, by the whole batch of each successful Put, in argument
   order, in the order in which the Puts took the lock (which extends real time and every producer's program order,
   because each Put is a single step between its invocation and its return). *)
Theorem C01_put_order : forall evs s,
  Proofs.Buffer.Inv s ->
  log (fst (erun s evs)) = log s ++ Proofs.Buffer.batches s evs.
Proof. exact Proofs.Buffer.erun_log. Qed.
Print Assumptions C01_put_order.

Theorem C01_values_never_change : forall evs s p v,
  Proofs.Buffer.Inv s -> nth_error (log s) p = Some v -> nth_error (log (fst (erun s evs))) p = Some v.
Proof. exact Proofs.Buffer.erun_log_stable. Qed.
Print Assumptions C01_values_never_change.

(* Every successful Get returns the log entry at the consumer's cursor (committed offset + reads since), which is still
   retained (>= base), lies between the consumer's start and its high-water mark, and advances the cursor by one;
   nothing else changes. *)
Theorem C01_get_returns_log_at_cursor : forall s c s' v,
  Proofs.Buffer.Inv s -> step s (OGet c) = (s', RVal v) ->
  exists k, getc s c = Some k /\
    let p := ccommit k + cdelta k in
    nth_error (log s) p = Some v /\ base s <= p /\ cstart k <= p <= chigh k /\
    getc s' c = Some (c_get k p) /\
    log s' = log s /\ base s' = base s /\ (forall c', c' <> c -> getc s' c' = getc s c').
Proof. exact Proofs.Buffer.get_returns_log_at_cursor. Qed.
Print Assumptions C01_get_returns_log_at_cursor.

(* The stream invariant, in every state reachable by any schedule: for every consumer, the set of positions it has ever
   been given is exactly the contiguous interval [start, high) — no gap, nothing before its start (the base when it was
   created), nothing invented — and the reads since its last commit/rollback are exactly the positions
   commit, commit+1, …, in order (so a position is re-read only after a Rollback, from the commit point). *)
Theorem C01_stream_is_contiguous_segment : forall evs k0,
  let s := fst (erun (init k0) evs) in
  base s <= length (log s) /\
  Forall (fun c =>
    cstart c <= ccommit c /\ ccommit c + cdelta c <= chigh c /\ chigh c <= length (log s) /\
    (forall p, In p (chist c) <-> cstart c <= p < chigh c) /\
    firstn (cdelta c) (chist c) = rev (seq (ccommit c) (cdelta c)) /\
    (cdone c = true -> creg c = false /\ conce c = true)) (cs s).
Proof. intros evs k0. exact (Proofs.Buffer.Inv_erun evs (init k0) (Proofs.Buffer.Inv_init k0)). Qed.
Print Assumptions C01_stream_is_contiguous_segment.

(* ================================================================================================================
   Extensions (proofs in Proofs/BufferMore.v).
   Schedules with ARBITRARY cleaners: [Proofs.BufferMore.gev] is an event of Model/Buffer.v ([GEv e]) or one run of
   cleanupLogic with an arbitrary cleaner function f ([GShift f], i.e. [clean_with f], only while the buffer is open) — a
   different f at every run if the schedule says so (SetCleanerConfig).  [Proofs.BufferMore.grun] runs such a schedule;
   [erun] is the special case (first theorem).
   ================================================================================================================ *)
From BB.Proofs Require BufferMore.

Theorem C01_schedules_are_a_special_case : forall evs s,
  erun s evs = Proofs.BufferMore.grun s (map Proofs.BufferMore.GEv evs).
Proof. exact Proofs.BufferMore.erun_is_grun. Qed.
Print Assumptions C01_schedules_are_a_special_case.

(* one event of a generalised schedule, spelled out *)
Theorem C01_generalised_event : forall s e f,
  Proofs.BufferMore.gstep s (Proofs.BufferMore.GEv e) = estep s e /\
  Proofs.BufferMore.gstep s (Proofs.BufferMore.GShift f) = (if bclosed s then s else clean_with f s, None).
Proof. exact Proofs.BufferMore.gstep_def. Qed.
Print Assumptions C01_generalised_event.

(* the put order, with any cleaners running: the log only grows, by the batches of the successful Puts *)
Theorem C01_put_order_any_cleaners : forall gs s,
  Proofs.Buffer.Inv s ->
  log (fst (Proofs.BufferMore.grun s gs)) = log s ++ Proofs.BufferMore.gbatches s gs.
Proof. exact Proofs.BufferMore.grun_log. Qed.
Print Assumptions C01_put_order_any_cleaners.

Theorem C01_values_never_change_any_cleaners : forall gs s p v,
  Proofs.Buffer.Inv s -> nth_error (log s) p = Some v -> nth_error (log (fst (Proofs.BufferMore.grun s gs))) p = Some v.
Proof. exact Proofs.BufferMore.grun_log_stable. Qed.
Print Assumptions C01_values_never_change_any_cleaners.

(* the contiguous-segment invariant of C01_stream_is_contiguous_segment, with any cleaners running *)
Theorem C01_stream_is_contiguous_segment_any_cleaners : forall gs k0,
  let s := fst (Proofs.BufferMore.grun (init k0) gs) in
  base s <= length (log s) /\
  Forall (fun c =>
    cstart c <= ccommit c /\ ccommit c + cdelta c <= chigh c /\ chigh c <= length (log s) /\
    (forall p, In p (chist c) <-> cstart c <= p < chigh c) /\
    firstn (cdelta c) (chist c) = rev (seq (ccommit c) (cdelta c)) /\
    (cdone c = true -> creg c = false /\ conce c = true)) (cs s).
Proof. exact (fun gs k0 => Proofs.BufferMore.Inv_reachable_g k0 gs). Qed.
Print Assumptions C01_stream_is_contiguous_segment_any_cleaners.

(* a Commit is permanent, with any cleaners running: whatever a consumer receives later lies at or beyond the offset it
   had committed, and at or beyond its start *)
Theorem C01_committed_never_returned_again_any_cleaners : forall gs s c k s1 s2 v,
  Proofs.Buffer.Inv s -> getc s c = Some k ->
  s1 = fst (Proofs.BufferMore.grun s gs) -> step s1 (OGet c) = (s2, RVal v) ->
  exists k1, getc s1 c = Some k1 /\ ccommit k <= ccommit k1 /\
             nth_error (log s1) (ccommit k1 + cdelta k1) = Some v /\ cstart k <= ccommit k1 + cdelta k1.
Proof. exact Proofs.BufferMore.committed_never_returned_again_g. Qed.
Print Assumptions C01_committed_never_returned_again_any_cleaners.

(* ---- "starts at the oldest value still retained when the consumer was created" ---- *)

(* NewConsumer on an open buffer: the new consumer gets the next id; its start and committed offset are the current base
   (the absolute index of the oldest retained value), nothing read yet; nothing else changes; and its first Get returns
   the oldest retained value — the head of Slice() = skipn base log — or parks if nothing is retained. *)
Theorem C01_new_consumer_starts_at_oldest_retained : forall s,
  bclosed s = false ->
  let c := length (cs s) in
  let s' := fst (step s ONew) in
  snd (step s ONew) = RId c /\ getc s' c = Some (c_new (base s)) /\
  log s' = log s /\ base s' = base s /\ (forall c', c' < c -> getc s' c' = getc s c') /\
  snd (step s' (OGet c)) = match nth_error (skipn (base s) (log s)) 0 with Some v => RVal v | None => REmpty end.
Proof. exact Proofs.BufferMore.new_consumer_spec. Qed.
Print Assumptions C01_new_consumer_starts_at_oldest_retained.

(* the first successful Get a consumer ever makes (empty history) reads the position of its start offset *)
Theorem C01_first_read_is_start : forall s c k s' v,
  Proofs.Buffer.Inv s -> getc s c = Some k -> chist k = [] -> step s (OGet c) = (s', RVal v) ->
  ccommit k + cdelta k = cstart k /\ nth_error (log s) (cstart k) = Some v.
Proof. exact Proofs.BufferMore.first_read_is_start. Qed.
Print Assumptions C01_first_read_is_start.

(* Over every schedule gs1 ++ NewConsumer :: gs2 (any cleaners): the consumer created by that NewConsumer (s1 = the state
   in which it is created) has, in the final state s2, start = base of s1; every position it ever read is at or beyond
   that; its first read, if any, is exactly that position; the first occurrences in its history are base s1, base s1 + 1,
   ... without gap; and the value at its start is the oldest value retained in s1 (when there was one). *)
Theorem C01_consumer_starts_at_base_of_creation : forall k0 gs1 gs2,
  let s1 := fst (Proofs.BufferMore.grun (init k0) gs1) in
  bclosed s1 = false ->
  let c := length (cs s1) in
  let s2 := fst (Proofs.BufferMore.grun s1 (Proofs.BufferMore.GEv (EOp ONew) :: gs2)) in
  getc s1 c = None /\
  exists k, getc s2 c = Some k /\ cstart k = base s1 /\
    (chist k = [] \/ exists l', chist k = l' ++ [base s1]) /\
    (forall p, In p (chist k) -> base s1 <= p) /\
    Proofs.BufferMore.firsts (chist k) = seq (base s1) (chigh k - base s1) /\
    (forall v, nth_error (skipn (base s1) (log s1)) 0 = Some v -> nth_error (log s2) (base s1) = Some v).
Proof. exact Proofs.BufferMore.consumer_starts_reachable. Qed.
Print Assumptions C01_consumer_starts_at_base_of_creation.

(* a consumer's start is never ahead of the base (it was the base once, and the base only grows) *)
Theorem C01_start_never_ahead_of_base : forall k0 gs,
  let s := fst (Proofs.BufferMore.grun (init k0) gs) in Forall (fun k => cstart k <= base s) (cs s).
Proof. exact Proofs.BufferMore.start_le_base_reachable. Qed.
Print Assumptions C01_start_never_ahead_of_base.

(* ---- "no reordering; a value re-read after a rollback counted once" ---- *)

(* In every reachable state (any schedule, any cleaners), for every consumer: wherever its history (newest first) is
   split as l1 ++ p :: l2 — p read right after the reads l2 — p is at least the start and at most the high-water mark
   of l2 (one past the largest position in l2, the start if l2 is empty); p was read before iff it is below that mark;
   and a p not read before IS that mark: new positions arrive in increasing order, one at a time, without gap.
   Hence the first occurrences, oldest first ([Proofs.BufferMore.firsts] drops every repeat), are exactly
   start, start+1, ..., high-1; the first read of all is the start; chigh is the high-water mark of the history. *)
Theorem C01_stream_order : forall k0 gs c k,
  let s := fst (Proofs.BufferMore.grun (init k0) gs) in
  getc s c = Some k ->
  (forall l1 p l2, chist k = l1 ++ p :: l2 ->
     cstart k <= p <= fold_right Nat.max (cstart k) (map S l2) /\
     (In p l2 <-> p < fold_right Nat.max (cstart k) (map S l2)) /\
     (~ In p l2 -> p = fold_right Nat.max (cstart k) (map S l2))) /\
  Proofs.BufferMore.firsts (chist k) = seq (cstart k) (chigh k - cstart k) /\
  (chist k = [] \/ exists l', chist k = l' ++ [cstart k]) /\
  chigh k = fold_right Nat.max (cstart k) (map S (chist k)).
Proof. exact Proofs.BufferMore.stream_order_reachable. Qed.
Print Assumptions C01_stream_order.

(* [firsts]: the first occurrences of a history given newest first, listed oldest first *)
Theorem C01_firsts_def : forall p l,
  Proofs.BufferMore.firsts [] = [] /\
  Proofs.BufferMore.firsts (p :: l) =
    if existsb (Nat.eqb p) l then Proofs.BufferMore.firsts l else Proofs.BufferMore.firsts l ++ [p].
Proof. exact Proofs.BufferMore.firsts_def. Qed.
Print Assumptions C01_firsts_def.

(* A successful Get (which reads position p = committed offset + reads since, C01_get_returns_log_at_cursor) advances
   the cursor by one, and: if p is the high-water mark, p was never read before and the mark moves to p+1; if p is below
   the mark, p is a re-read and the mark stays. *)
Theorem C01_get_new_or_reread : forall s c k,
  Proofs.Buffer.Inv s -> getc s c = Some k ->
  let p := ccommit k + cdelta k in
  ccommit (c_get k p) + cdelta (c_get k p) = S p /\
  (p = chigh k -> ~ In p (chist k) /\ chigh (c_get k p) = S p) /\
  (p < chigh k -> In p (chist k) /\ chigh (c_get k p) = chigh k).
Proof. exact Proofs.BufferMore.get_new_or_reread_state. Qed.
Print Assumptions C01_get_new_or_reread.

(* Re-reads happen only after a Rollback: if a consumer's cursor is at its high-water mark (next Get returns a new
   position), it still is after any single event — any operation of any thread, a cleaner run with any cleaner, a
   shutdown step — except a Rollback of that very consumer; and no event other than that Rollback increases the distance
   between cursor and mark (each re-read Get decreases it by one, see above, until the re-reads have caught up). *)
Theorem C01_reread_only_after_rollback : forall s g c k k',
  getc s c = Some k -> getc (fst (Proofs.BufferMore.gstep s g)) c = Some k' ->
  ccommit k + cdelta k = chigh k ->
  ccommit k' + cdelta k' = chigh k' \/ g = Proofs.BufferMore.GEv (EOp (ORollback c)).
Proof. exact Proofs.BufferMore.reread_only_after_rollback. Qed.
Print Assumptions C01_reread_only_after_rollback.

Theorem C01_distance_to_high_water : forall s g c k k',
  Proofs.Buffer.Inv s -> getc s c = Some k -> getc (fst (Proofs.BufferMore.gstep s g)) c = Some k' ->
  g <> Proofs.BufferMore.GEv (EOp (ORollback c)) ->
  chigh k' - (ccommit k' + cdelta k') <= chigh k - (ccommit k + cdelta k).
Proof. exact Proofs.BufferMore.distance_to_high_water. Qed.
Print Assumptions C01_distance_to_high_water.

(* what a single event does to one consumer's cursor, mark and history: a Rollback of it resets the reads-since counter,
   a successful Get of it reads at the cursor, anything else leaves cursor, mark and history alone *)
Theorem C01_event_effect_on_cursor : forall s g c k k',
  getc s c = Some k -> getc (fst (Proofs.BufferMore.gstep s g)) c = Some k' ->
  (g = Proofs.BufferMore.GEv (EOp (ORollback c)) /\ k' = c_rollback k /\ cdelta k <> 0) \/
  (g = Proofs.BufferMore.GEv (EOp (OGet c)) /\ k' = c_get k (ccommit k + cdelta k)) \/
  (ccommit k' + cdelta k' = ccommit k + cdelta k /\ chigh k' = chigh k /\ chist k' = chist k /\ ccommit k <= ccommit k').
Proof. exact Proofs.BufferMore.gstep_cursor. Qed.
Print Assumptions C01_event_effect_on_cursor.

(* a consumer's record only moves forward under every schedule: same start, committed offset and high-water mark never
   decrease, and the history is only ever extended (nothing once delivered is rewritten) *)
Theorem C01_history_only_extended : forall gs s c k,
  Proofs.Buffer.Inv s -> getc s c = Some k ->
  exists k', getc (fst (Proofs.BufferMore.grun s gs)) c = Some k' /\
    cstart k' = cstart k /\ ccommit k <= ccommit k' /\ chigh k <= chigh k' /\ (exists l, chist k' = l ++ chist k).
Proof. exact Proofs.BufferMore.history_only_extended. Qed.
Print Assumptions C01_history_only_extended.

(* [ordered start history] (used in the strengthened invariant, Properties/C12.v C12_strong_invariant_reachable): every
   position of the history (newest first) is at least the start and at most the high-water mark of the reads before it *)
Theorem C01_ordered_def : forall st p l,
  (Proofs.BufferMore.ordered st [] <-> True) /\
  (Proofs.BufferMore.ordered st (p :: l) <->
   st <= p <= fold_right Nat.max st (map S l) /\ Proofs.BufferMore.ordered st l).
Proof. exact Proofs.BufferMore.ordered_def. Qed.
Print Assumptions C01_ordered_def.

(* ================================================================================================================
   Buffer.get and Buffer.commit AS WRITTEN IN THE CURRENT SOURCE are the model's [get_attempt] and the model's OCommit step
   on which every theorem above rests.  coq/Gen/ImplBuffer.v is printed from buffer.go (and the struct declaration of
   Buffer) by harness/cmd/gotr -set buffer on every run; [GoFrag3.run3] is the interpreter of the fragment it is written in
   (Model/GoFrag3.v: the receiver's fields as a record state [store], map lookup with comma-ok and map store, slice
   indexing, multi-value returns as a list, errors as the TAG of the expression that constructs them - the message text is
   not translated -, `b.mutex.Lock()`, `defer b.mutex.Unlock()`, `b.cond.Broadcast()` as logged effects; locking itself is
   C11's subject).  Vocabulary (Model/BufferSrc.v): [mkstore closed consumers offset buffer] a source-level state (is
   b.ctx.Err() non-nil, b.consumers as an association list from consumer ids to committed offsets, b.offset, b.buffer);
   [abs s] the ABSTRACTION FUNCTION: the source-level state a model state stands for (ctx cancelled = bclosed, consumers =
   the registered consumers' ccommit, offset = base, buffer = the log from base on); [get_spec], [commit_spec] the closed
   forms; [get_expected s c] = (value, true, nil) / (nil, false, nil) / (nil, false, err) for the model's RVal / REmpty /
   RErr, err named by [get_err].  The parameters oe me perm fuel of the interpreter (oracles, callable methods, map
   iteration order, loop bound) are irrelevant to these two loop-free methods: the theorems hold for all of them.
   ================================================================================================================ *)
From BB.Model Require Import GoFrag GoFrag3 BufferSrc.
From BB.Gen Require ImplBuffer.
From BB.Proofs Require BufferGen.

(* On EVERY source-level state - any map, any integers (also negative or inconsistent offsets), any slice - and for every
   key and every integer argument: the run of the translated get changes nothing, has no effect, and returns the closed
   form [get_spec]: the context's error if it is cancelled; else "unknown consumer" if c is not in the map; else, with
   relative = offset argument + consumers[c] - b.offset: "past" if relative < 0, (nil, false, nil) if relative >= len,
   (buffer[relative], true, nil) otherwise. *)
Theorem C01_get_source_is_spec : forall oe me perm fuel closed consumers offset buffer c (delta : Z),
  run3 oe me perm fuel BB.Gen.ImplBuffer.get_def (mkstore closed consumers offset buffer) [WKey c; W (VInt delta)]
  = Returned3 (mkstore closed consumers offset buffer) (get_spec closed consumers offset buffer c delta) [].
Proof. exact Proofs.BufferGen.get_src_eq_spec. Qed.
Print Assumptions C01_get_source_is_spec.

(* On the image of EVERY model state, called as consumer.Get calls it (the consumer's own context is live, the offset
   argument is consumer.offset = cdelta; c may also be an id that was never handed out): the three results are the
   model's [get_attempt s c]. *)
Theorem C01_get_source_is_model : forall oe me perm fuel s c (delta : Z),
  (forall k, getc s c = Some k -> ccancel k = false /\ delta = Z.of_nat (cdelta k)) ->
  run3 oe me perm fuel BB.Gen.ImplBuffer.get_def (abs s) [WKey c; W (VInt delta)]
  = Returned3 (abs s) (get_expected s c) [].
Proof. exact Proofs.BufferGen.get_src_eq_model. Qed.
Print Assumptions C01_get_source_is_model.

(* On EVERY source-level state: commit returns "unknown consumer" and changes nothing if c is not in the map, and otherwise
   replaces consumers[c] by consumers[c] + the offset argument, broadcasts and returns nil; the write lock is taken first and
   released last (deferred) on both paths. *)
Theorem C01_commit_source_is_spec : forall oe me perm fuel closed consumers offset buffer c (delta : Z),
  run3 oe me perm fuel BB.Gen.ImplBuffer.commit_def (mkstore closed consumers offset buffer) [WKey c; W (VInt delta)]
  = commit_spec closed consumers offset buffer c delta.
Proof. exact Proofs.BufferGen.commit_src_eq_spec. Qed.
Print Assumptions C01_commit_source_is_spec.

(* On the image of EVERY model state, called as consumer.Commit calls it (consumer.offset = cdelta, checked to be non-zero
   by the caller): the state after the call is the image of the model's state after OCommit, the error is nil exactly when
   the model answers ROk, and a Broadcast happens exactly then. *)
Theorem C01_commit_source_is_model : forall oe me perm fuel s c (delta : Z),
  (forall k, getc s c = Some k -> cdelta k <> 0 /\ delta = Z.of_nat (cdelta k)) ->
  run3 oe me perm fuel BB.Gen.ImplBuffer.commit_def (abs s) [WKey c; W (VInt delta)]
  = Returned3 (abs (fst (step s (OCommit c)))) (commit_expected (snd (step s (OCommit c))))
              (commit_log (snd (step s (OCommit c)))).
Proof. exact Proofs.BufferGen.commit_src_eq_model. Qed.
Print Assumptions C01_commit_source_is_model.

(* Not vacuous, by running the translated source on states the model reaches ([ex_state]: three values put, two consumers,
   consumer 0 committed one value and read another, the default cleaner ran: base 1; [ex_past]: the same with base 2): a
   value case, a pending case, a "past" case, an unknown consumer - and the model's answers on the same states. *)
Theorem C01_get_source_examples :
  let run := fun s c d => run3 [] [] (fun l => l) 0 BB.Gen.ImplBuffer.get_def (abs s) [WKey c; W (VInt d)] in
  let ex_state := Proofs.BufferGen.ex_state in
  let ex_past := Proofs.BufferGen.ex_past in
  base ex_state = 1 /\
  run ex_state 0 1%Z = Returned3 (abs ex_state) [WElem (Some 30%Z); W (VBool true); WErr ErrNil] [] /\
  run ex_state 0 2%Z = Returned3 (abs ex_state) [WElem None; W (VBool false); WErr ErrNil] [] /\
  run ex_past 1 0%Z = Returned3 (abs ex_past) [WElem None; W (VBool false); WErr err_get_past] [] /\
  run ex_state 7 0%Z = Returned3 (abs ex_state) [WElem None; W (VBool false); WErr err_get_unknown] [] /\
  get_expected ex_state 0 = [WElem (Some 30%Z); W (VBool true); WErr ErrNil] /\
  get_expected ex_past 1 = [WElem None; W (VBool false); WErr err_get_past].
Proof. exact Proofs.BufferGen.get_src_examples. Qed.
Print Assumptions C01_get_source_examples.

(* a successful commit (one map entry moves from 1 to 2, one Broadcast between Lock and Unlock) and an unknown consumer *)
Theorem C01_commit_source_examples :
  let run := fun s c d => run3 [] [] (fun l => l) 0 BB.Gen.ImplBuffer.commit_def (abs s) [WKey c; W (VInt d)] in
  let ex_state := Proofs.BufferGen.ex_state in
  run ex_state 0 1%Z
  = Returned3 (abs (fst (step ex_state (OCommit 0)))) [WErr ErrNil] [log_lock; log_broadcast; log_unlock] /\
  cmap ex_state = [(0, 1%Z); (1, 1%Z)] /\ cmap (fst (step ex_state (OCommit 0))) = [(0, 2%Z); (1, 1%Z)] /\
  run ex_state 7 1%Z = Returned3 (abs ex_state) [WErr err_commit_unknown] [log_lock; log_unlock].
Proof. exact Proofs.BufferGen.commit_src_examples. Qed.
Print Assumptions C01_commit_source_examples.
