(* C01 — Buffer: each consumer sees a gap-free, duplicate-free FIFO run of the put order.
   Model: Model/Buffer.v. A schedule is ANY list of events: operations of any thread (each one critical section of the
   code), runs of the cleaner (EClean) and of the shutdown watchers (ESettle), in any order. Statements only. *)
From Coq Require Import List ZArith Bool Arith.
From BB.Model Require Import Buffer.
From BB.Proofs Require Buffer.
Import ListNotations.

(* One total put order: the log only ever grows at its end, by the whole batch of each successful Put, in argument
   order, in the order in which the Puts took the lock (which extends real time and every producer's program order,
   because each Put is a single step between its invocation and its return). *)
Theorem C01_put_order : forall evs s,
  Proofs.Buffer.Inv s ->
  log (fst (erun s evs)) = log s ++ Proofs.Buffer.batches s evs.
Proof. exact Proofs.Buffer.erun_log. Qed.
Print Assumptions C01_put_order.

Theorem C01_values_never_change : forall evs s p v,
  Proofs.Buffer.Inv s -> nth_error (log s) p = Some v -> nth_error (log (fst (erun s evs))) p = Some v.
Proof. exact Proofs.Buffer.erun_log_stable. Qed.
Print Assumptions C01_values_never_change.

(* Every successful Get returns the log entry at the consumer's cursor (committed offset + reads since), which is still
   retained (>= base), lies between the consumer's start and its high-water mark, and advances the cursor by one;
   nothing else changes. *)
Theorem C01_get_returns_log_at_cursor : forall s c s' v,
  Proofs.Buffer.Inv s -> step s (OGet c) = (s', RVal v) ->
  exists k, getc s c = Some k /\
    let p := ccommit k + cdelta k in
    nth_error (log s) p = Some v /\ base s <= p /\ cstart k <= p <= chigh k /\
    getc s' c = Some (c_get k p) /\
    log s' = log s /\ base s' = base s /\ (forall c', c' <> c -> getc s' c' = getc s c').
Proof. exact Proofs.Buffer.get_returns_log_at_cursor. Qed.
Print Assumptions C01_get_returns_log_at_cursor.

(* The stream invariant, in every state reachable by any schedule: for every consumer, the set of positions it has ever
   been given is exactly the contiguous interval [start, high) — no gap, nothing before its start (the base when it was
   created), nothing invented — and the reads since its last commit/rollback are exactly the positions
   commit, commit+1, …, in order (so a position is re-read only after a Rollback, from the commit point). *)
Theorem C01_stream_is_contiguous_segment : forall evs k0,
  let s := fst (erun (init k0) evs) in
  base s <= length (log s) /\
  Forall (fun c =>
    cstart c <= ccommit c /\ ccommit c + cdelta c <= chigh c /\ chigh c <= length (log s) /\
    (forall p, In p (chist c) <-> cstart c <= p < chigh c) /\
    firstn (cdelta c) (chist c) = rev (seq (ccommit c) (cdelta c)) /\
    (cdone c = true -> creg c = false /\ conce c = true)) (cs s).
Proof. intros evs k0. exact (Proofs.Buffer.Inv_erun evs (init k0) (Proofs.Buffer.Inv_init k0)). Qed.
Print Assumptions C01_stream_is_contiguous_segment.
