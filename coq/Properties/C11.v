(* C11 — Concurrent use of the concurrency-safe types is free of data races.

   C11_disciplined_no_race   the generic lockset soundness theorem (all thread counts, programs, schedules).
   C11_impl_disciplined      every field access of the library's CURRENT source (Gen/ImplLocksets.v, regenerated
                             by harness/cmd/lockx on every run) obeys the reviewed guard table of Model/Lockset.v.
                             Dropping a lock in /repo makes this obligation fail to compile.
   C11_impl_lazyinit_confined fields exempted by the lazy-init proviso are written only by Buffer.ensure.
   C11_buffer_cleaner_refuted FINDING F5: the one field for which that fails (Buffer.cleaner) is a genuine race.
   C11_impl_gostmts_ok       no goroutine starts with a lock held, except the documented Exclusive hand-off.
   C11_impl_sync_callers     WaitCond calls its fn argument only synchronously (assumed by the translator).
   C11_impl_covers_table     every entry of the guard table is exercised by at least one fact (the translator did
                             not silently lose a type).

   Trusted: the translator (held-set computation from Go syntax, access-path aliasing, freshness), the documented
   exemptions of the guard table, the Go memory model. The dynamic counterpart is scenario C11RACE run under the
   race detector. *)
From Coq Require Import List String Bool.
From BB Require Import Model.Lockset Proofs.Lockset Gen.ImplLocksets.
Import ListNotations.

Theorem C11_disciplined_no_race :
  forall (lock loc : Type) (lock_eqb : lock -> lock -> bool),
    (forall a b, lock_eqb a b = true <-> a = b) ->
    forall (g : loc -> lguard lock) (s0 : state lock loc),
      lock_inv lock loc lock_eqb s0 ->
      disciplined lock loc lock_eqb g s0 = true ->
      forall sched, ~ race lock loc (run lock loc lock_eqb s0 sched).
Proof. exact disciplined_no_race. Qed.
Print Assumptions C11_disciplined_no_race.

Theorem C11_disciplined_no_race_init :
  forall (lock loc : Type) (lock_eqb : lock -> lock -> bool),
    (forall a b, lock_eqb a b = true <-> a = b) ->
    forall (g : loc -> lguard lock) (s0 : state lock loc),
      (forall t, In t s0 -> t_held t = []) ->
      disciplined lock loc lock_eqb g s0 = true ->
      forall sched, ~ race lock loc (run lock loc lock_eqb s0 sched).
Proof. exact disciplined_no_race_init. Qed.
Print Assumptions C11_disciplined_no_race_init.

Theorem C11_impl_disciplined : forallb (guard_ok guard_table) impl_facts = true.
Proof. vm_compute; reflexivity. Qed.
Print Assumptions C11_impl_disciplined.

(* the lazy-init proviso is only claimed for fields written nowhere but in Buffer.ensure *)
Theorem C11_impl_lazyinit_confined : lazyinit_confined guard_table impl_facts = true.
Proof. vm_compute; reflexivity. Qed.
Print Assumptions C11_impl_lazyinit_confined.

(* FINDING F5: "no unsynchronised conflicting access inside the library" is false of Buffer.cleaner — the shape
   (locked write in SetCleanerConfig, unlocked read in ensure) races in the model, and the race detector reports it
   on the implementation (scenario C11RACE). Whether the current source still has the shape:
   Eval vm_compute in f5_present impl_facts. *)
Theorem C11_buffer_cleaner_refuted : exists sched, race nat nat (run nat nat Nat.eqb f5_prog sched).
Proof. exact f5_races. Qed.
Print Assumptions C11_buffer_cleaner_refuted.

Theorem C11_impl_gostmts_ok : forallb gostmt_ok impl_gostmts = true.
Proof. vm_compute; reflexivity. Qed.
Print Assumptions C11_impl_gostmts_ok.

Theorem C11_impl_sync_callers : impl_sync_callers_ok = true.
Proof. vm_compute; reflexivity. Qed.
Print Assumptions C11_impl_sync_callers.

Theorem C11_impl_covers_table :
  forallb (fun e => existsb (fun fa => String.eqb (f_struct fa) (fst (fst e)) && String.eqb (f_field fa) (snd (fst e)))
                            impl_facts) guard_table = true.
Proof. vm_compute; reflexivity. Qed.
Print Assumptions C11_impl_covers_table.

(* The facts that would be reported, for diagnostics when C11_impl_disciplined fails: evaluate
     Eval vm_compute in map f_pos (filter (fun f => negb (guard_ok guard_table f)) impl_facts). *)
Example C11_impl_violations_none :
  map f_pos (filter (fun f => negb (guard_ok guard_table f)) impl_facts) = [].
Proof. vm_compute; reflexivity. Qed.
