(* C11 — Concurrent use of the concurrency-safe types is free of data races.

   C11_disciplined_no_race   the generic lockset soundness theorem (all thread counts, programs, schedules).
   C11_impl_disciplined      every field access of the library's CURRENT source (Gen/ImplLocksets.v, regenerated
                             by harness/cmd/lockx on every run) obeys the reviewed guard table of Model/Lockset.v.
                             Dropping a lock in /repo makes this obligation fail to compile.
   C11_impl_lazyinit_confined fields exempted by the lazy-init proviso are written only by Buffer.ensure.
   C11_buffer_cleaner_refuted FINDING F5: the one field for which that fails (Buffer.cleaner) is a genuine race.
   C11_impl_gostmts_ok       no goroutine starts with a lock held, except the documented Exclusive hand-off.
   C11_impl_sync_callers     WaitCond calls its fn argument only synchronously (assumed by the translator).
   C11_impl_covers_table     every entry of the guard table is exercised by at least one fact (the translator did
                             not silently lose a type).

   Trusted: the translator (held-set computation from Go syntax, access-path aliasing, freshness, which literals run
   on another goroutine), the Go memory model, and the EXPLICIT remainder: the facts listed in
   Model.LocksetBridge.trusted_table / local_trusted_table (fresh objects, owned / channel-synchronised values, the
   documented exemptions) — everything else is covered by the bridge theorems below. The hand-over patterns behind
   GChanSync / the Exclusive lock hand-off / ExGoOrdered have abstract counterparts (the C11_hb_ theorems), but the translator
   emits no channel operations, so for the facts of those kinds the tie to the source remains the guard table's
   argument. Worker.do's unlocked reads concurrent with LOCKED readers (read sharing) and sync.Once are not modelled.
   The dynamic counterpart is scenario C11RACE run under the race detector.

   THE BRIDGE between the two halves (Model/LocksetBridge.v, Proofs/LocksetBridge.v, Proofs/LocksetImpl.v):
   C11_bridge_fact               guard_sat of an exemption-free guard  =>  action_ok of the translated access.
   C11_library_programs_race_free  every program made of the library's own guarded accesses, each executed while
                             holding what the translator saw held, has no race (any threads, any schedule).
   C11_impl_all_sites_race_free  the concrete instance with one thread per bridged access of the whole library.
   C11_guard_ok_split        what guard_ok accepts is bridged or carries an explicit trust kind.
   C11_impl_trusted_remainder / _tight   the facts that are NOT bridged are exactly those of the explicit table
                             Model.LocksetBridge.trusted_table, keyed by (function, struct, field, kind).
   C11_impl_lock_paths_stable  the lock of every GMutex guard is reached through immutable fields only.
   C11_impl_local_*          captured local variables (Buffer.cleanup's timer/broadcast, Exclusive.call's item/outcome,
                             CombineContext's stops, WaitCond's ctx, ...) as locations, with their own guard table.
   C11_impl_sync_callers_checked  the synchronous-caller assumption decided in Coq from generated data.
   C11_hb_*                  the machine extended with ownership-carrying happens-before edges (channel send/receive,
                             `go` with a lock hand-off): soundness, "published with a happens-before edge", the
                             hand-over patterns of the library (GChanSync, lock hand-off, ExGoOrdered) and the bridge
                             theorem over that machine (C11_library_hb_programs_race_free).
   *)
From Coq Require Import List String Bool.
From BB Require Import Model.Lockset Proofs.Lockset Model.LocksetBridge Model.LocksetData Gen.ImplLocksets.
From BB Require Import Model.LocksetHB.
From BB Require Proofs.LocksetBridge Proofs.LocksetHB Proofs.LocksetBridgeHB Proofs.LocksetImpl.
Import ListNotations.

Theorem C11_disciplined_no_race :
  forall (lock loc : Type) (lock_eqb : lock -> lock -> bool),
    (forall a b, lock_eqb a b = true <-> a = b) ->
    forall (g : loc -> lguard lock) (s0 : state lock loc),
      lock_inv lock loc lock_eqb s0 ->
      disciplined lock loc lock_eqb g s0 = true ->
      forall sched, ~ race lock loc (run lock loc lock_eqb s0 sched).
Proof. exact disciplined_no_race. Qed.
Print Assumptions C11_disciplined_no_race.

Theorem C11_disciplined_no_race_init :
  forall (lock loc : Type) (lock_eqb : lock -> lock -> bool),
    (forall a b, lock_eqb a b = true <-> a = b) ->
    forall (g : loc -> lguard lock) (s0 : state lock loc),
      (forall t, In t s0 -> t_held t = []) ->
      disciplined lock loc lock_eqb g s0 = true ->
      forall sched, ~ race lock loc (run lock loc lock_eqb s0 sched).
Proof. exact disciplined_no_race_init. Qed.
Print Assumptions C11_disciplined_no_race_init.

Theorem C11_impl_disciplined : forallb (guard_ok guard_table) impl_facts = true.
Proof. vm_compute; reflexivity. Qed.
Print Assumptions C11_impl_disciplined.

(* the lazy-init proviso is only claimed for fields written nowhere but in Buffer.ensure *)
Theorem C11_impl_lazyinit_confined : lazyinit_confined guard_table impl_facts = true.
Proof. vm_compute; reflexivity. Qed.
Print Assumptions C11_impl_lazyinit_confined.

(* FINDING F5: "no unsynchronised conflicting access inside the library" is false of Buffer.cleaner — the shape
   (locked write in SetCleanerConfig, unlocked read in ensure) races in the model, and the race detector reports it
   on the implementation (scenario C11RACE). Whether the current source still has the shape:
   Eval vm_compute in f5_present impl_facts. *)
Theorem C11_buffer_cleaner_refuted : exists sched, race nat nat (run nat nat Nat.eqb f5_prog sched).
Proof. exact f5_races. Qed.
Print Assumptions C11_buffer_cleaner_refuted.

Theorem C11_impl_gostmts_ok : forallb gostmt_ok impl_gostmts = true.
Proof. vm_compute; reflexivity. Qed.
Print Assumptions C11_impl_gostmts_ok.

Theorem C11_impl_sync_callers : impl_sync_callers_ok = true.
Proof. vm_compute; reflexivity. Qed.
Print Assumptions C11_impl_sync_callers.

(* C11_impl_covers_table: table hygiene, stated in Properties/C11_tables.v (checked on every run, reported, not an obligation of the property) *)

(* The facts that would be reported, for diagnostics when C11_impl_disciplined fails: evaluate
     Eval vm_compute in map f_pos (filter (fun f => negb (guard_ok guard_table f)) impl_facts). *)
Example C11_impl_violations_none :
  map f_pos (filter (fun f => negb (guard_ok guard_table f)) impl_facts) = [].
Proof. vm_compute; reflexivity. Qed.

(* ------------------------------------------------------------------------------------------------------------ *)
(* The bridge: the checker over the translator's facts establishes the abstract discipline                       *)
(* ------------------------------------------------------------------------------------------------------------ *)

(* One fact. If the guard g of the fact's field is exemption-free (g = core g) and abstract (mutex / atomic /
   immutable) and the fact satisfies it, then the abstract access [tr_access o fa] (on any object o) is allowed by
   the abstract discipline [action_ok] under exactly the abstract held set [tr_held o (f_held fa)] the translator
   computed, with the abstract guard function [abs_guard lk] read off the same table. No freshness assumption. *)
Theorem C11_bridge_fact :
  forall (lk : glookup) (o : obj) (fa : fact) (g : guard),
    lk (f_struct fa) (f_field fa) = Some g ->
    g = core g -> core_is_abstract g = true ->
    guard_sat g fa = true ->
    action_ok alock aloc alock_eqb (abs_guard lk) (tr_held o (f_held fa)) (tr_access o fa) = true.
Proof. exact Proofs.LocksetBridge.bridge_fact. Qed.
Print Assumptions C11_bridge_fact.

(* The same for guards that carry exemptions, as long as the fact does not NEED them ([bridged]: the guard with its
   exemptions removed is satisfied), and for any held set covering the translated one. *)
Theorem C11_bridge_action_ok :
  forall (lk : glookup) (o : obj) (fa : fact) (h : list (alock * mode)),
    bridged lk fa = true ->
    held_covers h (tr_held o (f_held fa)) = true ->
    action_ok alock aloc alock_eqb (abs_guard lk) h (tr_access o fa) = true.
Proof. exact Proofs.LocksetBridge.bridge_action_ok. Qed.
Print Assumptions C11_bridge_action_ok.

(* "No unsynchronised conflicting access inside the library", for the bridged part of the CURRENT source: every
   program made of the library's own guarded accesses (struct fields and captured locals: all_facts), on any objects,
   with any lock operations in between, each access executed while the thread holds what the translator saw held at
   that access ([consistent], computed by the machine's own held_after), has no data race — for any number of threads
   and any schedule. all_lookup is guard_table extended by the captured-locals table. *)
Theorem C11_library_programs_race_free :
  forall progs : list (list pitem),
    (forall p, In p progs ->
       (forall o fa, In (PFact o fa) p ->
                     In fa (filter (bridged Proofs.LocksetImpl.all_lookup) Proofs.LocksetImpl.all_facts))
       /\ consistent [] p = true) ->
    forall sched, ~ race alock aloc (run alock aloc alock_eqb (map tr_thread progs) sched).
Proof. exact Proofs.LocksetImpl.impl_programs_race_free. Qed.
Print Assumptions C11_library_programs_race_free.

(* The hypotheses are satisfiable by every fact of the source (take the locks the translator saw, then access) ... *)
Theorem C11_impl_sites_consistent :
  forallb (fun fa => consistent [] (site_prog 0 fa)) Proofs.LocksetImpl.all_facts = true.
Proof. vm_compute; reflexivity. Qed.
Print Assumptions C11_impl_sites_consistent.

(* ... so, concretely: one thread per bridged access of the whole library, ALL on the same object, race free. *)
Theorem C11_impl_all_sites_race_free :
  forall sched,
    ~ race alock aloc
        (run alock aloc alock_eqb
             (map tr_thread (map (site_prog 0)
                (filter (bridged Proofs.LocksetImpl.all_lookup) Proofs.LocksetImpl.all_facts))) sched).
Proof. exact (Proofs.LocksetImpl.impl_all_sites_race_free C11_impl_sites_consistent). Qed.
Print Assumptions C11_impl_all_sites_race_free.

(* The bridged part is most of the library: at least two thirds of the field facts and of the captured-local facts. *)
Theorem C11_impl_bridged_count :
  let '((b, n), (bl, nl)) := Proofs.LocksetImpl.bridged_counts in
  Nat.leb (2 * n) (3 * b) && Nat.leb (2 * nl) (3 * bl) && Nat.ltb 0 n && Nat.ltb 0 nl = true.
Proof. vm_compute; reflexivity. Qed.
Print Assumptions C11_impl_bridged_count.

(* all_lookup agrees with each of the two tables on that table's own facts: the remainder theorems below speak
   about the same [bridged] as the race-freedom theorems above. *)
Theorem C11_impl_lookup_agree :
  forallb (fun fa => Bool.eqb (bridged Proofs.LocksetImpl.all_lookup fa) (bridged (lookup guard_table) fa)) impl_facts
  && forallb (fun fa => Bool.eqb (bridged Proofs.LocksetImpl.all_lookup fa) (bridged local_lookup fa)) impl_local_facts
  = true.
Proof. vm_compute; reflexivity. Qed.
Print Assumptions C11_impl_lookup_agree.

(* The discipline is needed: Channel.Commit's buffer accesses with the held set the translator reports once the
   c.mutex.Lock()/Unlock() pair is deleted (empty) are not bridged, and that unlocked write races with Get's locked
   read in the abstract machine. *)
Theorem C11_unlocked_commit_not_bridged :
  forallb (fun fa => negb (bridged Proofs.LocksetImpl.all_lookup (Proofs.LocksetImpl.strip_held fa)))
          (filter (fun fa => String.eqb (f_fn fa) "Channel.Commit" && String.eqb (f_field fa) "buffer") impl_facts) = true.
Proof. vm_compute; reflexivity. Qed.
Print Assumptions C11_unlocked_commit_not_bridged.

Theorem C11_unlocked_commit_refuted :
  exists sched, race alock aloc (run alock aloc alock_eqb Proofs.LocksetImpl.commit_unlocked_vs_get sched).
Proof. exact Proofs.LocksetImpl.commit_unlocked_races. Qed.
Print Assumptions C11_unlocked_commit_refuted.

(* ------------------------------------------------------------------------------------------------------------ *)
(* The trusted remainder, explicit and checked                                                                   *)
(* ------------------------------------------------------------------------------------------------------------ *)

(* Whatever guard_ok accepts is either bridged (covered by the theorems above) or accepted by a NAMED non-abstract
   clause: fresh object, GOwned, GChanSync, or one of the documented exemptions. *)
Theorem C11_guard_ok_split :
  forall (t : guard_tbl) (fa : fact),
    guard_ok t fa = true ->
    bridged (lookup t) fa = true \/ exists k, classify f_fn (lookup t) fa = Some k.
Proof. exact Proofs.LocksetBridge.guard_ok_split. Qed.
Print Assumptions C11_guard_ok_split.

(* Every fact of the current source that is not bridged is listed, by (top-level function, struct, field, kind), in
   the hand-written table Model.LocksetBridge.trusted_table. A new unguarded access — a new exemption use, a new
   "fresh" write, a new owned/channel-synchronised field use — in a function/field combination that is not in that
   table breaks this obligation (and it implies C11_impl_disciplined, see C11_remainder_implies_guard_ok). *)
Theorem C11_impl_trusted_remainder :
  remainder_ok f_fn (lookup guard_table) trusted_table impl_facts = true.
Proof. vm_compute; reflexivity. Qed.
Print Assumptions C11_impl_trusted_remainder.

(* ... and the table lists nothing that the source does not need (no stale licence). *)
(* C11_impl_trusted_table_tight: table hygiene, stated in Properties/C11_tables.v (checked on every run, reported, not an obligation of the property) *)

Theorem C11_remainder_implies_guard_ok :
  forall (t : guard_tbl) (tbl : list trusted_entry) (facts : list fact),
    remainder_ok f_fn (lookup t) tbl facts = true -> forallb (guard_ok t) facts = true.
Proof. exact Proofs.LocksetBridge.remainder_ok_guard_ok. Qed.
Print Assumptions C11_remainder_implies_guard_ok.

(* The abstract lock (object, struct, path) of a GMutex guard denotes one lock: the first component of the path is
   either a mutex held by value (no table entry) or a GImmutable field (exclusiveItem.mutex, ChanPubSub.pongC). *)
Theorem C11_impl_lock_paths_stable : lock_paths_stable guard_table = true.
Proof. vm_compute; reflexivity. Qed.
Print Assumptions C11_impl_lock_paths_stable.

(* ------------------------------------------------------------------------------------------------------------ *)
(* Captured local variables                                                                                      *)
(* ------------------------------------------------------------------------------------------------------------ *)

(* Every access to a local variable that is captured by a goroutine literal / escaping closure / method value obeys
   Model.LocksetData.local_guard_table (default: written only before the first capture). *)
Theorem C11_impl_local_disciplined : forallb local_guard_ok impl_local_facts = true.
Proof. vm_compute; reflexivity. Qed.
Print Assumptions C11_impl_local_disciplined.

Theorem C11_local_guard_ok_split :
  forall fa : fact,
    local_guard_ok fa = true ->
    bridged local_lookup fa = true \/ exists k, classify fn_lit local_lookup fa = Some k.
Proof. exact Proofs.LocksetImpl.local_guard_ok_split. Qed.
Print Assumptions C11_local_guard_ok_split.

(* the trusted remainder of the captured locals, by (function literal, scope, variable, kind) *)
Theorem C11_impl_local_trusted_remainder :
  remainder_ok fn_lit local_lookup local_trusted_table impl_local_facts = true.
Proof. vm_compute; reflexivity. Qed.
Print Assumptions C11_impl_local_trusted_remainder.

(* C11_impl_local_trusted_table_tight: table hygiene, stated in Properties/C11_tables.v (checked on every run, reported, not an obligation of the property) *)

(* every entry of the local guard table is exercised; its lock variables are captured locals checked as immutable *)
(* C11_impl_local_table_covered: table hygiene, stated in Properties/C11_tables.v (checked on every run, reported, not an obligation of the property) *)

(* the list of captures and the list of local facts describe the same variables *)
Theorem C11_impl_captures_consistent : Proofs.LocksetImpl.captures_consistent = true.
Proof. vm_compute; reflexivity. Qed.
Print Assumptions C11_impl_captures_consistent.

(* ------------------------------------------------------------------------------------------------------------ *)
(* The synchronous-caller assumption, decided here                                                               *)
(* ------------------------------------------------------------------------------------------------------------ *)

(* WaitCond's fn parameter is only called directly or nil-compared on WaitCond's own goroutine, WaitCond performs no
   lock operation itself, and both library call sites hold the locker of the cond they pass, in write mode. (The
   generated impl_sync_callers_ok of C11_impl_sync_callers is now DEFINED as this computation.) *)
Theorem C11_impl_sync_callers_checked :
  sync_callers_ok impl_sync_assumed impl_sync_uses impl_sync_sites = true.
Proof. vm_compute; reflexivity. Qed.
Print Assumptions C11_impl_sync_callers_checked.

Theorem C11_impl_sync_callers_nonvacuous :
  impl_sync_assumed <> [] /\ impl_sync_sites <> [] /\
  forallb (fun s => String.prefix "literal " (ss_arg s)) impl_sync_sites = true.
Proof. split; [discriminate|]. split; [discriminate|]. vm_compute; reflexivity. Qed.
Print Assumptions C11_impl_sync_callers_nonvacuous.

(* ------------------------------------------------------------------------------------------------------------ *)
(* Happens-before edges that carry ownership (Model/LocksetHB.v)                                                 *)
(* ------------------------------------------------------------------------------------------------------------ *)

(* The lockset theorem for the machine extended with HSend c / HRecv c (a channel send or close / the matching
   receive; `go` with a hand-over is a send on the child's start channel): the token [pay c] travels with the message.
   Disciplined = every access under its location's lock or token in an adequate mode, every send by a thread that
   holds the channel's token in write mode. Any number of threads, any programs, every schedule. *)
Theorem C11_hb_disciplined_no_race :
  forall (lock loc chan : Type) (lock_eqb : lock -> lock -> bool) (chan_eqb : chan -> chan -> bool),
    (forall a b, lock_eqb a b = true <-> a = b) ->
    (forall a b, chan_eqb a b = true <-> a = b) ->
    forall (pay : chan -> lock) (g : loc -> lguard lock) (s0 : hstate lock loc chan),
      Proofs.LocksetHB.h_inv lock loc chan lock_eqb pay s0 ->
      h_disciplined lock loc chan lock_eqb pay g s0 = true ->
      forall sched, ~ Proofs.LocksetHB.h_race lock loc chan (h_run lock loc chan lock_eqb chan_eqb pay s0 sched).
Proof. exact Proofs.LocksetHB.h_disciplined_no_race. Qed.
Print Assumptions C11_hb_disciplined_no_race.

(* "Every value handed to a consumer, subscriber or caller is published with a happens-before edge from the goroutine
   that supplied it": in every reachable state of a disciplined system the thread about to access a token-guarded
   location holds the token, the token is not in flight, and no other thread holds it (in any mode if the access is a
   write, in write mode if it is a read). The supplier gave the token up by its send — after its own accesses, in
   program order — and cannot touch the value again before receiving the token back. *)
Theorem C11_hb_access_exclusive :
  forall (lock loc chan : Type) (lock_eqb : lock -> lock -> bool) (chan_eqb : chan -> chan -> bool),
    (forall a b, lock_eqb a b = true <-> a = b) ->
    (forall a b, chan_eqb a b = true <-> a = b) ->
    forall (pay : chan -> lock) (g : loc -> lguard lock) (s0 : hstate lock loc chan),
      Proofs.LocksetHB.h_inv lock loc chan lock_eqb pay s0 ->
      h_disciplined lock loc chan lock_eqb pay g s0 = true ->
      forall sched i ti x k p l,
        nth_error (hs_threads (h_run lock loc chan lock_eqb chan_eqb pay s0 sched)) i = Some ti ->
        ht_prog ti = HAccess x k :: p -> g x = LMutex l ->
        holds_for lock lock_eqb (ht_held ti) l k = true /\
        in_flight lock chan lock_eqb pay (hs_flight (h_run lock loc chan lock_eqb chan_eqb pay s0 sched)) l = false /\
        forall j tj, j <> i -> nth_error (hs_threads (h_run lock loc chan lock_eqb chan_eqb pay s0 sched)) j = Some tj ->
                     (if rw_is_w k then holds_any lock lock_eqb (ht_held tj) l
                      else holds_w lock lock_eqb (ht_held tj) l) = false.
Proof. exact Proofs.LocksetHB.h_access_exclusive. Qed.
Print Assumptions C11_hb_access_exclusive.

(* ... and a token is only ever obtained from a message that a send put in flight: along every schedule from a state
   with nothing in flight, the receives executed on a channel never outnumber the sends executed on it. *)
Theorem C11_hb_recv_after_send :
  forall (lock loc chan : Type) (lock_eqb : lock -> lock -> bool) (chan_eqb : chan -> chan -> bool),
    (forall a b, chan_eqb a b = true <-> a = b) ->
    forall (pay : chan -> lock) (sched : list nat) (s : hstate lock loc chan) (c : chan),
      hs_flight s = [] ->
      Proofs.LocksetHB.recvs chan chan_eqb c (Proofs.LocksetHB.h_trace lock loc chan lock_eqb chan_eqb pay s sched)
      <= Proofs.LocksetHB.sends chan chan_eqb c (Proofs.LocksetHB.h_trace lock loc chan lock_eqb chan_eqb pay s sched).
Proof. exact Proofs.LocksetHB.h_recv_after_send. Qed.
Print Assumptions C11_hb_recv_after_send.

(* The abstract counterparts of the guard table's non-mutex clauses (programs in Proofs/LocksetHB.v):
   GChanSync — a result filled by one goroutine and sent on a channel, read by the receiver; *)
Theorem C11_hb_chansync_no_race :
  forall sched, ~ Proofs.LocksetHB.h_race nat nat nat
                    (h_run nat nat nat Nat.eqb Nat.eqb Proofs.LocksetHB.hb_pay Proofs.LocksetHB.chansync sched).
Proof. exact Proofs.LocksetHB.chansync_no_race. Qed.
Print Assumptions C11_hb_chansync_no_race.

(* the lock hand-off of gostmt_ok — a goroutine that starts owning the mutex its creator locked; *)
Theorem C11_hb_handoff_no_race :
  forall sched, ~ Proofs.LocksetHB.h_race nat nat nat
                    (h_run nat nat nat Nat.eqb Nat.eqb Proofs.LocksetHB.hb_pay Proofs.LocksetHB.handoff sched).
Proof. exact Proofs.LocksetHB.handoff_no_race. Qed.
Print Assumptions C11_hb_handoff_no_race.

(* ExGoOrdered — written before `go`, read by the new goroutine, rewritten only after its completion signal. *)
Theorem C11_hb_goordered_no_race :
  forall sched, ~ Proofs.LocksetHB.h_race nat nat nat
                    (h_run nat nat nat Nat.eqb Nat.eqb Proofs.LocksetHB.hb_pay Proofs.LocksetHB.goordered sched).
Proof. exact Proofs.LocksetHB.goordered_no_race. Qed.
Print Assumptions C11_hb_goordered_no_race.

(* The edges are needed: reading the result without receiving it, or rewriting without waiting for the completion
   signal, is rejected by the discipline and races in some schedule. *)
Theorem C11_hb_missing_edge_refuted :
  (exists sched, Proofs.LocksetHB.h_race nat nat nat
                   (h_run nat nat nat Nat.eqb Nat.eqb Proofs.LocksetHB.hb_pay Proofs.LocksetHB.chansync_bad sched))
  /\ (exists sched, Proofs.LocksetHB.h_race nat nat nat
                      (h_run nat nat nat Nat.eqb Nat.eqb Proofs.LocksetHB.hb_pay Proofs.LocksetHB.goordered_bad sched)).
Proof. exact (conj Proofs.LocksetHB.chansync_bad_races Proofs.LocksetHB.goordered_bad_races). Qed.
Print Assumptions C11_hb_missing_edge_refuted.

(* The bridge theorem over that machine: programs of the library's own bridged accesses, lock operations AND
   hand-overs (any assignment hpay of tokens to channels), each access made while holding what the translator saw
   held, each hand-over made by the owner of the token: no race, any number of threads, any schedule. *)
Theorem C11_library_hb_programs_race_free :
  forall (hpay : nat -> alock) (progs : list (list hitem)),
    (forall p, In p progs ->
       (forall o fa, In (HItem (PFact o fa)) p ->
                     In fa (filter (bridged Proofs.LocksetImpl.all_lookup) Proofs.LocksetImpl.all_facts))
       /\ h_consistent hpay [] p = true) ->
    forall sched,
      ~ Proofs.LocksetHB.h_race alock aloc nat (h_run alock aloc nat alock_eqb Nat.eqb hpay (tr_hstate progs) sched).
Proof. exact Proofs.LocksetImpl.impl_hb_programs_race_free. Qed.
Print Assumptions C11_library_hb_programs_race_free.

(* Its instance for the documented lock hand-off of exclusive.go, built from the CURRENT facts of Exclusive.call
   (Proofs.LocksetImpl.exclusive_handoff_progs: two callers and the two goroutines they start, on one item): the
   facts are bridged and the programs consistent ... *)
Theorem C11_exclusive_handoff_ok : Proofs.LocksetImpl.exclusive_handoff_ok = true.
Proof. vm_compute; reflexivity. Qed.
Print Assumptions C11_exclusive_handoff_ok.

(* ... hence race free in every schedule, the goroutine's accesses being covered by the lock it INHERITS. *)
Theorem C11_exclusive_handoff_race_free :
  match Proofs.LocksetImpl.exclusive_handoff_progs with
  | Some progs =>
      forall sched, ~ Proofs.LocksetHB.h_race alock aloc nat
                        (h_run alock aloc nat alock_eqb Nat.eqb Proofs.LocksetImpl.item_mutex_pay (tr_hstate progs) sched)
  | None => True
  end.
Proof. exact (Proofs.LocksetImpl.exclusive_handoff_race_free C11_exclusive_handoff_ok). Qed.
Print Assumptions C11_exclusive_handoff_race_free.
