(* C07 — ChanPubSub: no deadlock and no false invariant panic under dynamic membership.

   Model: Model/PubSubAbs.v, the counter abstraction of chanpubsub.go + the embedded ChanCaster: the pc of the Send that
   holds sendMu, the shared words (sendingMu as writer/writer-pending/readers, the atomic subscriber count, the caster's
   count and armed bit, pongN) and THE NUMBER OF SUBSCRIBER GOROUTINES AT EACH PROGRAM POINT of Add(+1), the
   receive/Wait cycle and Add(-1) (TryRLock spin, both exits, the caster decrement, the absorbing receive).  Every
   theorem quantifies over any number of Send calls, any number of subscribers and EVERY schedule (list of picks; a
   disabled pick is a stutter).  `bad` is set by the model exactly where one of the code's state-invariant panics would
   fire (ping.Add(n) <> n, a counter decremented below zero).  Statements only.

   Granularity: PubSubAbs fuses (a) subscribers.Load + ping.Add(subscribers) [S4], (b) the Load/CAS arming loop of
   ChanCaster.Send [S5] and (c) its final Load + CAS [S7].  Model/PubSubSplit.v splits each of them into the individual atomic
   operations, with the sender's (possibly stale) local values explicit and a `bad` transition for every check the code makes on
   them; the C07_split_* theorems re-establish the invariant and all consequences there, and show that the windows are real
   (without the write lock a subscriber gets into the Load/CAS window and the CAS fails).

   SubscribeContext: Model/PubSubIter.v is a finite-control model of the AfterFunc/stop pairing (canceller, AfterFunc goroutine,
   two invocations of the iterator; the Once of context.AfterFunc is atomic as in the standard library).  The C07_iterator_*
   theorems show that x.Unsubscribe is called at most once in every state and exactly once in every terminal state in which the
   context was cancelled or the iterator function was called, unless an invocation is still consuming — for every order of
   cancel / iterator start / early exit (break, panic, Goexit, closed channel), for a nil yield, and when the iterator is never
   run.  An iterator subscriber is therefore, for the protocol, a subscriber that unsubscribes (at most) once, which is what
   PubSubAbs assumes of every subscriber.

   Not modelled (see the harness scenarios C06K2/C06S for the tie to the code): checkBroken/markBroken and the `broken` channel
   (reachable only after a panic, and C07_no_false_panic shows there is none), Add(0), deltas with |delta| > 1 (a subscriber =
   one unit), closing the channel.  The int32 overflow detection of sanityCheckSubscribersDelta is proved separately over
   explicit 32-bit wrap-around (C07_sanity_detects_wrap). *)
From Coq Require Import List Arith ZArith Bool.
From BB.Model Require Import PubSubAbs PubSubSplit PubSubIter.
From BB.Model Require PubSubSanity.
From BB.Proofs Require PubSubAbs PubSubC06 PubSubSanity PubSubSplit PubSubSplitTerm PubSubIter.
Import ListNotations.

(* No reachable state takes a panic transition: ping.Add(subscribers) returns subscribers (the caster word was 0), the
   subscriber count and the caster count are never decremented below zero — including unsubscribes in the middle of a Send
   and before ever receiving. *)
Theorem C07_no_false_panic : forall senders subscribers sched,
  v (run (init senders subscribers) sched) bad = 0.
Proof. exact Proofs.PubSubC06.no_false_panic_run. Qed.
Print Assumptions C07_no_false_panic.

(* The invariant behind it (DESIGN.md A.5) holds in every reachable state. *)
Theorem C07_invariant : forall senders subscribers sched,
  Proofs.PubSubAbs.Inv (run (init senders subscribers) sched).
Proof. exact Proofs.PubSubAbs.Inv_run. Qed.
Print Assumptions C07_invariant.

(* Deadlock freedom: in every reachable state in which nothing is enabled except the voluntary unsubscribe of an idle
   subscriber, every call has returned: no Send is running or queued, nobody is inside Add(+1), Wait or Add(-1). *)
Theorem C07_deadlock_free : forall senders subscribers sched,
  let s := run (init senders subscribers) sched in
  quiescentb s = true -> Proofs.PubSubAbs.all_returned s.
Proof. exact Proofs.PubSubAbs.quiescent_all_returned_run. Qed.
Print Assumptions C07_deadlock_free.

Theorem C07_deadlock_free_terminal : forall s, Proofs.PubSubAbs.Inv s -> (forall p, step s p = None) ->
  sp s = SNone /\ v s nsend = 0 /\ v s sq = 0 /\
  v s u0 = 0 /\ v s u1 = 0 /\ v s u2 = 0 /\ v s b1 = 0 /\
  v s n1o = 0 /\ v s n1n = 0 /\ v s n2ko = 0 /\ v s n2kn = 0 /\ v s n3k = 0 /\
  v s n2fo = 0 /\ v s n2fn = 0 /\ v s n4o = 0 /\ v s n4n = 0 /\ v s n5 = 0 /\ v s b0o = 0.
Proof. exact Proofs.PubSubAbs.terminal_all_returned. Qed.
Print Assumptions C07_deadlock_free_terminal.

(* Termination: every enabled step decreases a natural-number measure, so every run reaches such a state; no schedule makes
   more than 11*senders + 8*subscribers + 2*senders*subscribers moves. *)
Theorem C07_measure_decreases : forall s p s',
  Proofs.PubSubAbs.Inv s -> step s p = Some s' -> Proofs.PubSubAbs.measure s' < Proofs.PubSubAbs.measure s.
Proof. exact Proofs.PubSubAbs.measure_decreases. Qed.
Print Assumptions C07_measure_decreases.

Theorem C07_every_run_finite : forall senders subscribers sched,
  Proofs.PubSubAbs.moves (init senders subscribers) sched <= 11 * senders + 8 * subscribers + 2 * (senders * subscribers).
Proof. exact Proofs.PubSubAbs.every_run_finite. Qed.
Print Assumptions C07_every_run_finite.

(* When all calls have returned the subscriber count equals the standing subscribers, which is subscriptions minus
   unsubscriptions (every subscriber goroutine is either standing or has returned from Add(-1)); the caster word is 0 and
   not armed, no pong is outstanding, sendingMu is free. *)
Theorem C07_final_count : forall senders subscribers sched,
  let s := run (init senders subscribers) sched in
  quiescentb s = true ->
  v s subs = v s b0n /\ v s cnt = 0 /\ v s armed = 0 /\ v s pongN = 0 /\ v s w = 0 /\ v s r = 0.
Proof. exact Proofs.PubSubAbs.final_count_quiescent. Qed.
Print Assumptions C07_final_count.

Theorem C07_final_count_is_subscriptions_minus_unsubscriptions : forall senders subscribers sched,
  let s := run (init senders subscribers) sched in
  quiescentb s = true -> v s subs + v s fin = subscribers.
Proof. exact Proofs.PubSubAbs.final_count_threads. Qed.
Print Assumptions C07_final_count_is_subscriptions_minus_unsubscriptions.

Theorem C07_final_count_terminal : forall senders subscribers sched,
  let s := run (init senders subscribers) sched in
  terminalb s = true ->
  v s subs = v s b0n /\ v s cnt = 0 /\ v s armed = 0 /\ v s pongN = 0 /\ v s w = 0 /\ v s r = 0.
Proof. exact Proofs.PubSubAbs.final_count. Qed.
Print Assumptions C07_final_count_terminal.

(* Mutation: if a negative Add that did not get the read lock does not absorb a copy of an armed caster, a Send hangs in
   delivery with nothing else enabled (same step function, flag fl_route = false). *)
Theorem C07_unsubscribe_not_routed_through_caster_refuted : exists sched,
  let s := run_gen Proofs.PubSubAbs.no_route_flags (init 1 1) sched in
  terminalb_gen Proofs.PubSubAbs.no_route_flags s = true /\ sp s <> SNone.
Proof. exact Proofs.PubSubAbs.no_route_refuted. Qed.
Print Assumptions C07_unsubscribe_not_routed_through_caster_refuted.

(* sanityCheckSubscribersDelta over explicit int32 two's-complement wrap-around: for every int32 value of the counter and
   every delta in [-MaxInt32, MaxInt32], after the atomic int32 addition a check fires IFF the true sum leaves the int32
   range or the old or new count is negative. *)
Theorem C07_sanity_detects_wrap : forall old delta : Z,
  (PubSubSanity.min_int32 <= old <= PubSubSanity.max_int32)%Z ->
  (- PubSubSanity.max_int32 <= delta <= PubSubSanity.max_int32)%Z ->
  (PubSubSanity.sanity_check (PubSubSanity.add_subscribers old delta) delta <> 0%Z <->
   (old + delta < PubSubSanity.min_int32 \/ PubSubSanity.max_int32 < old + delta \/ old < 0 \/ old + delta < 0)%Z).
Proof. exact Proofs.PubSubSanity.sanity_detects_wrap. Qed.
Print Assumptions C07_sanity_detects_wrap.

Theorem C07_sanity_silent_under_contract : forall old delta : Z,
  (0 <= old <= PubSubSanity.max_int32)%Z -> (0 <= old + delta <= PubSubSanity.max_int32)%Z ->
  (- PubSubSanity.max_int32 <= delta <= PubSubSanity.max_int32)%Z ->
  PubSubSanity.sanity_check (PubSubSanity.add_subscribers old delta) delta = 0%Z.
Proof. exact Proofs.PubSubSanity.sanity_silent_in_range. Qed.
Print Assumptions C07_sanity_silent_under_contract.

(* ---- finer granularity: Model/PubSubSplit.v -------------------------------------------------------------------------- *)

(* With subscribers.Load / ping.Add, the arming Load / CAS loop and the final Load / CAS as SEPARATE steps (the sender's local
   copies explicit, a panic transition for every check made on them): still no reachable state takes a panic transition, and no
   copy goes to a subscriber the Send did not count. *)
Theorem C07_split_no_false_panic : forall senders subscribers sched,
  let s := xrun (xinit senders subscribers) sched in xv s bad = 0 /\ xv s steal = 0.
Proof. exact Proofs.PubSubSplit.split_no_false_panic_no_steal. Qed.
Print Assumptions C07_split_no_false_panic.

(* The invariant of the split model (that of PubSubAbs plus, per new pc, what the stale locals still guarantee: at X4b
   l4 = subscribers and the caster is untouched; at X5b the caster count can only have dropped below l5; at X7b l7 = the caster
   count and nobody is left who could change it) holds in every reachable state. *)
Theorem C07_split_invariant : forall senders subscribers sched,
  Proofs.PubSubSplit.XInv (xrun (xinit senders subscribers) sched).
Proof. exact Proofs.PubSubSplit.XInv_run. Qed.
Print Assumptions C07_split_invariant.

(* Deadlock freedom at the finer granularity. *)
Theorem C07_split_deadlock_free : forall senders subscribers sched,
  let s := xrun (xinit senders subscribers) sched in
  xquiescentb s = true -> Proofs.PubSubSplit.xall_returned s.
Proof. exact Proofs.PubSubSplit.split_deadlock_free. Qed.
Print Assumptions C07_split_deadlock_free.

Theorem C07_split_final_count : forall senders subscribers sched,
  let s := xrun (xinit senders subscribers) sched in
  xquiescentb s = true ->
  xv s subs = xv s b0n /\ xv s cnt = 0 /\ xv s armed = 0 /\ xv s pongN = 0 /\ xv s w = 0 /\ xv s r = 0.
Proof. exact Proofs.PubSubSplit.split_final_count. Qed.
Print Assumptions C07_split_final_count.

(* Termination at the finer granularity, CAS retry loop included: a failed CAS (X5b -> X5a) means a counted subscriber left
   through the caster since the Load, and the measure charges the sender for the loaded value. *)
Theorem C07_split_measure_decreases : forall s p s',
  Proofs.PubSubSplit.XInv s -> xstep s p = Some s' -> Proofs.PubSubSplitTerm.xmeasure s' < Proofs.PubSubSplitTerm.xmeasure s.
Proof. exact Proofs.PubSubSplitTerm.split_measure_decreases. Qed.
Print Assumptions C07_split_measure_decreases.

Theorem C07_split_every_run_finite : forall senders subscribers sched,
  Proofs.PubSubSplitTerm.xmoves (xinit senders subscribers) sched <= 14 * senders + 8 * subscribers + 4 * (senders * subscribers).
Proof. exact Proofs.PubSubSplitTerm.split_every_run_finite. Qed.
Print Assumptions C07_split_every_run_finite.

(* The Load/CAS window is real: without the write lock (same step function, fl_wlock = false) a subscriber joins during
   delivery and leaves between the final Load and the CAS; the CAS fails = the "unregistered receivers" panic. *)
Theorem C07_split_cas_window_without_write_lock_refuted : exists sched,
  xv (xrun_gen Proofs.PubSubAbs.no_wlock_flags (xinit 1 2) sched) bad = 1.
Proof. exact Proofs.PubSubSplit.split_cas_window_without_wlock_refuted. Qed.
Print Assumptions C07_split_cas_window_without_write_lock_refuted.

Theorem C07_split_unsubscribe_not_routed_through_caster_refuted : exists sched,
  let s := xrun_gen Proofs.PubSubAbs.no_route_flags (xinit 1 1) sched in
  forallb (fun p => match xstep_gen Proofs.PubSubAbs.no_route_flags s p with Some _ => false | None => true end) all_picks = true /\
  xp s <> XNone.
Proof. exact Proofs.PubSubSplit.split_no_route_refuted. Qed.
Print Assumptions C07_split_unsubscribe_not_routed_through_caster_refuted.

(* ---- SubscribeContext: Model/PubSubIter.v ------------------------------------------------------------------------------ *)

(* No double Unsubscribe (which would panic with "negative subscribers" or silently take another subscriber's unit): for every
   program (context cancelled or not; each of two invocations of the iterator function never made / nil yield / run until
   Done() / run and left early by break, panic, Goexit or closed channel) and every schedule of the canceller, the AfterFunc
   goroutine and the invocations, x.Unsubscribe() has been called at most once. *)
Theorem C07_iterator_unsubscribes_at_most_once : forall pg sched,
  unsubs (irun pg iinit sched) <= 1.
Proof. exact Proofs.PubSubIter.iter_at_most_once. Qed.
Print Assumptions C07_iterator_unsubscribes_at_most_once.

(* In every terminal state (nothing left to run) the number of Unsubscribe calls is 1 if (the context was cancelled or the
   iterator function was called) and no invocation is still inside the receive loop, and 0 otherwise. *)
Theorem C07_iterator_terminal_count : forall pg sched,
  let s := irun pg iinit sched in
  iterminalb pg s = true -> unsubs s = Proofs.PubSubIter.final_unsubs (ic s).
Proof. exact Proofs.PubSubIter.iter_terminal_count. Qed.
Print Assumptions C07_iterator_terminal_count.

(* No leak: cancelling the context (iterator never run, not yet entered, or running), leaving the iterator early, or calling it
   with a nil yield all end with exactly one Unsubscribe. *)
Theorem C07_iterator_no_leak : forall pg sched,
  let s := irun pg iinit sched in
  iterminalb pg s = true -> (ctxd (ic s) = true \/ invoked (ic s) = true) -> in_use (ic s) = false ->
  unsubs s = 1.
Proof. exact Proofs.PubSubIter.iter_no_leak. Qed.
Print Assumptions C07_iterator_no_leak.

(* Never unsubscribed behind the user's back: context live and iterator never called (the documented "MUST be used immediately
   OR the context MUST be cancelled" case), or an invocation still consuming => no Unsubscribe. *)
Theorem C07_iterator_not_unsubscribed_while_untouched_or_in_use : forall pg sched,
  let s := irun pg iinit sched in
  iterminalb pg s = true -> (ctxd (ic s) = false /\ invoked (ic s) = false) \/ in_use (ic s) = true ->
  unsubs s = 0.
Proof. exact Proofs.PubSubIter.iter_untouched_or_in_use_not_unsubscribed. Qed.
Print Assumptions C07_iterator_not_unsubscribed_while_untouched_or_in_use.

(* ... and the only terminal states with an invocation inside the loop are the legitimate ones: live context, loop body that
   never stops early (a cancelled context or an early exit always gets the invocation out of the loop). *)
Theorem C07_iterator_in_use_is_live : forall pg sched,
  let s := irun pg iinit sched in
  iterminalb pg s = true ->
  (in_loop (i1 (ic s)) = true -> ctxd (ic s) = false /\ early (use1 pg) = false) /\
  (in_loop (i2 (ic s)) = true -> ctxd (ic s) = false /\ early (use2 pg) = false).
Proof. exact Proofs.PubSubIter.iter_in_use_is_live. Qed.
Print Assumptions C07_iterator_in_use_is_live.

(* Contract clause 7 for iterator subscribers: while an invocation is inside the receive loop nobody has unsubscribed (in
   particular the AfterFunc goroutine never unsubscribes under a consuming iterator), and at most one invocation consumes. *)
Theorem C07_iterator_no_receive_after_unsubscribe : forall pg sched,
  let s := irun pg iinit sched in in_use (ic s) = true -> unsubs s = 0.
Proof. exact Proofs.PubSubIter.iter_no_receive_after_unsub. Qed.
Print Assumptions C07_iterator_no_receive_after_unsubscribe.

Theorem C07_iterator_one_invocation_in_loop : forall pg sched,
  let s := irun pg iinit sched in in_loop (i1 (ic s)) = true -> in_loop (i2 (ic s)) = true -> False.
Proof. exact Proofs.PubSubIter.iter_one_invocation_in_loop. Qed.
Print Assumptions C07_iterator_one_invocation_in_loop.

Theorem C07_iterator_every_run_finite : forall pg sched,
  Proofs.PubSubIter.imoves pg iinit sched <= 11.
Proof. exact Proofs.PubSubIter.iter_every_run_finite. Qed.
Print Assumptions C07_iterator_every_run_finite.

(* Mutations (same step function): an iterator that defers Unsubscribe without consulting stop() unsubscribes twice when the
   context was cancelled first; without the AfterFunc a cancelled, never-run iterator leaks its subscription. *)
Theorem C07_iterator_ignoring_stop_refuted : exists pg sched,
  unsubs (irun_gen Proofs.PubSubIter.ignore_stop_flags pg iinit sched) = 2.
Proof. exact Proofs.PubSubIter.iter_ignoring_stop_refuted. Qed.
Print Assumptions C07_iterator_ignoring_stop_refuted.

Theorem C07_iterator_without_afterfunc_refuted : exists pg sched,
  let s := irun_gen Proofs.PubSubIter.no_after_flags pg iinit sched in
  iterminalb_gen Proofs.PubSubIter.no_after_flags pg s = true /\ ctxd (ic s) = true /\ unsubs s = 0.
Proof. exact Proofs.PubSubIter.iter_without_afterfunc_refuted. Qed.
Print Assumptions C07_iterator_without_afterfunc_refuted.

(* ================================================================================================================
   sanityCheckSubscribersDelta AS WRITTEN IN THE CURRENT SOURCE is the model function [PubSubSanity.sanity_check] of
   C07_sanity_detects_wrap / C07_sanity_silent_under_contract above.  coq/Gen/ImplPureSanity.v is printed from chanpubsub.go
   by harness/cmd/gotr on every run; [GoFrag2.run2] is the interpreter of the fragment it is written in (Model/GoFrag2.v:
   int32/int conversions and int32 subtraction with EXPLICIT two's-complement wraps, && || comparisons, `x.markBroken()` as
   a logged effect, panic(msg) as an outcome).  [PureSpec.sanity_expected k]: k = 0 the function returns, nothing logged;
   k = 1, 2, 3: it panics with that check's message after exactly one x.markBroken().
   ================================================================================================================ *)
From BB.Model Require GoFrag GoFrag2 PureSpec.
From BB.Gen Require ImplPureSanity.
From BB.Proofs Require SanityGen.

(* For EVERY pair of arguments (any integers, in particular every pair of Go ints): the run of the translated source is
   what the model says - no panic exactly when sanity_check = 0, otherwise the panic of the check the model names, and the
   instance is marked broken exactly once before a panic and not at all without one. *)
Theorem C07_sanity_source_is_model : forall subscribers delta : Z,
  GoFrag2.run2 nil BB.Gen.ImplPureSanity.sanityCheckSubscribersDelta_def
    (cons (GoFrag.VInt subscribers) (cons (GoFrag.VInt delta) nil))
  = PureSpec.sanity_expected (PubSubSanity.sanity_check subscribers delta).
Proof. exact Proofs.SanityGen.sanity_src_eq_model. Qed.
Print Assumptions C07_sanity_source_is_model.

(* The same without regard to WHICH of the three checks reports (this statement survives a re-ordering of the checks in
   the source): the source panics, after marking the instance broken, iff the model's check fires. *)
Theorem C07_sanity_source_fires_iff : forall subscribers delta : Z,
  PureSpec.fires_of (GoFrag2.run2 nil BB.Gen.ImplPureSanity.sanityCheckSubscribersDelta_def
                       (cons (GoFrag.VInt subscribers) (cons (GoFrag.VInt delta) nil)))
  = Some (PubSubSanity.sanity_fires subscribers delta).
Proof. exact Proofs.SanityGen.sanity_src_fires_iff. Qed.
Print Assumptions C07_sanity_source_fires_iff.

(* Not vacuous: min_int32 - 1 wraps to max_int32 and is reported as overflow (so is max_int32 + 1); the two negative-value
   panics; two calls without a panic; a delta that does not fit an int32. *)
Theorem C07_sanity_source_examples :
  let run := fun s d => GoFrag2.run2 nil BB.Gen.ImplPureSanity.sanityCheckSubscribersDelta_def
                          (cons (GoFrag.VInt s) (cons (GoFrag.VInt d) nil)) in
  let broken := PureSpec.log_broken in
  run (-2147483648)%Z 1%Z = GoFrag2.Panicked PureSpec.msg_overflow broken /\
  run 2147483647%Z (-1)%Z = GoFrag2.Panicked PureSpec.msg_overflow broken /\
  run (-1)%Z 0%Z = GoFrag2.Panicked PureSpec.msg_negative broken /\
  run 0%Z 1%Z = GoFrag2.Panicked PureSpec.msg_negative_old broken /\
  run 5%Z 1%Z = GoFrag2.Done nil /\
  run 0%Z (-1)%Z = GoFrag2.Done nil /\
  run 7%Z 4294967296%Z = GoFrag2.Panicked PureSpec.msg_overflow broken.
Proof. exact Proofs.SanityGen.sanity_src_examples_run. Qed.
Print Assumptions C07_sanity_source_examples.
