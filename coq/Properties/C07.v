(* C07 — ChanPubSub: no deadlock and no false invariant panic under dynamic membership.

   Model: Model/PubSubAbs.v, the counter abstraction of chanpubsub.go + the embedded ChanCaster: the pc of the Send that
   holds sendMu, the shared words (sendingMu as writer/writer-pending/readers, the atomic subscriber count, the caster's
   count and armed bit, pongN) and THE NUMBER OF SUBSCRIBER GOROUTINES AT EACH PROGRAM POINT of Add(+1), the
   receive/Wait cycle and Add(-1) (TryRLock spin, both exits, the caster decrement, the absorbing receive).  Every
   theorem quantifies over any number of Send calls, any number of subscribers and EVERY schedule (list of picks; a
   disabled pick is a stutter).  `bad` is set by the model exactly where one of the code's state-invariant panics would
   fire (ping.Add(n) <> n, a counter decremented below zero).  Statements only.

   Not modelled here (see the harness scenarios C06K2/C06S for the tie to the code): the SubscribeContext iterator's
   AfterFunc/stop pairing (an iterator subscriber is, for the protocol, a subscriber that unsubscribes once — the pairing
   is what guarantees "once"; it is exercised on the real code by the harness styles iter_cancel / iter_break /
   iter_never_run / iter_cancel_then_run), checkBroken/markBroken and the `broken` channel (reachable only after a panic,
   and C07_no_false_panic shows there is none), Add(0), deltas with |delta| > 1 (a subscriber = one unit), closing the
   channel.  The int32 overflow detection of sanityCheckSubscribersDelta is proved separately over explicit 32-bit
   wrap-around (C07_sanity_detects_wrap). *)
From Coq Require Import List Arith ZArith Bool.
From BB.Model Require Import PubSubAbs.
From BB.Model Require PubSubSanity.
From BB.Proofs Require PubSubAbs PubSubC06 PubSubSanity.
Import ListNotations.

(* No reachable state takes a panic transition: ping.Add(subscribers) returns subscribers (the caster word was 0), the
   subscriber count and the caster count are never decremented below zero — including unsubscribes in the middle of a Send
   and before ever receiving. *)
Theorem C07_no_false_panic : forall senders subscribers sched,
  v (run (init senders subscribers) sched) bad = 0.
Proof. exact Proofs.PubSubC06.no_false_panic_run. Qed.
Print Assumptions C07_no_false_panic.

(* The invariant behind it (DESIGN.md A.5) holds in every reachable state. *)
Theorem C07_invariant : forall senders subscribers sched,
  Proofs.PubSubAbs.Inv (run (init senders subscribers) sched).
Proof. exact Proofs.PubSubAbs.Inv_run. Qed.
Print Assumptions C07_invariant.

(* Deadlock freedom: in every reachable state in which nothing is enabled except the voluntary unsubscribe of an idle
   subscriber, every call has returned: no Send is running or queued, nobody is inside Add(+1), Wait or Add(-1). *)
Theorem C07_deadlock_free : forall senders subscribers sched,
  let s := run (init senders subscribers) sched in
  quiescentb s = true -> Proofs.PubSubAbs.all_returned s.
Proof. exact Proofs.PubSubAbs.quiescent_all_returned_run. Qed.
Print Assumptions C07_deadlock_free.

Theorem C07_deadlock_free_terminal : forall s, Proofs.PubSubAbs.Inv s -> (forall p, step s p = None) ->
  sp s = SNone /\ v s nsend = 0 /\ v s sq = 0 /\
  v s u0 = 0 /\ v s u1 = 0 /\ v s u2 = 0 /\ v s b1 = 0 /\
  v s n1o = 0 /\ v s n1n = 0 /\ v s n2ko = 0 /\ v s n2kn = 0 /\ v s n3k = 0 /\
  v s n2fo = 0 /\ v s n2fn = 0 /\ v s n4o = 0 /\ v s n4n = 0 /\ v s n5 = 0 /\ v s b0o = 0.
Proof. exact Proofs.PubSubAbs.terminal_all_returned. Qed.
Print Assumptions C07_deadlock_free_terminal.

(* Termination: every enabled step decreases a natural-number measure, so every run reaches such a state; no schedule makes
   more than 11*senders + 8*subscribers + 2*senders*subscribers moves. *)
Theorem C07_measure_decreases : forall s p s',
  Proofs.PubSubAbs.Inv s -> step s p = Some s' -> Proofs.PubSubAbs.measure s' < Proofs.PubSubAbs.measure s.
Proof. exact Proofs.PubSubAbs.measure_decreases. Qed.
Print Assumptions C07_measure_decreases.

Theorem C07_every_run_finite : forall senders subscribers sched,
  Proofs.PubSubAbs.moves (init senders subscribers) sched <= 11 * senders + 8 * subscribers + 2 * (senders * subscribers).
Proof. exact Proofs.PubSubAbs.every_run_finite. Qed.
Print Assumptions C07_every_run_finite.

(* When all calls have returned the subscriber count equals the standing subscribers, which is subscriptions minus
   unsubscriptions (every subscriber goroutine is either standing or has returned from Add(-1)); the caster word is 0 and
   not armed, no pong is outstanding, sendingMu is free. *)
Theorem C07_final_count : forall senders subscribers sched,
  let s := run (init senders subscribers) sched in
  quiescentb s = true ->
  v s subs = v s b0n /\ v s cnt = 0 /\ v s armed = 0 /\ v s pongN = 0 /\ v s w = 0 /\ v s r = 0.
Proof. exact Proofs.PubSubAbs.final_count_quiescent. Qed.
Print Assumptions C07_final_count.

Theorem C07_final_count_is_subscriptions_minus_unsubscriptions : forall senders subscribers sched,
  let s := run (init senders subscribers) sched in
  quiescentb s = true -> v s subs + v s fin = subscribers.
Proof. exact Proofs.PubSubAbs.final_count_threads. Qed.
Print Assumptions C07_final_count_is_subscriptions_minus_unsubscriptions.

Theorem C07_final_count_terminal : forall senders subscribers sched,
  let s := run (init senders subscribers) sched in
  terminalb s = true ->
  v s subs = v s b0n /\ v s cnt = 0 /\ v s armed = 0 /\ v s pongN = 0 /\ v s w = 0 /\ v s r = 0.
Proof. exact Proofs.PubSubAbs.final_count. Qed.
Print Assumptions C07_final_count_terminal.

(* Mutation: if a negative Add that did not get the read lock does not absorb a copy of an armed caster, a Send hangs in
   delivery with nothing else enabled (same step function, flag fl_route = false). *)
Theorem C07_unsubscribe_not_routed_through_caster_refuted : exists sched,
  let s := run_gen Proofs.PubSubAbs.no_route_flags (init 1 1) sched in
  terminalb_gen Proofs.PubSubAbs.no_route_flags s = true /\ sp s <> SNone.
Proof. exact Proofs.PubSubAbs.no_route_refuted. Qed.
Print Assumptions C07_unsubscribe_not_routed_through_caster_refuted.

(* sanityCheckSubscribersDelta over explicit int32 two's-complement wrap-around: for every int32 value of the counter and
   every delta in [-MaxInt32, MaxInt32], after the atomic int32 addition a check fires IFF the true sum leaves the int32
   range or the old or new count is negative. *)
Theorem C07_sanity_detects_wrap : forall old delta : Z,
  (PubSubSanity.min_int32 <= old <= PubSubSanity.max_int32)%Z ->
  (- PubSubSanity.max_int32 <= delta <= PubSubSanity.max_int32)%Z ->
  (PubSubSanity.sanity_check (PubSubSanity.add_subscribers old delta) delta <> 0%Z <->
   (old + delta < PubSubSanity.min_int32 \/ PubSubSanity.max_int32 < old + delta \/ old < 0 \/ old + delta < 0)%Z).
Proof. exact Proofs.PubSubSanity.sanity_detects_wrap. Qed.
Print Assumptions C07_sanity_detects_wrap.

Theorem C07_sanity_silent_under_contract : forall old delta : Z,
  (0 <= old <= PubSubSanity.max_int32)%Z -> (0 <= old + delta <= PubSubSanity.max_int32)%Z ->
  (- PubSubSanity.max_int32 <= delta <= PubSubSanity.max_int32)%Z ->
  PubSubSanity.sanity_check (PubSubSanity.add_subscribers old delta) delta = 0%Z.
Proof. exact Proofs.PubSubSanity.sanity_silent_in_range. Qed.
Print Assumptions C07_sanity_silent_under_contract.
