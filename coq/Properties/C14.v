(* C14 — Workers: exactly-once execution, bounded concurrency, no starvation.
   Statements only; every proof is `exact` of a lemma of Proofs/Workers.v.
   Quantifier: every program (any number of caller threads, each with any script of Call k / Wait / Count, any count
   arguments) and every schedule (any interleaving of callers with workers being spawned, dequeuing, starting and
   finishing functions, exiting); a disabled pick is a stutter.  `Faithful` is the protocol as coded in workers.go. *)
From Coq Require Import List Arith Bool.
From BB.Model Require Import Workers.
From BB.Proofs Require Workers.
Import ListNotations.

(* Each call's function has started at most once; a reply exists / the Call has returned only after exactly one complete
   execution (cx = ce = 1) and carries the value produced by its own function (v = i); everything a caller has been
   handed by a Call satisfies that; a caller still inside Call i has not been marked returned. *)
Theorem C14_exactly_once : forall (progs : list (list cop)) (sched : list pick),
  let s := run Faithful (init progs) sched in
  (forall i c, nth_error (calls s) i = Some c -> Proofs.Workers.once_ok i c) /\
  (forall t c, nth_error (callers s) t = Some c -> Forall Proofs.Workers.out_ok (outs c)) /\
  (forall t c i, nth_error (callers s) t = Some c -> pc c = PBlocked i ->
     exists cl, nth_error (calls s) i = Some cl /\ forall v, cs cl <> SReturned v).
Proof. exact Proofs.Workers.exactly_once. Qed.
Print Assumptions C14_exactly_once.

(* #running functions <= count = #live workers <= largest count requested so far, in every reachable state *)
Theorem C14_bound : forall (progs : list (list cop)) (sched : list pick),
  let s := run Faithful (init progs) sched in
  countp running (ws s) <= count s /\ count s = countp live (ws s) /\ count s <= maxreq s.
Proof. exact Proofs.Workers.bound. Qed.
Print Assumptions C14_bound.

(* "never more than N when every caller passes (at most) N" *)
Theorem C14_bound_uniform : forall (N : nat) (progs : list (list cop)) (sched : list pick),
  Proofs.Workers.progs_le N progs ->
  let s := run Faithful (init progs) sched in countp running (ws s) <= N /\ count s <= N /\ maxreq s <= N.
Proof. exact Proofs.Workers.bound_uniform. Qed.
Print Assumptions C14_bound_uniform.

(* A non-empty queue always has a live worker (whatever counts were passed, also after target was lowered and workers
   left with the queue non-empty); and a state in which nothing can move has an empty queue, no worker, every caller at
   the end of its script and every Call returned. *)
Theorem C14_no_strand : forall (progs : list (list cop)) (sched : list pick),
  let s := run Faithful (init progs) sched in
  (queue s <> [] -> 1 <= count s /\ 1 <= countp live (ws s)) /\
  (Proofs.Workers.terminal Faithful s ->
     queue s = [] /\ count s = 0 /\
     (forall t c, nth_error (callers s) t = Some c -> Proofs.Workers.finished c) /\
     (forall i c, nth_error (calls s) i = Some c -> exists v, cs c = SReturned v)).
Proof. exact Proofs.Workers.no_strand. Qed.
Print Assumptions C14_no_strand.

(* Termination measure: every enabled step strictly decreases `measure`, so the number of steps any schedule takes is
   bounded by the measure of the program; every run extends to a terminal one.  With C14_no_strand: every maximal run
   ends with every queued function executed and every Call returned (no starvation, functions terminating). *)
Theorem C14_measure_decreases : forall (s : st) (x : pick) (s' : st),
  step Faithful s x = Some s' -> measure s' < measure s.
Proof. exact Proofs.Workers.measure_step. Qed.
Print Assumptions C14_measure_decreases.

Theorem C14_steps_bounded : forall (sched : list pick) (s : st),
  taken Faithful s sched + measure (run Faithful s sched) <= measure s.
Proof. exact Proofs.Workers.taken_bound. Qed.
Print Assumptions C14_steps_bounded.

Theorem C14_extends_to_terminal : forall (progs : list (list cop)) (sched : list pick),
  exists sched', Proofs.Workers.terminal Faithful (run Faithful (init progs) (sched ++ sched')).
Proof. exact Proofs.Workers.extends_to_terminal. Qed.
Print Assumptions C14_extends_to_terminal.

(* Wait returns only in a state with count = 0, where no worker is live or running ... *)
Theorem C14_wait_returns_at_zero : forall (progs : list (list cop)) (sched : list pick) (t : nat) (c : caller) (s' : st),
  let s := run Faithful (init progs) sched in
  nth_error (callers s) t = Some c -> pc c = PWaiting -> step Faithful s (PC t) = Some s' ->
  count s = 0 /\ countp live (ws s) = 0 /\ countp running (ws s) = 0 /\ count s' = 0 /\
  exists c', nth_error (callers s') t = Some c' /\ pc c' = PReady /\ outs c' = outs c ++ [RWait].
Proof. exact Proofs.Workers.wait_returns_at_zero. Qed.
Print Assumptions C14_wait_returns_at_zero.

(* ... after which, as long as no Call is invoked, count stays 0 under every schedule and a Count reports 0. *)
Theorem C14_count_zero_until_next_call : forall (progs : list (list cop)) (sched sched2 : list pick),
  let s := run Faithful (init progs) sched in
  count s = 0 -> nocall Faithful s sched2 = true ->
  let s2 := run Faithful s sched2 in
  count s2 = 0 /\
  forall t c rest, nth_error (callers s2) t = Some c -> pc c = PReady -> script c = CCount :: rest ->
    exists s3 c3, step Faithful s2 (PC t) = Some s3 /\ nth_error (callers s3) t = Some c3 /\
                  outs c3 = outs c ++ [RCount 0] /\ count s3 = 0.
Proof. exact Proofs.Workers.count_zero_stable. Qed.
Print Assumptions C14_count_zero_until_next_call.

(* The relation used in the proofs describes exactly the faithful step function. *)
Theorem C14_step_characterisation : forall (s : st) (x : pick) (s' : st),
  step Faithful s x = Some s' <-> Proofs.Workers.Step s x s'.
Proof. exact Proofs.Workers.step_iff. Qed.
Print Assumptions C14_step_characterisation.

(* ---- the theorems are sensitive to the code: four one-token mutations, refuted on the SAME step function ---- *)
(* exit test `count >= target`: a terminal state with a queued call, no worker, the caller blocked forever *)
Theorem C14_ge_exit_refuted : exists progs sched,
  let s := run GeExit (init progs) sched in
  Proofs.Workers.terminal GeExit s /\ queue s = [0] /\ count s = 0 /\ countp live (ws s) = 0 /\
  exists c, nth_error (callers s) 0 = Some c /\ pc c = PBlocked 0.
Proof. exact Proofs.Workers.ge_exit_strands. Qed.
Print Assumptions C14_ge_exit_refuted.

(* `count--` missing: Wait blocked forever with no worker alive, and the next Call is never served *)
Theorem C14_no_dec_refuted : exists progs sched,
  let s := run NoDec (init progs) sched in
  Proofs.Workers.terminal NoDec s /\ countp live (ws s) = 0 /\ count s = 1 /\ queue s = [1] /\
  (exists c, nth_error (callers s) 0 = Some c /\ pc c = PBlocked 1) /\
  (exists c, nth_error (callers s) 1 = Some c /\ pc c = PWaiting).
Proof. exact Proofs.Workers.no_dec_hangs. Qed.
Print Assumptions C14_no_dec_refuted.

(* top-up loop `count <= k`: more workers than anyone requested *)
Theorem C14_le_spawn_refuted : exists progs sched,
  let s := run LeSpawn (init progs) sched in maxreq s = 1 /\ count s = 2 /\ countp live (ws s) = 2.
Proof. exact Proofs.Workers.le_spawn_exceeds. Qed.
Print Assumptions C14_le_spawn_refuted.

(* queue not shortened by the dequeue: a function is executed twice *)
Theorem C14_no_pop_refuted : exists progs sched,
  let s := run NoPop (init progs) sched in
  exists c, nth_error (calls s) 0 = Some c /\ cx c = 2.
Proof. exact Proofs.Workers.no_pop_runs_twice. Qed.
Print Assumptions C14_no_pop_refuted.

(* ---- non-vacuity: the interesting cases occur (Proofs/Workers.v, section "examples") ---- *)
(* three functions running at count = maxreq = 3 while a Call(1) has lowered target to 1 with its item queued *)
Theorem C14_example_bound_tight :
  countp running (ws Proofs.Workers.ex_s1) = 3 /\ count Proofs.Workers.ex_s1 = 3 /\ maxreq Proofs.Workers.ex_s1 = 3 /\
  target Proofs.Workers.ex_s1 = 1 /\ queue Proofs.Workers.ex_s1 = [3].
Proof. exact Proofs.Workers.ex_three_running. Qed.
Print Assumptions C14_example_bound_tight.

(* a worker leaves (count 3 > target 1) while the queue is non-empty, and a live worker remains *)
Theorem C14_example_exit_with_nonempty_queue :
  let s := run Faithful Proofs.Workers.ex_s1 [PW 0; PW 0] in
  nth_error (ws s) 0 = Some WDead /\ queue s = [3] /\ count s = 2 /\ 1 <= countp live (ws s).
Proof. exact Proofs.Workers.ex_exit_with_nonempty_queue. Qed.
Print Assumptions C14_example_exit_with_nonempty_queue.

(* ... and the run ends with everything served exactly once, own results, Wait returned, Count 0 *)
Theorem C14_example_all_served :
  Proofs.Workers.terminal Faithful Proofs.Workers.ex_final /\ queue Proofs.Workers.ex_final = [] /\
  count Proofs.Workers.ex_final = 0 /\
  map (fun c => (cs c, cx c, ce c)) (calls Proofs.Workers.ex_final) =
    [(SReturned 0, 1, 1); (SReturned 1, 1, 1); (SReturned 2, 1, 1); (SReturned 3, 1, 1)] /\
  map outs (callers Proofs.Workers.ex_final) =
    [[RCall 0 0]; [RCall 1 1]; [RCall 2 2]; [RCall 3 3; RCount 1]; [RWait; RCount 0]].
Proof. exact Proofs.Workers.ex_all_served. Qed.
Print Assumptions C14_example_all_served.

(* a Wait is blocked while workers live and returns in a reachable state with count = 0 *)
Theorem C14_example_wait :
  step Faithful Proofs.Workers.ex_s1 (PC 4) = None /\
  exists sched s', let s := run Faithful (init Proofs.Workers.ex_progs) sched in
    (exists c, nth_error (callers s) 4 = Some c /\ pc c = PWaiting) /\ step Faithful s (PC 4) = Some s' /\ count s = 0.
Proof. exact Proofs.Workers.ex_wait_blocked_then_returns. Qed.
Print Assumptions C14_example_wait.
