(* C14 — Workers: exactly-once execution, bounded concurrency, no starvation.
   Statements only; every proof is `exact` of a lemma of Proofs/Workers.v, Proofs/WorkersMore.v (delivery to the right
   caller, maxreq, FIFO, enabled worker, idle at Wait) or Proofs/WorkersNested.v (work functions that call back).
   Quantifier: every program (any number of caller threads, each with any script of Call k / Wait / Count, any count
   arguments) and every schedule (any interleaving of callers with workers being spawned, dequeuing, starting and
   finishing functions, exiting); a disabled pick is a stutter.  `Faithful` is the protocol as coded in workers.go.

   ASSUMPTION ON THE WORK FUNCTIONS (the "programs" the property quantifies over).  In Model/Workers.v the function
   handed to Call is opaque to the pool: it is the two worker steps "start" and "end", i.e.
     (A1) it TERMINATES (the end step is always enabled): the liveness theorems (measure, terminal states, no starvation)
          are conditional on this; a function that never returns occupies its worker for ever, by design;
     (A2) it does NOT call w.Call / w.Wait on the SAME Workers from inside the function.
   (A2) is a real restriction, not a modelling convenience: C14_nested_call_deadlocks_refuted below shows, on the same
   protocol extended with functions that call back (Model/WorkersNested.v), that `w.Call(1, f)` with f calling
   `w.Call(1, g)` deadlocks under EVERY schedule -- the only worker is the one executing f, the nested Call finds
   count = 1 and spawns nobody, g stays queued for ever, the outer Call never returns (confirmed on the implementation:
   a go test with a 3 s timeout, count=1 target=1 len(queue)=1).  In the deadlocked state one function is executing =
   count = the largest count requested, so executing g would violate the concurrency bound: for re-entrant functions the
   bound clause and the no-starvation clause of C14 cannot both hold, for ANY implementation.  The documentation of
   Workers ("up to x number of operations happening at any given point in time", Call: "will call value synchronously,
   with up to count concurrency (with other concurrent calls)") neither allows nor forbids re-entrant use; the
   no-starvation clause of C14 is therefore stated and proved for programs satisfying (A1) and (A2) only.
   (Likewise a function calling w.Wait() on its own pool waits for itself: count >= 1 while it runs.) *)
From Coq Require Import List Arith Bool.
From BB.Model Require Import Workers.
From BB.Model Require WorkersNested.
From BB.Proofs Require Workers WorkersMore WorkersNested.
Import ListNotations.

(* Each call's function has started at most once; a reply exists / the Call has returned only after exactly one complete
   execution (cx = ce = 1) and carries the value produced by its own function (v = i); everything a caller has been
   handed by a Call satisfies that; a caller still inside Call i has not been marked returned. *)
Theorem C14_exactly_once : forall (progs : list (list cop)) (sched : list pick),
  let s := run Faithful (init progs) sched in
  (forall i c, nth_error (calls s) i = Some c -> Proofs.Workers.once_ok i c) /\
  (forall t c, nth_error (callers s) t = Some c -> Forall Proofs.Workers.out_ok (outs c)) /\
  (forall t c i, nth_error (callers s) t = Some c -> pc c = PBlocked i ->
     exists cl, nth_error (calls s) i = Some cl /\ forall v, cs cl <> SReturned v).
Proof. exact Proofs.Workers.exactly_once. Qed.
Print Assumptions C14_exactly_once.

(* #running functions <= count = #live workers <= largest count requested so far, in every reachable state *)
Theorem C14_bound : forall (progs : list (list cop)) (sched : list pick),
  let s := run Faithful (init progs) sched in
  countp running (ws s) <= count s /\ count s = countp live (ws s) /\ count s <= maxreq s.
Proof. exact Proofs.Workers.bound. Qed.
Print Assumptions C14_bound.

(* "never more than N when every caller passes (at most) N" *)
Theorem C14_bound_uniform : forall (N : nat) (progs : list (list cop)) (sched : list pick),
  Proofs.Workers.progs_le N progs ->
  let s := run Faithful (init progs) sched in countp running (ws s) <= N /\ count s <= N /\ maxreq s <= N.
Proof. exact Proofs.Workers.bound_uniform. Qed.
Print Assumptions C14_bound_uniform.

(* A non-empty queue always has a live worker (whatever counts were passed, also after target was lowered and workers
   left with the queue non-empty); and a state in which nothing can move has an empty queue, no worker, every caller at
   the end of its script and every Call returned. *)
Theorem C14_no_strand : forall (progs : list (list cop)) (sched : list pick),
  let s := run Faithful (init progs) sched in
  (queue s <> [] -> 1 <= count s /\ 1 <= countp live (ws s)) /\
  (Proofs.Workers.terminal Faithful s ->
     queue s = [] /\ count s = 0 /\
     (forall t c, nth_error (callers s) t = Some c -> Proofs.Workers.finished c) /\
     (forall i c, nth_error (calls s) i = Some c -> exists v, cs c = SReturned v)).
Proof. exact Proofs.Workers.no_strand. Qed.
Print Assumptions C14_no_strand.

(* Termination measure: every enabled step strictly decreases `measure`, so the number of steps any schedule takes is
   bounded by the measure of the program; every run extends to a terminal one.  With C14_no_strand: every maximal run
   ends with every queued function executed and every Call returned (no starvation, functions terminating). *)
Theorem C14_measure_decreases : forall (s : st) (x : pick) (s' : st),
  step Faithful s x = Some s' -> measure s' < measure s.
Proof. exact Proofs.Workers.measure_step. Qed.
Print Assumptions C14_measure_decreases.

Theorem C14_steps_bounded : forall (sched : list pick) (s : st),
  taken Faithful s sched + measure (run Faithful s sched) <= measure s.
Proof. exact Proofs.Workers.taken_bound. Qed.
Print Assumptions C14_steps_bounded.

Theorem C14_extends_to_terminal : forall (progs : list (list cop)) (sched : list pick),
  exists sched', Proofs.Workers.terminal Faithful (run Faithful (init progs) (sched ++ sched')).
Proof. exact Proofs.Workers.extends_to_terminal. Qed.
Print Assumptions C14_extends_to_terminal.

(* Wait returns only in a state with count = 0, where no worker is live or running ... *)
Theorem C14_wait_returns_at_zero : forall (progs : list (list cop)) (sched : list pick) (t : nat) (c : caller) (s' : st),
  let s := run Faithful (init progs) sched in
  nth_error (callers s) t = Some c -> pc c = PWaiting -> step Faithful s (PC t) = Some s' ->
  count s = 0 /\ countp live (ws s) = 0 /\ countp running (ws s) = 0 /\ count s' = 0 /\
  exists c', nth_error (callers s') t = Some c' /\ pc c' = PReady /\ outs c' = outs c ++ [RWait].
Proof. exact Proofs.Workers.wait_returns_at_zero. Qed.
Print Assumptions C14_wait_returns_at_zero.

(* ... after which, as long as no Call is invoked, count stays 0 under every schedule and a Count reports 0. *)
Theorem C14_count_zero_until_next_call : forall (progs : list (list cop)) (sched sched2 : list pick),
  let s := run Faithful (init progs) sched in
  count s = 0 -> nocall Faithful s sched2 = true ->
  let s2 := run Faithful s sched2 in
  count s2 = 0 /\
  forall t c rest, nth_error (callers s2) t = Some c -> pc c = PReady -> script c = CCount :: rest ->
    exists s3 c3, step Faithful s2 (PC t) = Some s3 /\ nth_error (callers s3) t = Some c3 /\
                  outs c3 = outs c ++ [RCount 0] /\ count s3 = 0.
Proof. exact Proofs.Workers.count_zero_stable. Qed.
Print Assumptions C14_count_zero_until_next_call.

(* The relation used in the proofs describes exactly the faithful step function. *)
Theorem C14_step_characterisation : forall (s : st) (x : pick) (s' : st),
  step Faithful s x = Some s' <-> Proofs.Workers.Step s x s'.
Proof. exact Proofs.Workers.step_iff. Qed.
Print Assumptions C14_step_characterisation.

(* ---- the statement of C14 re-read clause by clause: the parts not covered above (Proofs/WorkersMore.v) ---- *)

(* "Each Workers.Call runs its function exactly once and returns exactly that function's result" -- to ITS caller:
   (a) what a caller finds at position p of its output as the result of a Call is the value produced by the function of
       the call that this caller made as its p-th operation (v = i, cown = t, cidx = p), which ran exactly once;
   (b) every call that has returned is in its owner's output at the position of that Call, with its own value;
   (c) no call is delivered twice or to two callers.
   For every number of concurrent Calls, every count arguments, every schedule. *)
Theorem C14_delivered_to_own_caller : forall (progs : list (list cop)) (sched : list pick),
  let s := run Faithful (init progs) sched in
  (forall t c p i v, nth_error (callers s) t = Some c -> nth_error (outs c) p = Some (RCall i v) ->
     v = i /\ exists cl, nth_error (calls s) i = Some cl /\ cown cl = t /\ cidx cl = p /\ cs cl = SReturned i /\
                         cx cl = 1 /\ ce cl = 1) /\
  (forall i cl v, nth_error (calls s) i = Some cl -> cs cl = SReturned v ->
     v = i /\ exists c, nth_error (callers s) (cown cl) = Some c /\ nth_error (outs c) (cidx cl) = Some (RCall i i)) /\
  (forall t c p t' c' p' i v v', nth_error (callers s) t = Some c -> nth_error (outs c) p = Some (RCall i v) ->
     nth_error (callers s) t' = Some c' -> nth_error (outs c') p' = Some (RCall i v') -> t = t' /\ p = p').
Proof. exact Proofs.WorkersMore.delivered. Qed.
Print Assumptions C14_delivered_to_own_caller.

(* ... and when nothing can move any more, EVERY call ever made has run its function exactly once and its own result is
   in its owner's output at the position of that Call operation (with C14_extends_to_terminal / C14_steps_bounded: every
   maximal run ends so). *)
Theorem C14_terminal_all_delivered : forall (progs : list (list cop)) (sched : list pick),
  let s := run Faithful (init progs) sched in
  Proofs.Workers.terminal Faithful s ->
  forall i cl, nth_error (calls s) i = Some cl ->
    cs cl = SReturned i /\ cx cl = 1 /\ ce cl = 1 /\
    exists c, nth_error (callers s) (cown cl) = Some c /\ nth_error (outs c) (cidx cl) = Some (RCall i i) /\
              script c = [] /\ pc c = PReady.
Proof. exact Proofs.WorkersMore.terminal_all_delivered. Qed.
Print Assumptions C14_terminal_all_delivered.

(* "the largest count any caller has requested so far": the ghost `maxreq` of C14_bound is 0 initially and changes only
   when a caller invokes Call with a positive count k, to max(maxreq, k). *)
Theorem C14_maxreq_is_largest_request :
  (forall progs, maxreq (init progs) = 0) /\
  (forall s x s', step Faithful s x = Some s' ->
     (maxreq s' = maxreq s /\ is_call s x = false) \/
     (exists t c k rest, x = PC t /\ nth_error (callers s) t = Some c /\ pc c = PReady /\ script c = CCall k :: rest /\
        ((k = 0 /\ maxreq s' = maxreq s) \/ (0 < k /\ maxreq s' = Nat.max (maxreq s) k /\ target s' = k)))).
Proof. exact Proofs.WorkersMore.maxreq_characterisation. Qed.
Print Assumptions C14_maxreq_is_largest_request.

(* "No call is starved": (a) a live worker is never blocked (from ANY state); (b) hence in every reachable state with a
   queued function some worker step is enabled; (c) the queue is FIFO in the order the Calls were made -- a worker
   always takes the OLDEST queued call, no queued call is overtaken. *)
Theorem C14_worker_never_blocked : forall (s : st) (w : nat) (x : wk),
  nth_error (ws s) w = Some x -> live x = true -> step Faithful s (PW w) <> None.
Proof. exact Proofs.WorkersMore.worker_never_blocked. Qed.
Print Assumptions C14_worker_never_blocked.

Theorem C14_queue_has_enabled_worker : forall (progs : list (list cop)) (sched : list pick),
  let s := run Faithful (init progs) sched in
  queue s <> [] -> exists w, step Faithful s (PW w) <> None.
Proof. exact Proofs.WorkersMore.queue_has_enabled_worker. Qed.
Print Assumptions C14_queue_has_enabled_worker.

Theorem C14_fifo : forall (progs : list (list cop)) (sched : list pick),
  let s := run Faithful (init progs) sched in
  forall i rest, queue s = i :: rest -> Forall (fun j => i < j) rest /\ i < length (calls s).
Proof. exact Proofs.WorkersMore.fifo. Qed.
Print Assumptions C14_fifo.

(* "Wait returns only when no worker is running": a pending Wait is blocked exactly while count <> 0, and at the moment it
   returns count = 0, NO work is queued, no worker is live, and every call made so far has run exactly once with its reply
   in its channel or already returned. *)
Theorem C14_wait_blocked_iff : forall (s : st) (t : nat) (c : caller),
  nth_error (callers s) t = Some c -> pc c = PWaiting -> (step Faithful s (PC t) = None <-> count s <> 0).
Proof. exact Proofs.WorkersMore.wait_blocked_iff. Qed.
Print Assumptions C14_wait_blocked_iff.

Theorem C14_wait_returns_idle : forall (progs : list (list cop)) (sched : list pick) (t : nat) (c : caller) (s' : st),
  let s := run Faithful (init progs) sched in
  nth_error (callers s) t = Some c -> pc c = PWaiting -> step Faithful s (PC t) = Some s' ->
  count s = 0 /\ queue s = [] /\ countp live (ws s) = 0 /\ countp running (ws s) = 0 /\
  (forall i cl, nth_error (calls s) i = Some cl ->
     (exists v, cs cl = SReplied v \/ cs cl = SReturned v) /\ cx cl = 1 /\ ce cl = 1) /\
  count s' = 0 /\ queue s' = [].
Proof. exact Proofs.WorkersMore.wait_returns_idle. Qed.
Print Assumptions C14_wait_returns_idle.

(* ---- outside assumption (A2): a work function that calls back into its own pool (Model/WorkersNested.v) ---- *)
(* w.Call(1, f), f calling w.Call(1, g): a reachable state in which NOTHING can move (nstep s x = None for every x), the
   outer caller is blocked inside Call, g is queued and has never been started, count = target = maxreq = 1 and the one
   worker is inside f's nested Call; exactly one function is executing (= the bound). *)
Theorem C14_nested_call_deadlocks_refuted :
  exists sched, let s := WorkersNested.nrun (WorkersNested.ninit Proofs.WorkersNested.nest1_progs) sched in
    Proofs.WorkersNested.deadlocked s /\
    WorkersNested.nqueue s = [1] /\ WorkersNested.ncount s = 1 /\ WorkersNested.ntarget s = 1 /\
    WorkersNested.nmaxreq s = 1 /\ WorkersNested.nws s = [WorkersNested.NNest 0 1] /\
    WorkersNested.ncallers s = [WorkersNested.NBlocked 0] /\
    map WorkersNested.nstat (WorkersNested.ncalls s) = [WorkersNested.NRunning; WorkersNested.NQueued] /\
    map WorkersNested.nstarts (WorkersNested.ncalls s) = [1; 0] /\
    WorkersNested.ncountp WorkersNested.nexecuting (WorkersNested.nws s) = 1.
Proof. exact Proofs.WorkersNested.nested_call_deadlocks. Qed.
Print Assumptions C14_nested_call_deadlocks_refuted.

(* ... and not only on that schedule: under EVERY schedule of that program the outer Call never returns and g is never
   started. *)
Theorem C14_nested_call_never_returns_refuted : forall sched,
  let s := WorkersNested.nrun (WorkersNested.ninit Proofs.WorkersNested.nest1_progs) sched in
  (forall c, In c (WorkersNested.ncallers s) -> c <> WorkersNested.NDone) /\
  (forall c, nth_error (WorkersNested.ncalls s) 1 = Some c ->
     WorkersNested.nstarts c = 0 /\ WorkersNested.nstat c = WorkersNested.NQueued) /\
  WorkersNested.ncountp WorkersNested.nexecuting (WorkersNested.nws s) <= 1.
Proof. exact Proofs.WorkersNested.nested_call_never_returns. Qed.
Print Assumptions C14_nested_call_never_returns_refuted.

(* k = 2: two callers Call(2, f), each f nesting Call(2, g): both workers blocked in the nested Call, two functions queued *)
Theorem C14_nested_call_deadlocks_2_refuted :
  exists sched, let s := WorkersNested.nrun (WorkersNested.ninit Proofs.WorkersNested.nest2_progs) sched in
    Proofs.WorkersNested.deadlocked s /\ WorkersNested.nqueue s = [2; 3] /\ WorkersNested.ncount s = 2 /\
    WorkersNested.nmaxreq s = 2 /\ WorkersNested.nws s = [WorkersNested.NNest 0 2; WorkersNested.NNest 1 3] /\
    WorkersNested.ncountp WorkersNested.nexecuting (WorkersNested.nws s) = 2.
Proof. exact Proofs.WorkersNested.nested_call_deadlocks_2. Qed.
Print Assumptions C14_nested_call_deadlocks_2_refuted.

(* contrast: a nested Call that asks for MORE workers than are busy (Call(2) inside Call(1)) completes and the pool drains;
   so does the same program without nesting: the nested model agrees with Model/Workers.v where (A2) holds. *)
Theorem C14_nested_larger_count_completes :
  let s := WorkersNested.nrun_fuel 40 (WorkersNested.ninit [(1, WorkersNested.Nest 2 WorkersNested.Leaf)]) in
  Proofs.WorkersNested.nterminal s /\ WorkersNested.ncallers s = [WorkersNested.NDone] /\ WorkersNested.nqueue s = [] /\
  WorkersNested.ncount s = 0 /\
  map WorkersNested.nstat (WorkersNested.ncalls s) = [WorkersNested.NReturned; WorkersNested.NReturned] /\
  map WorkersNested.nstarts (WorkersNested.ncalls s) = [1; 1].
Proof. exact Proofs.WorkersNested.nested_larger_count_completes. Qed.
Print Assumptions C14_nested_larger_count_completes.

(* ---- the theorems are sensitive to the code: four one-token mutations, refuted on the SAME step function ---- *)
(* exit test `count >= target`: a terminal state with a queued call, no worker, the caller blocked forever *)
Theorem C14_ge_exit_refuted : exists progs sched,
  let s := run GeExit (init progs) sched in
  Proofs.Workers.terminal GeExit s /\ queue s = [0] /\ count s = 0 /\ countp live (ws s) = 0 /\
  exists c, nth_error (callers s) 0 = Some c /\ pc c = PBlocked 0.
Proof. exact Proofs.Workers.ge_exit_strands. Qed.
Print Assumptions C14_ge_exit_refuted.

(* `count--` missing: Wait blocked forever with no worker alive, and the next Call is never served *)
Theorem C14_no_dec_refuted : exists progs sched,
  let s := run NoDec (init progs) sched in
  Proofs.Workers.terminal NoDec s /\ countp live (ws s) = 0 /\ count s = 1 /\ queue s = [1] /\
  (exists c, nth_error (callers s) 0 = Some c /\ pc c = PBlocked 1) /\
  (exists c, nth_error (callers s) 1 = Some c /\ pc c = PWaiting).
Proof. exact Proofs.Workers.no_dec_hangs. Qed.
Print Assumptions C14_no_dec_refuted.

(* top-up loop `count <= k`: more workers than anyone requested *)
Theorem C14_le_spawn_refuted : exists progs sched,
  let s := run LeSpawn (init progs) sched in maxreq s = 1 /\ count s = 2 /\ countp live (ws s) = 2.
Proof. exact Proofs.Workers.le_spawn_exceeds. Qed.
Print Assumptions C14_le_spawn_refuted.

(* queue not shortened by the dequeue: a function is executed twice *)
Theorem C14_no_pop_refuted : exists progs sched,
  let s := run NoPop (init progs) sched in
  exists c, nth_error (calls s) 0 = Some c /\ cx c = 2.
Proof. exact Proofs.Workers.no_pop_runs_twice. Qed.
Print Assumptions C14_no_pop_refuted.

(* ---- non-vacuity: the interesting cases occur (Proofs/Workers.v, section "examples") ---- *)
(* three functions running at count = maxreq = 3 while a Call(1) has lowered target to 1 with its item queued *)
Theorem C14_example_bound_tight :
  countp running (ws Proofs.Workers.ex_s1) = 3 /\ count Proofs.Workers.ex_s1 = 3 /\ maxreq Proofs.Workers.ex_s1 = 3 /\
  target Proofs.Workers.ex_s1 = 1 /\ queue Proofs.Workers.ex_s1 = [3].
Proof. exact Proofs.Workers.ex_three_running. Qed.
Print Assumptions C14_example_bound_tight.

(* a worker leaves (count 3 > target 1) while the queue is non-empty, and a live worker remains *)
Theorem C14_example_exit_with_nonempty_queue :
  let s := run Faithful Proofs.Workers.ex_s1 [PW 0; PW 0] in
  nth_error (ws s) 0 = Some WDead /\ queue s = [3] /\ count s = 2 /\ 1 <= countp live (ws s).
Proof. exact Proofs.Workers.ex_exit_with_nonempty_queue. Qed.
Print Assumptions C14_example_exit_with_nonempty_queue.

(* ... and the run ends with everything served exactly once, own results, Wait returned, Count 0 *)
Theorem C14_example_all_served :
  Proofs.Workers.terminal Faithful Proofs.Workers.ex_final /\ queue Proofs.Workers.ex_final = [] /\
  count Proofs.Workers.ex_final = 0 /\
  map (fun c => (cs c, cx c, ce c)) (calls Proofs.Workers.ex_final) =
    [(SReturned 0, 1, 1); (SReturned 1, 1, 1); (SReturned 2, 1, 1); (SReturned 3, 1, 1)] /\
  map outs (callers Proofs.Workers.ex_final) =
    [[RCall 0 0]; [RCall 1 1]; [RCall 2 2]; [RCall 3 3; RCount 1]; [RWait; RCount 0]].
Proof. exact Proofs.Workers.ex_all_served. Qed.
Print Assumptions C14_example_all_served.

(* a Wait is blocked while workers live and returns in a reachable state with count = 0 *)
Theorem C14_example_wait :
  step Faithful Proofs.Workers.ex_s1 (PC 4) = None /\
  exists sched s', let s := run Faithful (init Proofs.Workers.ex_progs) sched in
    (exists c, nth_error (callers s) 4 = Some c /\ pc c = PWaiting) /\ step Faithful s (PC 4) = Some s' /\ count s = 0.
Proof. exact Proofs.Workers.ex_wait_blocked_then_returns. Qed.
Print Assumptions C14_example_wait.
