(* C02 — Buffer consumer: Commit/Rollback give transactional at-least-once consumption. Statements only. *)
From Coq Require Import List ZArith Bool Arith.
From BB.Model Require Import Buffer.
From BB.Proofs Require Buffer BufferRange BufferRangeEnv.
Import ListNotations.

(* Rollback zeroes the read count and nothing else: the following Gets therefore return positions commit, commit+1, …
   (C01_get_returns_log_at_cursor), i.e. exactly the values read since the last Commit, in order, before any newer one.
   With nothing pending it is an error that changes nothing. *)
Theorem C02_rollback_spec : forall s c s' r,
  step s (ORollback c) = (s', r) ->
  (r = RErr /\ s' = s) \/
  (r = ROk /\ exists k, getc s c = Some k /\ cdelta k <> 0 /\
     getc s' c = Some (c_rollback k) /\ log s' = log s /\ base s' = base s /\ (forall c', c' <> c -> getc s' c' = getc s c')).
Proof. exact Proofs.Buffer.rollback_spec. Qed.
Print Assumptions C02_rollback_spec.

Theorem C02_commit_spec : forall s c s' r,
  step s (OCommit c) = (s', r) ->
  (r = RErr /\ s' = s) \/
  (r = ROk /\ exists k, getc s c = Some k /\ cdelta k <> 0 /\ creg k = true /\
     getc s' c = Some (c_commit k) /\ log s' = log s /\ base s' = base s /\ (forall c', c' <> c -> getc s' c' = getc s c')).
Proof. exact Proofs.Buffer.commit_spec. Qed.
Print Assumptions C02_commit_spec.

Theorem C02_empty_is_error_noop : forall s c k,
  getc s c = Some k -> cdelta k = 0 ->
  step s (OCommit c) = (s, RErr) /\ step s (ORollback c) = (s, RErr).
Proof. exact Proofs.Buffer.commit_rollback_empty_noop. Qed.
Print Assumptions C02_empty_is_error_noop.

(* The reads since the last successful Commit are exactly positions commit .. commit+delta-1, newest first in the ghost
   history: this is what a Rollback replays (part of the invariant of C01, restated for the pending window). *)
Theorem C02_pending_window : forall evs k0 c k,
  let s := fst (erun (init k0) evs) in
  getc s c = Some k -> firstn (cdelta k) (chist k) = rev (seq (ccommit k) (cdelta k)).
Proof.
  intros evs k0 c k s Hk.
  pose proof (Proofs.Buffer.Inv_erun evs (init k0) (Proofs.Buffer.Inv_init k0)) as [_ HF].
  exact (proj1 (proj2 (proj2 (proj2 (proj2 (Proofs.Buffer.Forall_nth_error _ _ _ _ HF Hk)))))).
Qed.
Print Assumptions C02_pending_window.

(* Commit is permanent: whatever happens afterwards (any schedule), every value this consumer is ever given again lies at
   or beyond the committed offset — committed reads are never returned to it again. *)
Theorem C02_commit_permanent : forall evs s c k s1 s2 v,
  Proofs.Buffer.Inv s -> getc s c = Some k ->
  s1 = fst (erun s evs) -> step s1 (OGet c) = (s2, RVal v) ->
  exists k1, getc s1 c = Some k1 /\ ccommit k <= ccommit k1 /\
             nth_error (log s1) (ccommit k1 + cdelta k1) = Some v /\ cstart k <= ccommit k1 + cdelta k1.
Proof. exact Proofs.Buffer.committed_never_returned_again. Qed.
Print Assumptions C02_commit_permanent.

(* ===================== Range (package Range and Buffer.Range) ===================== *)
(* C02 — Range (package bigbuff.Range and method Buffer.Range): commit after the callback, rollback and re-delivery of the
   in-flight value on panic / failure, Buffer.Range stops at the end of the buffer instead of blocking.  Statements only.

   [range_loop fuel bounded s c script visited0] is one Range call of consumer c from state s, run without interleaving:
   per iteration  Get -> callback (script entry: continue / stop / panic / put a value and continue) -> Diff (Buffer.Range
   only) -> Commit, with Rollback on panic or failure.  That order is the DEFINITION of range_loop (Model/Buffer.v), tied
   to bigbuff.go func Range / buffer.go func (b *Buffer) Range by the correspondence check; the theorems below state what
   follows from it.  The result is (final state, values passed to the callback, how the call ended). *)


(* the two entry points are range_loop with enough fuel; Buffer.Range first tests Diff and may return at once *)
Theorem C02_range_pkg_is_loop : forall s c script,
  pkg_range s c script = range_loop (S (S (length (log s) + length script))) false s c script [].
Proof. exact Proofs.BufferRange.pkg_range_is_loop. Qed.
Print Assumptions C02_range_pkg_is_loop.

Theorem C02_range_buffer_is_loop : forall s c k script,
  getc s c = Some k ->
  buffer_range s c script = (s, [], ReNil) \/
  buffer_range s c script = range_loop (S (length (log s) + length script)) true s c script [].
Proof. exact Proofs.BufferRange.buffer_range_is_loop. Qed.
Print Assumptions C02_range_buffer_is_loop.

(* fuel is never the reason a run ends *)
Theorem C02_range_fuel_enough : forall fuel b s c script visited0 s' visited e,
  length script < fuel -> range_loop fuel b s c script visited0 = (s', visited, e) -> e <> ReFuel.
Proof. exact Proofs.BufferRange.range_loop_fuel_enough. Qed.
Print Assumptions C02_range_fuel_enough.

(* Main specification.  For a consumer with nothing pending at entry and every way the call can end (stop, script
   exhausted, panic, Get error or would-park, fuel):
   nothing is left uncommitted; the n values visited are exactly the consecutive log entries from the entry commit point
   (source order, no gap, no duplicate); all of them are committed, except the in-flight value of a panicking callback;
   the base is unchanged; the log grew by exactly the values put by the callbacks that ran, in order; no other consumer is
   touched; the consumer's registration / cancellation and the buffer's closed flag are unchanged; the invariant holds. *)
Theorem C02_range_loop_spec : forall fuel bounded s c k script visited0 s' visited e,
  Proofs.Buffer.Inv s -> getc s c = Some k -> cdelta k = 0 ->
  range_loop fuel bounded s c script visited0 = (s', visited, e) ->
  exists k' n vs,
    getc s' c = Some k' /\ cdelta k' = 0 /\
    visited = visited0 ++ vs /\ length vs = n /\
    (forall i, i < n -> nth_error vs i = nth_error (log s') (ccommit k + i)) /\
    ccommit k' = ccommit k + (match e with RePanic => n - 1 | _ => n end) /\
    (e = RePanic -> 1 <= n) /\
    base s' = base s /\
    log s' = log s ++ flat_map (fun x => match x with CbPutTrue v => [v] | _ => [] end) (firstn n script) /\
    (forall c', c' <> c -> getc s' c' = getc s c') /\
    Proofs.Buffer.Inv s' /\
    creg k' = creg k /\ ccancel k' = ccancel k /\ bclosed s' = bclosed s.
Proof. exact Proofs.BufferRange.range_loop_spec. Qed.
Print Assumptions C02_range_loop_spec.

(* Panic: the in-flight value was rolled back, it sits at the consumer's cursor, and the very next Get of that consumer
   returns exactly it (no side condition: Range changes none of the flags Get checks). *)
Theorem C02_range_panic_redelivers : forall fuel bounded s c k script visited0 s' visited d,
  Proofs.Buffer.Inv s -> getc s c = Some k -> cdelta k = 0 ->
  range_loop fuel bounded s c script visited0 = (s', visited, RePanic) ->
  visited <> [] /\
  exists k' s'', getc s' c = Some k' /\ cdelta k' = 0 /\
    nth_error (log s') (ccommit k') = Some (last visited d) /\
    step s' (OGet c) = (s'', RVal (last visited d)).
Proof. exact Proofs.BufferRange.range_panic_redelivers. Qed.
Print Assumptions C02_range_panic_redelivers.

(* Get failure: everything visited is committed, nothing pending, the cursor is entry commit + number visited; the next
   successful read of this consumer (in any later state where its record is unchanged) returns the first value not
   visited. *)
Theorem C02_range_get_failure_keeps_cursor : forall fuel bounded s c k script visited0 s' visited,
  Proofs.Buffer.Inv s -> getc s c = Some k -> cdelta k = 0 ->
  range_loop fuel bounded s c script visited0 = (s', visited, ReErr) ->
  exists k' vs,
    visited = visited0 ++ vs /\
    getc s' c = Some k' /\ cdelta k' = 0 /\ ccommit k' = ccommit k + length vs /\
    (forall i, i < length vs -> nth_error vs i = nth_error (log s') (ccommit k + i)) /\
    (forall s2 s3 v, getc s2 c = Some k' -> step s2 (OGet c) = (s3, RVal v) ->
                     nth_error (log s2) (ccommit k + length vs) = Some v).
Proof. exact Proofs.BufferRange.range_get_failure_keeps_cursor. Qed.
Print Assumptions C02_range_get_failure_keeps_cursor.

(* Commit only after the callback returned.  The callback's only effect in the model is CbPutTrue's Put: in the iteration
   for such an entry the Commit is taken in the state sp that already contains the put value, and in sp the visited value
   x is still uncommitted (cursor at the entry commit point, one read pending); only the Commit moves the cursor past x. *)
Theorem C02_range_commit_after_callback : forall f bounded s c k pv rest visited0 s1 x,
  Proofs.Buffer.Inv s -> getc s c = Some k -> cdelta k = 0 -> step s (OGet c) = (s1, RVal x) ->
  let sp := fst (step s1 (OPut [pv])) in
  exists s2 k2,
    log sp = log s ++ [pv] /\
    getc sp c = Some (c_get k (ccommit k)) /\
    step sp (OCommit c) = (s2, ROk) /\
    getc s2 c = Some k2 /\ ccommit k2 = S (ccommit k) /\ cdelta k2 = 0 /\ log s2 = log s ++ [pv] /\
    range_loop (S f) bounded s c (CbPutTrue pv :: rest) visited0 =
      if (if bounded then match snd (step sp (ODiff c)) with RDiff n true => (0 <? n)%Z | _ => false end else true)
      then range_loop f bounded s2 c rest (visited0 ++ [x]) else (s2, visited0 ++ [x], ReNil).
Proof. exact Proofs.BufferRange.range_commit_after_callback. Qed.
Print Assumptions C02_range_commit_after_callback.

(* ... and for the whole run: the value put by the callback of the i-th visited value is in the final log *)
Theorem C02_range_callback_put_in_log : forall fuel bounded s c k script visited0 s' visited e i pv,
  Proofs.Buffer.Inv s -> getc s c = Some k -> cdelta k = 0 ->
  range_loop fuel bounded s c script visited0 = (s', visited, e) ->
  length visited0 + i < length visited -> nth_error script i = Some (CbPutTrue pv) ->
  In pv (log s').
Proof. exact Proofs.BufferRange.range_callback_put_in_log. Qed.
Print Assumptions C02_range_callback_put_in_log.

(* Buffer.Range, callbacks that all continue (at least as many as the backlog) and put nothing: it visits exactly the
   backlog -- everything from the consumer's commit point to the end of the buffer -- commits it, and ends with nil. *)
Theorem C02_range_buffer_stops_at_end : forall s c k m s' visited e,
  Proofs.Buffer.Inv s -> getc s c = Some k -> cdelta k = 0 -> creg k = true -> ccancel k = false -> bclosed s = false ->
  base s <= ccommit k -> length (log s) - ccommit k <= m ->
  buffer_range s c (repeat CbTrue m) = (s', visited, e) ->
  e = ReNil /\ visited = skipn (ccommit k) (log s) /\ length visited = length (log s) - ccommit k /\
  log s' = log s /\ base s' = base s /\ (forall c', c' <> c -> getc s' c' = getc s c') /\
  exists k', getc s' c = Some k' /\ ccommit k' = length (log s) /\ cdelta k' = 0.
Proof. exact Proofs.BufferRange.buffer_range_stops_at_end. Qed.
Print Assumptions C02_range_buffer_stops_at_end.

(* with an empty backlog it returns at once whatever the callbacks would do: no Get is issued *)
Theorem C02_range_buffer_empty_backlog : forall s c k script,
  getc s c = Some k -> creg k = true -> cdelta k = 0 -> ccommit k = length (log s) ->
  buffer_range s c script = (s, [], ReNil).
Proof. exact Proofs.BufferRange.buffer_range_empty_backlog. Qed.
Print Assumptions C02_range_buffer_empty_backlog.

(* For EVERY script (callbacks may stop, panic, put values): Buffer.Range of an open, registered, non-evicted consumer
   never ends with an error -- in particular never because a Get would have parked -- and never runs out of fuel. *)
Theorem C02_range_buffer_never_blocks : forall s c k script s' visited e,
  Proofs.Buffer.Inv s -> getc s c = Some k -> cdelta k = 0 -> creg k = true -> ccancel k = false -> bclosed s = false ->
  base s <= ccommit k ->
  buffer_range s c script = (s', visited, e) -> e = ReNil \/ e = RePanic.
Proof. exact Proofs.BufferRange.buffer_range_never_blocks. Qed.
Print Assumptions C02_range_buffer_never_blocks.

(* ===================== Range and Rollback-replay UNDER INTERLEAVING ===================== *)
(* Proofs.BufferRangeEnv.range_loop_env is range_loop with an ENVIRONMENT SEGMENT (a list of events run by [erun]) before
   every one of Range's own sub-steps:
       seg; Get;  seg; callback (its Put, if any);  seg; Diff (Buffer.Range only);  seg; Commit   (seg; Rollback on failure)
   E is the list of segments, consumed in that order (exhausted = nothing happens).
   env_ok c E : the segments contain any events EXCEPT consumer c's own Get / Commit / Rollback -- Puts of any producer,
     NewConsumer, every operation of every other consumer, Size/Slice/Diff/Done, cleaner runs EClean, shutdown steps
     ESettle, even Close of c or of the buffer.
   env_open c E : additionally no Buffer.Close and no Close of c.
   okc c s k : Inv s, consumer c has record k, is registered, not cancelled, no Close begun, and the buffer is open.
   DD s : the default cleaner is configured and no registered consumer is behind the base.
   The result is (final state, visited values, how it ended, (result of the last Get issued, log length at the last Diff
   test)). *)

(* with no environment it IS range_loop (same fuel) *)
Theorem C02_range_env_nil_is_loop : forall fuel b s c script visited,
  fst (Proofs.BufferRangeEnv.range_loop_env fuel b s c script visited []) = range_loop fuel b s c script visited.
Proof. exact Proofs.BufferRangeEnv.range_loop_env_nil. Qed.
Print Assumptions C02_range_env_nil_is_loop.

Theorem C02_range_env_fuel_enough : forall fuel b s c script visited0 E s' visited e o,
  length script < fuel -> Proofs.BufferRangeEnv.range_loop_env fuel b s c script visited0 E = (s', visited, e, o) -> e <> ReFuel.
Proof. exact Proofs.BufferRangeEnv.range_loop_env_fuel_enough. Qed.
Print Assumptions C02_range_env_fuel_enough.

(* Main specification under interleaving, for ANY number d = cdelta k of reads pending at entry (audit items A and B).
   Whatever the environment does between the sub-steps and however the call ends:
   the n visited values are the consecutive entries of the FINAL log starting at the entry cursor ccommit k + d (Range
   continues after the pending reads); with m = the number of visited values that end up committed (all, except the
   in-flight one of a panicking callback): if m > 0 the committed offset is ccommit k + d + m (the first Commit commits
   the d pending reads too), if m = 0 (first Get failed / first callback panicked) it is unchanged, i.e. the deferred
   Rollback rolled the d pending reads back together with the in-flight value; nothing is left uncommitted at return;
   an error return is always caused by a Get that did not return a value (a Commit following a successful Get never
   fails, even if the environment closes c or the buffer meanwhile); base and log only grow.
   NOT preserved under interleaving (unlike C02_range_loop_spec): the base, the other consumers, c's own flags, and the
   log may have gained values other than the callbacks' Puts. *)
Theorem C02_range_env_spec : forall fuel bounded s c k script visited0 E s' visited e g lend,
  Proofs.Buffer.Inv s -> Proofs.BufferRangeEnv.env_ok c E -> getc s c = Some k ->
  Proofs.BufferRangeEnv.range_loop_env fuel bounded s c script visited0 E = (s', visited, e, (g, lend)) ->
  exists k' n vs,
    getc s' c = Some k' /\ (e <> ReFuel -> cdelta k' = 0) /\
    visited = visited0 ++ vs /\ length vs = n /\
    (forall i, i < n -> nth_error vs i = nth_error (log s') (ccommit k + cdelta k + i)) /\
    (let m := match e with RePanic => n - 1 | _ => n end in
     ccommit k' = if m =? 0 then ccommit k else ccommit k + cdelta k + m) /\
    (e = RePanic -> 1 <= n) /\ (e = ReNil -> 1 <= n) /\
    (e = ReErr -> g = REmpty \/ g = RErr) /\
    base s <= base s' /\ (exists sfx, log s' = log s ++ sfx) /\ Proofs.Buffer.Inv s' /\
    (creg k' = true -> creg k = true) /\ (ccancel k = true -> ccancel k' = true).
Proof. exact Proofs.BufferRangeEnv.range_loop_env_spec. Qed.
Print Assumptions C02_range_env_spec.

(* the package entry point: the same, never out of fuel, nothing pending at return *)
Theorem C02_range_env_pkg_spec : forall s c k script E s' visited e g lend,
  Proofs.Buffer.Inv s -> Proofs.BufferRangeEnv.env_ok c E -> getc s c = Some k ->
  Proofs.BufferRangeEnv.pkg_range_env s c script E = (s', visited, e, (g, lend)) ->
  e <> ReFuel /\
  exists k' n,
    getc s' c = Some k' /\ cdelta k' = 0 /\ length visited = n /\
    (forall i, i < n -> nth_error visited i = nth_error (log s') (ccommit k + cdelta k + i)) /\
    (let m := match e with RePanic => n - 1 | _ => n end in
     ccommit k' = if m =? 0 then ccommit k else ccommit k + cdelta k + m) /\
    (e = RePanic -> 1 <= n) /\ (e = ReNil -> 1 <= n) /\
    (e = ReErr -> g = REmpty \/ g = RErr) /\
    base s <= base s' /\ (exists sfx, log s' = log s ++ sfx) /\ Proofs.Buffer.Inv s' /\
    (creg k' = true -> creg k = true) /\ (ccancel k = true -> ccancel k' = true).
Proof. exact Proofs.BufferRangeEnv.pkg_range_env_spec. Qed.
Print Assumptions C02_range_env_pkg_spec.

(* Get failure under interleaving: everything this call visited is committed, nothing is pending; the committed offset is
   entry cursor + number visited, or -- when nothing was visited -- unchanged (the d pending reads were rolled back); the
   next successful read (in any later state where c's record is unchanged) returns the log entry at that offset. *)
Theorem C02_range_env_get_failure_cursor : forall fuel bounded s c k script visited0 E s' visited g lend,
  Proofs.Buffer.Inv s -> Proofs.BufferRangeEnv.env_ok c E -> getc s c = Some k ->
  Proofs.BufferRangeEnv.range_loop_env fuel bounded s c script visited0 E = (s', visited, ReErr, (g, lend)) ->
  exists k' vs,
    visited = visited0 ++ vs /\ (g = REmpty \/ g = RErr) /\
    getc s' c = Some k' /\ cdelta k' = 0 /\
    (ccommit k' = if length vs =? 0 then ccommit k else ccommit k + cdelta k + length vs) /\
    (forall i, i < length vs -> nth_error vs i = nth_error (log s') (ccommit k + cdelta k + i)) /\
    (forall s2 s3 v, getc s2 c = Some k' -> step s2 (OGet c) = (s3, RVal v) ->
                     nth_error (log s2) (ccommit k') = Some v).
Proof. exact Proofs.BufferRangeEnv.range_env_get_failure_cursor. Qed.
Print Assumptions C02_range_env_get_failure_cursor.

(* Panic under an open environment and the default cleaner, d reads pending at entry, n >= 1 values visited by this call:
   the following Gets (with any open environment before each) return the log from the committed offset: first the
   j = (d if n = 1, else 0) older rolled-back reads, then exactly the in-flight value.  With d = 0 the in-flight value is
   the first value the next Get returns. *)
Theorem C02_range_env_panic_redelivers : forall fuel b s c k script visited0 E s' visited lo dflt E2 s2 rs,
  Proofs.BufferRangeEnv.okc c s k -> Proofs.BufferRangeEnv.DD s ->
  Proofs.BufferRangeEnv.env_open c E -> Proofs.BufferRangeEnv.env_open c E2 ->
  Proofs.BufferRangeEnv.range_loop_env fuel b s c script visited0 E = (s', visited, RePanic, lo) ->
  let n := length visited - length visited0 in
  let j := if n =? 1 then cdelta k else 0 in
  Proofs.BufferRangeEnv.gets_env s' c (S j) E2 = (s2, rs) ->
  1 <= n /\ length visited = length visited0 + n /\
  exists k', getc s' c = Some k' /\ cdelta k' = 0 /\
    rs = map RVal (firstn (S j) (skipn (ccommit k') (log s'))) /\ length rs = S j /\
    nth_error rs j = Some (RVal (last visited dflt)).
Proof. exact Proofs.BufferRangeEnv.range_env_panic_redelivers. Qed.
Print Assumptions C02_range_env_panic_redelivers.

(* ... and the property's clause "the in-flight value is the FIRST value the next read returns" is refuted when reads
   were pending at entry (e.g. Get; Get; Range with a panicking callback): the next read returns the oldest pending one *)
Theorem C02_range_pending_panic_first_read_refuted :
  exists s c k script s' visited o dflt,
    Proofs.BufferRangeEnv.okc c s k /\ Proofs.BufferRangeEnv.DD s /\ cdelta k <> 0 /\
    Proofs.BufferRangeEnv.pkg_range_env s c script [] = (s', visited, RePanic, o) /\
    snd (step s' (OGet c)) <> RVal (last visited dflt).
Proof. exact Proofs.BufferRangeEnv.range_pending_panic_first_read_refuted. Qed.
Print Assumptions C02_range_pending_panic_first_read_refuted.

(* Open environment: c stays live and the buffer open; with the default cleaner Range never gets the past-offset (or any
   other) Get error: an error return can only come from a Get that would have parked, i.e. the call was ended by its
   caller's context. *)
Theorem C02_range_env_pkg_default_no_offset_error : forall s c k script E s' visited e g lend,
  Proofs.BufferRangeEnv.okc c s k -> Proofs.BufferRangeEnv.env_open c E ->
  Proofs.BufferRangeEnv.pkg_range_env s c script E = (s', visited, e, (g, lend)) ->
  exists k', getc s' c = Some k' /\ Proofs.BufferRangeEnv.live k' /\ bclosed s' = false /\
    (Proofs.BufferRangeEnv.DD s -> Proofs.BufferRangeEnv.DD s' /\ g <> RErr /\ (e = ReErr -> g = REmpty)).
Proof. exact Proofs.BufferRangeEnv.pkg_range_env_open. Qed.
Print Assumptions C02_range_env_pkg_default_no_offset_error.

(* Buffer.Range under any environment: the loop specification, except that a call returning at the entry Diff test
   touches nothing (reads pending at entry STAY pending); and the stopping point: when it returns nil because of a Diff
   test (at entry with c registered, or after a callback that wanted to continue), c's cursor is exactly the end of the
   log AS OF THAT Diff test (lend), which is at most the length of the log at return. *)
Theorem C02_range_env_buffer_spec : forall s c k script E s' visited e g lend,
  Proofs.Buffer.Inv s -> Proofs.BufferRangeEnv.env_ok c E -> getc s c = Some k ->
  Proofs.BufferRangeEnv.buffer_range_env s c script E = (s', visited, e, (g, lend)) ->
  e <> ReFuel /\
  exists k' n,
    getc s' c = Some k' /\ length visited = n /\
    (cdelta k' = 0 \/ (visited = [] /\ e = ReNil /\ cdelta k' = cdelta k)) /\
    (forall i, i < n -> nth_error visited i = nth_error (log s') (ccommit k + cdelta k + i)) /\
    (let m := match e with RePanic => n - 1 | _ => n end in
     ccommit k' = if m =? 0 then ccommit k else ccommit k + cdelta k + m) /\
    (e = RePanic -> 1 <= n) /\
    (e = ReErr -> g = REmpty \/ g = RErr) /\
    base s <= base s' /\ (exists sfx, log s' = log s ++ sfx) /\ Proofs.Buffer.Inv s' /\
    (creg k' = true -> creg k = true) /\ (ccancel k = true -> ccancel k' = true) /\
    (e = ReNil -> (n = 0 -> creg k' = true) ->
     (1 <= n -> Proofs.BufferRangeEnv.cb_cont (nth (n - 1) script CbFalse) = true) ->
       ccommit k' + cdelta k' = lend /\ lend <= length (log s')).
Proof. exact Proofs.BufferRangeEnv.buffer_range_env_spec. Qed.
Print Assumptions C02_range_env_buffer_spec.

(* ... and "at the end of the log AT RETURN" is refuted under interleaving: a Put that lands between the last Diff test
   and its Commit is in the buffer, unvisited, when Buffer.Range returns nil *)
Theorem C02_range_env_buffer_end_at_return_refuted :
  exists s c k script E s' visited o k',
    Proofs.BufferRangeEnv.okc c s k /\ Proofs.BufferRangeEnv.DD s /\ cdelta k = 0 /\
    Proofs.BufferRangeEnv.env_open c E /\ Forall (fun x => Proofs.BufferRangeEnv.cb_cont x = true) script /\
    Proofs.BufferRangeEnv.buffer_range_env s c script E = (s', visited, ReNil, o) /\ length visited < length script /\
    getc s' c = Some k' /\ ccommit k' < length (log s').
Proof. exact Proofs.BufferRangeEnv.buffer_range_env_end_at_return_refuted. Qed.
Print Assumptions C02_range_env_buffer_end_at_return_refuted.

(* Buffer.Range under an open environment never issues a Get that would park (whatever the cleaner); with the default
   cleaner it never fails: it returns nil or re-raises the callback's panic. *)
Theorem C02_range_env_buffer_never_blocks : forall s c k script E s' visited e g lend,
  Proofs.BufferRangeEnv.okc c s k -> Proofs.BufferRangeEnv.env_open c E ->
  Proofs.BufferRangeEnv.buffer_range_env s c script E = (s', visited, e, (g, lend)) ->
  g <> REmpty /\
  exists k', getc s' c = Some k' /\ Proofs.BufferRangeEnv.live k' /\ bclosed s' = false /\
    (Proofs.BufferRangeEnv.DD s -> Proofs.BufferRangeEnv.DD s' /\ g <> RErr /\ (e = ReNil \/ e = RePanic)).
Proof. exact Proofs.BufferRangeEnv.buffer_range_env_never_blocks. Qed.
Print Assumptions C02_range_env_buffer_never_blocks.

(* Rollback replays (audit item C), composed and under interleaving.  After a successful Rollback of the n = cdelta k
   pending reads of a live consumer, the next n Gets -- with any open environment segment before each; the base must stay
   at or below c's committed offset, which the default cleaner guarantees (DD) and which is trivial with no environment --
   return exactly the n log entries from the committed offset, in order: the values read since the last successful
   Commit (the newest n positions of the ghost read history, oldest first), before any newer value; afterwards n reads
   are pending again and the committed offset has not moved. *)
Theorem C02_rollback_replays_env : forall s c k E s1 r s2 rs,
  Proofs.BufferRangeEnv.okc c s k -> cdelta k <> 0 -> base s <= ccommit k ->
  (Proofs.BufferRangeEnv.DD s \/ E = []) -> Proofs.BufferRangeEnv.env_open c E ->
  step s (ORollback c) = (s1, r) -> Proofs.BufferRangeEnv.gets_env s1 c (cdelta k) E = (s2, rs) ->
  r = ROk /\
  rs = map RVal (firstn (cdelta k) (skipn (ccommit k) (log s))) /\ length rs = cdelta k /\
  rs = map (fun p => RVal (nth p (log s) 0%Z)) (rev (firstn (cdelta k) (chist k))) /\
  (exists sfx, log s2 = log s ++ sfx) /\
  exists k2, getc s2 c = Some k2 /\ ccommit k2 = ccommit k /\ cdelta k2 = cdelta k /\
             Proofs.BufferRangeEnv.live k2 /\ bclosed s2 = false.
Proof. exact Proofs.BufferRangeEnv.rollback_replays_env. Qed.
Print Assumptions C02_rollback_replays_env.

(* the same for n successive Gets with nothing in between *)
Theorem C02_rollback_replays : forall s c k s1 r s2 rs,
  Proofs.BufferRangeEnv.okc c s k -> cdelta k <> 0 -> base s <= ccommit k ->
  step s (ORollback c) = (s1, r) -> Proofs.BufferRangeEnv.gets s1 c (cdelta k) = (s2, rs) ->
  r = ROk /\
  rs = map RVal (firstn (cdelta k) (skipn (ccommit k) (log s))) /\ length rs = cdelta k /\
  rs = map (fun p => RVal (nth p (log s) 0%Z)) (rev (firstn (cdelta k) (chist k))) /\
  log s2 = log s /\
  exists k2, getc s2 c = Some k2 /\ ccommit k2 = ccommit k /\ cdelta k2 = cdelta k /\
             Proofs.BufferRangeEnv.live k2 /\ bclosed s2 = false.
Proof. exact Proofs.BufferRangeEnv.rollback_replays. Qed.
Print Assumptions C02_rollback_replays.

(* Buffer.Range in isolation with callbacks that all continue and may PUT values (audit item D): it ends with nil, all
   visited values are committed, and -- unless the finite script ran out, which the model treats as a stop -- c is exactly
   at the end of the FINAL log: it visited everything from its commit point to the end, including its callbacks' Puts. *)
Theorem C02_range_buffer_cont_stops_at_end : forall s c k script s' visited e,
  Proofs.Buffer.Inv s -> getc s c = Some k -> cdelta k = 0 -> creg k = true -> ccancel k = false -> bclosed s = false ->
  base s <= ccommit k -> Forall (fun x => Proofs.BufferRangeEnv.cb_cont x = true) script ->
  buffer_range s c script = (s', visited, e) ->
  e = ReNil /\
  exists k', getc s' c = Some k' /\ cdelta k' = 0 /\ ccommit k' = ccommit k + length visited /\
    log s' = log s ++ Proofs.BufferRange.cb_puts (firstn (length visited) script) /\ base s' = base s /\
    (forall i, i < length visited -> nth_error visited i = nth_error (log s') (ccommit k + i)) /\
    (length visited <= length script -> ccommit k' = length (log s') /\ visited = skipn (ccommit k) (log s')).
Proof. exact Proofs.BufferRangeEnv.buffer_range_cont_stops_at_end. Qed.
Print Assumptions C02_range_buffer_cont_stops_at_end.
