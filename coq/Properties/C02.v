(* C02 — Buffer consumer: Commit/Rollback give transactional at-least-once consumption. Statements only. *)
From Coq Require Import List ZArith Bool Arith.
From BB.Model Require Import Buffer.
From BB.Proofs Require Buffer BufferRange.
Import ListNotations.

(* Rollback zeroes the read count and nothing else: the following Gets therefore return positions commit, commit+1, …
   (C01_get_returns_log_at_cursor), i.e. exactly the values read since the last Commit, in order, before any newer one.
   With nothing pending it is an error that changes nothing. *)
Theorem C02_rollback_spec : forall s c s' r,
  step s (ORollback c) = (s', r) ->
  (r = RErr /\ s' = s) \/
  (r = ROk /\ exists k, getc s c = Some k /\ cdelta k <> 0 /\
     getc s' c = Some (c_rollback k) /\ log s' = log s /\ base s' = base s /\ (forall c', c' <> c -> getc s' c' = getc s c')).
Proof. exact Proofs.Buffer.rollback_spec. Qed.
Print Assumptions C02_rollback_spec.

Theorem C02_commit_spec : forall s c s' r,
  step s (OCommit c) = (s', r) ->
  (r = RErr /\ s' = s) \/
  (r = ROk /\ exists k, getc s c = Some k /\ cdelta k <> 0 /\ creg k = true /\
     getc s' c = Some (c_commit k) /\ log s' = log s /\ base s' = base s /\ (forall c', c' <> c -> getc s' c' = getc s c')).
Proof. exact Proofs.Buffer.commit_spec. Qed.
Print Assumptions C02_commit_spec.

Theorem C02_empty_is_error_noop : forall s c k,
  getc s c = Some k -> cdelta k = 0 ->
  step s (OCommit c) = (s, RErr) /\ step s (ORollback c) = (s, RErr).
Proof. exact Proofs.Buffer.commit_rollback_empty_noop. Qed.
Print Assumptions C02_empty_is_error_noop.

(* The reads since the last successful Commit are exactly positions commit .. commit+delta-1, newest first in the ghost
   history: this is what a Rollback replays (part of the invariant of C01, restated for the pending window). *)
Theorem C02_pending_window : forall evs k0 c k,
  let s := fst (erun (init k0) evs) in
  getc s c = Some k -> firstn (cdelta k) (chist k) = rev (seq (ccommit k) (cdelta k)).
Proof.
  intros evs k0 c k s Hk.
  pose proof (Proofs.Buffer.Inv_erun evs (init k0) (Proofs.Buffer.Inv_init k0)) as [_ HF].
  exact (proj1 (proj2 (proj2 (proj2 (proj2 (Proofs.Buffer.Forall_nth_error _ _ _ _ HF Hk)))))).
Qed.
Print Assumptions C02_pending_window.

(* Commit is permanent: whatever happens afterwards (any schedule), every value this consumer is ever given again lies at
   or beyond the committed offset — committed reads are never returned to it again. *)
Theorem C02_commit_permanent : forall evs s c k s1 s2 v,
  Proofs.Buffer.Inv s -> getc s c = Some k ->
  s1 = fst (erun s evs) -> step s1 (OGet c) = (s2, RVal v) ->
  exists k1, getc s1 c = Some k1 /\ ccommit k <= ccommit k1 /\
             nth_error (log s1) (ccommit k1 + cdelta k1) = Some v /\ cstart k <= ccommit k1 + cdelta k1.
Proof. exact Proofs.Buffer.committed_never_returned_again. Qed.
Print Assumptions C02_commit_permanent.

(* ===================== Range (package Range and Buffer.Range) ===================== *)
(* C02 — Range (package bigbuff.Range and method Buffer.Range): commit after the callback, rollback and re-delivery of the
   in-flight value on panic / failure, Buffer.Range stops at the end of the buffer instead of blocking.  Statements only.

   [range_loop fuel bounded s c script visited0] is one Range call of consumer c from state s, run without interleaving:
   per iteration  Get -> callback (script entry: continue / stop / panic / put a value and continue) -> Diff (Buffer.Range
   only) -> Commit, with Rollback on panic or failure.  That order is the DEFINITION of range_loop (Model/Buffer.v), tied
   to bigbuff.go func Range / buffer.go func (b *Buffer) Range by the correspondence check; the theorems below state what
   follows from it.  The result is (final state, values passed to the callback, how the call ended). *)


(* the two entry points are range_loop with enough fuel; Buffer.Range first tests Diff and may return at once *)
Theorem C02_range_pkg_is_loop : forall s c script,
  pkg_range s c script = range_loop (S (S (length (log s) + length script))) false s c script [].
Proof. exact Proofs.BufferRange.pkg_range_is_loop. Qed.
Print Assumptions C02_range_pkg_is_loop.

Theorem C02_range_buffer_is_loop : forall s c k script,
  getc s c = Some k ->
  buffer_range s c script = (s, [], ReNil) \/
  buffer_range s c script = range_loop (S (length (log s) + length script)) true s c script [].
Proof. exact Proofs.BufferRange.buffer_range_is_loop. Qed.
Print Assumptions C02_range_buffer_is_loop.

(* fuel is never the reason a run ends *)
Theorem C02_range_fuel_enough : forall fuel b s c script visited0 s' visited e,
  length script < fuel -> range_loop fuel b s c script visited0 = (s', visited, e) -> e <> ReFuel.
Proof. exact Proofs.BufferRange.range_loop_fuel_enough. Qed.
Print Assumptions C02_range_fuel_enough.

(* Main specification.  For a consumer with nothing pending at entry and every way the call can end (stop, script
   exhausted, panic, Get error or would-park, fuel):
   nothing is left uncommitted; the n values visited are exactly the consecutive log entries from the entry commit point
   (source order, no gap, no duplicate); all of them are committed, except the in-flight value of a panicking callback;
   the base is unchanged; the log grew by exactly the values put by the callbacks that ran, in order; no other consumer is
   touched; the consumer's registration / cancellation and the buffer's closed flag are unchanged; the invariant holds. *)
Theorem C02_range_loop_spec : forall fuel bounded s c k script visited0 s' visited e,
  Proofs.Buffer.Inv s -> getc s c = Some k -> cdelta k = 0 ->
  range_loop fuel bounded s c script visited0 = (s', visited, e) ->
  exists k' n vs,
    getc s' c = Some k' /\ cdelta k' = 0 /\
    visited = visited0 ++ vs /\ length vs = n /\
    (forall i, i < n -> nth_error vs i = nth_error (log s') (ccommit k + i)) /\
    ccommit k' = ccommit k + (match e with RePanic => n - 1 | _ => n end) /\
    (e = RePanic -> 1 <= n) /\
    base s' = base s /\
    log s' = log s ++ flat_map (fun x => match x with CbPutTrue v => [v] | _ => [] end) (firstn n script) /\
    (forall c', c' <> c -> getc s' c' = getc s c') /\
    Proofs.Buffer.Inv s' /\
    creg k' = creg k /\ ccancel k' = ccancel k /\ bclosed s' = bclosed s.
Proof. exact Proofs.BufferRange.range_loop_spec. Qed.
Print Assumptions C02_range_loop_spec.

(* Panic: the in-flight value was rolled back, it sits at the consumer's cursor, and the very next Get of that consumer
   returns exactly it (no side condition: Range changes none of the flags Get checks). *)
Theorem C02_range_panic_redelivers : forall fuel bounded s c k script visited0 s' visited d,
  Proofs.Buffer.Inv s -> getc s c = Some k -> cdelta k = 0 ->
  range_loop fuel bounded s c script visited0 = (s', visited, RePanic) ->
  visited <> [] /\
  exists k' s'', getc s' c = Some k' /\ cdelta k' = 0 /\
    nth_error (log s') (ccommit k') = Some (last visited d) /\
    step s' (OGet c) = (s'', RVal (last visited d)).
Proof. exact Proofs.BufferRange.range_panic_redelivers. Qed.
Print Assumptions C02_range_panic_redelivers.

(* Get failure: everything visited is committed, nothing pending, the cursor is entry commit + number visited; the next
   successful read of this consumer (in any later state where its record is unchanged) returns the first value not
   visited. *)
Theorem C02_range_get_failure_keeps_cursor : forall fuel bounded s c k script visited0 s' visited,
  Proofs.Buffer.Inv s -> getc s c = Some k -> cdelta k = 0 ->
  range_loop fuel bounded s c script visited0 = (s', visited, ReErr) ->
  exists k' vs,
    visited = visited0 ++ vs /\
    getc s' c = Some k' /\ cdelta k' = 0 /\ ccommit k' = ccommit k + length vs /\
    (forall i, i < length vs -> nth_error vs i = nth_error (log s') (ccommit k + i)) /\
    (forall s2 s3 v, getc s2 c = Some k' -> step s2 (OGet c) = (s3, RVal v) ->
                     nth_error (log s2) (ccommit k + length vs) = Some v).
Proof. exact Proofs.BufferRange.range_get_failure_keeps_cursor. Qed.
Print Assumptions C02_range_get_failure_keeps_cursor.

(* Commit only after the callback returned.  The callback's only effect in the model is CbPutTrue's Put: in the iteration
   for such an entry the Commit is taken in the state sp that already contains the put value, and in sp the visited value
   x is still uncommitted (cursor at the entry commit point, one read pending); only the Commit moves the cursor past x. *)
Theorem C02_range_commit_after_callback : forall f bounded s c k pv rest visited0 s1 x,
  Proofs.Buffer.Inv s -> getc s c = Some k -> cdelta k = 0 -> step s (OGet c) = (s1, RVal x) ->
  let sp := fst (step s1 (OPut [pv])) in
  exists s2 k2,
    log sp = log s ++ [pv] /\
    getc sp c = Some (c_get k (ccommit k)) /\
    step sp (OCommit c) = (s2, ROk) /\
    getc s2 c = Some k2 /\ ccommit k2 = S (ccommit k) /\ cdelta k2 = 0 /\ log s2 = log s ++ [pv] /\
    range_loop (S f) bounded s c (CbPutTrue pv :: rest) visited0 =
      if (if bounded then match snd (step sp (ODiff c)) with RDiff n true => (0 <? n)%Z | _ => false end else true)
      then range_loop f bounded s2 c rest (visited0 ++ [x]) else (s2, visited0 ++ [x], ReNil).
Proof. exact Proofs.BufferRange.range_commit_after_callback. Qed.
Print Assumptions C02_range_commit_after_callback.

(* ... and for the whole run: the value put by the callback of the i-th visited value is in the final log *)
Theorem C02_range_callback_put_in_log : forall fuel bounded s c k script visited0 s' visited e i pv,
  Proofs.Buffer.Inv s -> getc s c = Some k -> cdelta k = 0 ->
  range_loop fuel bounded s c script visited0 = (s', visited, e) ->
  length visited0 + i < length visited -> nth_error script i = Some (CbPutTrue pv) ->
  In pv (log s').
Proof. exact Proofs.BufferRange.range_callback_put_in_log. Qed.
Print Assumptions C02_range_callback_put_in_log.

(* Buffer.Range, callbacks that all continue (at least as many as the backlog) and put nothing: it visits exactly the
   backlog -- everything from the consumer's commit point to the end of the buffer -- commits it, and ends with nil. *)
Theorem C02_range_buffer_stops_at_end : forall s c k m s' visited e,
  Proofs.Buffer.Inv s -> getc s c = Some k -> cdelta k = 0 -> creg k = true -> ccancel k = false -> bclosed s = false ->
  base s <= ccommit k -> length (log s) - ccommit k <= m ->
  buffer_range s c (repeat CbTrue m) = (s', visited, e) ->
  e = ReNil /\ visited = skipn (ccommit k) (log s) /\ length visited = length (log s) - ccommit k /\
  log s' = log s /\ base s' = base s /\ (forall c', c' <> c -> getc s' c' = getc s c') /\
  exists k', getc s' c = Some k' /\ ccommit k' = length (log s) /\ cdelta k' = 0.
Proof. exact Proofs.BufferRange.buffer_range_stops_at_end. Qed.
Print Assumptions C02_range_buffer_stops_at_end.

(* with an empty backlog it returns at once whatever the callbacks would do: no Get is issued *)
Theorem C02_range_buffer_empty_backlog : forall s c k script,
  getc s c = Some k -> creg k = true -> cdelta k = 0 -> ccommit k = length (log s) ->
  buffer_range s c script = (s, [], ReNil).
Proof. exact Proofs.BufferRange.buffer_range_empty_backlog. Qed.
Print Assumptions C02_range_buffer_empty_backlog.

(* For EVERY script (callbacks may stop, panic, put values): Buffer.Range of an open, registered, non-evicted consumer
   never ends with an error -- in particular never because a Get would have parked -- and never runs out of fuel. *)
Theorem C02_range_buffer_never_blocks : forall s c k script s' visited e,
  Proofs.Buffer.Inv s -> getc s c = Some k -> cdelta k = 0 -> creg k = true -> ccancel k = false -> bclosed s = false ->
  base s <= ccommit k ->
  buffer_range s c script = (s', visited, e) -> e = ReNil \/ e = RePanic.
Proof. exact Proofs.BufferRange.buffer_range_never_blocks. Qed.
Print Assumptions C02_range_buffer_never_blocks.
