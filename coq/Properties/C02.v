(* C02 — Buffer consumer: Commit/Rollback give transactional at-least-once consumption. Statements only. *)
From Coq Require Import List ZArith Bool Arith.
From BB.Model Require Import Buffer.
From BB.Proofs Require Buffer.
Import ListNotations.

(* Rollback zeroes the read count and nothing else: the following Gets therefore return positions commit, commit+1, …
   (C01_get_returns_log_at_cursor), i.e. exactly the values read since the last Commit, in order, before any newer one.
   With nothing pending it is an error that changes nothing. *)
Theorem C02_rollback_spec : forall s c s' r,
  step s (ORollback c) = (s', r) ->
  (r = RErr /\ s' = s) \/
  (r = ROk /\ exists k, getc s c = Some k /\ cdelta k <> 0 /\
     getc s' c = Some (c_rollback k) /\ log s' = log s /\ base s' = base s /\ (forall c', c' <> c -> getc s' c' = getc s c')).
Proof. exact Proofs.Buffer.rollback_spec. Qed.
Print Assumptions C02_rollback_spec.

Theorem C02_commit_spec : forall s c s' r,
  step s (OCommit c) = (s', r) ->
  (r = RErr /\ s' = s) \/
  (r = ROk /\ exists k, getc s c = Some k /\ cdelta k <> 0 /\ creg k = true /\
     getc s' c = Some (c_commit k) /\ log s' = log s /\ base s' = base s /\ (forall c', c' <> c -> getc s' c' = getc s c')).
Proof. exact Proofs.Buffer.commit_spec. Qed.
Print Assumptions C02_commit_spec.

Theorem C02_empty_is_error_noop : forall s c k,
  getc s c = Some k -> cdelta k = 0 ->
  step s (OCommit c) = (s, RErr) /\ step s (ORollback c) = (s, RErr).
Proof. exact Proofs.Buffer.commit_rollback_empty_noop. Qed.
Print Assumptions C02_empty_is_error_noop.

(* The reads since the last successful Commit are exactly positions commit .. commit+delta-1, newest first in the ghost
   history: this is what a Rollback replays (part of the invariant of C01, restated for the pending window). *)
Theorem C02_pending_window : forall evs k0 c k,
  let s := fst (erun (init k0) evs) in
  getc s c = Some k -> firstn (cdelta k) (chist k) = rev (seq (ccommit k) (cdelta k)).
Proof.
  intros evs k0 c k s Hk.
  pose proof (Proofs.Buffer.Inv_erun evs (init k0) (Proofs.Buffer.Inv_init k0)) as [_ HF].
  exact (proj1 (proj2 (proj2 (proj2 (proj2 (Proofs.Buffer.Forall_nth_error _ _ _ _ HF Hk)))))).
Qed.
Print Assumptions C02_pending_window.

(* Commit is permanent: whatever happens afterwards (any schedule), every value this consumer is ever given again lies at
   or beyond the committed offset — committed reads are never returned to it again. *)
Theorem C02_commit_permanent : forall evs s c k s1 s2 v,
  Proofs.Buffer.Inv s -> getc s c = Some k ->
  s1 = fst (erun s evs) -> step s1 (OGet c) = (s2, RVal v) ->
  exists k1, getc s1 c = Some k1 /\ ccommit k <= ccommit k1 /\
             nth_error (log s1) (ccommit k1 + cdelta k1) = Some v /\ cstart k <= ccommit k1 + cdelta k1.
Proof. exact Proofs.Buffer.committed_never_returned_again. Qed.
Print Assumptions C02_commit_permanent.
