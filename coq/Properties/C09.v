(* C09 — Exclusive: at most one work function per key at a time; keys are independent.
   Statements only; every proof is `exact` of a lemma of Proofs/ExclusiveAbs.v or Proofs/ExclusiveKeys.v.
   Model: counter abstraction of exclusive.go for one key (Model/ExclusiveAbs.v: any number of blocking/async and
   start-style calls, every interleaving of their critical sections with the runner's sleep / resolve / return /
   release steps) and its two-key product (Model/ExclusiveKeys.v). *)
From Coq Require Import List Arith Bool.
From BB.Model Require Import ExclusiveAbs ExclusiveKeys.
From BB.Proofs Require ExclusiveAbs ExclusiveKeys.
Import ListNotations.

(* `overlap` is set by `replace` (= ExecStart) iff `execa <> 0`, and `execa` is cleared by PReturn only: it stays 1
   through RWork AND RWorkRes (resolved but not yet returned).  So overlap = 0 in every reachable state says: for every
   number of calls of both styles and every schedule, no execution starts while the previous work function has not
   RETURNED -- having resolved is not enough. *)
Theorem C09_no_overlap : forall a b sched,
  let s := run (init a b) sched in
  v s overlap = 0 /\ v s started <= v s issuedc + v s issueds.
Proof. exact Proofs.ExclusiveAbs.no_overlap_execs_le_calls. Qed.
Print Assumptions C09_no_overlap.

(* Step form of the same: the step that starts an execution is taken from a state whose runner pc is RNone or RSleep
   (`idle`): never from RWork, RWorkRes (the resolve-to-return gap) or RDone (returned, successor's running flag not yet
   cleared), and with no work function active. *)
Theorem C09_exec_starts_only_after_previous_returned : forall a b sched p s',
  let s := run (init a b) sched in
  step s p = Some s' -> v s' started <> v s started ->
  v s' started = S (v s started) /\ v s execa = 0 /\ Proofs.ExclusiveKeys.idle (rp s) = true.
Proof. exact Proofs.ExclusiveKeys.exec_start_after_return. Qed.
Print Assumptions C09_exec_starts_only_after_previous_returned.

(* The full invariant (DESIGN.md A.6) behind it holds along every schedule. *)
Theorem C09_invariant : forall a b sched, Proofs.ExclusiveAbs.Inv (run (init a b) sched).
Proof. exact Proofs.ExclusiveAbs.Inv_run. Qed.
Print Assumptions C09_invariant.

(* Mutation sensitivity, on the SAME transition function: if `resolve` also clears the successor's running flag, a
   waiter starts the next execution inside the resolve-to-return gap. *)
Theorem C09_clear_in_resolve_refuted :
  exists sched, v (run_gen Proofs.ExclusiveAbs.fl_clear (init 2 0) sched) overlap <> 0.
Proof. exact Proofs.ExclusiveAbs.clear_in_resolve_refuted. Qed.
Print Assumptions C09_clear_in_resolve_refuted.

(* Keys are independent.  In the product of two one-key models a step is a step of exactly one component (the shared
   Exclusive.mutex only guards short non-blocking map accesses, which are part of the step that makes them); each key
   then behaves exactly as the one-key model run on its own picks ... *)
Theorem C09_keys_independent : forall a1 b1 a2 b2 sched,
  let s := run2 (init2 a1 b1 a2 b2) sched in
  fst s = run (init a1 b1) (proj K1 sched) /\ snd s = run (init a2 b2) (proj K2 sched).
Proof. exact Proofs.ExclusiveKeys.keys_independent. Qed.
Print Assumptions C09_keys_independent.

(* ... and whatever the other key does or fails to do -- e.g. a work function that is never scheduled to resolve or
   return -- neither the enabledness nor the effect of any pick of this key changes: a long-running work function for
   one key delays no call for another key. *)
Theorem C09_other_key_never_interferes : forall (k : key) (s : st2) (sched : list pick2) (p : pick),
  (forall q, In q sched -> fst q <> k) ->
  comp k (run2 s sched) = comp k s /\
  step2 (run2 s sched) (k, p) =
    match step (comp k s) p with Some x => Some (put k x (run2 s sched)) | None => None end.
Proof. exact Proofs.ExclusiveKeys.other_key_never_interferes. Qed.
Print Assumptions C09_other_key_never_interferes.

Theorem C09_no_overlap_on_each_key : forall a1 b1 a2 b2 sched,
  let s := run2 (init2 a1 b1 a2 b2) sched in
  Proofs.ExclusiveAbs.Inv (fst s) /\ Proofs.ExclusiveAbs.Inv (snd s) /\
  v (fst s) overlap = 0 /\ v (snd s) overlap = 0.
Proof. exact Proofs.ExclusiveKeys.keys_invariant. Qed.
Print Assumptions C09_no_overlap_on_each_key.

(* the interesting cases occur: a call made in the resolve-to-return gap waits for the return and is served by the
   next execution; key K1 held for ever in RWork while a call on K2 is made, executed and answered *)
Example C09_gap_window_occurs :
  let s := run (init 2 0) Proofs.ExclusiveAbs.sched_gap_prefix in
  rp s = RWorkRes /\ tpc (tg s) = TGWM /\ v s answered = 1 /\ v s started = 1 /\ tcall (tg s) = 1.
Proof. exact Proofs.ExclusiveAbs.gap_call_attaches_to_successor. Qed.

Example C09_held_key_does_not_delay_other_key :
  let s := run2 (init2 1 0 1 0)
             [(K1, PB (PCall KC)); (K1, PB (PAttach KC false));
              (K2, PB (PCall KC)); (K2, PB (PAttach KC false)); (K2, PB PResolve); (K2, PB PReturn); (K2, PB PG3)] in
  rp (fst s) = RWork /\ v (fst s) answered = 0 /\
  terminalb (snd s) = true /\ v (snd s) answered = 1 /\ v (snd s) started = 1.
Proof. exact Proofs.ExclusiveKeys.held_key_does_not_delay_other_key. Qed.
