(* C09 — Exclusive: at most one work function per key at a time; keys are independent.
   Statements only; every proof is `exact` of a lemma of Proofs/ExclusiveAbs.v, ExclusiveKeys.v or ExclusiveKeysN.v,
   except the obligations over the lockset facts GENERATED from the current source (Gen/ImplLocksets.v), which are
   closed by computation as in Properties/C11.v.
   Model: counter abstraction of exclusive.go for one key (Model/ExclusiveAbs.v: any number of blocking/async and
   start-style calls, every interleaving of their critical sections with the runner's sleep / resolve / return /
   release steps), its two-key product (Model/ExclusiveKeys.v) and its product over ANY number of keys
   (Model/ExclusiveKeysN.v); Model/ExclusiveLocks.v: the checks on the map lock. *)
From Coq Require Import List Arith Bool.
From BB.Model Require Import ExclusiveAbs ExclusiveKeys ExclusiveKeysN.
From BB.Model Require Lockset ExclusiveLocks.
From BB.Proofs Require ExclusiveAbs ExclusiveKeys ExclusiveKeysN.
From BB.Gen Require ImplLocksets.
Import ListNotations.

(* `overlap` is set by `replace` (= ExecStart) iff `execa <> 0`, and `execa` is cleared by PReturn only: it stays 1
   through RWork AND RWorkRes (resolved but not yet returned).  So overlap = 0 in every reachable state says: for every
   number of calls of both styles and every schedule, no execution starts while the previous work function has not
   RETURNED -- having resolved is not enough. *)
Theorem C09_no_overlap : forall a b sched,
  let s := run (init a b) sched in
  v s overlap = 0 /\ v s started <= v s issuedc + v s issueds.
Proof. exact Proofs.ExclusiveAbs.no_overlap_execs_le_calls. Qed.
Print Assumptions C09_no_overlap.

(* Step form of the same: the step that starts an execution is taken from a state whose runner pc is RNone or RSleep
   (`idle`): never from RWork, RWorkRes (the resolve-to-return gap) or RDone (returned, successor's running flag not yet
   cleared), and with no work function active. *)
Theorem C09_exec_starts_only_after_previous_returned : forall a b sched p s',
  let s := run (init a b) sched in
  step s p = Some s' -> v s' started <> v s started ->
  v s' started = S (v s started) /\ v s execa = 0 /\ Proofs.ExclusiveKeys.idle (rp s) = true.
Proof. exact Proofs.ExclusiveKeys.exec_start_after_return. Qed.
Print Assumptions C09_exec_starts_only_after_previous_returned.

(* The full invariant (DESIGN.md A.6) behind it holds along every schedule. *)
Theorem C09_invariant : forall a b sched, Proofs.ExclusiveAbs.Inv (run (init a b) sched).
Proof. exact Proofs.ExclusiveAbs.Inv_run. Qed.
Print Assumptions C09_invariant.

(* Mutation sensitivity, on the SAME transition function: if `resolve` also clears the successor's running flag, a
   waiter starts the next execution inside the resolve-to-return gap. *)
Theorem C09_clear_in_resolve_refuted :
  exists sched, v (run_gen Proofs.ExclusiveAbs.fl_clear (init 2 0) sched) overlap <> 0.
Proof. exact Proofs.ExclusiveAbs.clear_in_resolve_refuted. Qed.
Print Assumptions C09_clear_in_resolve_refuted.

(* Keys are independent.  In the product of two one-key models a step is a step of exactly one component (the shared
   Exclusive.mutex only guards short non-blocking map accesses, which are part of the step that makes them); each key
   then behaves exactly as the one-key model run on its own picks ... *)
Theorem C09_keys_independent : forall a1 b1 a2 b2 sched,
  let s := run2 (init2 a1 b1 a2 b2) sched in
  fst s = run (init a1 b1) (proj K1 sched) /\ snd s = run (init a2 b2) (proj K2 sched).
Proof. exact Proofs.ExclusiveKeys.keys_independent. Qed.
Print Assumptions C09_keys_independent.

(* ... and whatever the other key does or fails to do -- e.g. a work function that is never scheduled to resolve or
   return -- neither the enabledness nor the effect of any pick of this key changes: a long-running work function for
   one key delays no call for another key. *)
Theorem C09_other_key_never_interferes : forall (k : key) (s : st2) (sched : list pick2) (p : pick),
  (forall q, In q sched -> fst q <> k) ->
  comp k (run2 s sched) = comp k s /\
  step2 (run2 s sched) (k, p) =
    match step (comp k s) p with Some x => Some (put k x (run2 s sched)) | None => None end.
Proof. exact Proofs.ExclusiveKeys.other_key_never_interferes. Qed.
Print Assumptions C09_other_key_never_interferes.

Theorem C09_no_overlap_on_each_key : forall a1 b1 a2 b2 sched,
  let s := run2 (init2 a1 b1 a2 b2) sched in
  Proofs.ExclusiveAbs.Inv (fst s) /\ Proofs.ExclusiveAbs.Inv (snd s) /\
  v (fst s) overlap = 0 /\ v (snd s) overlap = 0.
Proof. exact Proofs.ExclusiveKeys.keys_invariant. Qed.
Print Assumptions C09_no_overlap_on_each_key.

(* the interesting cases occur: a call made in the resolve-to-return gap waits for the return and is served by the
   next execution; key K1 held for ever in RWork while a call on K2 is made, executed and answered *)
Example C09_gap_window_occurs :
  let s := run (init 2 0) Proofs.ExclusiveAbs.sched_gap_prefix in
  rp s = RWorkRes /\ tpc (tg s) = TGWM /\ v s answered = 1 /\ v s started = 1 /\ tcall (tg s) = 1.
Proof. exact Proofs.ExclusiveAbs.gap_call_attaches_to_successor. Qed.

Example C09_held_key_does_not_delay_other_key :
  let s := run2 (init2 1 0 1 0)
             [(K1, PB (PCall KC)); (K1, PB (PAttach KC false));
              (K2, PB (PCall KC)); (K2, PB (PAttach KC false)); (K2, PB PResolve); (K2, PB PReturn); (K2, PB PG3)] in
  rp (fst s) = RWork /\ v (fst s) answered = 0 /\
  terminalb (snd s) = true /\ v (snd s) answered = 1 /\ v (snd s) started = 1.
Proof. exact Proofs.ExclusiveKeys.held_key_does_not_delay_other_key. Qed.

(* ================================================================================================================ *)
(* "for every number of keys": the product over a LIST of one-key models (key = index; cfg gives each key's numbers of
   blocking/async and start-style calls).  Each key behaves exactly as the one-key model run on its own picks ... *)
Theorem C09_keysN_independent : forall cfg sched k,
  nth_error (runN (initN cfg) sched) k
  = option_map (fun ab => run (init (fst ab) (snd ab)) (projN k sched)) (nth_error cfg k).
Proof. exact Proofs.ExclusiveKeysN.keysN_independent. Qed.
Print Assumptions C09_keysN_independent.

(* ... whatever the other keys do or fail to do (work functions that never resolve or return included), neither the state
   of key k nor the enabledness or effect of any of its picks changes ... *)
Theorem C09_other_keys_never_interfere : forall (k : nat) (s : stN) (sched : list pickN) (p : pick),
  (forall q, In q sched -> fst q <> k) ->
  nth_error (runN s sched) k = nth_error s k /\
  stepN (runN s sched) (k, p) =
    match nth_error s k with
    | Some c => match step c p with Some x => Some (putN k x (runN s sched)) | None => None end
    | None => None
    end.
Proof. exact Proofs.ExclusiveKeysN.other_keys_never_interfere. Qed.
Print Assumptions C09_other_keys_never_interfere.

(* ... and on every key of every product no two executions overlap *)
Theorem C09_no_overlap_on_every_key : forall cfg sched k c,
  nth_error (runN (initN cfg) sched) k = Some c ->
  Proofs.ExclusiveAbs.Inv c /\ v c overlap = 0 /\ v c started <= v c issuedc + v c issueds.
Proof. exact Proofs.ExclusiveKeysN.keysN_invariant. Qed.
Print Assumptions C09_no_overlap_on_every_key.

(* the two-key model above is the instance with two components *)
Theorem C09_two_key_model_is_an_instance : forall sched s,
  runN (Proofs.ExclusiveKeysN.pair_list s) (map (fun p => (Proofs.ExclusiveKeysN.idx (fst p), snd p)) sched)
  = Proofs.ExclusiveKeysN.pair_list (run2 s sched).
Proof. exact Proofs.ExclusiveKeysN.keys2_is_keysN. Qed.
Print Assumptions C09_two_key_model_is_an_instance.

(* ================================================================================================================ *)
(* The product models are products BY CONSTRUCTION; what makes them a model of exclusive.go is that the one object shared
   between keys, Exclusive.mutex (the map lock), is never held while a goroutine blocks.  The obligations below are over
   the lockset facts regenerated from the CURRENT source by harness/cmd/lockx (field accesses with the locks held);
   the checks are defined, and their exact scope and blind spots documented, in Model/ExclusiveLocks.v.  They fail to
   compile when, e.g., `item.mutex.Lock()` is moved inside an e.mutex critical section, the `for item.running` wait
   loop or `item.work(resolve)` is run under e.mutex (each was tried).  NOT covered (the translator does not record
   blocking operations as such): time.Sleep, channel operations, a cond.Wait outside a loop on running/complete. *)

(* (A) while the map lock is held: item.work is never read, item.running / item.complete are never read on a published
   item (no wait loop), and an item's mutex/cond field is touched only on a fresh item or with that item's own mutex
   already held (pointer copies into the successor), so it is never the target of a blocking Lock() *)
Theorem C09_impl_map_lock_sections_do_not_block :
  forallb Model.ExclusiveLocks.map_lock_section_ok Gen.ImplLocksets.impl_facts = true.
Proof. vm_compute; reflexivity. Qed.
Print Assumptions C09_impl_map_lock_sections_do_not_block.

(* (B) wherever a goroutine is about to Lock() an item's mutex (reads the field without holding it) it holds NO lock:
   a blocked Lock() on one key's item holds up neither the map nor another key's item *)
Theorem C09_impl_item_lock_acquired_with_nothing_held :
  forallb Model.ExclusiveLocks.item_lock_acquire_ok Gen.ImplLocksets.impl_facts = true.
Proof. vm_compute; reflexivity. Qed.
Print Assumptions C09_impl_item_lock_acquired_with_nothing_held.

(* (C) the work function is fetched for calling with no lock held at all; (D) the only locks the item protocol ever
   holds are the map lock and item mutexes *)
Theorem C09_impl_work_called_with_nothing_held :
  forallb Model.ExclusiveLocks.work_call_ok Gen.ImplLocksets.impl_facts = true /\
  forallb Model.ExclusiveLocks.only_known_locks Gen.ImplLocksets.impl_facts = true.
Proof. vm_compute; split; reflexivity. Qed.
Print Assumptions C09_impl_work_called_with_nothing_held.

(* the checks are not vacuous: there are accesses under the map lock, Lock() sites on item mutexes, a read of item.work,
   and cond accesses made holding only the item's own mutex *)
Example C09_impl_lock_facts_present :
  (1 <=? Model.ExclusiveLocks.count_facts Model.ExclusiveLocks.holds_map_lock Gen.ImplLocksets.impl_facts) = true /\
  (1 <=? Model.ExclusiveLocks.count_facts Model.ExclusiveLocks.item_lock_acquire Gen.ImplLocksets.impl_facts) = true /\
  (1 <=? Model.ExclusiveLocks.count_facts Model.ExclusiveLocks.reads_item_work Gen.ImplLocksets.impl_facts) = true /\
  (1 <=? Model.ExclusiveLocks.count_facts Model.ExclusiveLocks.cond_access_own_mutex_only Gen.ImplLocksets.impl_facts) = true.
Proof. vm_compute; auto. Qed.

(* three keys: key 0's work function is held for ever in RWork, key 1 is never used, a call on key 2 is made, executed
   and answered *)
Example C09_held_key_does_not_delay_third_key :
  let s := runN (initN ((1, 0) :: (0, 0) :: (1, 0) :: nil))
             ((0, PB (PCall KC)) :: (0, PB (PAttach KC false)) ::
              (2, PB (PCall KC)) :: (2, PB (PAttach KC false)) :: (2, PB PResolve) :: (2, PB PReturn) :: (2, PB PG3) :: nil) in
  option_map rp (nth_error s 0) = Some RWork /\
  option_map terminalb (nth_error s 2) = Some true /\ option_map (fun c => v c answered) (nth_error s 2) = Some 1.
Proof. exact Proofs.ExclusiveKeysN.held_key_does_not_delay_third_key. Qed.
