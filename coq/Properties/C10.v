(* C10 — Exclusive: every call is answered by an execution begun after it; none lost.
   Statements only; every proof is `exact` of a lemma of Proofs/ExclusiveAbs.v or Proofs/ExclusiveKeys.v.
   Model: Model/ExclusiveAbs.v, the counter abstraction of exclusive.go for one key with one individually tracked
   ("tagged") blocking/async call; `a` blocking/async and `b` start-style calls, every schedule. *)
From Coq Require Import List Arith Bool.
From BB.Model Require Import ExclusiveAbs.
From BB.Proofs Require ExclusiveAbs ExclusiveKeys.
Import ListNotations.

(* "it is the outcome of an execution for its key that began after the call was made, never a result computed earlier".
   tcall = number of ExecStart events before the tagged call's first step; texec = ordinal of the ExecStart (`replace`)
   that bound the item the call is attached to; tres = ordinal of the execution whose resolve completed that item.
   Which call is tagged is chosen by the schedule, so this holds for every blocking/async call. *)
Theorem C10_answered_after_call : forall a b sched,
  let s := run (init a b) sched in
  tpc (tg s) = TDone ->
  tag_started_after (tg s) = true /\ tcall (tg s) < texec (tg s) /\ tres (tg s) = texec (tg s) /\
  texec (tg s) <= v s started /\ tans (tg s) = 1.
Proof. exact Proofs.ExclusiveAbs.tagged_answered_after_call. Qed.
Print Assumptions C10_answered_after_call.

(* "exactly one outcome": never two for the tagged call ... *)
Theorem C10_at_most_one_outcome : forall a b sched,
  let s := run (init a b) sched in
  tans (tg s) <= 1 /\ (tans (tg s) = 1 <-> tpc (tg s) = TDone).
Proof. exact Proofs.ExclusiveAbs.tagged_answered_at_most_once. Qed.
Print Assumptions C10_at_most_one_outcome.

(* ... never more outcomes than calls in total ... *)
Theorem C10_answered_le_issued : forall a b sched,
  let s := run (init a b) sched in v s answered <= v s issuedc.
Proof. exact Proofs.ExclusiveAbs.answered_le_issued_run. Qed.
Print Assumptions C10_answered_le_issued.

(* ... and when nothing can move any more EVERY blocking/async call has its outcome (answered = issuedc), no goroutine
   and no call is left anywhere (in_flight = 0), the tagged call is settled, and no per-key state remains (mm = 0: the key
   is not in the map; mcount = 0).  This includes work functions that return without resolving: PReturn from RWork
   performs the forced resolve(nil, errResolveNotCalled), so "instead of a hang". *)
Theorem C10_terminal_all_answered_no_residue : forall a b sched,
  let s := run (init a b) sched in
  terminalb s = true ->
  rp s = RNone /\ v s mm = 0 /\ v s answered = v s issuedc /\ Proofs.ExclusiveAbs.in_flight (v s) = 0 /\
  v s mcount = 0 /\ (tpc (tg s) = TNone \/ tpc (tg s) = TDone).
Proof. exact Proofs.ExclusiveAbs.terminalb_all_answered_no_residue. Qed.
Print Assumptions C10_terminal_all_answered_no_residue.

(* the same for ANY state satisfying the invariant, with "terminal" spelled out *)
Theorem C10_terminal_state_characterisation : forall s,
  Proofs.ExclusiveAbs.Inv s -> (forall p, step s p = None) ->
  rp s = RNone /\ v s mm = 0 /\ v s answered = v s issuedc /\ Proofs.ExclusiveAbs.in_flight (v s) = 0 /\ v s mcount = 0.
Proof. exact Proofs.ExclusiveAbs.terminal_all_answered_no_residue. Qed.
Print Assumptions C10_terminal_state_characterisation.

(* Terminal states are reached: every step decreases a well-founded measure (stale-reference retries are bounded), and
   from every state some schedule leads to a terminal state. *)
Theorem C10_every_run_terminates : well_founded (fun s' s => exists p, step s p = Some s').
Proof. exact Proofs.ExclusiveAbs.step_terminates. Qed.
Print Assumptions C10_every_run_terminates.

Theorem C10_terminal_reachable : forall s, exists sched, terminalb (run s sched) = true.
Proof. exact Proofs.ExclusiveKeys.terminal_reachable. Qed.
Print Assumptions C10_terminal_reachable.

(* "Every Start/StartAfter is likewise followed by an execution that begins after it": for a call of EITHER style k
   (KS = start style, escaping or not), the number of ExecStart events strictly grows between the state in which the
   call takes its first step and any terminal state reached afterwards ... *)
Theorem C10_start_followed : forall a b sched1 k p s' sched2,
  let s := run (init a b) sched1 in
  untag p = PCall k -> step s p = Some s' -> terminalb (run s' sched2) = true ->
  v s started < v (run s' sched2) started.
Proof. exact Proofs.ExclusiveKeys.call_followed_by_exec. Qed.
Print Assumptions C10_start_followed.

(* ... and even between its attach step (where a start-style call takes the escape hatch) and the end *)
Theorem C10_attach_followed : forall a b sched1 k sl p s' sched2,
  let s := run (init a b) sched1 in
  untag p = PAttach k sl -> step s p = Some s' -> terminalb (run s' sched2) = true ->
  v s started < v (run s' sched2) started.
Proof. exact Proofs.ExclusiveKeys.attach_followed_by_exec. Qed.
Print Assumptions C10_attach_followed.

(* "Executions never outnumber calls" (second conjunct), in every reachable state; and a finished run that made any
   call executed something.  These are the inequalities the checker adapter `exclusive_ineq` evaluates on the counts
   observed on the implementation. *)
Theorem C10_execs_le_calls : forall a b sched,
  let s := run (init a b) sched in
  v s overlap = 0 /\ v s started <= v s issuedc + v s issueds.
Proof. exact Proofs.ExclusiveAbs.no_overlap_execs_le_calls. Qed.
Print Assumptions C10_execs_le_calls.

Theorem C10_terminal_calls_imply_exec : forall a b sched,
  let s := run (init a b) sched in
  terminalb s = true -> v s issuedc + v s issueds >= 1 -> v s started >= 1.
Proof. exact Proofs.ExclusiveKeys.terminal_calls_imply_exec. Qed.
Print Assumptions C10_terminal_calls_imply_exec.

(* "callers coalesced into one execution receive the identical result and error, the executed function was supplied by
   one of them".  FULL STATEMENT (not expressible in the counter abstraction, which has no result values or function
   identities): in every history, for every execution x of key k, all calls whose outcome was produced by x carry
   the same (result, error) pair, namely the pair x resolved with, and the function run by x was passed by a call of key
   k that attached to x's item.  What the model proves is the part visible to the tagged call: the execution whose
   resolve completed its item (tres) IS the execution its item was bound to at ExecStart (texec) -- the result it copies
   is that execution's and no other's.  The identity clauses are decided on the implementation by the harness monitors
   (C09K1/C09K2/C09S: `coalesced-differ`, `outcome-not-resolved-value`, `fn-supplier`). *)
Theorem C10_coalesced_identical_partial : forall a b sched,
  let s := run (init a b) sched in
  tpc (tg s) = TDone ->
  tag_started_after (tg s) = true /\ tcall (tg s) < texec (tg s) /\ tres (tg s) = texec (tg s) /\
  texec (tg s) <= v s started /\ tans (tg s) = 1.
Proof. exact Proofs.ExclusiveAbs.tagged_answered_after_call. Qed.
Print Assumptions C10_coalesced_identical_partial.

(* Mutation sensitivity, on the SAME transition function. *)
Theorem C10_no_forced_resolve_refuted :
  exists sched, let s := run_gen Proofs.ExclusiveAbs.fl_noforce (init 1 0) sched in
    terminalb_gen Proofs.ExclusiveAbs.fl_noforce s = true /\ v s answered < v s issuedc.
Proof. exact Proofs.ExclusiveAbs.no_forced_resolve_refuted. Qed.
Print Assumptions C10_no_forced_resolve_refuted.

Theorem C10_escape_always_refuted :
  exists sched, let s := run_gen Proofs.ExclusiveAbs.fl_escape (init 0 1) sched in
    terminalb_gen Proofs.ExclusiveAbs.fl_escape s = true /\ v s mm <> 0 /\ v s issueds = 1 /\ v s started = 0.
Proof. exact Proofs.ExclusiveAbs.escape_always_refuted. Qed.
Print Assumptions C10_escape_always_refuted.

(* the interesting cases occur *)
Example C10_gap_call_answered_by_later_execution :
  let s := run (init 2 0) Proofs.ExclusiveAbs.sched_gap in
  terminalb s = true /\ tpc (tg s) = TDone /\ tcall (tg s) = 1 /\ texec (tg s) = 2 /\ tres (tg s) = 2 /\
  v s started = 2 /\ v s answered = 2 /\ v s overlap = 0.
Proof. exact Proofs.ExclusiveAbs.gap_call_answered_by_later_execution. Qed.

Example C10_sleep_call_coalesced :
  let s := run (init 2 0) Proofs.ExclusiveAbs.sched_sleep in
  terminalb s = true /\ tpc (tg s) = TDone /\ tcall (tg s) = 0 /\ texec (tg s) = 1 /\
  v s started = 1 /\ v s answered = 2.
Proof. exact Proofs.ExclusiveAbs.sleep_call_coalesced. Qed.

Example C10_start_escapes_and_is_followed :
  let s := run (init 1 1) [PB (PCall KC); PB (PAttach KC true)] in
  let s' := run s [PB (PCall KS)] in
  let t := run s' [PB (PAttach KS false); PB PSleepDone; PB PResolve; PB PReturn; PB PG3] in
  v s' issueds = 1 /\ terminalb t = true /\ v t escaped = 1 /\ v s started = 0 /\ v t started = 1.
Proof. exact Proofs.ExclusiveKeys.call_followed_hyps_satisfiable. Qed.
