(* C10 — Exclusive: every call is answered by an execution begun after it; none lost.
   Statements only; every proof is `exact` of a lemma of Proofs/ExclusiveAbs.v, ExclusiveKeys.v, ExclusiveVal.v or
   ExclusiveValRes.v.
   Models: Model/ExclusiveAbs.v, the counter abstraction of exclusive.go for one key with one individually tracked
   ("tagged") blocking/async call; `a` blocking/async and `b` start-style calls, every schedule.
   Model/ExclusiveVal.v (second half of this file): the SAME counter protocol (`cstep`) with k individually tracked
   calls in one history, result values, and the identity of the stored work function. *)
From Coq Require Import List Arith Bool.
From BB.Model Require Import ExclusiveAbs ExclusiveVal.
From BB.Proofs Require ExclusiveAbs ExclusiveKeys ExclusiveVal ExclusiveValRes.
Import ListNotations.

(* "it is the outcome of an execution for its key that began after the call was made, never a result computed earlier".
   tcall = number of ExecStart events before the tagged call's first step; texec = ordinal of the ExecStart (`replace`)
   that bound the item the call is attached to; tres = ordinal of the execution whose resolve completed that item.
   Which call is tagged is chosen by the schedule, so this holds for every blocking/async call. *)
Theorem C10_answered_after_call : forall a b sched,
  let s := run (init a b) sched in
  tpc (tg s) = TDone ->
  tag_started_after (tg s) = true /\ tcall (tg s) < texec (tg s) /\ tres (tg s) = texec (tg s) /\
  texec (tg s) <= v s started /\ tans (tg s) = 1.
Proof. exact Proofs.ExclusiveAbs.tagged_answered_after_call. Qed.
Print Assumptions C10_answered_after_call.

(* "exactly one outcome": never two for the tagged call ... *)
Theorem C10_at_most_one_outcome : forall a b sched,
  let s := run (init a b) sched in
  tans (tg s) <= 1 /\ (tans (tg s) = 1 <-> tpc (tg s) = TDone).
Proof. exact Proofs.ExclusiveAbs.tagged_answered_at_most_once. Qed.
Print Assumptions C10_at_most_one_outcome.

(* ... never more outcomes than calls in total ... *)
Theorem C10_answered_le_issued : forall a b sched,
  let s := run (init a b) sched in v s answered <= v s issuedc.
Proof. exact Proofs.ExclusiveAbs.answered_le_issued_run. Qed.
Print Assumptions C10_answered_le_issued.

(* ... and when nothing can move any more EVERY blocking/async call has its outcome (answered = issuedc), no goroutine
   and no call is left anywhere (in_flight = 0), the tagged call is settled, and no per-key state remains (mm = 0: the key
   is not in the map; mcount = 0).  This includes work functions that return without resolving: PReturn from RWork
   performs the forced resolve(nil, errResolveNotCalled), so "instead of a hang". *)
Theorem C10_terminal_all_answered_no_residue : forall a b sched,
  let s := run (init a b) sched in
  terminalb s = true ->
  rp s = RNone /\ v s mm = 0 /\ v s answered = v s issuedc /\ Proofs.ExclusiveAbs.in_flight (v s) = 0 /\
  v s mcount = 0 /\ (tpc (tg s) = TNone \/ tpc (tg s) = TDone).
Proof. exact Proofs.ExclusiveAbs.terminalb_all_answered_no_residue. Qed.
Print Assumptions C10_terminal_all_answered_no_residue.

(* the same for ANY state satisfying the invariant, with "terminal" spelled out *)
Theorem C10_terminal_state_characterisation : forall s,
  Proofs.ExclusiveAbs.Inv s -> (forall p, step s p = None) ->
  rp s = RNone /\ v s mm = 0 /\ v s answered = v s issuedc /\ Proofs.ExclusiveAbs.in_flight (v s) = 0 /\ v s mcount = 0.
Proof. exact Proofs.ExclusiveAbs.terminal_all_answered_no_residue. Qed.
Print Assumptions C10_terminal_state_characterisation.

(* Terminal states are reached: every step decreases a well-founded measure (stale-reference retries are bounded), and
   from every state some schedule leads to a terminal state. *)
Theorem C10_every_run_terminates : well_founded (fun s' s => exists p, step s p = Some s').
Proof. exact Proofs.ExclusiveAbs.step_terminates. Qed.
Print Assumptions C10_every_run_terminates.

Theorem C10_terminal_reachable : forall s, exists sched, terminalb (run s sched) = true.
Proof. exact Proofs.ExclusiveKeys.terminal_reachable. Qed.
Print Assumptions C10_terminal_reachable.

(* "Every Start/StartAfter is likewise followed by an execution that begins after it": for a call of EITHER style k
   (KS = start style, escaping or not), the number of ExecStart events strictly grows between the state in which the
   call takes its first step and any terminal state reached afterwards ... *)
Theorem C10_start_followed : forall a b sched1 k p s' sched2,
  let s := run (init a b) sched1 in
  untag p = PCall k -> step s p = Some s' -> terminalb (run s' sched2) = true ->
  v s started < v (run s' sched2) started.
Proof. exact Proofs.ExclusiveKeys.call_followed_by_exec. Qed.
Print Assumptions C10_start_followed.

(* ... and even between its attach step (where a start-style call takes the escape hatch) and the end *)
Theorem C10_attach_followed : forall a b sched1 k sl p s' sched2,
  let s := run (init a b) sched1 in
  untag p = PAttach k sl -> step s p = Some s' -> terminalb (run s' sched2) = true ->
  v s started < v (run s' sched2) started.
Proof. exact Proofs.ExclusiveKeys.attach_followed_by_exec. Qed.
Print Assumptions C10_attach_followed.

(* "Executions never outnumber calls" (second conjunct), in every reachable state; and a finished run that made any
   call executed something.  These are the inequalities the checker adapter `exclusive_ineq` evaluates on the counts
   observed on the implementation. *)
Theorem C10_execs_le_calls : forall a b sched,
  let s := run (init a b) sched in
  v s overlap = 0 /\ v s started <= v s issuedc + v s issueds.
Proof. exact Proofs.ExclusiveAbs.no_overlap_execs_le_calls. Qed.
Print Assumptions C10_execs_le_calls.

Theorem C10_terminal_calls_imply_exec : forall a b sched,
  let s := run (init a b) sched in
  terminalb s = true -> v s issuedc + v s issueds >= 1 -> v s started >= 1.
Proof. exact Proofs.ExclusiveKeys.terminal_calls_imply_exec. Qed.
Print Assumptions C10_terminal_calls_imply_exec.

(* Mutation sensitivity, on the SAME transition function. *)
Theorem C10_no_forced_resolve_refuted :
  exists sched, let s := run_gen Proofs.ExclusiveAbs.fl_noforce (init 1 0) sched in
    terminalb_gen Proofs.ExclusiveAbs.fl_noforce s = true /\ v s answered < v s issuedc.
Proof. exact Proofs.ExclusiveAbs.no_forced_resolve_refuted. Qed.
Print Assumptions C10_no_forced_resolve_refuted.

Theorem C10_escape_always_refuted :
  exists sched, let s := run_gen Proofs.ExclusiveAbs.fl_escape (init 0 1) sched in
    terminalb_gen Proofs.ExclusiveAbs.fl_escape s = true /\ v s mm <> 0 /\ v s issueds = 1 /\ v s started = 0.
Proof. exact Proofs.ExclusiveAbs.escape_always_refuted. Qed.
Print Assumptions C10_escape_always_refuted.

(* the interesting cases occur *)
Example C10_gap_call_answered_by_later_execution :
  let s := run (init 2 0) Proofs.ExclusiveAbs.sched_gap in
  terminalb s = true /\ tpc (tg s) = TDone /\ tcall (tg s) = 1 /\ texec (tg s) = 2 /\ tres (tg s) = 2 /\
  v s started = 2 /\ v s answered = 2 /\ v s overlap = 0.
Proof. exact Proofs.ExclusiveAbs.gap_call_answered_by_later_execution. Qed.

Example C10_sleep_call_coalesced :
  let s := run (init 2 0) Proofs.ExclusiveAbs.sched_sleep in
  terminalb s = true /\ tpc (tg s) = TDone /\ tcall (tg s) = 0 /\ texec (tg s) = 1 /\
  v s started = 1 /\ v s answered = 2.
Proof. exact Proofs.ExclusiveAbs.sleep_call_coalesced. Qed.

Example C10_start_escapes_and_is_followed :
  let s := run (init 1 1) [PB (PCall KC); PB (PAttach KC true)] in
  let s' := run s [PB (PCall KS)] in
  let t := run s' [PB (PAttach KS false); PB PSleepDone; PB PResolve; PB PReturn; PB PG3] in
  v s' issueds = 1 /\ terminalb t = true /\ v t escaped = 1 /\ v s started = 0 /\ v t started = 1.
Proof. exact Proofs.ExclusiveKeys.call_followed_hyps_satisfiable. Qed.

(* ================================================================================================================ *)
(* Values, coalescing, the executed function (Model/ExclusiveVal.v).  k tracked calls: `tags s` is their list, call i
   is `nth_error (tags s) i`; `bt t` is the tag bookkeeping of Model/ExclusiveAbs.v (moved by the same tag_pre/tag_eff),
   `tgot t` the outcome received, `tatt t` the number of its attach event; `elog s n` is the item executed by execution n
   (e_res = its result/err, e_fn = the attach whose function it ran, (e_lo, e_hi] = the attaches made to it).          *)

(* "it is the outcome of an execution for its key that began after the call was made, never a result computed earlier",
   WITH VALUES: an answered tracked call holds exactly one outcome o; o is what the resolve of execution number
   o_exec o stored in its item; that execution is the one the call's item was bound to at ExecStart and completed by;
   and it started after the call was issued (tcall = ExecStarts before the call's first step). *)
Theorem C10_value_from_later_execution : forall a b k sched i t,
  let s := vrun (vinit a b k) sched in
  nth_error (tags s) i = Some t -> tpc (bt t) = TDone ->
  exists o, tgot t = Some o /\ e_res (elog s (o_exec o)) = Some o /\
            o_exec o = texec (bt t) /\ tres (bt t) = texec (bt t) /\
            tcall (bt t) < o_exec o <= vf s started /\ tans (bt t) = 1.
Proof. exact Proofs.ExclusiveValRes.tracked_value_from_later_execution. Qed.
Print Assumptions C10_value_from_later_execution.

(* "exactly one outcome", with values: a call that is not yet answered holds nothing *)
Theorem C10_unanswered_has_nothing : forall a b k sched i t,
  let s := vrun (vinit a b k) sched in
  nth_error (tags s) i = Some t -> tpc (bt t) <> TDone -> tgot t = None /\ tans (bt t) = 0.
Proof. exact Proofs.ExclusiveValRes.tracked_unanswered_has_nothing. Qed.
Print Assumptions C10_unanswered_has_nothing.

(* "callers coalesced into one execution receive the identical result and error": any two answered calls of the SAME
   history whose items were completed by the same resolution (tres) hold the same outcome.  With k = a every
   blocking/async call of the history is tracked. *)
Theorem C10_coalesced_identical : forall a b k sched i j ti tj,
  let s := vrun (vinit a b k) sched in
  nth_error (tags s) i = Some ti -> nth_error (tags s) j = Some tj ->
  tpc (bt ti) = TDone -> tpc (bt tj) = TDone -> tres (bt ti) = tres (bt tj) ->
  tgot ti = tgot tj /\ tgot ti <> None.
Proof. exact Proofs.ExclusiveValRes.coalesced_identical. Qed.
Print Assumptions C10_coalesced_identical.

(* the former name of this clause (it used to restate C10_answered_after_call); now the statement above *)
Theorem C10_coalesced_identical_partial : forall a b k sched i j ti tj,
  let s := vrun (vinit a b k) sched in
  nth_error (tags s) i = Some ti -> nth_error (tags s) j = Some tj ->
  tpc (bt ti) = TDone -> tpc (bt tj) = TDone -> tres (bt ti) = tres (bt tj) ->
  tgot ti = tgot tj /\ tgot ti <> None.
Proof. exact Proofs.ExclusiveValRes.coalesced_identical. Qed.
Print Assumptions C10_coalesced_identical_partial.

(* and only those: calls answered by different executions hold differently stamped outcomes (no result is reused) *)
Theorem C10_different_executions_different_outcomes : forall a b k sched i j ti tj,
  let s := vrun (vinit a b k) sched in
  nth_error (tags s) i = Some ti -> nth_error (tags s) j = Some tj ->
  tpc (bt ti) = TDone -> tpc (bt tj) = TDone -> tres (bt ti) <> tres (bt tj) -> tgot ti <> tgot tj.
Proof. exact Proofs.ExclusiveValRes.different_executions_different_outcomes. Qed.
Print Assumptions C10_different_executions_different_outcomes.

(* "the executed function was supplied by one of them".  Every attaching caller overwrites item.work (exclusive.go:196,
   also a start-style caller that then escapes), so: execution n ran the function stored by attach number e_fn, that
   attach is one of the attaches (e_lo, e_hi] made to the executed item -- the LAST one -- and the batches of
   consecutive executions are adjacent (no attach belongs to two items or to none). *)
Theorem C10_executed_fn_supplied_by_own_batch : forall a b k sched n,
  let s := vrun (vinit a b k) sched in
  1 <= n <= vf s started ->
  e_lo (elog s n) < e_fn (elog s n) <= e_hi (elog s n) /\ e_fn (elog s n) = e_hi (elog s n) /\
  e_lo (elog s n) = e_hi (elog s (n - 1)).
Proof. exact Proofs.ExclusiveValRes.executed_fn_supplied_by_own_batch. Qed.
Print Assumptions C10_executed_fn_supplied_by_own_batch.

(* a tracked call bound to execution n = texec (waiting for it, answered by it, or running it) made its attach to the
   very item n executes (after ExecStart n-1 and not after ExecStart n); if it was the last attacher before the execution
   started, ITS function is the one that ran *)
Theorem C10_tracked_attach_in_own_batch : forall a b k sched i t,
  let s := vrun (vinit a b k) sched in
  nth_error (tags s) i = Some t ->
  Proofs.ExclusiveValRes.bound_pc (tpc (bt t)) = true \/ (tpc (bt t) = TRun /\ vrp s = RWork) ->
  let n := texec (bt t) in
  1 <= n <= vf s started /\ tcall (bt t) < n /\
  e_lo (elog s n) < tatt t <= e_hi (elog s n) /\
  (tatt t = e_hi (elog s n) -> e_fn (elog s n) = tatt t).
Proof. exact Proofs.ExclusiveValRes.tracked_attach_in_own_batch. Qed.
Print Assumptions C10_tracked_attach_in_own_batch.

(* conversely: a tracked call whose attach stored the function run by execution n is coalesced into n, not into any other *)
Theorem C10_fn_supplier_is_coalesced : forall a b k sched i t n,
  let s := vrun (vinit a b k) sched in
  nth_error (tags s) i = Some t -> Proofs.ExclusiveValRes.bound_pc (tpc (bt t)) = true ->
  1 <= n <= vf s started -> tatt t = e_fn (elog s n) -> texec (bt t) = n.
Proof. exact Proofs.ExclusiveValRes.fn_supplier_is_coalesced. Qed.
Print Assumptions C10_fn_supplier_is_coalesced.

(* "a work function that returns without resolving yields the resolve-not-called error instead of a hang".  Step form:
   PReturn from RWork (returned, never resolved) stores (nil, errResolveNotCalled) in the item; PResolve stores the
   value it was given ... *)
Theorem C10_return_without_resolve_stores_error : forall s x s',
  vrp s = RWork -> vstep s (VB PReturn x) = Some s' ->
  vf s' started = vf s started /\
  e_res (elog s' (vf s started)) = Some {| o_exec := vf s started; o_val := ErrResolveNotCalled |} /\
  e_forced (elog s' (vf s started)) = true.
Proof. exact Proofs.ExclusiveValRes.return_without_resolve_stores_error. Qed.
Print Assumptions C10_return_without_resolve_stores_error.

Theorem C10_resolve_stores_value : forall s x s',
  vstep s (VB PResolve x) = Some s' ->
  vrp s = RWork /\ vf s' started = vf s started /\
  e_res (elog s' (vf s started)) = Some {| o_exec := vf s started; o_val := Val x |} /\
  e_forced (elog s' (vf s started)) = false.
Proof. exact Proofs.ExclusiveValRes.resolve_stores_value. Qed.
Print Assumptions C10_resolve_stores_value.

(* ... every finished execution has exactly such an outcome, the error iff it was forced ... *)
Theorem C10_finished_execution_outcome : forall a b k sched n,
  let s := vrun (vinit a b k) sched in
  1 <= n <= vf s started -> n < vf s started \/ vrp s <> RWork ->
  exists o, e_res (elog s n) = Some o /\ o_exec o = n /\
            (e_forced (elog s n) = true <-> o_val o = ErrResolveNotCalled).
Proof. exact Proofs.ExclusiveValRes.finished_execution_outcome. Qed.
Print Assumptions C10_finished_execution_outcome.

(* ... and EVERY caller coalesced into an execution that returned without resolving receives that error (and a caller
   of a resolved execution receives a value, never the error) *)
Theorem C10_unresolved_work_yields_error : forall a b k sched i t,
  let s := vrun (vinit a b k) sched in
  nth_error (tags s) i = Some t -> tpc (bt t) = TDone ->
  (e_forced (elog s (texec (bt t))) = true ->
     tgot t = Some {| o_exec := texec (bt t); o_val := ErrResolveNotCalled |}) /\
  (e_forced (elog s (texec (bt t))) = false ->
     exists x, tgot t = Some {| o_exec := texec (bt t); o_val := Val x |}).
Proof. exact Proofs.ExclusiveValRes.unresolved_work_yields_error. Qed.
Print Assumptions C10_unresolved_work_yields_error.

(* none lost, for every tracked call at once: when nothing can move any more every tracked call that was made holds
   its outcome, and no per-key state remains *)
Theorem C10_all_tracked_settled : forall a b k sched,
  let s := vrun (vinit a b k) sched in
  vterminalb s = true ->
  vrp s = RNone /\ vf s mm = 0 /\ vf s answered = vf s issuedc /\ Proofs.ExclusiveAbs.in_flight (vf s) = 0 /\
  vf s mcount = 0 /\
  forall i t, nth_error (tags s) i = Some t ->
    (tpc (bt t) = TNone /\ tgot t = None) \/ (tpc (bt t) = TDone /\ tgot t <> None).
Proof. exact Proofs.ExclusiveValRes.vterminal_all_settled. Qed.
Print Assumptions C10_all_tracked_settled.

(* "Which call is tagged is immaterial", as theorems instead of a meta-argument.  (1) In a history with k tracked calls,
   what tracked call i sees (`view`: runner pc, counters, ITS tag) is a reachable state of the one-tag model in which i
   is the tagged call: every theorem above about `run (init a b) sched` holds of every tracked call of one history. *)
Theorem C10_tracked_call_is_the_tagged_call : forall a b k sched i, i < k ->
  exists sched1 t, nth_error (tags (vrun (vinit a b k) sched)) i = Some t /\
                   Proofs.ExclusiveVal.view (vrun (vinit a b k) sched) t = run (init a b) sched1.
Proof. exact Proofs.ExclusiveVal.tracked_call_is_the_tagged_call. Qed.
Print Assumptions C10_tracked_call_is_the_tagged_call.

(* (2) nothing was lost: every run of the one-tag model is the view of the single tracked call of a run with k = 1 *)
Theorem C10_one_tag_model_is_one_tracked_call : forall a b sched,
  exists vsched t, tags (vrun (vinit a b 1) vsched) = [t] /\
                   Proofs.ExclusiveVal.view (vrun (vinit a b 1) vsched) t = run (init a b) sched.
Proof. exact Proofs.ExclusiveVal.one_tag_model_is_one_tracked_call. Qed.
Print Assumptions C10_one_tag_model_is_one_tracked_call.

(* (3) renaming: with two tracked calls, exchanging their names (swap2: the two list entries; swap2p: VT 0 <-> VT 1)
   commutes with the transition function, for every variant of it *)
Theorem C10_renaming_tracked_calls : forall fl cur s p,
  length (tags s) = 2 ->
  vstep_gen fl cur (Proofs.ExclusiveVal.swap2 s) (Proofs.ExclusiveVal.swap2p p)
  = option_map Proofs.ExclusiveVal.swap2 (vstep_gen fl cur s p).
Proof. exact Proofs.ExclusiveVal.vstep_swap2. Qed.
Print Assumptions C10_renaming_tracked_calls.

(* the invariants behind the above hold along every schedule *)
Theorem C10_value_invariants : forall a b k sched,
  Proofs.ExclusiveVal.VInv (vrun (vinit a b k) sched) /\ Proofs.ExclusiveValRes.RInv (vrun (vinit a b k) sched).
Proof. exact Proofs.ExclusiveValRes.VRInv_run. Qed.
Print Assumptions C10_value_invariants.

(* Mutation sensitivity, on the SAME transition function (defect switch `cur`): a waiter that copied the result of the
   LATEST execution instead of its own item's would break C10_coalesced_identical. *)
Theorem C10_copy_latest_refuted :
  exists sched ti tj, let s := vrun_gen good true (vinit 4 0 2) sched in
    nth_error (tags s) 0 = Some ti /\ nth_error (tags s) 1 = Some tj /\
    tpc (bt ti) = TDone /\ tpc (bt tj) = TDone /\ tres (bt ti) = tres (bt tj) /\ tgot ti <> tgot tj.
Proof. exact Proofs.ExclusiveValRes.copy_latest_refuted. Qed.
Print Assumptions C10_copy_latest_refuted.

(* the interesting cases occur (and the hypotheses above are satisfiable): three calls coalesced by a CallAfter wait all
   receive (execution 1, Val 7) and the function run is the last attacher's (attach 3); a work function that never
   resolves gives the error to both coalesced calls; a call made in the resolve-to-return gap of execution 1 (value 7)
   receives execution 2's value 9 *)
Example C10_coalesced_calls_share_value_and_last_attacher_supplies_fn :
  let s := vrun (vinit 3 0 2) Proofs.ExclusiveValRes.vs_coalesce in
  Proofs.ExclusiveValRes.obs s =
    (RNone, [(TDone, 0, 1, 2, Some {| o_exec := 1; o_val := Val 7 |});
             (TDone, 0, 1, 3, Some {| o_exec := 1; o_val := Val 7 |})], 1) /\
  (e_lo (elog s 1), e_hi (elog s 1), e_fn (elog s 1)) = (0, 3, 3) /\ vterminalb s = true.
Proof. exact Proofs.ExclusiveValRes.coalesced_calls_share_value_and_last_attacher_supplies_fn. Qed.

Example C10_unresolved_work_error_to_all :
  let s := vrun (vinit 2 0 2) Proofs.ExclusiveValRes.vs_unresolved in
  map tgot (tags s) = [Some {| o_exec := 1; o_val := ErrResolveNotCalled |};
                       Some {| o_exec := 1; o_val := ErrResolveNotCalled |}] /\
  e_forced (elog s 1) = true /\ vterminalb s = true.
Proof. exact Proofs.ExclusiveValRes.unresolved_work_error_to_all. Qed.

Example C10_gap_call_gets_later_value :
  let s := vrun (vinit 2 0 1) Proofs.ExclusiveValRes.vs_gap in
  Proofs.ExclusiveValRes.obs s = (RNone, [(TDone, 1, 2, 2, Some {| o_exec := 2; o_val := Val 9 |})], 2) /\
  e_res (elog s 1) = Some {| o_exec := 1; o_val := Val 7 |} /\ vterminalb s = true.
Proof. exact Proofs.ExclusiveValRes.gap_call_gets_later_value. Qed.
