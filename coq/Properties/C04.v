(* C04 — Buffer reclamation: fully consumed prefixes are freed without further activity.
   Model: Model/CleanerProto.v — the cleaner goroutine's WaitCond loop, its cooldown timer goroutine and any number of
   external state changes, one step per lock/cond operation (sync.Cond modelled with its notify list, so a broadcast
   issued without the lock can be lost). [fixed = true] is the protocol of the current tree (timer goroutine takes
   Buffer.mutex before re-broadcasting); [fixed = false] is the protocol before commit 989b0cf. Statements only. *)
From Coq Require Import List Bool Arith.
From BB.Model Require Import CleanerProto.
From BB.Proofs Require CleanerProto.
Import ListNotations.

(* In every reachable state where nothing can move any more (timers included), no change is left unseen by the cleaner:
   for any number n of external changes, cooldown zero or positive, every schedule. *)
Theorem C04_quiescent_is_clean : forall cd n d sched,
  let s := run true cd (init n d) sched in
  is_terminal true cd s = true -> dirty s = false.
Proof. exact Proofs.CleanerProto.quiescent_is_clean. Qed.
Print Assumptions C04_quiescent_is_clean.

(* and such a state is always reached: every schedule can be extended to a terminal one, and the number of moves is bounded *)
Theorem C04_terminates : forall cd n d pre,
  exists post, is_terminal true cd (run true cd (init n d) (pre ++ post)) = true.
Proof. exact Proofs.CleanerProto.terminates. Qed.
Print Assumptions C04_terminates.

(* bounded delay, counted in timer firings: after the last external change at most two cooldown timers fire *)
Theorem C04_bounded_timer_firings : forall cd n d pre post,
  let s := run true cd (init n d) pre in
  chg s = 0 -> fires true cd s post <= 2.
Proof. exact Proofs.CleanerProto.bounded_timer_firings. Qed.
Print Assumptions C04_bounded_timer_firings.

(* The protocol as it was before the repair violates the property (finding F3): a schedule ends in a terminal state with
   a change never seen by the cleaner — the timer's re-broadcast lands between the cleaner recording the flag and parking. *)
Theorem C04_unlocked_rebroadcast_refuted :
  exists sched, let s := run false true (init 1 false) sched in
  is_terminal false true s = true /\ dirty s = true.
Proof. exact Proofs.CleanerProto.C04_unlocked_rebroadcast_refuted. Qed.
Print Assumptions C04_unlocked_rebroadcast_refuted.
