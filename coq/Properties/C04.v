(* C04 — Buffer reclamation: fully consumed prefixes are freed without further activity.
   Model: Model/CleanerProto.v — the cleaner goroutine's WaitCond loop, its cooldown timer goroutine and any number of
   external state changes, one step per lock/cond operation (sync.Cond modelled with its notify list, so a broadcast
   issued without the lock can be lost). [fixed = true] is the protocol of the current tree (timer goroutine takes
   Buffer.mutex before re-broadcasting); [fixed = false] is the protocol before commit 989b0cf. Statements only. *)
From Coq Require Import List Bool Arith.
From Coq Require Import ZArith.
From BB.Model Require Import CleanerProto.
From BB.Model Require Cleaner Buffer.
From BB.Model Require GoFrag.
From BB.Gen Require ImplCleaners.
From BB.Proofs Require CleanerProto Buffer BufferClean CleanerGen.
Import ListNotations.

(* In every reachable state where nothing can move any more (timers included), no change is left unseen by the cleaner:
   for any number n of external changes, cooldown zero or positive, every schedule. *)
Theorem C04_quiescent_is_clean : forall cd n d sched,
  let s := run true cd (init n d) sched in
  is_terminal true cd s = true -> dirty s = false.
Proof. exact Proofs.CleanerProto.quiescent_is_clean. Qed.
Print Assumptions C04_quiescent_is_clean.

(* and such a state is always reached: every schedule can be extended to a terminal one, and the number of moves is bounded *)
Theorem C04_terminates : forall cd n d pre,
  exists post, is_terminal true cd (run true cd (init n d) (pre ++ post)) = true.
Proof. exact Proofs.CleanerProto.terminates. Qed.
Print Assumptions C04_terminates.

(* every schedule, however long, makes at most 19 n + 8 moves (the rest are stutters): the terminal state is not merely
   reachable, it cannot be avoided for longer than that *)
Theorem C04_every_schedule_bounded : forall cd n d sched,
  moves true cd (init n d) sched <= 19 * n + 8.
Proof. intros cd n d sched. rewrite <- (Proofs.CleanerProto.mu_init n d). apply Proofs.CleanerProto.moves_bounded. Qed.
Print Assumptions C04_every_schedule_bounded.

(* bounded delay, counted in timer firings: after the last external change at most two cooldown timers fire *)
Theorem C04_bounded_timer_firings : forall cd n d pre post,
  let s := run true cd (init n d) pre in
  chg s = 0 -> fires true cd s post <= 2.
Proof. exact Proofs.CleanerProto.bounded_timer_firings. Qed.
Print Assumptions C04_bounded_timer_firings.

(* The protocol as it was before the repair violates the property (finding F3): a schedule ends in a terminal state with
   a change never seen by the cleaner — the timer's re-broadcast lands between the cleaner recording the flag and parking. *)
Theorem C04_unlocked_rebroadcast_refuted :
  exists sched, let s := run false true (init 1 false) sched in
  is_terminal false true s = true /\ dirty s = true.
Proof. exact Proofs.CleanerProto.C04_unlocked_rebroadcast_refuted. Qed.
Print Assumptions C04_unlocked_rebroadcast_refuted.

(* ---- what that run of cleanupLogic does to the buffer (Model/Buffer.v; [dirty s = false] = cleanupLogic has run since the
   last state change that broadcasts; schedules = every interleaving of operations, cleaner runs and shutdown steps) ------- *)
Section BufferLevel.
Import BB.Model.Buffer.
Local Open Scope Z_scope.

(* Default cleaner.  Whenever the cleaner has caught up, the buffer is open and at least one consumer is registered (open):
   the base is the least committed offset of the registered consumers - the prefix every open consumer has committed past
   is gone - and Size is the backlog of the slowest of them.  A consumer whose Close has completed is not registered any
   more, so closing the slowest consumer releases its hold in the same way. *)
Theorem C04_default_quiescent_size_is_slowest_backlog : forall evs,
  let s := fst (erun (init CDefault) evs) in
  dirty s = false -> bclosed s = false -> Proofs.BufferClean.regs s <> [] ->
  base s = Proofs.BufferClean.min_commit s /\
  size s = (length (log s) - Proofs.BufferClean.min_commit s)%nat.
Proof. exact Proofs.BufferClean.default_quiescent_size_is_slowest_backlog. Qed.
Print Assumptions C04_default_quiescent_size_is_slowest_backlog.

(* one run of cleanupLogic does it, from any state the default cleaner can be in ... *)
Theorem C04_default_clean_reclaims : forall s,
  cfg s = CDefault -> bclosed s = false -> Proofs.Buffer.Inv s -> Proofs.Buffer.DInv s -> Proofs.BufferClean.regs s <> [] ->
  base (clean s) = Proofs.BufferClean.min_commit s.
Proof. exact Proofs.BufferClean.default_clean_reclaims. Qed.
Print Assumptions C04_default_clean_reclaims.

(* ... and is a fixpoint: that the cleaner cannot be woken by its own broadcast loses nothing *)
Theorem C04_default_clean_idempotent : forall s,
  cfg s = CDefault -> bclosed s = false -> Proofs.Buffer.Inv s -> Proofs.Buffer.DInv s -> Proofs.BufferClean.regs s <> [] ->
  clean (clean s) = clean s.
Proof. exact Proofs.BufferClean.default_clean_idempotent. Qed.
Print Assumptions C04_default_clean_idempotent.

(* FixedBufferCleaner(max, target) with target <= max: whenever the cleaner has caught up, the size is at most max.
   (0 <= max: a size is never negative, and FixedBufferCleaner does not reject a negative max.) *)
Theorem C04_fixed_quiescent_size_le_max : forall mx tg evs,
  tg <= mx -> 0 <= mx ->
  let s := fst (erun (init (CFixed mx tg)) evs) in
  dirty s = false -> bclosed s = false -> Z.of_nat (size s) <= mx.
Proof. exact Proofs.BufferClean.fixed_quiescent_size_le_max. Qed.
Print Assumptions C04_fixed_quiescent_size_le_max.

(* The first clause of the property does NOT hold under FixedBufferCleaner (finding F6): FixedBufferCleaner(2, 2), one
   consumer, ten values put, read and committed; the cleaner has run, nothing is pending, and two values the only consumer
   has committed past are still held - a second run of cleanupLogic would remove them, but nothing triggers it until the
   next state change (the cleaner's own broadcast cannot wake itself, and one run is not a fixpoint of the fixed cleaner). *)
Theorem C04_fixed_retains_consumed_refuted :
  exists evs, let s := fst (erun (init (CFixed 2 2)) evs) in
    dirty s = false /\ unsettled s = false /\ bclosed s = false /\
    Proofs.BufferClean.regs s = [10%nat] /\ length (log s) = 10%nat /\ Proofs.BufferClean.min_commit s = 10%nat /\
    base s = 8%nat /\ size s = 2%nat /\ snd (step s OSettled) = RInt 2 /\
    base (clean s) = 10%nat.
Proof. exact Proofs.BufferClean.fixed_retains_consumed_refuted. Qed.
Print Assumptions C04_fixed_retains_consumed_refuted.
(* the cleaner functions these theorems are about are the ones in the current source: translated from bigbuff.go on every
   run (harness/cmd/gotr) and proved equal to the model functions for every input (see Properties/C03.v) *)
Theorem C04_DefaultCleaner_source_is_model : forall size offsets,
  GoFrag.call [] BB.Gen.ImplCleaners.DefaultCleaner_def [GoFrag.VInt size; GoFrag.VList offsets]
  = Some (GoFrag.VInt (Cleaner.default_cleaner size offsets)).
Proof. exact Proofs.CleanerGen.DefaultCleaner_src_eq_model. Qed.
Print Assumptions C04_DefaultCleaner_source_is_model.

Theorem C04_FixedBufferCleaner_source_is_model : forall max target cb size offsets,
  GoFrag.call Proofs.CleanerGen.fe1 BB.Gen.ImplCleaners.FixedBufferCleaner_def
    [GoFrag.VInt max; GoFrag.VInt target; GoFrag.VFunc cb; GoFrag.VInt size; GoFrag.VList offsets]
  = Some (GoFrag.VInt (Cleaner.fixed_cleaner max target size offsets)).
Proof. exact Proofs.CleanerGen.FixedBufferCleaner_src_eq_model. Qed.
Print Assumptions C04_FixedBufferCleaner_source_is_model.
End BufferLevel.
