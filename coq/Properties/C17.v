(* C17 — Worker: one running instance while held, stopped only after every holder is done.
   Statements only; every proof is `exact` of a lemma of Proofs/Worker.v, Proofs/WorkerMore.v (wind-down from every
   reachable state, a locked-out Do is served, witnesses against the literal reading of clause 2) or Proofs/WorkerWait.v
   (the variant of the model in which callers parked on x.mu are part of the state).
   Model/Worker.v: `step fl s l` is one atomic step of the interleaving model of worker.go (labels: a caller's Do critical
   section, a holder's done(), the next step of the k-th watcher goroutine, the next step of the k-th do goroutine /
   instance function).  `faithful` = the code as it is; `reachable s` = s is the result of `run faithful init sched`
   for SOME schedule, so every theorem below quantifies over every number of holders and every interleaving.
   Contract assumed of the user: each done function is called at most once.  The instance function is an environment
   script: it normally returns only after it has seen its stop channel closed (after arbitrary delays), but it may also
   return on its own while stop is open (label LIE, ghost flag `early`); every clause below covers both, and only the
   "is running" part of clause 2 is conditional on early = false. *)
From Coq Require Import List Arith Bool.
From BB.Model Require Import Worker WorkerWait.
From BB.Proofs Require Worker WorkerMore WorkerWait.
Import ListNotations.

Definition reachable := Proofs.Worker.reachable.

(* Clause 1.  Never two instances: at most one do goroutine has not exited, hence at most one instance function is
   running; also in counting form. *)
Theorem C17_single_instance : forall s, reachable s ->
  (forall i j ii ij, nth_error (insts s) i = Some ii -> nth_error (insts s) j = Some ij ->
                     ip ii <> IExit -> ip ij <> IExit -> i = j) /\
  countb alive (insts s) <= 1 /\ countb running (insts s) <= 1.
Proof. intros s HR. split; [exact (Proofs.Worker.single_instance s HR) | exact (Proofs.Worker.at_most_one_alive s HR)]. Qed.
Print Assumptions C17_single_instance.

(* Clause 2.  From the moment Do returns until the done function is called (holder h exists, hdone = false): x.stop/x.done
   point to an instance k whose stop channel is OPEN and whose watcher is still in its waiting loop; the function, once
   started, has been handed exactly that stop channel.  Under the user's side of the contract (the function has not
   returned on its own: early = false) the done channel is open too and the function is either not yet scheduled
   (IReady: `go x.do(fn)` issued) or running (IRun).  A function that returns by itself while held (label LIE) is no
   longer "running" by its own doing; the stop channel nevertheless stays open until the last done (helpers may watch it). *)
Theorem C17_held_means_running : forall s, reachable s ->
  forall h hh, nth_error (holders s) h = Some hh -> hdone hh = false ->
  exists k ik, xinst s = Some k /\ nth_error (insts s) k = Some ik /\
               stopc ik = false /\
               (wp ik = WLoop \/ exists g, wp ik = WWait g) /\
               (ip ik <> IReady -> isc ik = Some k) /\
               (early ik = false -> donec ik = false /\ (ip ik = IReady \/ ip ik = IRun)).
Proof. exact Proofs.Worker.held_means_running. Qed.
Print Assumptions C17_held_means_running.

(* Why clause 2 is NOT stated as "held => an instance function is executing" (the literal text), in plain words.
   The theorem above says: while somebody holds the worker, the stop channel of the current instance is open and the
   watcher has not begun to stop it -- unconditionally; and the function of that instance is "not yet started or running"
   (IReady or IRun) -- only for functions that have not returned on their own (early = false).  Two weakenings:
     IReady.  Do returns right after the statement `go x.do(fn)`; the new goroutine may not have been scheduled yet, so
       at the instant Do returns no function is executing.  This is a scheduling artefact (the start step is always
       enabled), but it makes the literal clause false: witness C17_held_before_function_starts_refuted.
     early = false.  worker.go cannot keep fn running: fn is the user's code and may return whenever it likes, also while
       stop is open and holders are outstanding.  Then the holders hold an instance whose function has RETURNED, and a
       further Do joins that instance instead of starting a new one (x.stop is still non-nil).  The literal clause fails
       for such a function: witness C17_held_but_function_returned_refuted.  The library's own part (stop stays open, the
       instance is not torn down, no second instance is started) holds regardless and is the unconditional part above.
   `early` is a ghost flag set only by the label LIE ("the function returns without having seen stop closed"); a function
   that honours "run until stop is closed" never takes LIE, and for it the clause holds in the form IReady \/ IRun. *)
Theorem C17_held_before_function_starts_refuted :
  exists sched, let s := run faithful init sched in
    Proofs.Worker.held s = true /\ countb running (insts s) = 0 /\ map ip (insts s) = [IReady] /\
    map stopc (insts s) = [false].
Proof. exact Proofs.WorkerMore.held_before_function_starts_refuted. Qed.
Print Assumptions C17_held_before_function_starts_refuted.

Theorem C17_held_but_function_returned_refuted :
  exists sched, let s := run faithful init sched in
    Proofs.Worker.held s = true /\ countb running (insts s) = 0 /\ countb alive (insts s) = 0 /\
    xinst s = Some 0 /\ map stopc (insts s) = [false] /\ map early (insts s) = [true] /\
    exists s', step faithful s LDo = Some s' /\ length (insts s') = 1 /\ countb running (insts s') = 0 /\
               map hdone (holders s') = [false; false].
Proof. exact Proofs.WorkerMore.held_but_function_returned_refuted. Qed.
Print Assumptions C17_held_but_function_returned_refuted.

(* Clause 3.  A stop channel goes from open to closed only by the step of its own watcher at worker.go:67, taken while
   holding mu, and at that moment every done function handed out so far has been called. *)
Theorem C17_stop_after_all_done : forall s l s', reachable s -> step faithful s l = Some s' ->
  forall k ik ik', nth_error (insts s) k = Some ik -> nth_error (insts s') k = Some ik' ->
                   stopc ik = false -> stopc ik' = true ->
  l = LW k /\ wp ik = WClose /\ xinst s = Some k /\ mu s = true /\
  (forall hh, In hh (holders s) -> hdone hh = true).
Proof. exact Proofs.Worker.stop_after_all_done. Qed.
Print Assumptions C17_stop_after_all_done.

(* Clause 4a.  From the watcher's decision to stop until it has cleared stop/done, Do cannot get through. *)
Theorem C17_do_during_stop_waits : forall s, reachable s ->
  forall k ik, xinst s = Some k -> nth_error (insts s) k = Some ik -> (wp ik = WClose \/ stopc ik = true) ->
  step faithful s LDo = None.
Proof. exact Proofs.Worker.do_blocked_while_stopping. Qed.
Print Assumptions C17_do_during_stop_waits.

(* Clause 4b.  Whenever Do does get through it returns a new outstanding holder, and the instance it then holds has an
   open stop channel (and, unless its function already returned on its own, has not returned); if no instance existed
   (in particular after a stop phase) it is a FRESH instance (new goroutines, new channels) and every earlier instance
   has exited with its stop channel closed. *)
Theorem C17_do_then_restarts : forall s s', reachable s -> step faithful s LDo = Some s' ->
  exists k ik g,
    xinst s' = Some k /\ nth_error (insts s') k = Some ik /\
    stopc ik = false /\
    (early ik = false -> donec ik = false /\ (ip ik = IReady \/ ip ik = IRun)) /\
    holders s' = holders s ++ [{| hgen := g; hdone := false |}] /\
    match xinst s with
    | Some k0 => k = k0 /\ insts s' = insts s
    | None => k = length (insts s) /\ ik = new_inst /\ insts s' = insts s ++ [new_inst] /\
              forall j ij, nth_error (insts s) j = Some ij ->
                           ip ij = IExit /\ wp ij = WExit /\ stopc ij = true /\ donec ij = true
    end.
Proof. exact Proofs.Worker.do_starts_fresh_instance. Qed.
Print Assumptions C17_do_then_restarts.

(* Clause 5 (liveness, DESIGN 3.3).  (i) every step other than a new Do strictly decreases `measure` (for every variant and
   from every state), so between two Do calls only finitely many steps happen; (ii) in every reachable state in which
   nothing but a new Do can move: every done function has been called, no instance exists (stop/done nil), every
   instance ever started has exited with its stop channel CLOSED (also when its function had returned on its own long
   before), every watcher has exited, mu is free, x.wg is nil, and a Do would get through.  So every started instance is stopped once nobody holds it, and nothing deadlocks. *)
Theorem C17_measure_decreases : forall fl s l s', step fl s l = Some s' -> l <> LDo -> measure s' < measure s.
Proof. exact Proofs.Worker.measure_decreases. Qed.
Print Assumptions C17_measure_decreases.

Theorem C17_every_instance_stopped : forall s, reachable s ->
  (forall l, l <> LDo -> step faithful s l = None) ->
  xinst s = None /\ mu s = false /\ xwg s = None /\
  (forall hh, In hh (holders s) -> hdone hh = true) /\
  (forall j ij, nth_error (insts s) j = Some ij ->
                wp ij = WExit /\ ip ij = IExit /\ stopc ij = true /\ donec ij = true) /\
  step faithful s LDo <> None.
Proof. exact Proofs.Worker.every_instance_stopped. Qed.
Print Assumptions C17_every_instance_stopped.

(* Clause 5, from EVERY reachable state (not only at terminal ones).
   (iii) Progress, with the obligations named.  While x.stop/x.done are set (instance k exists) one of these is enabled:
         the next step of k's watcher (library); the do goroutine starting the function or closing x.done after the
         function returned (library); the done function of an OUTSTANDING holder (the callers' obligation: "a done func
         which must be called"), only while mu is free; or the instance function, whose stop channel IS closed, noticing
         it / returning (the instance function's obligation).  Nothing else is ever needed: no new Do, and no function
         returning on its own (LIE). *)
Theorem C17_progress : forall s k, reachable s -> xinst s = Some k ->
  exists ik, nth_error (insts s) k = Some ik /\
   ( step faithful s (LW k) <> None
     \/ ((ip ik = IReady \/ ip ik = IRet) /\ step faithful s (LI k) <> None)
     \/ (mu s = false /\ exists h hh, nth_error (holders s) h = Some hh /\ hdone hh = false /\
                                      step faithful s (LDone h) <> None)
     \/ (stopc ik = true /\ (ip ik = IRun \/ ip ik = ISaw) /\ step faithful s (LI k) <> None) ).
Proof. exact Proofs.WorkerMore.progress. Qed.
Print Assumptions C17_progress.

(* (iv) "Nothing but a new Do can move" is decidable: it holds exactly when no instance exists (x.stop = x.done = nil). *)
Theorem C17_quiescent_decidable : forall s, reachable s ->
  ((forall l, l <> LDo -> step faithful s l = None) <-> Proofs.WorkerMore.quiescentb s = true).
Proof. exact Proofs.WorkerMore.quiescent_decidable. Qed.
Print Assumptions C17_quiescent_decidable.

(* (v) Wind-down.  From every reachable state there is a schedule made only of watcher steps, do-goroutine steps and
       done() calls (drain_label: no new Do, no LIE), every pick of which is enabled (taken = length), of at most
       `measure s` steps, after which nothing but a new Do can move -- and then, by C17_every_instance_stopped, every
       done function has been called and every instance ever started has exited with its stop channel closed.  Together
       with (i) (every Do-free execution takes at most `measure s` steps, C17_steps_bounded) and (iii): once callers
       stop calling Do and call their done functions, EVERY execution winds down in boundedly many steps. *)
Theorem C17_drain : forall s, reachable s ->
  exists sched,
    (forall l, In l sched -> Proofs.WorkerMore.drain_label l) /\
    (forall l, In l sched -> l <> LDo) /\
    Proofs.WorkerMore.taken faithful s sched = length sched /\
    length sched + measure (run faithful s sched) <= measure s /\
    (forall l, l <> LDo -> step faithful (run faithful s sched) l = None).
Proof. exact Proofs.WorkerMore.drain. Qed.
Print Assumptions C17_drain.

Theorem C17_drain_simple : forall s, reachable s ->
  exists sched, (forall l, In l sched -> l <> LDo) /\ length sched <= measure s /\
                forall l, l <> LDo -> step faithful (run faithful s sched) l = None.
Proof. exact Proofs.WorkerMore.drain_simple. Qed.
Print Assumptions C17_drain_simple.

(* the number of enabled picks of ANY schedule without a new Do is bounded by the measure (every variant, every state) *)
Theorem C17_steps_bounded : forall fl sched s, (forall l, In l sched -> l <> LDo) ->
  Proofs.WorkerMore.taken fl s sched + measure (run fl s sched) <= measure s.
Proof. exact Proofs.WorkerMore.taken_bound. Qed.
Print Assumptions C17_steps_bounded.

(* Clause 4c.  A Do that is locked out (its critical section is disabled) is eventually served.  Do is disabled exactly
   while the watcher of the current instance k is between its decision to stop and the clearing of stop/done; then every
   done function has been called, x.wg is nil, and the whole state has measure <= 8 ... *)
Theorem C17_blocked_do_profile : forall s, reachable s -> step faithful s LDo = None ->
  exists k ik, xinst s = Some k /\ nth_error (insts s) k = Some ik /\ mu s = true /\
    (wp ik = WClose \/ wp ik = WRecv \/ wp ik = WClear) /\
    (forall hh, In hh (holders s) -> hdone hh = true) /\ xwg s = None /\ measure s <= 8.
Proof. exact Proofs.WorkerMore.blocked_do_profile. Qed.
Print Assumptions C17_blocked_do_profile.

(* ... and after between 1 and 7 enabled steps, all of them steps of k's watcher or do goroutine (closing stop, the
   function noticing and returning, close(done), clearing: nobody else has to do anything), no instance exists; in that
   state the Do gets through, starts a FRESH instance (new goroutines and channels, appended as the last instance) and
   holds it, every earlier instance having exited with its stop channel closed. *)
Theorem C17_blocked_do_served : forall s, reachable s -> step faithful s LDo = None ->
  exists k sched,
    xinst s = Some k /\
    (forall l, In l sched -> l = LW k \/ l = LI k) /\
    Proofs.WorkerMore.taken faithful s sched = length sched /\ 1 <= length sched <= 7 /\
    let s1 := run faithful s sched in
    xinst s1 = None /\
    exists s2 g, step faithful s1 LDo = Some s2 /\
      xinst s2 = Some (length (insts s1)) /\ insts s2 = insts s1 ++ [new_inst] /\
      holders s2 = holders s1 ++ [{| hgen := g; hdone := false |}] /\
      forall j ij, nth_error (insts s1) j = Some ij ->
                   ip ij = IExit /\ wp ij = WExit /\ stopc ij = true /\ donec ij = true.
Proof. exact Proofs.WorkerMore.blocked_do_served. Qed.
Print Assumptions C17_blocked_do_served.

(* Clause 4, with the waiting callers IN the state (Model/WorkerWait.v: PArrive = a caller reaches x.mu.Lock() in Do,
   PEnter = one parked caller executes the critical section -- the same `step faithful _ LDo` -- and returns, PL l = any
   other step of the base model).  (a) the base component only visits reachable states of Model/Worker.v, so every
   clause above holds in the variant; (b) no caller is lost or duplicated: calls made = callers parked + done functions
   handed out; *)
Theorem C17_waiters_base_reachable : forall p, Proofs.WorkerWait.preachable p -> reachable (base p).
Proof. exact Proofs.WorkerWait.pbase_reachable. Qed.
Print Assumptions C17_waiters_base_reachable.

Theorem C17_waiters_accounting : forall p, Proofs.WorkerWait.preachable p ->
  arrived p = waiting p + length (holders (base p)).
Proof. exact Proofs.WorkerWait.accounting. Qed.
Print Assumptions C17_waiters_accounting.

(* (c) a parked caller is served: after at most 7 enabled steps of the stopping instance's watcher / do goroutine (none
   if the mutex is free) one parked caller gets through, is handed a new outstanding done function for an instance whose
   stop channel is open (held_okb), the others stay parked; if it had been locked out, the instance is a fresh one; *)
Theorem C17_waiter_served : forall p n, Proofs.WorkerWait.preachable p -> waiting p = S n ->
  exists sched,
    (forall a, In a sched -> exists k, xinst (base p) = Some k /\ (a = PL (LW k) \/ a = PL (LI k))) /\
    length sched <= 7 /\ Proofs.WorkerWait.ptaken p sched = length sched /\
    (step faithful (base p) LDo <> None -> sched = []) /\
    let p1 := prun p sched in
    waiting p1 = S n /\
    exists p2 g, pstep p1 PEnter = Some p2 /\ waiting p2 = n /\ arrived p2 = arrived p /\
      holders (base p2) = holders (base p1) ++ [{| hgen := g; hdone := false |}] /\
      Proofs.Worker.held_okb (base p2) = true /\
      (step faithful (base p) LDo = None ->
         xinst (base p2) = Some (length (insts (base p1))) /\ insts (base p2) = insts (base p1) ++ [new_inst] /\
         forall j ij, nth_error (insts (base p1)) j = Some ij ->
                      ip ij = IExit /\ wp ij = WExit /\ stopc ij = true /\ donec ij = true).
Proof. exact Proofs.WorkerWait.waiter_served. Qed.
Print Assumptions C17_waiter_served.

(* (d) under EVERY schedule: each event other than a new arrival strictly decreases `pmeasure` (so once arrivals cease
   at most `pmeasure p` events happen), and a state in which nothing but a new arrival can happen has NO parked caller
   and no instance: nobody is stranded in Do, whatever the interleaving (no fairness assumption is needed because
   nothing can be postponed for ever). *)
Theorem C17_waiters_measure_decreases : forall p a p', pstep p a = Some p' -> a <> PArrive -> pmeasure p' < pmeasure p.
Proof. exact Proofs.WorkerWait.pmeasure_decreases. Qed.
Print Assumptions C17_waiters_measure_decreases.

Theorem C17_waiters_steps_bounded : forall sched p, (forall a, In a sched -> a <> PArrive) ->
  Proofs.WorkerWait.ptaken p sched + pmeasure (prun p sched) <= pmeasure p.
Proof. exact Proofs.WorkerWait.ptaken_bound. Qed.
Print Assumptions C17_waiters_steps_bounded.

Theorem C17_no_waiter_stranded : forall p, Proofs.WorkerWait.preachable p ->
  (forall a, a <> PArrive -> pstep p a = None) ->
  waiting p = 0 /\ xinst (base p) = None /\ forall l, l <> LDo -> step faithful (base p) l = None.
Proof. exact Proofs.WorkerWait.no_waiter_stranded. Qed.
Print Assumptions C17_no_waiter_stranded.

(* No Go panic (close of a nil or closed channel, negative WaitGroup counter) is reachable. *)
Theorem C17_never_panics : forall s, reachable s -> panicked s = false.
Proof. exact Proofs.Worker.never_panics. Qed.
Print Assumptions C17_never_panics.

(* The executable monitors used on implementation histories are consequences of clauses 1 and 2, and the harness-level
   oracle `kstep` (one harness action, then the library runs to quiescence) only visits reachable states. *)
Theorem C17_monitors_hold : forall s, reachable s ->
  Proofs.Worker.held_okb s = true /\ Proofs.Worker.single_okb s = true.
Proof. exact Proofs.Worker.monitors_hold. Qed.
Print Assumptions C17_monitors_hold.

Theorem C17_oracle_states_reachable : forall k o, reachable (ws k) -> reachable (ws (fst (kstep k o))).
Proof. exact Proofs.Worker.kstep_reachable. Qed.
Print Assumptions C17_oracle_states_reachable.

(* Sensitivity: the same step function with ONE realistic defect switched on violates the clauses. *)
(* the watcher releases mu before waiting for the instance to exit: two instance functions run at once *)
Theorem C17_early_unlock_two_instances_refuted :
  exists sched, countb running (insts (run Proofs.Worker.early_unlock init sched)) = 2 /\
                Proofs.Worker.single_okb (run Proofs.Worker.early_unlock init sched) = false.
Proof. exact Proofs.Worker.early_unlock_two_instances_refuted. Qed.
Print Assumptions C17_early_unlock_two_instances_refuted.

(* the watcher does not re-check x.wg after Wait: the instance is stopped while a holder is outstanding *)
Theorem C17_no_recheck_stops_while_held_refuted :
  exists sched, Proofs.Worker.held (run Proofs.Worker.norecheck init sched) = true /\
                Proofs.Worker.held_okb (run Proofs.Worker.norecheck init sched) = false.
Proof. exact Proofs.Worker.no_recheck_stops_while_held_refuted. Qed.
Print Assumptions C17_no_recheck_stops_while_held_refuted.

(* Do re-uses the old WaitGroup object instead of publishing a new one: same failure *)
Theorem C17_no_new_waitgroup_stops_while_held_refuted :
  exists sched, Proofs.Worker.held (run Proofs.Worker.nonewgen init sched) = true /\
                Proofs.Worker.held_okb (run Proofs.Worker.nonewgen init sched) = false.
Proof. exact Proofs.Worker.no_new_waitgroup_stops_while_held_refuted. Qed.
Print Assumptions C17_no_new_waitgroup_stops_while_held_refuted.
