(* C17 — Worker: one running instance while held, stopped only after every holder is done.
   Statements only; every proof is `exact` of a lemma of Proofs/Worker.v.
   Model/Worker.v: `step fl s l` is one atomic step of the interleaving model of worker.go (labels: a caller's Do critical
   section, a holder's done(), the next step of the k-th watcher goroutine, the next step of the k-th do goroutine /
   instance function).  `faithful` = the code as it is; `reachable s` = s is the result of `run faithful init sched`
   for SOME schedule, so every theorem below quantifies over every number of holders and every interleaving.
   Contract assumed of the user: each done function is called at most once.  The instance function is an environment
   script: it normally returns only after it has seen its stop channel closed (after arbitrary delays), but it may also
   return on its own while stop is open (label LIE, ghost flag `early`); every clause below covers both, and only the
   "is running" part of clause 2 is conditional on early = false. *)
From Coq Require Import List Arith Bool.
From BB.Model Require Import Worker.
From BB.Proofs Require Worker.
Import ListNotations.

Definition reachable := Proofs.Worker.reachable.

(* Clause 1.  Never two instances: at most one do goroutine has not exited, hence at most one instance function is
   running; also in counting form. *)
Theorem C17_single_instance : forall s, reachable s ->
  (forall i j ii ij, nth_error (insts s) i = Some ii -> nth_error (insts s) j = Some ij ->
                     ip ii <> IExit -> ip ij <> IExit -> i = j) /\
  countb alive (insts s) <= 1 /\ countb running (insts s) <= 1.
Proof. intros s HR. split; [exact (Proofs.Worker.single_instance s HR) | exact (Proofs.Worker.at_most_one_alive s HR)]. Qed.
Print Assumptions C17_single_instance.

(* Clause 2.  From the moment Do returns until the done function is called (holder h exists, hdone = false): x.stop/x.done
   point to an instance k whose stop channel is OPEN and whose watcher is still in its waiting loop; the function, once
   started, has been handed exactly that stop channel.  Under the user's side of the contract (the function has not
   returned on its own: early = false) the done channel is open too and the function is either not yet scheduled
   (IReady: `go x.do(fn)` issued) or running (IRun).  A function that returns by itself while held (label LIE) is no
   longer "running" by its own doing; the stop channel nevertheless stays open until the last done (helpers may watch it). *)
Theorem C17_held_means_running : forall s, reachable s ->
  forall h hh, nth_error (holders s) h = Some hh -> hdone hh = false ->
  exists k ik, xinst s = Some k /\ nth_error (insts s) k = Some ik /\
               stopc ik = false /\
               (wp ik = WLoop \/ exists g, wp ik = WWait g) /\
               (ip ik <> IReady -> isc ik = Some k) /\
               (early ik = false -> donec ik = false /\ (ip ik = IReady \/ ip ik = IRun)).
Proof. exact Proofs.Worker.held_means_running. Qed.
Print Assumptions C17_held_means_running.

(* Clause 3.  A stop channel goes from open to closed only by the step of its own watcher at worker.go:67, taken while
   holding mu, and at that moment every done function handed out so far has been called. *)
Theorem C17_stop_after_all_done : forall s l s', reachable s -> step faithful s l = Some s' ->
  forall k ik ik', nth_error (insts s) k = Some ik -> nth_error (insts s') k = Some ik' ->
                   stopc ik = false -> stopc ik' = true ->
  l = LW k /\ wp ik = WClose /\ xinst s = Some k /\ mu s = true /\
  (forall hh, In hh (holders s) -> hdone hh = true).
Proof. exact Proofs.Worker.stop_after_all_done. Qed.
Print Assumptions C17_stop_after_all_done.

(* Clause 4a.  From the watcher's decision to stop until it has cleared stop/done, Do cannot get through. *)
Theorem C17_do_during_stop_waits : forall s, reachable s ->
  forall k ik, xinst s = Some k -> nth_error (insts s) k = Some ik -> (wp ik = WClose \/ stopc ik = true) ->
  step faithful s LDo = None.
Proof. exact Proofs.Worker.do_blocked_while_stopping. Qed.
Print Assumptions C17_do_during_stop_waits.

(* Clause 4b.  Whenever Do does get through it returns a new outstanding holder, and the instance it then holds has an
   open stop channel (and, unless its function already returned on its own, has not returned); if no instance existed
   (in particular after a stop phase) it is a FRESH instance (new goroutines, new channels) and every earlier instance
   has exited with its stop channel closed. *)
Theorem C17_do_then_restarts : forall s s', reachable s -> step faithful s LDo = Some s' ->
  exists k ik g,
    xinst s' = Some k /\ nth_error (insts s') k = Some ik /\
    stopc ik = false /\
    (early ik = false -> donec ik = false /\ (ip ik = IReady \/ ip ik = IRun)) /\
    holders s' = holders s ++ [{| hgen := g; hdone := false |}] /\
    match xinst s with
    | Some k0 => k = k0 /\ insts s' = insts s
    | None => k = length (insts s) /\ ik = new_inst /\ insts s' = insts s ++ [new_inst] /\
              forall j ij, nth_error (insts s) j = Some ij ->
                           ip ij = IExit /\ wp ij = WExit /\ stopc ij = true /\ donec ij = true
    end.
Proof. exact Proofs.Worker.do_starts_fresh_instance. Qed.
Print Assumptions C17_do_then_restarts.

(* Clause 5 (liveness, DESIGN 3.3).  (i) every step other than a new Do strictly decreases `measure` (for every variant and
   from every state), so between two Do calls only finitely many steps happen; (ii) in every reachable state in which
   nothing but a new Do can move: every done function has been called, no instance exists (stop/done nil), every
   instance ever started has exited with its stop channel CLOSED (also when its function had returned on its own long
   before), every watcher has exited, mu is free, x.wg is nil, and a Do would get through.  So every started instance is stopped once nobody holds it, and nothing deadlocks. *)
Theorem C17_measure_decreases : forall fl s l s', step fl s l = Some s' -> l <> LDo -> measure s' < measure s.
Proof. exact Proofs.Worker.measure_decreases. Qed.
Print Assumptions C17_measure_decreases.

Theorem C17_every_instance_stopped : forall s, reachable s ->
  (forall l, l <> LDo -> step faithful s l = None) ->
  xinst s = None /\ mu s = false /\ xwg s = None /\
  (forall hh, In hh (holders s) -> hdone hh = true) /\
  (forall j ij, nth_error (insts s) j = Some ij ->
                wp ij = WExit /\ ip ij = IExit /\ stopc ij = true /\ donec ij = true) /\
  step faithful s LDo <> None.
Proof. exact Proofs.Worker.every_instance_stopped. Qed.
Print Assumptions C17_every_instance_stopped.

(* No Go panic (close of a nil or closed channel, negative WaitGroup counter) is reachable. *)
Theorem C17_never_panics : forall s, reachable s -> panicked s = false.
Proof. exact Proofs.Worker.never_panics. Qed.
Print Assumptions C17_never_panics.

(* The executable monitors used on implementation histories are consequences of clauses 1 and 2, and the harness-level
   oracle `kstep` (one harness action, then the library runs to quiescence) only visits reachable states. *)
Theorem C17_monitors_hold : forall s, reachable s ->
  Proofs.Worker.held_okb s = true /\ Proofs.Worker.single_okb s = true.
Proof. exact Proofs.Worker.monitors_hold. Qed.
Print Assumptions C17_monitors_hold.

Theorem C17_oracle_states_reachable : forall k o, reachable (ws k) -> reachable (ws (fst (kstep k o))).
Proof. exact Proofs.Worker.kstep_reachable. Qed.
Print Assumptions C17_oracle_states_reachable.

(* Sensitivity: the same step function with ONE realistic defect switched on violates the clauses. *)
(* the watcher releases mu before waiting for the instance to exit: two instance functions run at once *)
Theorem C17_early_unlock_two_instances_refuted :
  exists sched, countb running (insts (run Proofs.Worker.early_unlock init sched)) = 2 /\
                Proofs.Worker.single_okb (run Proofs.Worker.early_unlock init sched) = false.
Proof. exact Proofs.Worker.early_unlock_two_instances_refuted. Qed.
Print Assumptions C17_early_unlock_two_instances_refuted.

(* the watcher does not re-check x.wg after Wait: the instance is stopped while a holder is outstanding *)
Theorem C17_no_recheck_stops_while_held_refuted :
  exists sched, Proofs.Worker.held (run Proofs.Worker.norecheck init sched) = true /\
                Proofs.Worker.held_okb (run Proofs.Worker.norecheck init sched) = false.
Proof. exact Proofs.Worker.no_recheck_stops_while_held_refuted. Qed.
Print Assumptions C17_no_recheck_stops_while_held_refuted.

(* Do re-uses the old WaitGroup object instead of publishing a new one: same failure *)
Theorem C17_no_new_waitgroup_stops_while_held_refuted :
  exists sched, Proofs.Worker.held (run Proofs.Worker.nonewgen init sched) = true /\
                Proofs.Worker.held_okb (run Proofs.Worker.nonewgen init sched) = false.
Proof. exact Proofs.Worker.no_new_waitgroup_stops_while_held_refuted. Qed.
Print Assumptions C17_no_new_waitgroup_stops_while_held_refuted.
