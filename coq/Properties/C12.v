(* C12 — Close/cancel completes, fails later calls cleanly, leaves no goroutine behind.
   Functional clauses on Model/Buffer.v and Model/Channel.v; goroutine-exit clauses on the protocol models
   (WaitCond watcher, cleaner/timer). Statements only. *)
From Coq Require Import List ZArith Bool Arith.
From BB.Model Require Buffer Channel WaitCond CleanerProto.
From BB.Proofs Require Buffer Channel WaitCond CleanerProto.
Import ListNotations.

Section BufferClauses.
Import BB.Model.Buffer.

(* Buffer.Close with no uncommitted reads anywhere: terminates at once, closes Done, closes and deregisters every
   consumer, leaves the contents readable, and a second Close returns an error. *)
Theorem C12_buffer_close_terminates : forall s,
  Proofs.Buffer.Inv s -> bonce s = false -> Forall (fun c => cdelta c = 0) (cs s) ->
  let s' := fst (step s OCloseB) in
  snd (step s OCloseB) = ROk /\ bdone s' = true /\ bclosed s' = true /\
  Forall (fun c => creg c = false /\ cdone c = true) (cs s') /\
  log s' = log s /\ base s' = base s /\
  snd (step s' OCloseB) = RErr.
Proof. exact Proofs.Buffer.buffer_close_terminates. Qed.
Print Assumptions C12_buffer_close_terminates.

Theorem C12_consumer_close_terminates : forall s c k,
  getc s c = Some k -> conce k = false -> cdelta k = 0 ->
  let s' := fst (step s (OCloseC c)) in
  snd (step s (OCloseC c)) = ROk /\
  (exists k', getc s' c = Some k' /\ creg k' = false /\ cdone k' = true /\ ccancel k' = true) /\
  log s' = log s /\ base s' = base s /\ snd (step s' (OCloseC c)) = RErr.
Proof. exact Proofs.Buffer.consumer_close_terminates. Qed.
Print Assumptions C12_consumer_close_terminates.

(* a Close waiting for uncommitted reads completes as soon as they are committed or rolled back *)
Theorem C12_blocked_close_released : forall s c k,
  getc s c = Some k -> conce k = true -> cdone k = false -> cdelta k = 0 ->
  exists k', getc (settle s) c = Some k' /\ creg k' = false /\ cdone k' = true.
Proof. exact Proofs.Buffer.blocked_close_released. Qed.
Print Assumptions C12_blocked_close_released.

(* after the buffer is closed: Put, NewConsumer and Get return errors (never park), Commit with nothing pending too,
   and the state is unchanged by them; closed-ness is permanent under every schedule *)
Theorem C12_after_close_calls_fail : forall s,
  bclosed s = true ->
  (forall vals, step s (OPut vals) = (s, RErr)) /\ step s ONew = (s, RErr) /\
  (forall c, step s (OGet c) = (s, RErr)) /\
  (forall c k, getc s c = Some k -> cdelta k = 0 -> step s (OCommit c) = (s, RErr)).
Proof. exact Proofs.Buffer.after_close_calls_fail. Qed.
Print Assumptions C12_after_close_calls_fail.

Theorem C12_closed_stays_closed : forall evs s, bclosed s = true -> bclosed (fst (erun s evs)) = true.
Proof. exact Proofs.Buffer.closed_stays_closed. Qed.
Print Assumptions C12_closed_stays_closed.
End BufferClauses.

Section ChannelClause.
Import BB.Model.Channel.
Theorem C12_channel_after_close : forall s o,
  closed s = true -> (forall v, o <> OSrcSend v) -> o <> OSrcClose ->
  src (fst (step s o)) = src s /\ taken (fst (step s o)) = taken s /\ closed (fst (step s o)) = true /\
  (o = OGet \/ o = OCommit -> snd (step s o) = RErr).
Proof. exact Proofs.Channel.nothing_after_closed. Qed.
Print Assumptions C12_channel_after_close.
End ChannelClause.

Section GoroutineExit.
(* WaitCond's watcher goroutine (one per WaitCond call, hence one per parked Get and one for the cleaner) has exited in
   every terminal state in which the waiter has returned: the deferred cancel of the derived context releases it. *)
Theorem C12_waitcond_watcher_exits : forall n p0 cm sched,
  let s := BB.Model.WaitCond.run true true (BB.Model.WaitCond.init n p0 cm) sched in
  BB.Model.WaitCond.is_terminal true true s = true ->
  (BB.Model.WaitCond.returned (BB.Model.WaitCond.ctl_of s) = true ->
   BB.Model.WaitCond.watcher_done (BB.Model.WaitCond.ctl_of s) = true).
Proof. intros n p0 cm sched s Ht. exact (proj2 (Proofs.WaitCond.waitcond_returns n p0 cm sched Ht)). Qed.
Print Assumptions C12_waitcond_watcher_exits.

(* the cleaner's cooldown timer goroutine is self-removing: every run reaches a state where nothing (timer goroutines
   included) can move, within a bounded number of steps *)
Theorem C12_cleaner_timer_goroutines_finish : forall cd n d pre,
  exists post, BB.Model.CleanerProto.is_terminal true cd
                 (BB.Model.CleanerProto.run true cd (BB.Model.CleanerProto.init n d) (pre ++ post)) = true.
Proof. exact Proofs.CleanerProto.terminates. Qed.
Print Assumptions C12_cleaner_timer_goroutines_finish.
End GoroutineExit.

(* ================================================================================================================
   Extensions (proofs in Proofs/BufferMore.v): closed consumers, and Commit/Rollback on a closed buffer.
   [Proofs.BufferMore.grun] = schedules with arbitrary cleaner runs (see Properties/C01.v, C01_generalised_event);
   [Proofs.BufferMore.Inv2] = the invariant of Proofs/Buffer.v plus, per consumer: the order of its read history, a Close
   in progress implies its context is cancelled, Done closed implies nothing uncommitted, deregistered implies Done closed
   (spelled out in C12_strong_invariant_reachable, which also shows that it holds in every reachable state).
   ================================================================================================================ *)
From BB.Proofs Require BufferMore.

Section ConsumerClauses.
Import BB.Model.Buffer.

Theorem C12_strong_invariant_reachable : forall k0 gs,
  let s := fst (Proofs.BufferMore.grun (init k0) gs) in
  Proofs.BufferMore.Inv2 s /\
  (Proofs.BufferMore.Inv2 s <->
   Proofs.Buffer.Inv s /\
   Forall (fun k =>
     chigh k = fold_right Nat.max (cstart k) (map S (chist k)) /\
     Proofs.BufferMore.ordered (cstart k) (chist k) /\
     (conce k = true -> ccancel k = true) /\
     (cdone k = true -> cdelta k = 0) /\
     (creg k = false -> cdone k = true)) (cs s)).
Proof. exact Proofs.BufferMore.Inv2_reachable_def. Qed.
Print Assumptions C12_strong_invariant_reachable.

(* A consumer whose context is cancelled — its own Close has begun (even if that Close is still waiting for uncommitted
   reads), or the buffer was closed — while the BUFFER MAY STILL BE OPEN: Get returns an error at once (it never parks)
   and changes nothing; and it stays that way under every later schedule. *)
Theorem C12_cancelled_consumer_get_fails_forever : forall gs s c k,
  Proofs.Buffer.Inv s -> getc s c = Some k -> ccancel k = true ->
  let s' := fst (Proofs.BufferMore.grun s gs) in step s' (OGet c) = (s', RErr).
Proof. exact Proofs.BufferMore.cancelled_consumer_get_fails_forever. Qed.
Print Assumptions C12_cancelled_consumer_get_fails_forever.

(* cancelled / Close begun / Done closed are never reset, under any schedule *)
Theorem C12_consumer_closedness_permanent : forall gs s c k,
  Proofs.Buffer.Inv s -> getc s c = Some k ->
  exists k', getc (fst (Proofs.BufferMore.grun s gs)) c = Some k' /\
    (ccancel k = true -> ccancel k' = true) /\ (conce k = true -> conce k' = true) /\ (cdone k = true -> cdone k' = true).
Proof. exact Proofs.BufferMore.consumer_closedness_permanent. Qed.
Print Assumptions C12_consumer_closedness_permanent.

(* A consumer whose Close has completed (Done closed), whether or not the buffer is open: it is cancelled, deregistered
   and has nothing uncommitted; and in every later state of every schedule
     Get -> error, Commit -> error (nothing to commit), Rollback -> error (nothing to roll back), Diff -> (0, false),
     a second Close -> error, Done -> closed;  none of them parks or changes anything. *)
Theorem C12_closed_consumer_calls_fail_forever : forall gs s c k,
  Proofs.BufferMore.Inv2 s -> getc s c = Some k -> cdone k = true ->
  let s' := fst (Proofs.BufferMore.grun s gs) in
  step s' (OGet c) = (s', RErr) /\ step s' (OCommit c) = (s', RErr) /\ step s' (ORollback c) = (s', RErr) /\
  step s' (ODiff c) = (s', RDiff 0 false) /\ step s' (OCloseC c) = (s', RErr) /\ step s' (ODoneC c) = (s', RBool true).
Proof. exact Proofs.BufferMore.closed_consumer_calls_forever. Qed.
Print Assumptions C12_closed_consumer_calls_fail_forever.

Theorem C12_closed_consumer_state : forall s c k,
  Proofs.BufferMore.Inv2 s -> getc s c = Some k -> cdone k = true ->
  (ccancel k = true /\ creg k = false /\ cdelta k = 0) /\
  step s (OGet c) = (s, RErr) /\ step s (OCommit c) = (s, RErr) /\ step s (ORollback c) = (s, RErr) /\
  step s (ODiff c) = (s, RDiff 0 false) /\ step s (OCloseC c) = (s, RErr) /\ step s (ODoneC c) = (s, RBool true).
Proof. exact Proofs.BufferMore.closed_consumer_calls. Qed.
Print Assumptions C12_closed_consumer_state.

(* Buffer.Close cancels every consumer at once — also those whose own Close must wait for uncommitted reads — so (by
   C12_cancelled_consumer_get_fails_forever) every later Get on any of them fails *)
Theorem C12_buffer_close_cancels_all : forall s,
  bonce s = false -> Forall (fun k => ccancel k = true) (cs (fst (step s OCloseB))).
Proof. exact Proofs.BufferMore.buffer_close_cancels_all. Qed.
Print Assumptions C12_buffer_close_cancels_all.

(* Commit on a closed buffer, the case C12_after_close_calls_fail does not cover: with reads PENDING (cdelta > 0), Commit
   and Rollback SUCCEED — on a closed buffer, on a cancelled consumer, during a blocked Close alike; the consumer is
   necessarily still registered and its Done open.  (consumer.go Commit/Rollback and buffer.go commit check no context,
   only that something is pending and that the consumer is registered; this is the exception the property makes with
   "provided no reads are left uncommitted".)  It is what lets a blocked Close finish: *)
Theorem C12_pending_commit_rollback_succeed : forall s c k,
  Proofs.BufferMore.Inv2 s -> getc s c = Some k -> cdelta k <> 0 ->
  (creg k = true /\ cdone k = false) /\
  step s (OCommit c) = (set_cs s (upd (cs s) c (c_commit k)) true, ROk) /\
  step s (ORollback c) = (set_cs s (upd (cs s) c (c_rollback k)) (dirty s), ROk).
Proof. exact Proofs.BufferMore.pending_commit_rollback_succeed. Qed.
Print Assumptions C12_pending_commit_rollback_succeed.

(* ... if a Close of that consumer is in progress, the shutdown step after the Commit or Rollback completes it *)
Theorem C12_pending_commit_rollback_release_close : forall s c k,
  Proofs.BufferMore.Inv2 s -> getc s c = Some k -> cdelta k <> 0 -> conce k = true ->
  (exists k', getc (settle (fst (step s (OCommit c)))) c = Some k' /\ creg k' = false /\ cdone k' = true) /\
  (exists k', getc (settle (fst (step s (ORollback c)))) c = Some k' /\ creg k' = false /\ cdone k' = true).
Proof. exact Proofs.BufferMore.pending_commit_rollback_release_close. Qed.
Print Assumptions C12_pending_commit_rollback_release_close.

(* the buffer stays closed whatever cleaners are scheduled *)
Theorem C12_closed_stays_closed_any_cleaners : forall gs s,
  bclosed s = true -> bclosed (fst (Proofs.BufferMore.grun s gs)) = true.
Proof. exact Proofs.BufferMore.closed_stays_closed_g. Qed.
Print Assumptions C12_closed_stays_closed_any_cleaners.
End ConsumerClauses.

(* C12 — Close/cancel completes, fails later calls cleanly, leaves no goroutine behind: the clauses about the Channel
   consumer (channel.go).  Statements only, every proof is
   `exact` of a lemma of Proofs/ChannelMore.v.

   Clause of the property statement (for a Channel)                  -> theorems below
   -------------------------------------------------------------------------------------------------------------
   "Closing a Channel explicitly ... terminates"                     -> Close is ONE total step of the model (it takes the
                                                                        Once and the mutex and waits for nothing else):
                                                                        C12_channel_close_first_ok
   "... or by cancelling the context it was built on"                -> C12_channel_cancel_closes (atomic view),
                                                                        C12_channel_split_* (cancellation and the watcher
                                                                        goroutine's Close as separate events)
   "closes its Done channel"                                         -> C12_channel_close_first_ok, C12_channel_cancel_closes,
                                                                        C12_channel_split_watcher_closes_done,
                                                                        C12_channel_split_quiescent_means_done
   "makes later Get and Commit return an error"                      -> C12_channel_frozen_after_closed,
                                                                        C12_channel_nothing_taken_after_done,
                                                                        C12_channel_split_frozen_after_cancel
   "makes a second Close return an error"                            -> C12_channel_close_first_ok, C12_channel_close_again_fails,
                                                                        C12_channel_closes_fail_after_done,
                                                                        C12_channel_split_close_ok_at_most_once
   permanence ("every order ... including closes racing with
   in-flight operations")                                            -> C12_channel_closed_permanent, C12_channel_done_permanent,
                                                                        C12_channel_split_closed_permanent,
                                                                        C12_channel_split_done_permanent
   "no goroutine started by the library is still running"            -> the watcher: C12_channel_split_watcher_closes_done,
                                                                        C12_channel_split_quiescent_means_done

   `done_closed s` (Model/ChannelThreads.v) is "Done() is closed" = the sync.Once has fired (close(c.done) runs inside
   c.close.Do under the mutex); `closed s` is "c.ctx.Err() != nil". *)
From BB.Model Require ChannelThreads.
From BB.Proofs Require ChannelMore.

Section ChannelCloseClauses.
Import BB.Model.Channel.
Import BB.Model.ChannelThreads.

(* Explicit Close, first call: returns nil, cancels the context, closes Done, leaves source, buffer, rollback counter
   and all values untouched; a second Close returns an error and changes nothing. *)
Theorem C12_channel_close_first_ok : forall s,
  once s = false ->
  let s1 := fst (step s OClose) in
  snd (step s OClose) = ROk /\ closed s1 = true /\ done_closed s1 = true /\
  (src s1 = src s /\ src_closed s1 = src_closed s /\ buf s1 = buf s /\ rb s1 = rb s /\
   committed s1 = committed s /\ taken s1 = taken s /\ sent s1 = sent s) /\
  step s1 OClose = (s1, RErr).
Proof. exact Proofs.ChannelMore.close_first_ok. Qed.
Print Assumptions C12_channel_close_first_ok.

(* Whenever Done is closed, Close returns an error and changes nothing. *)
Theorem C12_channel_close_again_fails : forall s, done_closed s = true -> step s OClose = (s, RErr).
Proof. exact Proofs.ChannelMore.close_again_fails. Qed.
Print Assumptions C12_channel_close_again_fails.

(* Closing by cancelling the context the Channel was built on (atomic view, i.e. observed after Done): context
   cancelled, Done closed, data untouched, an explicit Close afterwards returns an error. *)
Theorem C12_channel_cancel_closes : forall s,
  let s1 := fst (step s OCancel) in
  snd (step s OCancel) = ROk /\ closed s1 = true /\ done_closed s1 = true /\
  (src s1 = src s /\ src_closed s1 = src_closed s /\ buf s1 = buf s /\ rb s1 = rb s /\
   committed s1 = committed s /\ taken s1 = taken s /\ sent s1 = sent s) /\
  step s1 OClose = (s1, RErr).
Proof. exact Proofs.ChannelMore.cancel_closes. Qed.
Print Assumptions C12_channel_cancel_closes.

(* Closedness is permanent under every later operation sequence: the context stays cancelled ... *)
Theorem C12_channel_closed_permanent : forall (ops : list op) (s : st),
  closed s = true -> closed (fst (run s ops)) = true.
Proof. exact Proofs.ChannelMore.closed_permanent. Qed.
Print Assumptions C12_channel_closed_permanent.

(* ... and Done stays closed. *)
Theorem C12_channel_done_permanent : forall (ops : list op) (s : st),
  done_closed s = true -> done_closed (fst (run s ops)) = true.
Proof. exact Proofs.ChannelMore.done_permanent. Qed.
Print Assumptions C12_channel_done_permanent.

(* "makes later Get and Commit return an error", for EVERY later schedule (this is C12_channel_after_close quantified
   over all continuations): from a closed state, whatever operations follow, every Get and every Commit returns an
   error, nothing more is taken from the source, buffer and committed values are frozen, the source only grows by its
   owner's sends. *)
Theorem C12_channel_frozen_after_closed : forall (ops : list op) (s : st),
  closed s = true ->
  let s' := fst (run s ops) in
  closed s' = true /\ taken s' = taken s /\ buf s' = buf s /\ committed s' = committed s /\
  (exists extra, src s' = src s ++ extra /\ sent s' = sent s ++ extra) /\
  Forall2 (fun o r => o = OGet \/ o = OCommit -> r = RErr) ops (snd (run s ops)).
Proof. exact Proofs.ChannelMore.frozen_after_closed. Qed.
Print Assumptions C12_channel_frozen_after_closed.

(* "makes a second Close return an error", every later schedule: once Done is closed every Close returns an error. *)
Theorem C12_channel_closes_fail_after_done : forall (ops : list op) (s : st),
  done_closed s = true ->
  Forall2 (fun o r => o = OClose -> r = RErr) ops (snd (run s ops)).
Proof. exact Proofs.ChannelMore.closes_fail_after_done. Qed.
Print Assumptions C12_channel_closes_fail_after_done.

(* In the atomic model Done is closed exactly when the context is cancelled, in every reachable state. *)
Theorem C12_channel_done_iff_cancelled : forall ops : list op,
  done_closed (fst (run init ops)) = closed (fst (run init ops)).
Proof. exact Proofs.ChannelMore.done_iff_closed. Qed.
Print Assumptions C12_channel_done_iff_cancelled.

(* From the initial state: as soon as a prefix of any history leaves Done closed, in every continuation Done and the
   context stay closed, nothing more is taken, and every later Get, Commit and Close returns an error. *)
Theorem C12_channel_nothing_taken_after_done : forall pre post : list op,
  done_closed (fst (run init pre)) = true ->
  let s := fst (run init pre) in
  let s' := fst (run init (pre ++ post)) in
  done_closed s' = true /\ closed s' = true /\ taken s' = taken s /\ buf s' = buf s /\ committed s' = committed s /\
  (exists extra, src s' = src s ++ extra /\ sent s' = sent s ++ extra) /\
  Forall2 (fun o r => o = OGet \/ o = OCommit \/ o = OClose -> r = RErr) post (snd (run s post)).
Proof. exact Proofs.ChannelMore.nothing_taken_after_done. Qed.
Print Assumptions C12_channel_nothing_taken_after_done.

(* ---- cancellation as two events: XCtxCancel (c.ctx.Err() becomes non-nil), XWatcherClose (the watcher goroutine,
        released by c.ctx.Done(), calls Close) ---- *)

(* The window between the two events (context cancelled, Once not fired): Done is still open, Get and Commit already
   fail and change nothing, an explicit Close returns NIL and closes Done (the atomic model answers "already closed"),
   and the Close after it (the watcher's, or anyone's) changes nothing. *)
Theorem C12_channel_split_window_behaviour : forall s,
  in_window s = true ->
  done_closed s = false /\
  step s OGet = (s, RErr) /\ step s OCommit = (s, RErr) /\
  snd (step s OClose) = ROk /\ done_closed (fst (step s OClose)) = true /\
  snd (step (Proofs.ChannelMore.atomic_view s) OClose) = RErr /\
  fst (step (fst (step s OClose)) OClose) = fst (step s OClose).
Proof. exact Proofs.ChannelMore.window_behaviour. Qed.
Print Assumptions C12_channel_split_window_behaviour.

(* One step of the split machine against the atomic model (XCtxCancel read as OCancel, the watcher's Close invisible):
   same next state up to the view "Done closed as soon as the context is cancelled", same result, with exactly ONE
   exception: an explicit Close in the window. *)
Theorem C12_channel_split_step_vs_atomic : forall x xo,
  (once (base x) = true -> closed (base x) = true) ->
  match collapse1 xo with
  | [o] => fst (step (Proofs.ChannelMore.atomic_view (base x)) o)
             = Proofs.ChannelMore.atomic_view (base (fst (xstep x xo))) /\
           (snd (xstep x xo) = snd (step (Proofs.ChannelMore.atomic_view (base x)) o) \/
            (xo = XOp OClose /\ in_window (base x) = true /\
             snd (xstep x xo) = ROk /\ snd (step (Proofs.ChannelMore.atomic_view (base x)) o) = RErr))
  | _ => Proofs.ChannelMore.atomic_view (base (fst (xstep x xo))) = Proofs.ChannelMore.atomic_view (base x)
  end.
Proof. exact Proofs.ChannelMore.xstep_vs_atomic. Qed.
Print Assumptions C12_channel_split_step_vs_atomic.

(* ... and for whole schedules, every interleaving of the two events with all other operations. *)
Theorem C12_channel_split_agrees_with_atomic : forall xops : list xop,
  fst (run init (collapse xops)) = Proofs.ChannelMore.atomic_view (base (fst (xrun xinit xops))) /\
  Proofs.ChannelMore.agree (collapse xops) (visible xops (snd (xrun xinit xops))) (snd (run init (collapse xops))).
Proof. exact Proofs.ChannelMore.split_vs_atomic_init. Qed.
Print Assumptions C12_channel_split_agrees_with_atomic.

(* Cancelling and then letting the watcher run, with nothing in between, is exactly the atomic OCancel (this is what the
   harness does: cancel, then wait for Done). *)
Theorem C12_channel_split_cancel_then_watcher_is_atomic_cancel : forall x,
  wdone x = false ->
  base (fst (xrun x [XCtxCancel; XWatcherClose])) = fst (step (base x) OCancel) /\
  wdone (fst (xrun x [XCtxCancel; XWatcherClose])) = true.
Proof. exact Proofs.ChannelMore.cancel_then_watcher_is_OCancel. Qed.
Print Assumptions C12_channel_split_cancel_then_watcher_is_atomic_cancel.

(* permanence in the split machine, every interleaving *)
Theorem C12_channel_split_closed_permanent : forall (xops : list xop) (x : xst),
  closed (base x) = true -> closed (base (fst (xrun x xops))) = true.
Proof. exact Proofs.ChannelMore.x_closed_permanent. Qed.
Print Assumptions C12_channel_split_closed_permanent.

Theorem C12_channel_split_done_permanent : forall (xops : list xop) (x : xst),
  done_closed (base x) = true -> done_closed (base (fst (xrun x xops))) = true.
Proof. exact Proofs.ChannelMore.x_done_permanent. Qed.
Print Assumptions C12_channel_split_done_permanent.

(* "makes later Get and Commit return an error": from the moment the context is cancelled, Done open or not, under
   every later interleaving. *)
Theorem C12_channel_split_frozen_after_cancel : forall (xops : list xop) (x : xst),
  closed (base x) = true ->
  let s := base x in
  let s' := base (fst (xrun x xops)) in
  closed s' = true /\ taken s' = taken s /\ buf s' = buf s /\ committed s' = committed s /\
  (exists extra, src s' = src s ++ extra /\ sent s' = sent s ++ extra) /\
  Forall2 (fun xo r => xo = XOp OGet \/ xo = XOp OCommit -> r = RErr) xops (snd (xrun x xops)).
Proof. exact Proofs.ChannelMore.x_frozen_after_cancel. Qed.
Print Assumptions C12_channel_split_frozen_after_cancel.

(* "makes a second Close return an error": in every interleaving, from every state, at most ONE explicit Close returns
   nil, and none does once Done is closed (by an earlier Close or by the watcher). *)
Theorem C12_channel_split_close_ok_at_most_once : forall (xops : list xop) (x : xst),
  Proofs.ChannelMore.close_oks xops (snd (xrun x xops)) <= (if done_closed (base x) then 0 else 1).
Proof. exact Proofs.ChannelMore.x_close_ok_at_most_once. Qed.
Print Assumptions C12_channel_split_close_ok_at_most_once.

(* "closes its Done channel" / the watcher goroutine exits: once the context is cancelled (by the parent or by an
   explicit Close) and the watcher has not run, its step is enabled; it closes Done if still open, changes no data, and
   the watcher is finished and can never move again. *)
Theorem C12_channel_split_watcher_closes_done : forall x,
  closed (base x) = true -> wdone x = false ->
  let x1 := fst (xstep x XWatcherClose) in
  watcher_enabled x = true /\ wdone x1 = true /\ done_closed (base x1) = true /\ closed (base x1) = true /\
  (src (base x1) = src (base x) /\ buf (base x1) = buf (base x) /\ rb (base x1) = rb (base x) /\
   committed (base x1) = committed (base x) /\ taken (base x1) = taken (base x) /\ sent (base x1) = sent (base x)) /\
  watcher_enabled x1 = false.
Proof. exact Proofs.ChannelMore.x_watcher_closes_done. Qed.
Print Assumptions C12_channel_split_watcher_closes_done.

(* In every reachable state in which the context is cancelled and the watcher cannot move, the watcher has finished
   and Done is closed: no goroutine of the Channel is left. *)
Theorem C12_channel_split_quiescent_means_done : forall xops : list xop,
  let x := fst (xrun xinit xops) in
  closed (base x) = true -> watcher_enabled x = false ->
  wdone x = true /\ done_closed (base x) = true.
Proof. exact Proofs.ChannelMore.x_quiescent_closed_means_done_init. Qed.
Print Assumptions C12_channel_split_quiescent_means_done.

(* Done is closed only after the context is cancelled, in every reachable state of the split machine. *)
Theorem C12_channel_split_done_implies_cancelled : forall xops : list xop,
  done_closed (base (fst (xrun xinit xops))) = true -> closed (base (fst (xrun xinit xops))) = true.
Proof. exact Proofs.ChannelMore.x_done_implies_cancelled. Qed.
Print Assumptions C12_channel_split_done_implies_cancelled.

End ChannelCloseClauses.

(* C12 (part: shutdown protocol) — Close and context cancellation at lock-operation granularity: everything terminates,
   nothing is left running, the lock order is respected.
   Model: Model/ShutdownProto.v — one Buffer (b.mutex as an RWMutex with pending writers, b.cond as a notify list,
   b.ctx), one consumer (c.mutex, c.cond, c.ctx, its watcher goroutine), and the threads Buffer.Close, consumer.Close
   (explicit and by the watcher, through sync.Once), Get with its getAsync goroutine, WaitCond's watcher and
   CombineContext's AfterFunc, Diff, Commit/Rollback (the proviso: forced while reads are uncommitted), Put, a canceller.
   One step = one lock/unlock, cond.Wait sub-operation, Broadcast, cancel, channel operation.
   [Proofs.ShutdownProto.reachable_upto k s]: s is reachable, by the code as written ([faithful]), under some schedule,
   from an initial configuration (open buffer, open registered consumer, uncommitted reads or not, a value waiting or
   not, a canceller or not) in which the program makes at most k of the four optional calls Get, Diff, Put,
   consumer.Close — each at most once, at any moment; Buffer.Close may be called at any moment too.
   [quiescent]: nothing can move unless the program makes a new call.  Statements only. *)
From Coq Require Import NArith.
From BB.Model Require ShutdownProto.
From BB.Proofs Require ShutdownProto.

Section ShutdownProtocol.
Import BB.Model.ShutdownProto.
Import BB.Model.ShutdownProto.

(* what [reachable_upto] contains: every state on every schedule from every such initial configuration *)
Theorem C12_reachable_upto_meaning : forall k off0 avail0 uc ng0 nd0 np0 ncc0 sched,
  ng0 <= 1 -> nd0 <= 1 -> np0 <= 1 -> ncc0 <= 1 -> ng0 + nd0 + np0 + ncc0 <= k ->
  Proofs.ShutdownProto.reachable_upto k (run faithful (init off0 avail0 uc ng0 nd0 np0 ncc0) sched).
Proof. exact Proofs.ShutdownProto.reachable_upto_intro. Qed.
Print Assumptions C12_reachable_upto_meaning.

(* Closing the Buffer completes, whatever it races with: in every quiescent state in which Buffer.Close has been called
   it has returned, b.done is closed, the consumer is deregistered with its done channel closed and its watcher goroutine
   ended, the getAsync goroutine, WaitCond's watcher and CombineContext's registration are gone, every lock is free,
   every other call has returned and nothing is uncommitted.  (No deadlock, no goroutine left.) *)
Theorem C12_shutdown_completes : forall s, Proofs.ShutdownProto.reachable_upto 2 s ->
  quiescent faithful s = true -> bclose_called s = true ->
  bclose_returned s = true /\ bdone s = true /\ bcan s = true /\
  consumer_closed s = true /\ get_goroutines_gone s = true /\ locks_free s = true /\
  (get_called s = true -> get_returned s = true) /\
  (cclose_called s = true -> cclose_returned s = true) /\
  others_idle s = true /\ pt s = PIdle.
Proof. exact Proofs.ShutdownProto.shutdown_completes2. Qed.
Print Assumptions C12_shutdown_completes.

(* Closing the consumer (explicitly, or by cancellation of its context through its watcher) completes: once c.ctx is
   cancelled every quiescent state has the consumer completely closed; an explicit Close has returned unless it is
   queued on c.mutex behind a legitimately blocked Get (the proviso of the property). *)
Theorem C12_consumer_close_completes : forall s, Proofs.ShutdownProto.reachable_upto 2 s ->
  quiescent faithful s = true ->
  (ccan s = true -> consumer_closed s = true /\ (cclose_called s = true -> cclose_returned s = true)) /\
  (cclose_called s = true -> get_parked s = false -> cclose_returned s = true /\ consumer_closed s = true).
Proof. exact Proofs.ShutdownProto.consumer_close_completes2. Qed.
Print Assumptions C12_consumer_close_completes.

(* ... and that proviso is real: a consumer.Close() called while Get is parked waits on c.mutex, nothing is cancelled *)
Theorem C12_consumer_close_queues_behind_parked_get :
  exists sched, let s := run faithful (init false false false 1 0 0 1) sched in
    quiescent faithful s = true /\ get_parked s = true /\ cclose_called s = true /\ cclose_returned s = false /\
    cl s = ClLockC /\ cm s = CG /\ ccan s = false.
Proof. exact Proofs.ShutdownProto.consumer_close_queues_behind_parked_get. Qed.
Print Assumptions C12_consumer_close_queues_behind_parked_get.

(* It cannot take for ever: every step decreases a measure, so every schedule from a reachable state makes at most
   mu moves (at most 172 from any initial configuration), and every schedule prefix extends to a terminal state. *)
Theorem C12_every_schedule_bounded : forall s sched, Proofs.ShutdownProto.reachable_upto 2 s ->
  moves faithful s sched <= N.to_nat (mu s).
Proof. exact Proofs.ShutdownProto.every_schedule_bounded2. Qed.
Print Assumptions C12_every_schedule_bounded.

Theorem C12_reaches_terminal : forall s, Proofs.ShutdownProto.reachable_upto 2 s ->
  exists post, is_terminal faithful (run faithful s post) = true.
Proof. exact Proofs.ShutdownProto.reaches_terminal2. Qed.
Print Assumptions C12_reaches_terminal.

(* Safety of the order of events: b.done closes only after b.ctx is cancelled and the consumer deregistered; c.done only
   after deregistration and cancellation; a deregistered consumer has nothing uncommitted, so Commit never meets "unknown
   consumer" with reads outstanding; an explicit Close gets the "only once" error only after the watcher's Close. *)
Theorem C12_done_channels_meaning : forall s, Proofs.ShutdownProto.reachable_upto 2 s ->
  (bdone s = true -> bcan s = true /\ reg s = false) /\
  (cdone s = true -> reg s = false /\ ccan s = true) /\
  (reg s = false -> off s = false /\ ccan s = true) /\
  cr s <> CRBUnlockE /\
  (ccres s = RErr -> cw s = CWExit).
Proof. exact Proofs.ShutdownProto.done_channels_meaning2. Qed.
Print Assumptions C12_done_channels_meaning.

(* Lock order: nobody ever stands at a c.mutex.Lock() holding b.mutex in either mode, so no lock-order cycle exists;
   the mutexes are exclusive. *)
Theorem C12_lock_order_respected : forall s, Proofs.ShutdownProto.reachable_upto 2 s ->
  takes_c_under_b s = false /\ lock_cycle s = false /\ locks_consistent s = true.
Proof. exact Proofs.ShutdownProto.lock_order_respected2. Qed.
Print Assumptions C12_lock_order_respected.

(* sensitivity, same step function: Diff locking the buffer first deadlocks against Commit ... *)
Theorem C12_diff_lock_order_refuted :
  exists sched, let s := run Proofs.ShutdownProto.var_diff_inverted (init true false false 0 1 0 0) sched in
    quiescent Proofs.ShutdownProto.var_diff_inverted s = true /\ lock_cycle s = true /\
    df s = DLockC /\ dr s = true /\ cm s = CCR /\ cr s = CRAcq /\ bw s = BCR.
Proof. exact Proofs.ShutdownProto.diff_lock_order_refuted. Qed.
Print Assumptions C12_diff_lock_order_refuted.

(* ... and against a Get, through Buffer.Close as pending writer *)
Theorem C12_diff_lock_order_pending_writer_refuted :
  exists sched, let s := run Proofs.ShutdownProto.var_diff_inverted (init false false false 1 1 0 0) sched in
    is_terminal Proofs.ShutdownProto.var_diff_inverted s = true /\ lock_cycle s = true /\
    df s = DLockC /\ dr s = true /\ cm s = CG /\ gt s = GRLock /\ bw s = BBC /\ bc s = BCAcq.
Proof. exact Proofs.ShutdownProto.diff_lock_order_pending_writer_refuted. Qed.
Print Assumptions C12_diff_lock_order_pending_writer_refuted.

(* delete without Broadcast: the consumer closes, Buffer.Close stays parked for ever *)
Theorem C12_delete_must_broadcast_refuted :
  exists sched, let s := run Proofs.ShutdownProto.var_delete_no_bcast (init false false false 0 0 0 0) sched in
    is_terminal Proofs.ShutdownProto.var_delete_no_bcast s = true /\ consumer_closed s = true /\ reg s = false /\
    bc s = BCParked /\ qBC s = true /\ bclose_returned s = false /\ bdone s = false.
Proof. exact Proofs.ShutdownProto.delete_must_broadcast_refuted. Qed.
Print Assumptions C12_delete_must_broadcast_refuted.

(* WaitCond's watcher broadcasting without the lock: a Get misses the cancellation, keeps c.mutex, and then Buffer.Close
   hangs for ever behind the consumer's Close *)
Theorem C12_watcher_needs_lock_close_hangs_refuted :
  exists sched, let s := run Proofs.ShutdownProto.var_watcher_no_lock (init false false true 1 0 0 0) sched in
    is_terminal Proofs.ShutdownProto.var_watcher_no_lock s = true /\ bclose_called s = true /\
    bclose_returned s = false /\ bcan s = true /\ get_parked s = true /\ cl s = ClLockC /\ cm s = CG.
Proof. exact Proofs.ShutdownProto.watcher_needs_lock_close_hangs_refuted. Qed.
Print Assumptions C12_watcher_needs_lock_close_hangs_refuted.
End ShutdownProtocol.

