(* C12 — Close/cancel completes, fails later calls cleanly, leaves no goroutine behind.
   Functional clauses on Model/Buffer.v and Model/Channel.v; goroutine-exit clauses on the protocol models
   (WaitCond watcher, cleaner/timer). Statements only. *)
From Coq Require Import List ZArith Bool Arith.
From BB.Model Require Buffer Channel WaitCond CleanerProto.
From BB.Proofs Require Buffer Channel WaitCond CleanerProto.
Import ListNotations.

Section BufferClauses.
Import BB.Model.Buffer.

(* Buffer.Close with no uncommitted reads anywhere: terminates at once, closes Done, closes and deregisters every
   consumer, leaves the contents readable, and a second Close returns an error. *)
Theorem C12_buffer_close_terminates : forall s,
  Proofs.Buffer.Inv s -> bonce s = false -> Forall (fun c => cdelta c = 0) (cs s) ->
  let s' := fst (step s OCloseB) in
  snd (step s OCloseB) = ROk /\ bdone s' = true /\ bclosed s' = true /\
  Forall (fun c => creg c = false /\ cdone c = true) (cs s') /\
  log s' = log s /\ base s' = base s /\
  snd (step s' OCloseB) = RErr.
Proof. exact Proofs.Buffer.buffer_close_terminates. Qed.
Print Assumptions C12_buffer_close_terminates.

Theorem C12_consumer_close_terminates : forall s c k,
  getc s c = Some k -> conce k = false -> cdelta k = 0 ->
  let s' := fst (step s (OCloseC c)) in
  snd (step s (OCloseC c)) = ROk /\
  (exists k', getc s' c = Some k' /\ creg k' = false /\ cdone k' = true /\ ccancel k' = true) /\
  log s' = log s /\ base s' = base s /\ snd (step s' (OCloseC c)) = RErr.
Proof. exact Proofs.Buffer.consumer_close_terminates. Qed.
Print Assumptions C12_consumer_close_terminates.

(* a Close waiting for uncommitted reads completes as soon as they are committed or rolled back *)
Theorem C12_blocked_close_released : forall s c k,
  getc s c = Some k -> conce k = true -> cdone k = false -> cdelta k = 0 ->
  exists k', getc (settle s) c = Some k' /\ creg k' = false /\ cdone k' = true.
Proof. exact Proofs.Buffer.blocked_close_released. Qed.
Print Assumptions C12_blocked_close_released.

(* after the buffer is closed: Put, NewConsumer and Get return errors (never park), Commit with nothing pending too,
   and the state is unchanged by them; closed-ness is permanent under every schedule *)
Theorem C12_after_close_calls_fail : forall s,
  bclosed s = true ->
  (forall vals, step s (OPut vals) = (s, RErr)) /\ step s ONew = (s, RErr) /\
  (forall c, step s (OGet c) = (s, RErr)) /\
  (forall c k, getc s c = Some k -> cdelta k = 0 -> step s (OCommit c) = (s, RErr)).
Proof. exact Proofs.Buffer.after_close_calls_fail. Qed.
Print Assumptions C12_after_close_calls_fail.

Theorem C12_closed_stays_closed : forall evs s, bclosed s = true -> bclosed (fst (erun s evs)) = true.
Proof. exact Proofs.Buffer.closed_stays_closed. Qed.
Print Assumptions C12_closed_stays_closed.
End BufferClauses.

Section ChannelClause.
Import BB.Model.Channel.
Theorem C12_channel_after_close : forall s o,
  closed s = true -> (forall v, o <> OSrcSend v) -> o <> OSrcClose ->
  src (fst (step s o)) = src s /\ taken (fst (step s o)) = taken s /\ closed (fst (step s o)) = true /\
  (o = OGet \/ o = OCommit -> snd (step s o) = RErr).
Proof. exact Proofs.Channel.nothing_after_closed. Qed.
Print Assumptions C12_channel_after_close.
End ChannelClause.

Section GoroutineExit.
(* WaitCond's watcher goroutine (one per WaitCond call, hence one per parked Get and one for the cleaner) has exited in
   every terminal state in which the waiter has returned: the deferred cancel of the derived context releases it. *)
Theorem C12_waitcond_watcher_exits : forall n p0 cm sched,
  let s := BB.Model.WaitCond.run true true (BB.Model.WaitCond.init n p0 cm) sched in
  BB.Model.WaitCond.is_terminal true true s = true ->
  (BB.Model.WaitCond.returned (BB.Model.WaitCond.ctl_of s) = true ->
   BB.Model.WaitCond.watcher_done (BB.Model.WaitCond.ctl_of s) = true).
Proof. intros n p0 cm sched s Ht. exact (proj2 (Proofs.WaitCond.waitcond_returns n p0 cm sched Ht)). Qed.
Print Assumptions C12_waitcond_watcher_exits.

(* the cleaner's cooldown timer goroutine is self-removing: every run reaches a state where nothing (timer goroutines
   included) can move, within a bounded number of steps *)
Theorem C12_cleaner_timer_goroutines_finish : forall cd n d pre,
  exists post, BB.Model.CleanerProto.is_terminal true cd
                 (BB.Model.CleanerProto.run true cd (BB.Model.CleanerProto.init n d) (pre ++ post)) = true.
Proof. exact Proofs.CleanerProto.terminates. Qed.
Print Assumptions C12_cleaner_timer_goroutines_finish.
End GoroutineExit.
