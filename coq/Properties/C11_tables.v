(* C11, hygiene of the hand-reviewed tables (guard table, trusted remainder, captured locals) against the CURRENT source:
   every entry is still exercised by a translated fact, nothing stale is licensed.  These statements are not part of what the
   property says and not needed by any race-freedom theorem of Properties/C11.v (which demand that every fact of the source IS
   covered); they keep the tables minimal.  A behaviour-preserving change that removes or renames code (a closure turned into a
   named function, a helper inlined) makes an entry unused and one of these fail while every obligation of the property still
   checks; bin/check therefore compiles this file on every run and REPORTS its status in the evidence (coverage.table_hygiene)
   without counting it among the obligations of C11. *)
From Coq Require Import List String Bool.
From BB Require Import Model.Lockset Proofs.Lockset Model.LocksetBridge Model.LocksetData Gen.ImplLocksets.
From BB Require Import Model.LocksetHB.
From BB Require Proofs.LocksetBridge Proofs.LocksetHB Proofs.LocksetBridgeHB Proofs.LocksetImpl.
Import ListNotations.

Theorem C11_impl_covers_table :
  forallb (fun e => existsb (fun fa => String.eqb (f_struct fa) (fst (fst e)) && String.eqb (f_field fa) (snd (fst e)))
                            impl_facts) guard_table = true.
Proof. vm_compute; reflexivity. Qed.
Print Assumptions C11_impl_covers_table.

Theorem C11_impl_trusted_table_tight :
  table_tight f_fn (lookup guard_table) trusted_table impl_facts = true.
Proof. vm_compute; reflexivity. Qed.
Print Assumptions C11_impl_trusted_table_tight.

Theorem C11_impl_local_trusted_table_tight :
  table_tight fn_lit local_lookup local_trusted_table impl_local_facts = true.
Proof. vm_compute; reflexivity. Qed.
Print Assumptions C11_impl_local_trusted_table_tight.

Theorem C11_impl_local_table_covered : Proofs.LocksetImpl.local_table_covered = true.
Proof. vm_compute; reflexivity. Qed.
Print Assumptions C11_impl_local_table_covered.
