(* C15 - Notifier: a publish reaches each eligible subscription exactly once, and no one else.
   Statements only; every proof is `exact` of a lemma of Proofs/Notifier.v, Proofs/NotifierMore.v or
   Proofs/NotifierLock.v (non-vacuity Examples are there too: subs4, break_immediately, no_break, break_in_the_middle,
   cancel_in_the_middle, run4*, sweep4, registry_demo; eligible_ready_is_delivered_ex, returns_prefix_ex,
   cancelled_registration_ex; lock_demo, writer_blocked, subscribe_seen_ex).

   Vocabulary (Model/Notifier.v).  One call of PublishContext sees [subs], the subscriptions registered under the key
   (n.mutex.RLock is held for the whole call), in map-iteration order; each has an identity [sid], [has_ctx],
   [cancelled0] (its context was already cancelled when the scan looked at it) and [compat] (the published value is
   assignable to the target's element type; for untyped nil: the element type can hold nil).  [run_publish pc subs evs]
   drives the three slices successCases/failureCases/failureRefs exactly as coded (index re-basing loop with its early
   break, removals) through the events [evs] (a target became receivable / a subscription context was cancelled / the
   publish context was cancelled) and returns (sids delivered to, in order; PublishContext has returned).

   Model/NotifierLock.v puts the calls together under n.mutex: [run_sched true linit sched] runs a schedule of
   Subscribe / Unsubscribe (atomic, enabled only when no publish is in flight: the write lock), context cancellations
   and any number of concurrent PublishContext calls (LPubBegin takes the snapshot under the read lock, LPubStep i e is
   one select outcome of flight i, LPubEnd i its return); [f_snap], [f_delivered], [f_ended] describe a flight. *)
From Coq Require Import List Arith Bool Sorted Permutation.
From BB.Model Require Notifier NotifierLock.
From BB.Proofs Require Notifier NotifierMore NotifierLock.
Import BB.Model.Notifier BB.Model.NotifierLock.
Import ListNotations.

(* ---- the slices always represent the abstract set of pending subscriptions (any removal order) ---------------- *)

(* The re-basing loop with its early `break` computes "every ref above the removed position moves down by one"
   because the refs are strictly increasing (which is part of the invariant WF). *)
Theorem C15_rebase_loop_correct : forall j r,
  StronglySorted lt r -> rebase good j r = map (fun x => if j <? x then x - 1 else x) r.
Proof. exact Proofs.Notifier.rebase_ok. Qed.
Print Assumptions C15_rebase_loop_correct.

(* The construction loop establishes the invariant, and the slices start as the eligible subscriptions. *)
Theorem C15_build_establishes_invariant : forall subs,
  NoDup (map sid subs) -> Proofs.Notifier.WF (build subs).
Proof. exact Proofs.Notifier.build_WF. Qed.
Print Assumptions C15_build_establishes_invariant.

Theorem C15_build_pending_are_the_eligible : forall subs, succ (build subs) = pending0 subs.
Proof. exact Proofs.Notifier.build_succ. Qed.
Print Assumptions C15_build_pending_are_the_eligible.

(* Every select outcome that reflect.Select can produce keeps the invariant and removes from the pending slices
   exactly the fired subscription: for FFail i that is the subscription whose context fired (the sid at position i of
   failureCases), not a neighbour; only FSucc delivers, and it delivers to the sid at that index. *)
Theorem C15_lists_track_pending : forall pc c f,
  Proofs.Notifier.WF c -> Proofs.Notifier.in_range pc c f ->
  match f with
  | FExit => iter c f = IReturn
  | _ => exists s c', Proofs.Notifier.fired_sid c f = Some s /\
                      iter c f = ICont c' (Proofs.Notifier.delivered_of c f) /\ Proofs.Notifier.WF c' /\
                      succ c' = rm s (succ c) /\ fail c' = rm s (fail c) /\
                      (forall x, In x (succ c') <-> In x (succ c) /\ x <> s)
  end.
Proof. exact Proofs.Notifier.lists_track_pending. Qed.
Print Assumptions C15_lists_track_pending.

(* The whole publish loop as coded equals the set-based specification, for every event sequence. *)
Theorem C15_run_refines_spec : forall pc subs evs,
  NoDup (map sid subs) -> run_publish pc subs evs = spec_publish pc subs evs.
Proof. exact Proofs.Notifier.run_refines_spec. Qed.
Print Assumptions C15_run_refines_spec.

(* The (arbitrary) map-iteration order does not matter. *)
Theorem C15_iteration_order_irrelevant : forall pc subs subs' evs,
  NoDup (map sid subs) -> Permutation subs subs' -> run_publish pc subs evs = run_publish pc subs' evs.
Proof. exact Proofs.Notifier.publish_iteration_order_irrelevant. Qed.
Print Assumptions C15_iteration_order_irrelevant.

(* ---- exactly once, to the eligible, to no one else ----------------------------------------------------------- *)

Theorem C15_exactly_once : forall pc subs evs,
  NoDup (map sid subs) -> NoDup (fst (run_publish pc subs evs)).
Proof. exact Proofs.Notifier.exactly_once. Qed.
Print Assumptions C15_exactly_once.

Theorem C15_only_eligible_receive : forall pc subs evs x,
  NoDup (map sid subs) -> In x (fst (run_publish pc subs evs)) ->
  exists s, In s subs /\ sid s = x /\ compat s = true /\ (has_ctx s && cancelled0 s) = false.
Proof. exact Proofs.Notifier.only_eligible_receive. Qed.
Print Assumptions C15_only_eligible_receive.

Theorem C15_incompatible_or_cancelled_receive_nothing : forall pc subs evs s,
  NoDup (map sid subs) -> In s subs ->
  compat s = false \/ (has_ctx s = true /\ cancelled0 s = true) ->
  ~ In (sid s) (fst (run_publish pc subs evs)).
Proof. exact Proofs.Notifier.nobody_else_receives. Qed.
Print Assumptions C15_incompatible_or_cancelled_receive_nothing.

Theorem C15_outsiders_receive_nothing : forall pc subs evs x,
  NoDup (map sid subs) -> ~ In x (map sid subs) -> ~ In x (fst (run_publish pc subs evs)).
Proof. exact Proofs.Notifier.outsiders_receive_nothing. Qed.
Print Assumptions C15_outsiders_receive_nothing.

(* LIVENESS, per subscriber: an eligible subscription (element type accepts the value, context not already cancelled
   at the scan) whose target becomes ready - with neither its own context cancelled, nor an earlier readiness, nor the
   end of the publish context before that moment - IS delivered to, whatever the others do and whatever comes later. *)
Theorem C15_eligible_ready_is_delivered : forall pc subs pre post s,
  NoDup (map sid subs) -> In s subs -> eligible s = true ->
  ~ In (EvCancel (sid s)) pre -> ~ In (EvReady (sid s)) pre -> (pc = false \/ ~ In EvExit pre) ->
  In (sid s) (fst (run_publish pc subs (pre ++ EvReady (sid s) :: post))).
Proof. exact Proofs.NotifierMore.eligible_ready_is_delivered. Qed.
Print Assumptions C15_eligible_ready_is_delivered.

(* ---- when Publish returns ------------------------------------------------------------------------------------ *)

(* It returns ONLY when each eligible subscription has received or had its context cancelled - unless the publish
   context was cancelled.  (The cancellation disjunct ranges over the whole of [evs]; the sharper statement over the
   consumed prefix is C15_returns_only_when_served_prefix below.) *)
Theorem C15_returns_only_when_served : forall pc subs evs s,
  NoDup (map sid subs) ->
  snd (run_publish pc subs evs) = true -> pc = false \/ ~ In EvExit evs ->
  In s subs -> compat s = true -> (has_ctx s && cancelled0 s) = false ->
  In (sid s) (fst (run_publish pc subs evs)) \/ (In (EvCancel (sid s)) evs /\ has_ctx s = true).
Proof. exact Proofs.Notifier.returns_only_when_served. Qed.
Print Assumptions C15_returns_only_when_served.

(* The same clause, sharpened: the disjunction above ranges over ALL of [evs], also over events after the return.
   Here [pre] is the prefix of events the call consumed before returning: running [pre] alone gives the whole result
   (same deliveries, returned), NO shorter prefix has returned, and by the end of [pre] either the publish context was
   cancelled or each eligible subscription has received or had its own context cancelled - within [pre]. *)
Theorem C15_returns_only_when_served_prefix : forall pc subs evs,
  NoDup (map sid subs) -> snd (run_publish pc subs evs) = true ->
  exists pre post, evs = pre ++ post /\
    run_publish pc subs pre = run_publish pc subs evs /\
    (forall pre' post', pre = pre' ++ post' -> post' <> [] -> snd (run_publish pc subs pre') = false) /\
    ((pc = true /\ In EvExit pre) \/
     forall s, In s subs -> compat s = true -> (has_ctx s && cancelled0 s) = false ->
       In (sid s) (fst (run_publish pc subs pre)) \/ (In (EvCancel (sid s)) pre /\ has_ctx s = true)).
Proof. exact Proofs.NotifierMore.returns_only_when_served_prefix. Qed.
Print Assumptions C15_returns_only_when_served_prefix.

(* ... and it DOES return once that is the case (nothing is lost, no spurious wait). *)
Theorem C15_returns_when_served : forall pc subs evs,
  NoDup (map sid subs) ->
  (forall s, In s subs -> compat s = true -> (has_ctx s && cancelled0 s) = false ->
             In (EvReady (sid s)) evs \/ (In (EvCancel (sid s)) evs /\ has_ctx s = true)) ->
  snd (run_publish pc subs evs) = true.
Proof. exact Proofs.Notifier.returns_when_served. Qed.
Print Assumptions C15_returns_when_served.

(* A cancelled publish context makes it return at once. *)
Theorem C15_publish_context_cancel_returns : forall subs evs,
  snd (run_publish true subs (EvExit :: evs)) = true.
Proof. exact Proofs.Notifier.exit_returns. Qed.
Print Assumptions C15_publish_context_cancel_returns.

(* ---- registry: Subscribe / Unsubscribe ----------------------------------------------------------------------- *)
(* `None` is the panic; the registry is then unchanged by construction (the functions return no new registry). *)

Theorem C15_duplicate_subscribe_panics : forall k t r, In t (lookup k r) -> subscribe k t r = None.
Proof. exact Proofs.Notifier.subscribe_duplicate_panics. Qed.
Print Assumptions C15_duplicate_subscribe_panics.

Theorem C15_unmatched_unsubscribe_panics : forall k t r, ~ In t (lookup k r) -> unsubscribe k t r = None.
Proof. exact Proofs.Notifier.unsubscribe_unmatched_panics. Qed.
Print Assumptions C15_unmatched_unsubscribe_panics.

Theorem C15_subscribe_adds_exactly_that_target : forall k t r, ~ In t (lookup k r) ->
  exists r', subscribe k t r = Some r' /\ lookup k r' = lookup k r ++ [t] /\
             forall k', k' <> k -> lookup k' r' = lookup k' r.
Proof. exact Proofs.Notifier.subscribe_ok. Qed.
Print Assumptions C15_subscribe_adds_exactly_that_target.

Theorem C15_unsubscribe_removes_exactly_that_target : forall k t r r', unsubscribe k t r = Some r' ->
  In t (lookup k r) /\ lookup k r' = rm t (lookup k r) /\ forall k', k' <> k -> lookup k' r' = lookup k' r.
Proof. exact Proofs.Notifier.unsubscribe_ok. Qed.
Print Assumptions C15_unsubscribe_removes_exactly_that_target.

(* Deleting the key together with its last target is invisible to every lookup. *)
Theorem C15_empty_key_cleanup_invisible : forall k t r, In t (lookup k r) -> rm t (lookup k r) = [] ->
  unsubscribe k t r = Some (remove_key k r) /\
  forall k', lookup k' (remove_key k r) = lookup k' (set_key k [] r).
Proof. exact Proofs.Notifier.unsubscribe_cleanup. Qed.
Print Assumptions C15_empty_key_cleanup_invisible.

(* The registry with the context each subscription was registered with ([cregistry], [subs_of] = what a Publish finds
   under a key): a rejected duplicate - whatever context it carried - leaves every subscription, its context
   included, as it was; a successful one records exactly its own context. *)
Theorem C15_rejected_duplicate_changes_nothing : forall c k t cr k',
  In t (lookup k (fst cr)) -> subs_of k' (Proofs.Notifier.after_subscribe c k t cr) = subs_of k' cr.
Proof. exact Proofs.Notifier.rejected_duplicate_changes_nothing. Qed.
Print Assumptions C15_rejected_duplicate_changes_nothing.

Theorem C15_subscribe_records_its_context_only : forall c k t cr, ~ In t (lookup k (fst cr)) ->
  exists cr', subscribe_ctx c k t cr = Some cr' /\
    lookup k (fst cr') = lookup k (fst cr) ++ [t] /\
    (forall k', k' <> k -> lookup k' (fst cr') = lookup k' (fst cr)) /\
    ctx_of k t (snd cr') = c /\
    (forall k' t', k' <> k \/ t' <> t -> ctx_of k' t' (snd cr') = ctx_of k' t' (snd cr)).
Proof. exact Proofs.Notifier.subscribe_ctx_ok. Qed.
Print Assumptions C15_subscribe_records_its_context_only.

Theorem C15_cancelled_registration_receives_nothing : forall k cr t, Proofs.Notifier.reg_ok (fst cr) ->
  In t (lookup k (fst cr)) -> ctx_of k t (snd cr) = CtxCancelled -> ~ In t (fst (publish_ready k cr)).
Proof. exact Proofs.Notifier.publish_ready_skips_cancelled. Qed.
Print Assumptions C15_cancelled_registration_receives_nothing.

(* The general form of the previous theorem ([publish_ready] is the special case "every target ready, no publish
   context"): for EVERY event sequence and with or without a publish context, a registration whose context is already
   cancelled receives nothing from a publish of what the registry holds under the key ... *)
Theorem C15_cancelled_registration_receives_nothing_general : forall k cr t pc evs,
  Proofs.Notifier.reg_ok (fst cr) -> In t (lookup k (fst cr)) -> ctx_of k t (snd cr) = CtxCancelled ->
  ~ In t (fst (run_publish pc (subs_of k cr) evs)).
Proof. exact Proofs.NotifierMore.cancelled_registration_receives_nothing. Qed.
Print Assumptions C15_cancelled_registration_receives_nothing_general.

(* ... while a registration with a live context or none does receive when its target becomes ready in time. *)
Theorem C15_live_registration_is_delivered : forall k cr t pc pre post,
  Proofs.Notifier.reg_ok (fst cr) -> In t (lookup k (fst cr)) -> ctx_of k t (snd cr) <> CtxCancelled ->
  ~ In (EvCancel t) pre -> ~ In (EvReady t) pre -> (pc = false \/ ~ In EvExit pre) ->
  In t (fst (run_publish pc (subs_of k cr) (pre ++ EvReady t :: post))).
Proof. exact Proofs.NotifierMore.live_registration_is_delivered. Qed.
Print Assumptions C15_live_registration_is_delivered.

Theorem C15_second_unsubscribe_panics : forall k t r r', unsubscribe k t r = Some r' -> unsubscribe k t r' = None.
Proof. exact Proofs.Notifier.unsubscribe_twice_panics. Qed.
Print Assumptions C15_second_unsubscribe_panics.

Theorem C15_second_subscribe_panics : forall k t r r', subscribe k t r = Some r' -> subscribe k t r' = None.
Proof. exact Proofs.Notifier.subscribe_twice_panics. Qed.
Print Assumptions C15_second_subscribe_panics.

(* After Unsubscribe returns, a later Publish under that key - which sees exactly the registered targets, whatever
   their contexts, element types and iteration order - delivers nothing to the target. *)
Theorem C15_unsubscribe_barrier : forall k t r r' pc subs evs,
  Proofs.Notifier.reg_ok r -> unsubscribe k t r = Some r' -> Permutation (map sid subs) (lookup k r') ->
  ~ In t (fst (run_publish pc subs evs)).
Proof. exact Proofs.Notifier.unsubscribe_barrier. Qed.
Print Assumptions C15_unsubscribe_barrier.

(* Subscriptions under other keys receive nothing. *)
Theorem C15_other_keys_receive_nothing : forall k r pc subs evs x,
  Proofs.Notifier.reg_ok r -> Permutation (map sid subs) (lookup k r) -> ~ In x (lookup k r) ->
  ~ In x (fst (run_publish pc subs evs)).
Proof. exact Proofs.Notifier.other_keys_receive_nothing. Qed.
Print Assumptions C15_other_keys_receive_nothing.

(* ---- interleaving under n.mutex: every schedule of Model/NotifierLock.v -------------------------------------- *)

(* "every subscription that exists for that key throughout the call": for every schedule and every publish still in
   flight at its end, the targets in the publish's snapshot are exactly (and in the same order) the targets the
   registry holds under its key NOW - no Subscribe / Unsubscribe can get in between (write lock vs. read lock) - they
   are distinct (the hypothesis NoDup (map sid subs) of the theorems above), and the snapshot is [subs_of] of the
   current registry with the context states of an earlier moment (ctx_le: a live context may have been cancelled since
   the scan; the flight learns that through EvCancel). *)
Theorem C15_snapshot_is_the_registry_throughout : forall sched st, run_sched true linit sched = Some st ->
  forall f, In f (flights st) -> f_ended f = false ->
    map sid (f_snap f) = lookup (f_key f) (fst (reg st)) /\
    NoDup (map sid (f_snap f)) /\
    exists tab0, f_snap f = subs_of (f_key f) (fst (reg st), tab0) /\ Proofs.NotifierLock.ctx_le tab0 (snd (reg st)).
Proof. exact Proofs.NotifierLock.snapshot_throughout. Qed.
Print Assumptions C15_snapshot_is_the_registry_throughout.

(* the same, entry by entry, without the auxiliary table *)
Theorem C15_snapshot_entries : forall sched st, run_sched true linit sched = Some st ->
  forall f, In f (flights st) -> f_ended f = false ->
  forall s, In s (f_snap f) ->
    In (sid s) (lookup (f_key f) (fst (reg st))) /\ compat s = true /\
    (has_ctx s = false <-> ctx_of (f_key f) (sid s) (snd (reg st)) = CtxNone) /\
    (cancelled0 s = true -> ctx_of (f_key f) (sid s) (snd (reg st)) = CtxCancelled).
Proof. exact Proofs.NotifierLock.snapshot_entries. Qed.
Print Assumptions C15_snapshot_entries.

(* ... and when no context is cancelled during the schedule the snapshot IS what the registry holds. *)
Theorem C15_snapshot_exact_without_cancellations : forall sched st,
  forallb (fun l => negb (is_ctx_cancel l)) sched = true -> run_sched true linit sched = Some st ->
  forall f, In f (flights st) -> f_ended f = false -> f_snap f = subs_of (f_key f) (reg st).
Proof. exact Proofs.NotifierLock.snapshot_exact. Qed.
Print Assumptions C15_snapshot_exact_without_cancellations.

(* "After Unsubscribe returns the target receives nothing from later publishes", for every schedule: when
   Unsubscribe(k,t) returns (normally or panicking) no publish is in flight and t is not registered under k; whatever
   happens afterwards - short of subscribing (k,t) again - the publishes that existed at that moment stay exactly as
   they were (they had ended), and every publish under k that has delivered to t is one of those: no publish that
   begins later delivers to t.  (Publishes under OTHER keys t is subscribed to still deliver: lock_demo.) *)
Theorem C15_unsubscribe_barrier_every_schedule : forall pre post k t st1 st,
  run_sched true linit (pre ++ [LUnsubscribe k t]) = Some st1 ->
  run_sched true st1 post = Some st ->
  (forall c, ~ In (LSubscribe c k t) post) ->
  no_reader st1 = true /\ ~ In t (lookup k (fst (reg st1))) /\
  (forall i f, nth_error (flights st1) i = Some f -> nth_error (flights st) i = Some f) /\
  (forall i f, nth_error (flights st) i = Some f -> f_key f = k -> In t (f_delivered f) ->
     nth_error (flights st1) i = Some f).
Proof. exact Proofs.NotifierLock.unsubscribe_barrier_sched. Qed.
Print Assumptions C15_unsubscribe_barrier_every_schedule.

(* A Subscribe(k,t) that has returned (normally, or panicking because (k,t) was registered already) is seen by every
   publish under k that begins later, unless (k,t) is unsubscribed in between: the new flight's snapshot holds t. *)
Theorem C15_subscribe_seen_by_later_publish : forall pre mid c k t pc st,
  run_sched true linit (pre ++ LSubscribe c k t :: mid ++ [LPubBegin pc k]) = Some st ->
  ~ In (LUnsubscribe k t) mid ->
  exists fs f, flights st = fs ++ [f] /\ f_key f = k /\ f_pc f = pc /\ f_hist f = [] /\ f_ended f = false /\
               In t (map sid (f_snap f)) /\ map sid (f_snap f) = lookup k (fst (reg st)).
Proof. exact Proofs.NotifierLock.subscribe_seen_by_later_publish. Qed.
Print Assumptions C15_subscribe_seen_by_later_publish.

(* The write lock is needed (same machine, [locked] = false: Subscribe / Unsubscribe enabled during a publish):
   Unsubscribe(1,10) returns while a publish under key 1 is in flight whose snapshot still holds 10, and that publish
   delivers to 10 after Unsubscribe has returned; with the lock the schedule is not enabled. *)
Theorem C15_without_write_lock_refuted : exists sched e st1 st2,
  run_sched false linit (sched ++ [LUnsubscribe 1 10]) = Some st1 /\
  step false st1 (LPubStep 0 e) = Some st2 /\
  map f_ended (flights st1) = [false] /\
  map (fun f => map sid (f_snap f)) (flights st1) = [[10]] /\ lookup 1 (fst (reg st1)) = [] /\
  map f_delivered (flights st1) = [[]] /\ map f_delivered (flights st2) = [[10]] /\
  run_sched true linit (sched ++ [LUnsubscribe 1 10]) = None.
Proof. exact Proofs.NotifierLock.unlocked_refuted. Qed.
Print Assumptions C15_without_write_lock_refuted.

(* ---- what breaks it (same transition function, variant selected by flags) ------------------------------------ *)

(* Removing the failure case but not its ref: the wrong subscriber is dropped, 11 never receives, Publish hangs. *)
Theorem C15_no_ref_removal_refuted : exists subs evs,
  NoDup (map sid subs) /\
  run_publish_gen Proofs.Notifier.mut_noref false subs evs = ([], false) /\
  spec_publish false subs evs = ([11], true).
Proof. exact Proofs.Notifier.no_ref_removal_refuted. Qed.
Print Assumptions C15_no_ref_removal_refuted.

(* Decrementing before the test in the re-basing loop: 10 never receives, the cancelled 11 receives instead. *)
Theorem C15_rebase_before_test_refuted : exists subs evs,
  NoDup (map sid subs) /\
  run_publish_gen Proofs.Notifier.mut_before false subs evs = ([12; 11], true) /\
  spec_publish false subs evs = ([12; 10], true).
Proof. exact Proofs.Notifier.rebase_before_test_refuted. Qed.
Print Assumptions C15_rebase_before_test_refuted.

(* `<` for `<=` in the break test is wrong as a loop ... *)
Theorem C15_rebase_lt_loop_refuted : exists j r,
  StronglySorted lt r /\ rebase Proofs.Notifier.mut_lt j r <> Proofs.Notifier.rebase_spec j r.
Proof. exact Proofs.Notifier.rebase_lt_loop_refuted. Qed.
Print Assumptions C15_rebase_lt_loop_refuted.

(* ... but an EQUIVALENT mutant end to end (the only ref it mistreats is removed right after): no test can kill it. *)
Theorem C15_rebase_lt_equivalent_mutant : forall pc subs evs,
  NoDup (map sid subs) -> run_publish_gen Proofs.Notifier.mut_lt pc subs evs = spec_publish pc subs evs.
Proof. exact Proofs.Notifier.rebase_lt_benign. Qed.
Print Assumptions C15_rebase_lt_equivalent_mutant.

(* The distinct-identities hypothesis (targets are map keys) is needed. *)
Theorem C15_distinct_sids_needed :
  run_publish false [Proofs.Notifier.S0 10 false; Proofs.Notifier.S0 10 false] [EvReady 10] <>
  spec_publish false [Proofs.Notifier.S0 10 false; Proofs.Notifier.S0 10 false] [EvReady 10].
Proof. exact Proofs.Notifier.distinct_sids_needed. Qed.
Print Assumptions C15_distinct_sids_needed.
