(* C15 - Notifier: a publish reaches each eligible subscription exactly once, and no one else.
   Statements only; every proof is `exact` of a lemma of Proofs/Notifier.v (non-vacuity Examples are there too:
   subs4, break_immediately, no_break, break_in_the_middle, cancel_in_the_middle, run4*, sweep4, registry_demo).

   Vocabulary (Model/Notifier.v).  One call of PublishContext sees [subs], the subscriptions registered under the key
   (n.mutex.RLock is held for the whole call), in map-iteration order; each has an identity [sid], [has_ctx],
   [cancelled0] (its context was already cancelled when the scan looked at it) and [compat] (the published value is
   assignable to the target's element type; for untyped nil: the element type can hold nil).  [run_publish pc subs evs]
   drives the three slices successCases/failureCases/failureRefs exactly as coded (index re-basing loop with its early
   break, removals) through the events [evs] (a target became receivable / a subscription context was cancelled / the
   publish context was cancelled) and returns (sids delivered to, in order; PublishContext has returned). *)
From Coq Require Import List Arith Bool Sorted Permutation.
From BB.Model Require Notifier.
From BB.Proofs Require Notifier.
Import BB.Model.Notifier.
Import ListNotations.

(* ---- the slices always represent the abstract set of pending subscriptions (any removal order) ---------------- *)

(* The re-basing loop with its early `break` computes "every ref above the removed position moves down by one"
   because the refs are strictly increasing (which is part of the invariant WF). *)
Theorem C15_rebase_loop_correct : forall j r,
  StronglySorted lt r -> rebase good j r = map (fun x => if j <? x then x - 1 else x) r.
Proof. exact Proofs.Notifier.rebase_ok. Qed.
Print Assumptions C15_rebase_loop_correct.

(* The construction loop establishes the invariant, and the slices start as the eligible subscriptions. *)
Theorem C15_build_establishes_invariant : forall subs,
  NoDup (map sid subs) -> Proofs.Notifier.WF (build subs).
Proof. exact Proofs.Notifier.build_WF. Qed.
Print Assumptions C15_build_establishes_invariant.

Theorem C15_build_pending_are_the_eligible : forall subs, succ (build subs) = pending0 subs.
Proof. exact Proofs.Notifier.build_succ. Qed.
Print Assumptions C15_build_pending_are_the_eligible.

(* Every select outcome that reflect.Select can produce keeps the invariant and removes from the pending slices
   exactly the fired subscription: for FFail i that is the subscription whose context fired (the sid at position i of
   failureCases), not a neighbour; only FSucc delivers, and it delivers to the sid at that index. *)
Theorem C15_lists_track_pending : forall pc c f,
  Proofs.Notifier.WF c -> Proofs.Notifier.in_range pc c f ->
  match f with
  | FExit => iter c f = IReturn
  | _ => exists s c', Proofs.Notifier.fired_sid c f = Some s /\
                      iter c f = ICont c' (Proofs.Notifier.delivered_of c f) /\ Proofs.Notifier.WF c' /\
                      succ c' = rm s (succ c) /\ fail c' = rm s (fail c) /\
                      (forall x, In x (succ c') <-> In x (succ c) /\ x <> s)
  end.
Proof. exact Proofs.Notifier.lists_track_pending. Qed.
Print Assumptions C15_lists_track_pending.

(* The whole publish loop as coded equals the set-based specification, for every event sequence. *)
Theorem C15_run_refines_spec : forall pc subs evs,
  NoDup (map sid subs) -> run_publish pc subs evs = spec_publish pc subs evs.
Proof. exact Proofs.Notifier.run_refines_spec. Qed.
Print Assumptions C15_run_refines_spec.

(* The (arbitrary) map-iteration order does not matter. *)
Theorem C15_iteration_order_irrelevant : forall pc subs subs' evs,
  NoDup (map sid subs) -> Permutation subs subs' -> run_publish pc subs evs = run_publish pc subs' evs.
Proof. exact Proofs.Notifier.publish_iteration_order_irrelevant. Qed.
Print Assumptions C15_iteration_order_irrelevant.

(* ---- exactly once, to the eligible, to no one else ----------------------------------------------------------- *)

Theorem C15_exactly_once : forall pc subs evs,
  NoDup (map sid subs) -> NoDup (fst (run_publish pc subs evs)).
Proof. exact Proofs.Notifier.exactly_once. Qed.
Print Assumptions C15_exactly_once.

Theorem C15_only_eligible_receive : forall pc subs evs x,
  NoDup (map sid subs) -> In x (fst (run_publish pc subs evs)) ->
  exists s, In s subs /\ sid s = x /\ compat s = true /\ (has_ctx s && cancelled0 s) = false.
Proof. exact Proofs.Notifier.only_eligible_receive. Qed.
Print Assumptions C15_only_eligible_receive.

Theorem C15_incompatible_or_cancelled_receive_nothing : forall pc subs evs s,
  NoDup (map sid subs) -> In s subs ->
  compat s = false \/ (has_ctx s = true /\ cancelled0 s = true) ->
  ~ In (sid s) (fst (run_publish pc subs evs)).
Proof. exact Proofs.Notifier.nobody_else_receives. Qed.
Print Assumptions C15_incompatible_or_cancelled_receive_nothing.

Theorem C15_outsiders_receive_nothing : forall pc subs evs x,
  NoDup (map sid subs) -> ~ In x (map sid subs) -> ~ In x (fst (run_publish pc subs evs)).
Proof. exact Proofs.Notifier.outsiders_receive_nothing. Qed.
Print Assumptions C15_outsiders_receive_nothing.

(* ---- when Publish returns ------------------------------------------------------------------------------------ *)

(* It returns ONLY when each eligible subscription has received or had its context cancelled - unless the publish
   context was cancelled. *)
Theorem C15_returns_only_when_served : forall pc subs evs s,
  NoDup (map sid subs) ->
  snd (run_publish pc subs evs) = true -> pc = false \/ ~ In EvExit evs ->
  In s subs -> compat s = true -> (has_ctx s && cancelled0 s) = false ->
  In (sid s) (fst (run_publish pc subs evs)) \/ (In (EvCancel (sid s)) evs /\ has_ctx s = true).
Proof. exact Proofs.Notifier.returns_only_when_served. Qed.
Print Assumptions C15_returns_only_when_served.

(* ... and it DOES return once that is the case (nothing is lost, no spurious wait). *)
Theorem C15_returns_when_served : forall pc subs evs,
  NoDup (map sid subs) ->
  (forall s, In s subs -> compat s = true -> (has_ctx s && cancelled0 s) = false ->
             In (EvReady (sid s)) evs \/ (In (EvCancel (sid s)) evs /\ has_ctx s = true)) ->
  snd (run_publish pc subs evs) = true.
Proof. exact Proofs.Notifier.returns_when_served. Qed.
Print Assumptions C15_returns_when_served.

(* A cancelled publish context makes it return at once. *)
Theorem C15_publish_context_cancel_returns : forall subs evs,
  snd (run_publish true subs (EvExit :: evs)) = true.
Proof. exact Proofs.Notifier.exit_returns. Qed.
Print Assumptions C15_publish_context_cancel_returns.

(* ---- registry: Subscribe / Unsubscribe ----------------------------------------------------------------------- *)
(* `None` is the panic; the registry is then unchanged by construction (the functions return no new registry). *)

Theorem C15_duplicate_subscribe_panics : forall k t r, In t (lookup k r) -> subscribe k t r = None.
Proof. exact Proofs.Notifier.subscribe_duplicate_panics. Qed.
Print Assumptions C15_duplicate_subscribe_panics.

Theorem C15_unmatched_unsubscribe_panics : forall k t r, ~ In t (lookup k r) -> unsubscribe k t r = None.
Proof. exact Proofs.Notifier.unsubscribe_unmatched_panics. Qed.
Print Assumptions C15_unmatched_unsubscribe_panics.

Theorem C15_subscribe_adds_exactly_that_target : forall k t r, ~ In t (lookup k r) ->
  exists r', subscribe k t r = Some r' /\ lookup k r' = lookup k r ++ [t] /\
             forall k', k' <> k -> lookup k' r' = lookup k' r.
Proof. exact Proofs.Notifier.subscribe_ok. Qed.
Print Assumptions C15_subscribe_adds_exactly_that_target.

Theorem C15_unsubscribe_removes_exactly_that_target : forall k t r r', unsubscribe k t r = Some r' ->
  In t (lookup k r) /\ lookup k r' = rm t (lookup k r) /\ forall k', k' <> k -> lookup k' r' = lookup k' r.
Proof. exact Proofs.Notifier.unsubscribe_ok. Qed.
Print Assumptions C15_unsubscribe_removes_exactly_that_target.

(* Deleting the key together with its last target is invisible to every lookup. *)
Theorem C15_empty_key_cleanup_invisible : forall k t r, In t (lookup k r) -> rm t (lookup k r) = [] ->
  unsubscribe k t r = Some (remove_key k r) /\
  forall k', lookup k' (remove_key k r) = lookup k' (set_key k [] r).
Proof. exact Proofs.Notifier.unsubscribe_cleanup. Qed.
Print Assumptions C15_empty_key_cleanup_invisible.

(* The registry with the context each subscription was registered with ([cregistry], [subs_of] = what a Publish finds
   under a key): a rejected duplicate - whatever context it carried - leaves every subscription, its context
   included, as it was; a successful one records exactly its own context. *)
Theorem C15_rejected_duplicate_changes_nothing : forall c k t cr k',
  In t (lookup k (fst cr)) -> subs_of k' (Proofs.Notifier.after_subscribe c k t cr) = subs_of k' cr.
Proof. exact Proofs.Notifier.rejected_duplicate_changes_nothing. Qed.
Print Assumptions C15_rejected_duplicate_changes_nothing.

Theorem C15_subscribe_records_its_context_only : forall c k t cr, ~ In t (lookup k (fst cr)) ->
  exists cr', subscribe_ctx c k t cr = Some cr' /\
    lookup k (fst cr') = lookup k (fst cr) ++ [t] /\
    (forall k', k' <> k -> lookup k' (fst cr') = lookup k' (fst cr)) /\
    ctx_of k t (snd cr') = c /\
    (forall k' t', k' <> k \/ t' <> t -> ctx_of k' t' (snd cr') = ctx_of k' t' (snd cr)).
Proof. exact Proofs.Notifier.subscribe_ctx_ok. Qed.
Print Assumptions C15_subscribe_records_its_context_only.

Theorem C15_cancelled_registration_receives_nothing : forall k cr t, Proofs.Notifier.reg_ok (fst cr) ->
  In t (lookup k (fst cr)) -> ctx_of k t (snd cr) = CtxCancelled -> ~ In t (fst (publish_ready k cr)).
Proof. exact Proofs.Notifier.publish_ready_skips_cancelled. Qed.
Print Assumptions C15_cancelled_registration_receives_nothing.

Theorem C15_second_unsubscribe_panics : forall k t r r', unsubscribe k t r = Some r' -> unsubscribe k t r' = None.
Proof. exact Proofs.Notifier.unsubscribe_twice_panics. Qed.
Print Assumptions C15_second_unsubscribe_panics.

Theorem C15_second_subscribe_panics : forall k t r r', subscribe k t r = Some r' -> subscribe k t r' = None.
Proof. exact Proofs.Notifier.subscribe_twice_panics. Qed.
Print Assumptions C15_second_subscribe_panics.

(* After Unsubscribe returns, a later Publish under that key - which sees exactly the registered targets, whatever
   their contexts, element types and iteration order - delivers nothing to the target. *)
Theorem C15_unsubscribe_barrier : forall k t r r' pc subs evs,
  Proofs.Notifier.reg_ok r -> unsubscribe k t r = Some r' -> Permutation (map sid subs) (lookup k r') ->
  ~ In t (fst (run_publish pc subs evs)).
Proof. exact Proofs.Notifier.unsubscribe_barrier. Qed.
Print Assumptions C15_unsubscribe_barrier.

(* Subscriptions under other keys receive nothing. *)
Theorem C15_other_keys_receive_nothing : forall k r pc subs evs x,
  Proofs.Notifier.reg_ok r -> Permutation (map sid subs) (lookup k r) -> ~ In x (lookup k r) ->
  ~ In x (fst (run_publish pc subs evs)).
Proof. exact Proofs.Notifier.other_keys_receive_nothing. Qed.
Print Assumptions C15_other_keys_receive_nothing.

(* ---- what breaks it (same transition function, variant selected by flags) ------------------------------------ *)

(* Removing the failure case but not its ref: the wrong subscriber is dropped, 11 never receives, Publish hangs. *)
Theorem C15_no_ref_removal_refuted : exists subs evs,
  NoDup (map sid subs) /\
  run_publish_gen Proofs.Notifier.mut_noref false subs evs = ([], false) /\
  spec_publish false subs evs = ([11], true).
Proof. exact Proofs.Notifier.no_ref_removal_refuted. Qed.
Print Assumptions C15_no_ref_removal_refuted.

(* Decrementing before the test in the re-basing loop: 10 never receives, the cancelled 11 receives instead. *)
Theorem C15_rebase_before_test_refuted : exists subs evs,
  NoDup (map sid subs) /\
  run_publish_gen Proofs.Notifier.mut_before false subs evs = ([12; 11], true) /\
  spec_publish false subs evs = ([12; 10], true).
Proof. exact Proofs.Notifier.rebase_before_test_refuted. Qed.
Print Assumptions C15_rebase_before_test_refuted.

(* `<` for `<=` in the break test is wrong as a loop ... *)
Theorem C15_rebase_lt_loop_refuted : exists j r,
  StronglySorted lt r /\ rebase Proofs.Notifier.mut_lt j r <> Proofs.Notifier.rebase_spec j r.
Proof. exact Proofs.Notifier.rebase_lt_loop_refuted. Qed.
Print Assumptions C15_rebase_lt_loop_refuted.

(* ... but an EQUIVALENT mutant end to end (the only ref it mistreats is removed right after): no test can kill it. *)
Theorem C15_rebase_lt_equivalent_mutant : forall pc subs evs,
  NoDup (map sid subs) -> run_publish_gen Proofs.Notifier.mut_lt pc subs evs = spec_publish pc subs evs.
Proof. exact Proofs.Notifier.rebase_lt_benign. Qed.
Print Assumptions C15_rebase_lt_equivalent_mutant.

(* The distinct-identities hypothesis (targets are map keys) is needed. *)
Theorem C15_distinct_sids_needed :
  run_publish false [Proofs.Notifier.S0 10 false; Proofs.Notifier.S0 10 false] [EvReady 10] <>
  spec_publish false [Proofs.Notifier.S0 10 false; Proofs.Notifier.S0 10 false] [EvReady 10].
Proof. exact Proofs.Notifier.distinct_sids_needed. Qed.
Print Assumptions C15_distinct_sids_needed.
