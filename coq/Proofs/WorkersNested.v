(* Proofs about Model/WorkersNested.v: a work function that calls w.Call(1, ...) on its own pool at count 1 deadlocks;
   more generally k functions each nesting a Call(k) at count k.  Witnesses by computation on the faithful protocol. *)
From Coq Require Import List Arith Bool Lia.
From BB.Model Require Import WorkersNested.
Import ListNotations.

Definition nterminal (s : nst) : Prop := forall x, nstep s x = None.

Lemma nterminalb_ok (s : nst) : nterminalb s = true -> nterminal s.
Proof.
  unfold nterminalb, nterminal. intros H x. rewrite forallb_forall in H.
  destruct (nstep s x) as [s'|] eqn:Hst; [|reflexivity]. exfalso.
  assert (Hin : In x (npicks s)).
  { unfold npicks. apply in_or_app. destruct x as [t|w]; cbn in Hst.
    - left. apply in_map, in_seq. unfold ncstep in Hst.
      destruct (nth_error (ncallers s) t) eqn:Hn; [|discriminate].
      assert (t < length (ncallers s)) by (apply nth_error_Some; congruence). lia.
    - right. apply in_map, in_seq. unfold nwstep in Hst.
      destruct (nth_error (nws s) w) eqn:Hn; [|discriminate].
      assert (w < length (nws s)) by (apply nth_error_Some; congruence). lia. }
  specialize (H x Hin). unfold nenabled in H. rewrite Hst in H. discriminate.
Qed.

(* a state in which NOTHING can ever move again although a caller is inside Call and a function sits in the queue *)
Definition deadlocked (s : nst) : Prop :=
  nterminal s /\ nqueue s <> [] /\ (exists t i, nth_error (ncallers s) t = Some (NBlocked i)) /\ 0 < ncount s.

(* One caller: w.Call(1, f) where f calls w.Call(1, g).  The only worker dequeues f and runs it; f enqueues g, sets
   target = 1, finds count = 1 (no top-up) and blocks on g's reply channel; g stays in the queue for ever: the only worker
   is the one executing f.  In the deadlocked state one function is executing = count = the largest count ever
   requested, so running g would break the concurrency bound: for nested calls the bound and no-starvation clauses of
   C14 are jointly unsatisfiable. *)
Definition nest1_progs : list (nat * body) := [(1, Nest 1 Leaf)].
Definition nest1_sched : list npick := [NPC 0; NPW 0; NPW 0; NPW 0].

Theorem nested_call_deadlocks :
  exists sched, let s := nrun (ninit nest1_progs) sched in
    deadlocked s /\
    nqueue s = [1] /\ ncount s = 1 /\ ntarget s = 1 /\ nmaxreq s = 1 /\ nws s = [NNest 0 1] /\ ncallers s = [NBlocked 0] /\
    map nstat (ncalls s) = [NRunning; NQueued] /\ map nstarts (ncalls s) = [1; 0] /\
    ncountp nexecuting (nws s) = 1.
Proof.
  exists nest1_sched. cbn zeta. split.
  - split; [apply nterminalb_ok; vm_compute; reflexivity|]. split; [vm_compute; discriminate|].
    split; [exists 0, 0; vm_compute; reflexivity|]. vm_compute. lia.
  - vm_compute. repeat split; reflexivity.
Qed.

(* ... and that is where the greedy scheduler ends too (the system has a single path: every maximal run deadlocks) *)
Example nest1_greedy : nrun_fuel 20 (ninit nest1_progs) = nrun (ninit nest1_progs) nest1_sched.
Proof. vm_compute. reflexivity. Qed.

(* two callers Call(2, f), f nesting Call(2, g): both workers end up blocked in the nested Call, two functions queued *)
Definition nest2_progs : list (nat * body) := [(2, Nest 2 Leaf); (2, Nest 2 Leaf)].
Definition nest2_sched : list npick := [NPC 0; NPC 1; NPW 0; NPW 1; NPW 0; NPW 1; NPW 0; NPW 1].

Theorem nested_call_deadlocks_2 :
  exists sched, let s := nrun (ninit nest2_progs) sched in
    deadlocked s /\ nqueue s = [2; 3] /\ ncount s = 2 /\ nmaxreq s = 2 /\ nws s = [NNest 0 2; NNest 1 3] /\
    ncountp nexecuting (nws s) = 2.
Proof.
  exists nest2_sched. cbn zeta. split.
  - split; [apply nterminalb_ok; vm_compute; reflexivity|]. split; [vm_compute; discriminate|].
    split; [exists 0, 0; vm_compute; reflexivity|]. vm_compute. lia.
  - vm_compute. repeat split; reflexivity.
Qed.

(* contrast 1: the nested call asks for MORE workers than are busy (Call(2) inside Call(1)): a second worker is spawned,
   everything completes and the pool drains *)
Example nested_larger_count_completes :
  let s := nrun_fuel 40 (ninit [(1, Nest 2 Leaf)]) in
  nterminal s /\ ncallers s = [NDone] /\ nqueue s = [] /\ ncount s = 0 /\ map nstat (ncalls s) = [NReturned; NReturned] /\
  map nstarts (ncalls s) = [1; 1].
Proof. split; [apply nterminalb_ok; vm_compute; reflexivity|]. vm_compute. repeat split; reflexivity. Qed.

(* contrast 2: without nesting the same program completes (the assumption of Model/Workers.v) *)
Example leaf_completes :
  let s := nrun_fuel 40 (ninit [(1, Leaf); (1, Leaf)]) in
  nterminal s /\ ncallers s = [NDone; NDone] /\ nqueue s = [] /\ ncount s = 0 /\ map nstarts (ncalls s) = [1; 1].
Proof. split; [apply nterminalb_ok; vm_compute; reflexivity|]. vm_compute. repeat split; reflexivity. Qed.

(* contrast 3: the schedule matters for k = 2 with ONE nesting caller: if the second worker is still alive when the
   nested item is enqueued it serves it ... *)
Example nested_served_by_spare_worker :
  let s := nrun_fuel 40 (ninit [(2, Nest 2 Leaf)]) in nterminal s /\ ncallers s = [NDone] /\ ncount s = 0.
Proof. split; [apply nterminalb_ok; vm_compute; reflexivity|]. vm_compute. repeat split; reflexivity. Qed.

(* ---- under EVERY schedule: the outer Call never returns and the inner function is never started ---- *)
Definition nest1_states : list nst :=
  map (fun n => nrun (ninit nest1_progs) (firstn n nest1_sched)) [0; 1; 2; 3; 4].

Lemma nest1_closed : forall s, In s nest1_states -> forall x s', nstep s x = Some s' -> In s' nest1_states.
Proof.
  intros s Hin. cbn in Hin.
  repeat (destruct Hin as [<-|Hin]; [intros [[|[|t]]|[|[|w]]] s' H; vm_compute in H; try discriminate;
                                     injection H as <-; vm_compute; tauto|]).
  contradiction.
Qed.

Lemma nest1_reach : forall sched s, In s nest1_states -> In (nrun s sched) nest1_states.
Proof.
  induction sched as [|x r IH]; intros s Hin; cbn; [exact Hin|].
  destruct (nstep s x) as [s'|] eqn:Hs; [apply IH; eapply nest1_closed; eauto|apply IH; exact Hin].
Qed.

Theorem nested_call_never_returns : forall sched,
  let s := nrun (ninit nest1_progs) sched in
  (forall c, In c (ncallers s) -> c <> NDone) /\
  (forall c, nth_error (ncalls s) 1 = Some c -> nstarts c = 0 /\ nstat c = NQueued) /\
  ncountp nexecuting (nws s) <= 1.
Proof.
  intros sched s. assert (Hin : In s nest1_states) by (apply nest1_reach; vm_compute; tauto).
  cbn in Hin. repeat (destruct Hin as [E|Hin]; [subst s; rewrite <- E; vm_compute;
    (split; [intros c [<-|[]]; discriminate|]); (split; [intros c H; try discriminate; injection H as <-; auto|lia])|]).
  contradiction.
Qed.
