(* Proofs about Model/ExclusiveVal.v, part 2: result values and the identity of the executed function (C10). *)
From Coq Require Import List Arith Lia Bool ZifyBool.
From BB.Model Require Import ExclusiveAbs ExclusiveVal.
From BB.Proofs Require Import ExclusiveAbs ExclusiveVal.
Import ListNotations.
Arguments Nat.sub : simpl never. Arguments Nat.ltb : simpl never. Arguments Nat.leb : simpl never.
Arguments Nat.eqb : simpl never. Arguments Nat.mul : simpl never.

(* ========================================================================================================== *)
(* 1. Counter-level facts about one step                                                                      *)

Definition isWork (r : rpc) : nat := match r with RWork => 1 | _ => 0 end.

(* attach numbering: hi = e_hi of the latest executed item = number of the last attach BEFORE the map item's batch *)
Definition GInvc (f : var -> nat) (att msrc hi : nat) : Prop :=
  att = hi + f mcount /\ (f mcount = 0 -> msrc = 0) /\ (f mcount >= 1 -> msrc = att).

Definition att_after (b : bpick) (att : nat) : nat := if is_attach b then S att else att.
Definition src_after (b : bpick) (att msrc : nat) : nat := if is_attach b then S att else msrc.

(* what the effect label of a step says about the counters *)
Definition eff_facts (b : bpick) (e : eff) (r r' : rpc) (f f' : var -> nat) (att msrc hi : nat) : Prop :=
  match e with
  | EReplace => f' started = S (f started) /\ hi < att_after b att /\ src_after b att msrc = att_after b att /\
                isWork r = 0 /\ isWork r' = 1
  | EComplete => f' started = f started /\ isWork r = 1 /\ isWork r' = 0 /\ (b = PResolve \/ b = PReturn)
  | _ => f' started = f started /\ isWork r' = isWork r /\ (isSleep r = 1 -> isSleep r' = 1)
  end.

Lemma cstep_eff_facts r f b e r' f' att msrc hi :
  Invc r f -> GInvc f att msrc hi -> cstep good r f b = Some (e, r', f') ->
  eff_facts b e r r' f f' att msrc hi /\
  GInvc f' (att_after b att) (match e with EReplace => 0 | _ => src_after b att msrc end)
        (match e with EReplace => att_after b att | _ => hi end).
Proof.
  intros HI HG HS.
  destruct b as [k|k|k sl|k sl| | | | |k]; try destruct k; try destruct sl; destruct r;
    open_cstep HS; split_ifs HS; try discriminate HS;
    injection HS as <- <- <-;
    unfold eff_facts, GInvc, att_after, src_after, Invc, phase in *;
    cbn [set var_beq isSleep owes isWork is_attach] in *;
    (split; [repeat split; try lia; auto|lia]).
Qed.

(* ========================================================================================================== *)
(* 2. Arithmetic invariant of a tracked call: its attach number lies in the batch of the item it is attached / bound to *)

Definition ATc (r : rpc) (f : var -> nat) (att hi : nat) (t : vtag) : Prop :=
  match tpc (bt t) with
  | TNone | TC2M | TC2S => True
  | TGWM => hi < tatt t <= att
  | TGWX => tlo t < tatt t <= thi t /\ tfn t = thi t
  | TGD | TDone => tlo t < tatt t <= thi t /\ tfn t = thi t /\ (texec (bt t) < f started \/ isWork r = 0)
  | TRun => match r with
            | RSleep => hi < tatt t <= att
            | RWork => tlo t < tatt t <= thi t /\ tfn t = thi t
            | _ => True
            end
  end.

(* the part of the one-tag invariant that is used below *)
Definition TB (r : rpc) (f : var -> nat) (t : vtag) : Prop :=
  match tpc (bt t) with
  | TRun => isSleep r + isWork r = 1 /\ (isWork r = 1 -> texec (bt t) = f started)
  | TGWX => texec (bt t) = f started /\ isWork r = 1
  | TGD | TDone => texec (bt t) <= f started
  | _ => True
  end.

Lemma TInvc_TB r f t : Invc r f -> TInvc r f (bt t) -> TB r f t.
Proof.
  intros HI HT. unfold TB, TInvc, Invc, phase in *. destruct (tpc (bt t)); try exact I; destruct r; cbn [isSleep isWork] in *; lia.
Qed.

Definition new_rec (b : bpick) (att msrc hi : nat) : erec :=
  {| e_lo := hi; e_hi := att_after b att; e_fn := src_after b att msrc; e_res := None; e_forced := false |}.

Ltac open_vtag :=
  unfold ATc, TB, TInvc, Invc, GInvc, phase, vtag_eff, vtag_pre, vtag_set, new_rec, eff_facts, att_after, src_after,
         tag_eff, guard, tag_pre, with_tpc, bound, resolved in *;
  cbn [bt tatt tlo thi tfn tgot tpc tag_started_after tcall texec tres tans set var_beq isSleep owes isWork is_attach
       e_lo e_hi e_fn] in *.

(* a tracked call that does not move by itself *)
Lemma ATc_eff r r' f f' b e att msrc hi t o :
  TB r f t -> ATc r f att hi t -> eff_facts b e r r' f f' att msrc hi -> att <= att_after b att ->
  ATc r' f' (att_after b att) (match e with EReplace => att_after b att | _ => hi end)
      (vtag_eff e f' (new_rec b att msrc hi) o t).
Proof.
  intros HT HA HF HL. destruct t as [[tp sa tc te tr ta] ta2 lo hi2 fn got].
  unfold new_rec, eff_facts in *. revert HF HL. generalize (att_after b att), (src_after b att msrc). intros att' src HF HL.
  destruct tp;
    [destruct e; open_vtag; try exact I; lia ..
    |destruct e, r, r'; open_vtag; try exact I; lia
    |destruct e; open_vtag; try exact I; lia].
Qed.

(* a tracked call's own step *)
Lemma ATc_tagged r f att msrc hi L t p t1 o e r' f' :
  Invc r f -> TInvc r f (bt t) -> GInvc f att msrc hi -> ATc r f att hi t ->
  vtag_pre false f (S att) L p t = Some t1 -> cstep good r f (base_of p) = Some (e, r', f') ->
  ATc r' f' (att_after (base_of p) att) (match e with EReplace => att_after (base_of p) att | _ => hi end)
      (vtag_eff e f' (new_rec (base_of p) att msrc hi) o t1).
Proof.
  intros HI HT HG HA HP HS. destruct t as [[tp sa tc te tr ta] ta2 lo hi2 fn got].
  destruct p as [| |sl|sl|]; try destruct sl; destruct tp;
    unfold vtag_pre in HP; cbn [tag_pre tpc bt] in HP; try discriminate HP; injection HP as <-;
    cbn [base_of] in *; destruct r;
    open_cstep HS; split_ifs HS; try discriminate HS;
    injection HS as <- <- <-;
    open_vtag; try exact I; lia.
Qed.

(* ========================================================================================================== *)
(* 3. Agreement of a tracked call's copies with the log of executed items                                     *)

Definition agree (L : nat -> erec) (t : vtag) : Prop :=
  e_lo (L (texec (bt t))) = tlo t /\ e_hi (L (texec (bt t))) = thi t /\ e_fn (L (texec (bt t))) = tfn t.

Definition AG (L : nat -> erec) (r : rpc) (t : vtag) : Prop :=
  match tpc (bt t) with
  | TGWX | TGD => agree L t /\ tgot t = None
  | TDone => agree L t /\ tgot t = e_res (L (texec (bt t)))
  | TRun => (isWork r = 1 -> agree L t) /\ tgot t = None
  | _ => tgot t = None
  end.

Definition log_after (b : bpick) (e : eff) (L : nat -> erec) (n' : nat) (rec : erec) (o : outcome) : nat -> erec :=
  match e with
  | EReplace => upd L n' rec
  | EComplete => upd L n' (with_res (L n') o (is_forced b))
  | _ => L
  end.

Lemma upd_same L n r : upd L n r n = r.
Proof. unfold upd. rewrite Nat.eqb_refl. reflexivity. Qed.
Lemma upd_other L n r m : m <> n -> upd L n r m = L m.
Proof. unfold upd. intros H. destruct (Nat.eqb_spec m n); [contradiction|reflexivity]. Qed.

(* resolve only fills in the result of the item *)
Lemma upd_res_lo L n o fo m : e_lo (upd L n (with_res (L n) o fo) m) = e_lo (L m).
Proof. unfold upd. destruct (Nat.eqb_spec m n) as [->|]; reflexivity. Qed.
Lemma upd_res_hi L n o fo m : e_hi (upd L n (with_res (L n) o fo) m) = e_hi (L m).
Proof. unfold upd. destruct (Nat.eqb_spec m n) as [->|]; reflexivity. Qed.
Lemma upd_res_fn L n o fo m : e_fn (upd L n (with_res (L n) o fo) m) = e_fn (L m).
Proof. unfold upd. destruct (Nat.eqb_spec m n) as [->|]; reflexivity. Qed.

Lemma agree_ext L L' t :
  e_lo (L' (texec (bt t))) = e_lo (L (texec (bt t))) -> e_hi (L' (texec (bt t))) = e_hi (L (texec (bt t))) ->
  e_fn (L' (texec (bt t))) = e_fn (L (texec (bt t))) -> agree L t -> agree L' t.
Proof. unfold agree. intros -> -> ->. exact (fun H => H). Qed.

(* what the structural argument needs to know about the position of a call's execution in the log *)
Definition side (e : eff) (f : var -> nat) (t : vtag) : Prop :=
  match e, tpc (bt t) with
  | EReplace, TGWX | EReplace, TGD | EReplace, TDone => texec (bt t) <= f started
  | EComplete, TRun => texec (bt t) = f started
  | EComplete, TDone => texec (bt t) < f started
  | _, _ => True
  end.

Lemma side_other r r' f f' b e att msrc hi t :
  TB r f t -> ATc r f att hi t -> eff_facts b e r r' f f' att msrc hi -> side e f t.
Proof.
  intros HT HA HF. unfold side, TB, ATc, eff_facts in *. destruct e, (tpc (bt t)); try exact I; lia.
Qed.

Lemma side_own cur r f a L p t t1 e r' f' :
  vtag_pre cur f a L p t = Some t1 -> cstep good r f (base_of p) = Some (e, r', f') -> side e f t1.
Proof.
  intros HP HS. destruct (vtag_pre_pcs _ _ _ _ _ _ _ HP) as [_ HD]. unfold side. rewrite HD.
  destruct p as [| |sl|sl|]; try destruct sl; cbn [base_of dst_of] in *; destruct r;
    open_cstep HS; split_ifs HS; try discriminate HS; injection HS as <- <- <-; exact I.
Qed.

Lemma AG_eff r r' f f' b e att msrc hi L t o :
  side e f t -> AG L r t -> eff_facts b e r r' f f' att msrc hi ->
  AG (log_after b e L (f' started) (new_rec b att msrc hi) o) r' (vtag_eff e f' (new_rec b att msrc hi) o t).
Proof.
  intros HT HG HF. destruct t as [[tp sa tc te tr ta] ta2 lo hi2 fn got].
  unfold eff_facts in HF. set (rec := new_rec b att msrc hi).
  destruct e; cbn [log_after].
  - (* ENone *)
    destruct HF as (_ & HW & _). destruct tp; unfold AG, agree in *; cbn in *; try rewrite HW; exact HG.
  - (* EReplace *)
    destruct HF as (HS & _ & _ & HW & HW'). rewrite HS.
    destruct tp; unfold AG, agree, side in *; cbn in *; try exact HG.
    + (* TGWM -> TGWX: bound to the new item *)
      rewrite HS, upd_same. auto.
    + rewrite upd_other by lia. exact HG.
    + rewrite upd_other by lia. exact HG.
    + (* TRun: bound to the new item *)
      rewrite HS, upd_same. destruct HG as [_ HG]. auto.
    + rewrite upd_other by lia. exact HG.
  - (* EComplete *)
    destruct HF as (HS & HW & HW' & _). rewrite HS.
    destruct tp; unfold AG, agree, side in *; cbn in *; rewrite ?upd_res_lo, ?upd_res_hi, ?upd_res_fn; try exact HG.
    + (* TRun -> TDone: resolve hands the runner its outcome, the same that it stores *)
      destruct HG as [HG _]. split; [exact (HG HW)|]. rewrite HT, upd_same. reflexivity.
    + (* TDone *)
      destruct HG as [HG1 HG2]. split; [exact HG1|]. rewrite upd_other by lia. exact HG2.
  - (* EDelete *)
    destruct HF as (_ & HW & _). destruct tp; unfold AG, agree in *; cbn in *; try rewrite HW; exact HG.
Qed.

(* a tracked call's own step, before the effect: a waiter copies ITS item's result *)
Lemma AG_pre r f a L p t t1 :
  AG L r t -> vtag_pre false f a L p t = Some t1 -> (dst_of f p = TRun -> isWork r = 0) -> AG L r t1.
Proof.
  intros HG HP HR. destruct t as [[tp sa tc te tr ta] ta2 lo hi2 fn got].
  destruct p as [| |sl|sl|]; destruct tp; unfold vtag_pre in HP; cbn [tag_pre tpc bt] in HP; try discriminate HP;
    injection HP as <-; unfold AG, agree in *; cbn in *; try exact HG.
  - (* TAttach *)
    destruct (f mm =? 2); cbn; [exact HG|]. split; [intros HW; rewrite (HR eq_refl) in HW; discriminate HW|exact HG].
  - split; [intros HW; rewrite (HR eq_refl) in HW; discriminate HW|exact HG].
  - destruct HG as [HG _]. split; [exact HG|reflexivity].
Qed.

Lemma runner_not_working r f p e r' f' :
  Invc r f -> cstep good r f (base_of p) = Some (e, r', f') -> dst_of f p = TRun -> isWork r = 0.
Proof.
  intros HI HS HD. destruct r; try reflexivity. exfalso.
  assert (HM : f mm = 2) by (unfold Invc, phase in HI; lia).
  destruct p as [| |sl|sl|]; cbn [base_of dst_of] in *; try discriminate HD.
  - rewrite HM in HD. discriminate HD.
  - open_cstep HS. rewrite HM in HS. cbn in HS. rewrite andb_false_r in HS. discriminate HS.
Qed.

(* ========================================================================================================== *)
(* 4. The log of executed items                                                                               *)

Definition LInv (r : rpc) (f : var -> nat) (L : nat -> erec) : Prop :=
  e_hi (L 0) = 0 /\
  (forall n, 1 <= n <= f started ->
     e_lo (L n) = e_hi (L (n - 1)) /\ e_lo (L n) < e_hi (L n) /\ e_fn (L n) = e_hi (L n)) /\
  (forall n, 1 <= n <= f started -> n < f started \/ isWork r = 0 ->
     exists o, e_res (L n) = Some o /\ o_exec o = n /\ (e_forced (L n) = true <-> o_val o = ErrResolveNotCalled)) /\
  (isWork r = 1 -> e_res (L (f started)) = None).

Definition out_of (b : bpick) (n x : nat) : outcome :=
  {| o_exec := n; o_val := match b with PResolve => Val x | _ => ErrResolveNotCalled end |}.

Lemma LInv_step r r' f f' b e att msrc L x :
  LInv r f L -> eff_facts b e r r' f f' att msrc (e_hi (L (f started))) ->
  LInv r' f' (log_after b e L (f' started) (new_rec b att msrc (e_hi (L (f started)))) (out_of b (f' started) x)).
Proof.
  intros (H0 & HB & HR & HN) HF. unfold eff_facts in HF.
  destruct e; cbn [log_after]; unfold LInv.
  - destruct HF as (HS & HW & _). rewrite HS, HW. auto.
  - (* ExecStart: a new item *)
    destruct HF as (HS & HLt & HSrc & HW & HW'). rewrite HS, HW'.
    split; [rewrite upd_other by lia; exact H0|]. split; [|split].
    + intros n Hn. destruct (Nat.eq_dec n (S (f started))) as [->|Hne].
      * rewrite upd_same. rewrite upd_other by lia. cbn [new_rec e_lo e_hi e_fn].
        replace (S (f started) - 1) with (f started) by lia. lia.
      * rewrite !upd_other by lia. apply HB. lia.
    + intros n Hn Hlt. rewrite upd_other by lia. apply HR; lia.
    + intros _. rewrite upd_same. reflexivity.
  - (* resolve *)
    destruct HF as (HS & HW & HW' & Hb). rewrite HS, HW'.
    rewrite !upd_res_hi. split; [exact H0|]. split; [|split].
    + intros n Hn. rewrite upd_res_lo, !upd_res_hi, upd_res_fn. apply HB. exact Hn.
    + intros n Hn _. destruct (Nat.eq_dec n (f started)) as [->|Hne].
      * rewrite upd_same. cbn [with_res e_res e_forced]. exists (out_of b (f started) x).
        split; [reflexivity|]. split; [reflexivity|].
        destruct Hb as [-> | ->]; cbn; split; intros H; try reflexivity; discriminate H.
      * rewrite upd_other by exact Hne. apply HR; lia.
    + intros H. discriminate H.
  - destruct HF as (HS & HW & _). rewrite HS, HW. auto.
Qed.

(* ========================================================================================================== *)
(* 5. The invariant on values and suppliers, along every schedule                                             *)

Definition last_hi (s : vst) : nat := e_hi (elog s (vf s started)).

Record RInv (s : vst) : Prop := {
  ri_g : GInvc (vf s) (att s) (msrc s) (last_hi s);
  ri_l : LInv (vrp s) (vf s) (elog s);
  ri_t : forall i t, nth_error (tags s) i = Some t -> ATc (vrp s) (vf s) (att s) (last_hi s) t /\ AG (elog s) (vrp s) t
}.

Lemma vapply_spec s b x l1 s' :
  vapply good s b x l1 = Some s' ->
  exists e, cstep good (vrp s) (vf s) b = Some (e, vrp s', vf s') /\
    let rec := new_rec b (att s) (msrc s) (last_hi s) in
    let o := out_of b (vf s' started) x in
    tags s' = map (vtag_eff e (vf s') rec o) l1 /\
    att s' = att_after b (att s) /\
    msrc s' = match e with EReplace => 0 | _ => src_after b (att s) (msrc s) end /\
    elog s' = log_after b e (elog s) (vf s' started) rec o.
Proof.
  unfold vapply. destruct (cstep good (vrp s) (vf s) b) as [[[e r'] f']|]; [|discriminate].
  intros H. injection H as <-. exists e. cbn [vrp vf tags att msrc elog]. split; [reflexivity|].
  unfold new_rec, out_of, att_after, src_after, log_after, last_hi. repeat split; destruct e; reflexivity.
Qed.

Lemma last_hi_after b e r r' f f' att msrc L o :
  eff_facts b e r r' f f' att msrc (e_hi (L (f started))) ->
  e_hi (log_after b e L (f' started) (new_rec b att msrc (e_hi (L (f started)))) o (f' started))
  = match e with EReplace => att_after b att | _ => e_hi (L (f started)) end.
Proof.
  unfold eff_facts. destruct e; cbn [log_after]; intros HF.
  - destruct HF as (-> & _). reflexivity.
  - rewrite upd_same. reflexivity.
  - rewrite upd_res_hi. destruct HF as (-> & _). reflexivity.
  - destruct HF as (-> & _). reflexivity.
Qed.

Lemma att_after_le b att : att <= att_after b att.
Proof. unfold att_after. destruct (is_attach b); lia. Qed.

Lemma RInv_init a b k : RInv (vinit a b k).
Proof.
  constructor.
  - unfold GInvc, last_hi, vinit; cbn. lia.
  - unfold LInv, vinit; cbn. split; [reflexivity|]. split; [intros n Hn; lia|]. split; [intros n Hn; lia|discriminate].
  - intros i t H. cbn [vinit tags] in H. apply nth_repeat0 in H. subst t. split; [exact I|reflexivity].
Qed.

Lemma RInv_step s p s' : VInv s -> RInv s -> vstep s p = Some s' -> RInv s'.
Proof.
  intros [HI HC HT] [HG HL HA] HS. unfold vstep, vstep_gen in HS.
  destruct p as [b x|j tp].
  - (* an anonymous step *)
    destruct (vguard (tags s) (vf s) b) eqn:HGd; [|discriminate HS].
    destruct (vapply_spec _ _ _ _ _ HS) as (e & HCS & Htags & Hatt & Hsrc & Hlog).
    destruct (cstep_eff_facts _ _ _ _ _ _ _ _ _ HI HG HCS) as [HF HG'].
    assert (Hhi : last_hi s' = match e with EReplace => att_after b (att s) | _ => last_hi s end).
    { unfold last_hi at 1. rewrite Hlog. exact (last_hi_after _ _ _ _ _ _ _ _ _ _ HF). }
    constructor.
    + rewrite Hatt, Hsrc, Hhi. exact HG'.
    + rewrite Hlog. exact (LInv_step _ _ _ _ _ _ _ _ _ x HL HF).
    + intros i t' Hn'. rewrite Htags in Hn'. rewrite nth_error_map in Hn'.
      destruct (nth_error (tags s) i) as [t|] eqn:Hn; [|discriminate Hn']. cbn [option_map] in Hn'. injection Hn' as <-.
      destruct (HA _ _ Hn) as [HA1 HA2]. pose proof (TInvc_TB _ _ _ HI (HT _ _ Hn)) as HB.
      split.
      * rewrite Hatt, Hhi. exact (ATc_eff _ _ _ _ _ _ _ _ _ _ _ HB HA1 HF (att_after_le _ _)).
      * rewrite Hlog. exact (AG_eff _ _ _ _ _ _ _ _ _ _ _ _ (side_other _ _ _ _ _ _ _ _ _ _ HB HA1 HF) HA2 HF).
  - (* a tracked call's own step *)
    destruct (nth_error (tags s) j) as [tj|] eqn:Hj; [|discriminate HS].
    destruct (vtag_pre false (vf s) (S (att s)) (elog s) tp tj) as [t1|] eqn:HP; [|discriminate HS].
    destruct (vapply_spec _ _ _ _ _ HS) as (e & HCS & Htags & Hatt & Hsrc & Hlog).
    destruct (cstep_eff_facts _ _ _ _ _ _ _ _ _ HI HG HCS) as [HF HG'].
    assert (Hhi : last_hi s' = match e with EReplace => att_after (base_of tp) (att s) | _ => last_hi s end).
    { unfold last_hi at 1. rewrite Hlog. exact (last_hi_after _ _ _ _ _ _ _ _ _ _ HF). }
    constructor.
    + rewrite Hatt, Hsrc, Hhi. exact HG'.
    + rewrite Hlog. exact (LInv_step _ _ _ _ _ _ _ _ _ 0 HL HF).
    + intros i t' Hn'. rewrite Htags in Hn'. rewrite nth_error_map in Hn'.
      destruct (Nat.eq_dec j i) as [->|HN].
      * rewrite (nth_lset_same _ _ _ _ Hj) in Hn'. cbn [option_map] in Hn'. injection Hn' as <-.
        destruct (HA _ _ Hj) as [HA1 HA2]. split.
        -- rewrite Hatt, Hhi. exact (ATc_tagged _ _ _ _ _ _ _ _ _ _ _ _ _ HI (HT _ _ Hj) HG HA1 HP HCS).
        -- rewrite Hlog.
           exact (AG_eff _ _ _ _ _ _ _ _ _ _ _ _ (side_own _ _ _ _ _ _ _ _ _ _ _ HP HCS)
                         (AG_pre _ _ _ _ _ _ _ HA2 HP (runner_not_working _ _ _ _ _ _ HI HCS)) HF).
      * rewrite nth_lset_other in Hn' by exact HN.
        destruct (nth_error (tags s) i) as [t|] eqn:Hn; [|discriminate Hn']. cbn [option_map] in Hn'. injection Hn' as <-.
        destruct (HA _ _ Hn) as [HA1 HA2]. pose proof (TInvc_TB _ _ _ HI (HT _ _ Hn)) as HB.
        split.
        -- rewrite Hatt, Hhi. exact (ATc_eff _ _ _ _ _ _ _ _ _ _ _ HB HA1 HF (att_after_le _ _)).
        -- rewrite Hlog. exact (AG_eff _ _ _ _ _ _ _ _ _ _ _ _ (side_other _ _ _ _ _ _ _ _ _ _ HB HA1 HF) HA2 HF).
Qed.

Lemma VRInv_run_from s sched : VInv s -> RInv s -> VInv (vrun s sched) /\ RInv (vrun s sched).
Proof.
  revert s. induction sched as [|p rest IH]; intros s HV HR; [split; assumption|].
  unfold vrun in *. cbn [vrun_gen]. fold vstep. destruct (vstep s p) as [s'|] eqn:HS.
  - apply IH; [exact (VInv_step _ _ _ HV HS)|exact (RInv_step _ _ _ HV HR HS)].
  - apply IH; assumption.
Qed.

Theorem RInv_run : forall a b k sched, RInv (vrun (vinit a b k) sched).
Proof. intros. apply VRInv_run_from; [apply VInv_init|apply RInv_init]. Qed.

Theorem VRInv_run : forall a b k sched, VInv (vrun (vinit a b k) sched) /\ RInv (vrun (vinit a b k) sched).
Proof. intros. split; [apply VInv_run|apply RInv_run]. Qed.

(* ========================================================================================================== *)
(* 6. C10: the value a call receives                                                                          *)

(* An answered tracked call received exactly one outcome o; o is the outcome stored in the item of execution number
   o_exec o (its resolve produced it); that execution is the one the call's item was bound to and resolved by; and it
   STARTED after the call was issued (tcall = number of ExecStarts before the call's first step). *)
Theorem tracked_value_from_later_execution : forall a b k sched i t,
  let s := vrun (vinit a b k) sched in
  nth_error (tags s) i = Some t -> tpc (bt t) = TDone ->
  exists o, tgot t = Some o /\ e_res (elog s (o_exec o)) = Some o /\
            o_exec o = texec (bt t) /\ tres (bt t) = texec (bt t) /\
            tcall (bt t) < o_exec o <= vf s started /\ tans (bt t) = 1.
Proof.
  intros a b k sched i t s Hn HD.
  pose proof (VInv_run a b k sched) as HV. pose proof (RInv_run a b k sched) as HR. fold s in HV, HR.
  pose proof (vi_tag _ HV _ _ Hn) as HT. destruct (ri_t _ HR _ _ Hn) as [HA HG].
  destruct (ri_l _ HR) as (_ & _ & HRes & _).
  unfold TInvc in HT. unfold ATc in HA. unfold AG in HG. rewrite HD in HT, HA, HG.
  destruct HG as [_ HG].
  destruct (HRes (texec (bt t)) ltac:(lia) ltac:(lia)) as (o & Ho & Hx & _).
  exists o. rewrite Hx, HG, Ho. repeat split; try lia; tauto.
Qed.

(* a call that has not been answered holds no outcome: outcomes are not delivered early or twice *)
Theorem tracked_unanswered_has_nothing : forall a b k sched i t,
  let s := vrun (vinit a b k) sched in
  nth_error (tags s) i = Some t -> tpc (bt t) <> TDone -> tgot t = None /\ tans (bt t) = 0.
Proof.
  intros a b k sched i t s Hn HD.
  pose proof (VInv_run a b k sched) as HV. pose proof (RInv_run a b k sched) as HR. fold s in HV, HR.
  pose proof (vi_tag _ HV _ _ Hn) as HT. destruct (ri_t _ HR _ _ Hn) as [_ HG].
  unfold TInvc in HT. unfold AG in HG. destruct (tpc (bt t)); try tauto; exfalso; apply HD; reflexivity.
Qed.

(* Callers coalesced into one execution receive the identical result and error: two answered calls OF THE SAME
   HISTORY whose items were completed by the same resolution hold the same outcome. *)
Theorem coalesced_identical : forall a b k sched i j ti tj,
  let s := vrun (vinit a b k) sched in
  nth_error (tags s) i = Some ti -> nth_error (tags s) j = Some tj ->
  tpc (bt ti) = TDone -> tpc (bt tj) = TDone -> tres (bt ti) = tres (bt tj) ->
  tgot ti = tgot tj /\ tgot ti <> None.
Proof.
  intros a b k sched i j ti tj s Hi Hj Di Dj HE.
  destruct (tracked_value_from_later_execution a b k sched i ti Hi Di) as (oi & Gi & Ri & Xi & Ti & _).
  destruct (tracked_value_from_later_execution a b k sched j tj Hj Dj) as (oj & Gj & Rj & Xj & Tj & _).
  fold s in Ri, Rj. split; [|rewrite Gi; discriminate].
  rewrite Gi, Gj, <- Ri, <- Rj, Xi, Xj, <- Ti, <- Tj, HE. reflexivity.
Qed.

(* conversely, calls answered by different executions hold outcomes with different stamps *)
Theorem different_executions_different_outcomes : forall a b k sched i j ti tj,
  let s := vrun (vinit a b k) sched in
  nth_error (tags s) i = Some ti -> nth_error (tags s) j = Some tj ->
  tpc (bt ti) = TDone -> tpc (bt tj) = TDone -> tres (bt ti) <> tres (bt tj) -> tgot ti <> tgot tj.
Proof.
  intros a b k sched i j ti tj s Hi Hj Di Dj HE.
  destruct (tracked_value_from_later_execution a b k sched i ti Hi Di) as (oi & Gi & _ & Xi & Ti & _).
  destruct (tracked_value_from_later_execution a b k sched j tj Hj Dj) as (oj & Gj & _ & Xj & Tj & _).
  rewrite Gi, Gj. intros H. injection H as ->. apply HE. congruence.
Qed.

(* ========================================================================================================== *)
(* 7. C10: the function that is executed                                                                      *)

(* Execution n ran the function stored by attach number e_fn; the attaches made to the executed item are those numbered
   e_lo < k <= e_hi (batches of consecutive executions are adjacent); the function is the LAST of them. *)
Theorem executed_fn_supplied_by_own_batch : forall a b k sched n,
  let s := vrun (vinit a b k) sched in
  1 <= n <= vf s started ->
  e_lo (elog s n) < e_fn (elog s n) <= e_hi (elog s n) /\ e_fn (elog s n) = e_hi (elog s n) /\
  e_lo (elog s n) = e_hi (elog s (n - 1)).
Proof.
  intros a b k sched n s Hn. pose proof (RInv_run a b k sched) as HR. fold s in HR.
  destruct (ri_l _ HR) as (_ & HB & _). specialize (HB n Hn). lia.
Qed.

Definition bound_pc (p : tagpc) : bool := match p with TGWX | TGD | TDone => true | _ => false end.

(* a tracked call whose item was bound to execution n = texec attached to that very item: its attach number lies in n's
   batch; and if it was the last to attach before the execution started, ITS function is the one that ran *)
Theorem tracked_attach_in_own_batch : forall a b k sched i t,
  let s := vrun (vinit a b k) sched in
  nth_error (tags s) i = Some t -> bound_pc (tpc (bt t)) = true \/ (tpc (bt t) = TRun /\ vrp s = RWork) ->
  let n := texec (bt t) in
  1 <= n <= vf s started /\ tcall (bt t) < n /\
  e_lo (elog s n) < tatt t <= e_hi (elog s n) /\
  (tatt t = e_hi (elog s n) -> e_fn (elog s n) = tatt t).
Proof.
  intros a b k sched i t s Hn HB n.
  pose proof (VInv_run a b k sched) as HV. pose proof (RInv_run a b k sched) as HR. fold s in HV, HR.
  pose proof (vi_tag _ HV _ _ Hn) as HT. destruct (ri_t _ HR _ _ Hn) as [HA HG].
  unfold TInvc in HT. unfold ATc in HA. unfold AG, agree in HG. fold n in HG.
  destruct HB as [HB|[HB1 HB2]].
  - destruct (tpc (bt t)); try discriminate HB; fold n in HT; lia.
  - rewrite HB1 in HT, HA, HG. rewrite HB2 in HT, HA, HG. cbn [isWork] in HG. fold n in HT. destruct HG as [HG _].
    specialize (HG eq_refl). lia.
Qed.

Lemma batches_ordered r f L : LInv r f L -> forall n m, 1 <= m -> m < n -> n <= f started -> e_hi (L m) <= e_lo (L n).
Proof.
  intros (_ & HB & _) n. induction n as [|n IH]; intros m H1 H2 H3; [lia|].
  destruct (HB (S n) ltac:(lia)) as (E & _). rewrite E. replace (S n - 1) with n by lia.
  destruct (Nat.eq_dec m n) as [->|HN]; [lia|].
  specialize (IH m H1 ltac:(lia) ltac:(lia)). destruct (HB n ltac:(lia)) as (_ & E2 & _). lia.
Qed.

(* "the executed function was supplied by one of the callers coalesced into that execution": a tracked call that
   supplied the function run by execution n (its attach stored it) and that has been bound is bound to n itself *)
Theorem fn_supplier_is_coalesced : forall a b k sched i t n,
  let s := vrun (vinit a b k) sched in
  nth_error (tags s) i = Some t -> bound_pc (tpc (bt t)) = true ->
  1 <= n <= vf s started -> tatt t = e_fn (elog s n) -> texec (bt t) = n.
Proof.
  intros a b k sched i t n s Hn HB Hr HE.
  destruct (tracked_attach_in_own_batch a b k sched i t Hn (or_introl HB)) as (H1 & _ & H2 & _). fold s in H1, H2.
  destruct (executed_fn_supplied_by_own_batch a b k sched n Hr) as (H3 & _). fold s in H3.
  pose proof (RInv_run a b k sched) as HR. fold s in HR. pose proof (batches_ordered _ _ _ (ri_l _ HR)) as HO.
  destruct (Nat.lt_trichotomy (texec (bt t)) n) as [HL|[HL|HL]]; [|exact HL|].
  - specialize (HO n (texec (bt t)) ltac:(lia) HL ltac:(lia)). lia.
  - specialize (HO (texec (bt t)) n ltac:(lia) HL ltac:(lia)). lia.
Qed.

(* ========================================================================================================== *)
(* 8. C10: a work function that returns without resolving                                                     *)

(* step form: the forced resolve stores (nil, errResolveNotCalled) in the item; an explicit resolve stores its value *)
Theorem return_without_resolve_stores_error : forall s x s',
  vrp s = RWork -> vstep s (VB PReturn x) = Some s' ->
  vf s' started = vf s started /\
  e_res (elog s' (vf s started)) = Some {| o_exec := vf s started; o_val := ErrResolveNotCalled |} /\
  e_forced (elog s' (vf s started)) = true.
Proof.
  intros s x s' HR HS. unfold vstep, vstep_gen in HS. cbn [vguard] in HS. unfold vapply in HS. rewrite HR in HS.
  cbn [cstep good no_forced_resolve] in HS. unfold mk, complete in HS. cbn [good clear_in_resolve] in HS.
  injection HS as <-. cbn [vf elog set var_beq]. rewrite upd_same. cbn. auto.
Qed.

Theorem resolve_stores_value : forall s x s',
  vstep s (VB PResolve x) = Some s' ->
  vrp s = RWork /\ vf s' started = vf s started /\
  e_res (elog s' (vf s started)) = Some {| o_exec := vf s started; o_val := Val x |} /\
  e_forced (elog s' (vf s started)) = false.
Proof.
  intros s x s' HS. unfold vstep, vstep_gen in HS. cbn [vguard] in HS. unfold vapply in HS.
  destruct (vrp s) eqn:HR; cbn [cstep] in HS; try discriminate HS.
  unfold mk, complete in HS. cbn [good clear_in_resolve] in HS.
  injection HS as <-. cbn [vf elog set var_beq]. rewrite upd_same. cbn. auto.
Qed.

(* every finished execution has a stored outcome, stamped with its own ordinal; it is the resolve-not-called error iff
   the work function returned without having resolved *)
Theorem finished_execution_outcome : forall a b k sched n,
  let s := vrun (vinit a b k) sched in
  1 <= n <= vf s started -> n < vf s started \/ vrp s <> RWork ->
  exists o, e_res (elog s n) = Some o /\ o_exec o = n /\
            (e_forced (elog s n) = true <-> o_val o = ErrResolveNotCalled).
Proof.
  intros a b k sched n s Hn HW. pose proof (RInv_run a b k sched) as HR. fold s in HR.
  destruct (ri_l _ HR) as (_ & _ & HRes & _). apply HRes; [exact Hn|].
  destruct HW as [HW|HW]; [left; exact HW|right]. destruct (vrp s); try reflexivity. exfalso. apply HW. reflexivity.
Qed.

(* ... and EVERY caller coalesced into such an execution receives exactly that error (not merely "does not hang") *)
Theorem unresolved_work_yields_error : forall a b k sched i t,
  let s := vrun (vinit a b k) sched in
  nth_error (tags s) i = Some t -> tpc (bt t) = TDone ->
  (e_forced (elog s (texec (bt t))) = true ->
     tgot t = Some {| o_exec := texec (bt t); o_val := ErrResolveNotCalled |}) /\
  (e_forced (elog s (texec (bt t))) = false ->
     exists x, tgot t = Some {| o_exec := texec (bt t); o_val := Val x |}).
Proof.
  intros a b k sched i t s Hn HD.
  destruct (tracked_value_from_later_execution a b k sched i t Hn HD) as (o & Go & Ro & Xo & _ & Hr & _). fold s in Ro, Hr.
  pose proof (RInv_run a b k sched) as HR. fold s in HR. destruct (ri_t _ HR _ _ Hn) as [HA _].
  unfold ATc in HA. rewrite HD in HA.
  destruct (ri_l _ HR) as (_ & _ & HRes & _).
  destruct (HRes (texec (bt t)) ltac:(lia) ltac:(lia)) as (o' & Ho' & _ & HF).
  rewrite Xo in Ro. rewrite Ro in Ho'. injection Ho' as <-. rewrite Go. destruct o as [n ov]. cbn [o_exec o_val] in *. subst n.
  split; intros HE.
  - apply HF in HE. rewrite HE. reflexivity.
  - destruct ov as [x|]; [exists x; reflexivity|]. destruct HF as [_ HF]. rewrite (HF eq_refl) in HE. discriminate HE.
Qed.

(* ========================================================================================================== *)
(* 9. The interesting cases occur; mutation sensitivity                                                        *)

Definition obs (s : vst) : rpc * list (tagpc * nat * nat * nat * option outcome) * nat :=
  (vrp s, map (fun t => (tpc (bt t), tcall (bt t), texec (bt t), tatt t, tgot t)) (tags s), vf s started).

(* an anonymous runner sleeps (CallAfter); tracked calls 0 and 1 attach meanwhile; the execution resolves with 7:
   all three are coalesced, both tracked calls receive (execution 1, Val 7); the function run is that of the last
   attacher, tracked call 1 (attach number 3) *)
Definition vs_coalesce : list vpick :=
  [VB (PCall KC) 0; VB (PAttach KC true) 0; VT 0 TCall; VT 0 (TAttach false); VT 1 TCall; VT 1 (TAttach false);
   VB PSleepDone 0; VB PResolve 7; VT 0 TDrain; VT 1 TDrain; VB PReturn 0; VB PG3 0].

Example coalesced_calls_share_value_and_last_attacher_supplies_fn :
  let s := vrun (vinit 3 0 2) vs_coalesce in
  obs s = (RNone, [(TDone, 0, 1, 2, Some {| o_exec := 1; o_val := Val 7 |});
                   (TDone, 0, 1, 3, Some {| o_exec := 1; o_val := Val 7 |})], 1) /\
  (e_lo (elog s 1), e_hi (elog s 1), e_fn (elog s 1)) = (0, 3, 3) /\ vterminalb s = true.
Proof. vm_compute. auto. Qed.

(* the work function returns without resolving: both coalesced tracked calls receive the resolve-not-called error *)
Definition vs_unresolved : list vpick :=
  [VT 0 TCall; VT 0 (TAttach true); VT 1 TCall; VT 1 (TAttach false); VB PSleepDone 0; VB PReturn 0; VT 1 TDrain; VB PG3 0].
Example unresolved_work_error_to_all :
  let s := vrun (vinit 2 0 2) vs_unresolved in
  map tgot (tags s) = [Some {| o_exec := 1; o_val := ErrResolveNotCalled |}; Some {| o_exec := 1; o_val := ErrResolveNotCalled |}] /\
  e_forced (elog s 1) = true /\ vterminalb s = true.
Proof. vm_compute. auto. Qed.

(* a call made in the resolve-to-return gap of execution 1 (value 7) is answered by execution 2 (value 9), never by 7 *)
Definition vs_gap : list vpick :=
  [VB (PCall KC) 0; VB (PAttach KC false) 0; VB PResolve 7; VT 0 TCall; VT 0 (TAttach false); VB PReturn 0; VB PG3 0;
   VT 0 (TWake false); VB PResolve 9; VB PReturn 0; VB PG3 0].
Example gap_call_gets_later_value :
  let s := vrun (vinit 2 0 1) vs_gap in
  obs s = (RNone, [(TDone, 1, 2, 2, Some {| o_exec := 2; o_val := Val 9 |})], 2) /\
  e_res (elog s 1) = Some {| o_exec := 1; o_val := Val 7 |} /\ vterminalb s = true.
Proof. vm_compute. auto. Qed.

(* Mutation sensitivity, on the SAME transition function with the defect switch `cur`: if a waiter copied the result of
   the LATEST execution instead of its own item's, two calls completed by the same resolution would differ. *)
Definition vs_cur : list vpick :=
  [VB (PCall KC) 0; VB (PAttach KC true) 0; VT 0 TCall; VT 0 (TAttach false); VT 1 TCall; VT 1 (TAttach false);
   VB PSleepDone 0; VB PResolve 7; VT 0 TDrain; VB PReturn 0; VB PG3 0;
   VB (PCall KC) 0; VB (PAttach KC false) 0; VB PResolve 9; VT 1 TDrain; VB PReturn 0; VB PG3 0].

Theorem copy_latest_refuted :
  exists sched ti tj, let s := vrun_gen good true (vinit 4 0 2) sched in
    nth_error (tags s) 0 = Some ti /\ nth_error (tags s) 1 = Some tj /\
    tpc (bt ti) = TDone /\ tpc (bt tj) = TDone /\ tres (bt ti) = tres (bt tj) /\ tgot ti <> tgot tj.
Proof.
  exists vs_cur. eexists. eexists. vm_compute. repeat split; try reflexivity. discriminate.
Qed.

Example copy_latest_schedule_good :
  map tgot (tags (vrun (vinit 4 0 2) vs_cur)) =
  [Some {| o_exec := 1; o_val := Val 7 |}; Some {| o_exec := 1; o_val := Val 7 |}].
Proof. vm_compute. reflexivity. Qed.

(* ========================================================================================================== *)
(* 10. Terminal states: every tracked call is settled                                                          *)

Lemma all_bpicks_complete : forall b, In b all_bpicks.
Proof. intros b. destruct b as [k|k|k sl|k sl| | | | |k]; try destruct k; try destruct sl; cbn; tauto. Qed.

Lemma in_all_vpicks_B k b : In (VB b 0) (all_vpicks k [0]).
Proof.
  unfold all_vpicks. apply in_or_app. left. apply in_flat_map. exists b. split; [apply all_bpicks_complete|].
  cbn. left. reflexivity.
Qed.
Lemma in_all_vpicks_T k i t : i < k -> In (VT i t) (all_vpicks k [0]).
Proof.
  intros Hi. unfold all_vpicks. apply in_or_app. right. apply in_flat_map. exists i. split; [apply in_seq; lia|].
  apply in_map. destruct t as [| |sl|sl|]; try destruct sl; cbn; tauto.
Qed.

Lemma tag_pre_enabled f p b0 : tpc b0 = src_of p -> exists b1, tag_pre f p b0 = Some b1.
Proof.
  destruct b0 as [tp sa tc te tr ta]. destruct p; cbn [src_of tpc]; intros ->; cbn [tag_pre tpc]; eexists; reflexivity.
Qed.

(* an enabled step of the counter protocol is taken by an anonymous goroutine or by one of the tracked calls *)
Lemma cstep_vlift s b c :
  cstep good (vrp s) (vf s) b = Some c ->
  exists p, In p (all_vpicks (length (tags s)) [0]) /\ vstep s p <> None.
Proof.
  intros HS. destruct (vguard (tags s) (vf s) b) eqn:HG.
  - exists (VB b 0). split; [apply in_all_vpicks_B|]. unfold vstep, vstep_gen. rewrite HG. unfold vapply. rewrite HS.
    destruct c as [[e r'] f']. discriminate.
  - assert (HX : exists tp, base_of tp = b /\ cnt (src_of tp) (tags s) >= 1).
    { destruct b as [k|k|k sl|k sl| | | | |k]; try destruct k; cbn [vguard] in HG; try discriminate HG;
        [exists TStale|exists (TAttach sl)|exists (TWake sl)|exists TDrain];
        (split; [reflexivity|]); cbn [src_of]; open_cstep HS; split_ifs HS; try discriminate HS; lia. }
    destruct HX as (tp & <- & HC). destruct (cnt_pos_ex _ _ HC) as (i & t & Hn & HP).
    exists (VT i tp). split.
    + apply in_all_vpicks_T. apply nth_error_Some. congruence.
    + unfold vstep, vstep_gen. rewrite Hn. unfold vtag_pre.
      destruct (tag_pre_enabled (vf s) tp (bt t) HP) as [b1 ->]. unfold vapply. rewrite HS.
      destruct c as [[e r'] f']. discriminate.
Qed.

Theorem vterminal_all_settled : forall a b k sched,
  let s := vrun (vinit a b k) sched in
  vterminalb s = true ->
  vrp s = RNone /\ vf s mm = 0 /\ vf s answered = vf s issuedc /\ in_flight (vf s) = 0 /\ vf s mcount = 0 /\
  forall i t, nth_error (tags s) i = Some t ->
    (tpc (bt t) = TNone /\ tgot t = None) \/ (tpc (bt t) = TDone /\ tgot t <> None).
Proof.
  intros a b k sched s HT.
  pose proof (VInv_run a b k sched) as HV. fold s in HV. destruct HV as [HI HC HTg].
  assert (HN : forall b0, cstep good (vrp s) (vf s) b0 = None).
  { intros b0. destruct (cstep good (vrp s) (vf s) b0) as [c|] eqn:HS; [exfalso|reflexivity].
    destruct (cstep_vlift _ _ _ HS) as (p & Hin & Hne). unfold vterminalb in HT. rewrite forallb_forall in HT.
    specialize (HT p Hin). destruct (vstep s p); [discriminate HT|apply Hne; reflexivity]. }
  destruct (cterminal _ _ HI HN) as (Hr & Hm & Ha & Hf & Hc).
  repeat (split; [assumption|]).
  intros i t Hn. pose proof (fun p => nth_cnt p _ _ _ Hn) as HP.
  unfold CInvc, cv in HC. rewrite Hr in HC. cbn [owes] in HC. unfold in_flight in Hf.
  destruct (tpc (bt t)) eqn:E; try (specialize (HP _ eq_refl); exfalso; lia).
  - left. split; [reflexivity|]. apply (tracked_unanswered_has_nothing a b k sched i t Hn). rewrite E. discriminate.
  - right. split; [reflexivity|].
    destruct (tracked_value_from_later_execution a b k sched i t Hn E) as (o & -> & _). discriminate.
Qed.

Print Assumptions RInv_run.
Print Assumptions tracked_value_from_later_execution.
Print Assumptions tracked_unanswered_has_nothing.
Print Assumptions coalesced_identical.
Print Assumptions different_executions_different_outcomes.
Print Assumptions executed_fn_supplied_by_own_batch.
Print Assumptions tracked_attach_in_own_batch.
Print Assumptions fn_supplier_is_coalesced.
Print Assumptions return_without_resolve_stores_error.
Print Assumptions resolve_stores_value.
Print Assumptions finished_execution_outcome.
Print Assumptions unresolved_work_yields_error.
Print Assumptions copy_latest_refuted.
Print Assumptions vterminal_all_settled.
Print Assumptions VRInv_run.
