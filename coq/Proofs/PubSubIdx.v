(* Proofs about the indexed-subscriber model (Model/PubSubIdx.v): the symmetry argument of C06 as theorems.

     CountInv / count_inv_run            the PubSubAbs counter at a program point = number of subscriber indices at it
     view_step / every_index_is_a_tagged_run
                                         for EVERY index i, the projection [view i] of an indexed run is a run of PubSubTag with
                                         subscriber i as the tagged one (same senders, the other n-1 subscribers anonymous)
     idx_*                               hence the theorems about the tagged subscription hold of every index
     idx_send_returns_number_of_distinct_receivers
                                         when Send is about to return n (and while it waits for the pongs), exactly n DISTINCT
                                         subscriber indices hold a receipt of this round, each exactly one
     indexed_base_is_abstract_run / indexing_is_complete
                                         the base of an indexed run is a PubSubAbs run; from a state whose counters count the
                                         indices, every PubSubAbs step is the step of some index (or of the sender) *)
From Coq Require Import List Arith Lia Bool ZifyBool.
From BB.Model Require Import PubSubAbs PubSubTag PubSubIdx.
From BB.Proofs Require Import PubSubAbs PubSubC06 PubSubTag PubSubMore.
Import ListNotations.
Arguments Nat.sub : simpl never. Arguments Nat.ltb : simpl never. Arguments Nat.leb : simpl never.
Arguments Nat.eqb : simpl never. Arguments Nat.mul : simpl never. Arguments Nat.add : simpl never.

Definition b2n (b : bool) : nat := if b then 1 else 0.

Lemma var_beq_refl : forall x, var_beq x x = true.
Proof. destruct x; reflexivity. Qed.

Lemma var_beq_eq : forall x y, var_beq x y = true -> x = y.
Proof. intros x y H. destruct x; destruct y; try discriminate H; reflexivity. Qed.

(* ------------------------------------------------------------------------------------------------------- *)
(* Lists                                                                                                     *)

Definition cntp (P : sub -> bool) (l : list sub) : nat := length (filter P l).

Lemma cntp_cons : forall P a l, cntp P (a :: l) = b2n (P a) + cntp P l.
Proof. intros P a l. unfold cntp. cbn [filter]. destruct (P a); cbn [length b2n]; lia. Qed.

Lemma cntp_upd : forall P l i y z, nth_error l i = Some y ->
  cntp P (upd l i z) + b2n (P y) = cntp P l + b2n (P z).
Proof.
  intros P. induction l as [|a l IH]; intros i y z H; [destruct i; discriminate H|].
  destruct i as [|i]; cbn [nth_error upd] in *.
  - injection H as ->. rewrite !cntp_cons. lia.
  - rewrite !cntp_cons. specialize (IH i y z H). lia.
Qed.

Lemma nth_error_upd_same : forall (l : list sub) i y z, nth_error l i = Some y -> nth_error (upd l i z) i = Some z.
Proof.
  induction l as [|a l IH]; intros i y z H; [destruct i; discriminate H|].
  destruct i as [|i]; cbn [nth_error upd] in *; [reflexivity | eapply IH; exact H].
Qed.

Lemma nth_error_upd_other : forall (l : list sub) i j z, i <> j -> nth_error (upd l i z) j = nth_error l j.
Proof.
  induction l as [|a l IH]; intros i j z H; [destruct i; reflexivity|].
  destruct i as [|i]; destruct j as [|j]; cbn [nth_error upd]; try reflexivity; [lia | apply IH; lia].
Qed.

Lemma length_upd : forall (l : list sub) i z, length (upd l i z) = length l.
Proof. induction l as [|a l IH]; intros i z; [destruct i; reflexivity|]. destruct i; cbn [upd length]; [reflexivity | rewrite IH; reflexivity]. Qed.

(* two different indices at the same program point are both counted *)
Lemma cntp_two : forall P l i j x y, nth_error l i = Some x -> nth_error l j = Some y -> i <> j ->
  b2n (P x) + b2n (P y) <= cntp P l.
Proof.
  intros P. induction l as [|a l IH]; intros i j x y Hi Hj Hne; [destruct i; discriminate Hi|].
  rewrite cntp_cons. destruct i as [|i]; destruct j as [|j]; cbn [nth_error] in *; [lia | | |].
  - injection Hi as ->. assert (b2n (P y) <= cntp P l); [|lia].
    clear IH Hne. revert j Hj. induction l as [|c l IHl]; intros j Hj; [destruct j; discriminate Hj|].
    rewrite cntp_cons. destruct j as [|j]; cbn [nth_error] in Hj; [injection Hj as ->; lia | specialize (IHl j Hj); lia].
  - injection Hj as ->. assert (b2n (P x) <= cntp P l); [|lia].
    clear IH Hne. revert i Hi. induction l as [|c l IHl]; intros i Hi; [destruct i; discriminate Hi|].
    rewrite cntp_cons. destruct i as [|i]; cbn [nth_error] in Hi; [injection Hi as ->; lia | specialize (IHl i Hi); lia].
  - assert (i <> j) by lia. specialize (IH i j x y Hi Hj H). lia.
Qed.

(* ------------------------------------------------------------------------------------------------------- *)
(* The counters count the indices                                                                            *)

Definition at_pc (x : var) (l : list sub) : nat := cntp (fun y => var_beq (pc y) x) l.

Definition CountInv (s : nst) : Prop :=
  forall x, is_thread x = true -> v (nbase s) x = at_pc x (nsubs s).

(* effect of a subscriber step on the thread counters: one thread moves from [a] to [dst] *)
Lemma sub_step_effect : forall c f p b' a x,
  step (mk c f) p = Some b' -> src p = Some a -> is_thread x = true ->
  v b' x + b2n (var_beq a x) = f x + b2n (var_beq (dst good_flags f p) x).
Proof.
  intros c f p b' a x Hs Ha Hx. unfold step, step_gen in Hs. cbn [sp v mk fl_wlock fl_route good_flags] in Hs.
  unfold dst. cbn [fl_route good_flags]. unfold pos, rlockable in *.
  destruct p; try discriminate Ha; injection Ha as <-;
    case_c Hs c; brk_hyp Hs; injection Hs as <-;
    destruct x; try discriminate Hx; cbn [var_beq b2n]; red_set; lia.
Qed.

(* effect of the count *)
Definition pre_count (g : var -> nat) (x : var) : nat :=
  match x with
  | b0o => g b0o + g b0n | b0n => 0 | n1o => g n1o + g n1n | n1n => 0
  | n2ko => g n2ko + g n2kn | n2kn => 0 | n2fo => g n2fo + g n2fn | n2fn => 0
  | _ => g x
  end.

Lemma count_effect : forall c f p b' x,
  is_count (mk c f) p = true -> step (mk c f) p = Some b' -> is_thread x = true -> v b' x = pre_count f x.
Proof.
  intros c f p b' x Hcnt Hs Hx. unfold step, step_gen in Hs. cbn [sp v mk] in Hs. unfold is_count in Hcnt. cbn [sp v mk] in Hcnt.
  destruct p; try discriminate Hcnt; destruct c; try discriminate Hcnt.
  destruct (f subs =? 0) eqn:E; [discriminate Hcnt|].
  injection Hs as <-. destruct x; try discriminate Hx; cbn [pre_count]; red_set; lia.
Qed.

Lemma at_pc_relabel : forall l x, is_thread x = true ->
  at_pc x (map relabel_sub l) = pre_count (fun y => at_pc y l) x.
Proof.
  induction l as [|a l IH]; intros x Hx.
  - destruct x; reflexivity.
  - cbn [map]. unfold at_pc in *. rewrite cntp_cons.
    assert (Hall : forall y, cntp (fun z => var_beq (pc z) y) (a :: l) = b2n (var_beq (pc a) y) + cntp (fun z => var_beq (pc z) y) l)
      by (intros y; apply cntp_cons).
    rewrite (IH x Hx). unfold relabel_sub at 1. cbn [pc].
    destruct x; try discriminate Hx; cbn [pre_count]; rewrite ?Hall; destruct (pc a); cbn [relabel var_beq b2n]; lia.
Qed.

Lemma nstep_base : forall s q s', nstep s q = Some s' ->
  exists p, step (nbase s) p = Some (nbase s') /\ p = match q with Sender p | Sub _ p => p end.
Proof.
  intros s q s' H. unfold nstep, nstep_gen in H. unfold step. destruct q as [p|i p]; exists p; (split; [|reflexivity]).
  - destruct (src p); [discriminate H|]. destruct (step_gen good_flags (nbase s) p) as [b'|]; [|discriminate H].
    destruct (is_count _ _); injection H as <-; reflexivity.
  - destruct (nth_error (nsubs s) i) as [x|]; [|discriminate H]. destruct (src p) as [a|]; [|discriminate H].
    destruct (var_beq (pc x) a); [|discriminate H].
    destruct (step_gen good_flags (nbase s) p) as [b'|]; [|discriminate H]. injection H as <-. reflexivity.
Qed.

Lemma CountInv_step : forall s q s', CountInv s -> nstep s q = Some s' -> CountInv s'.
Proof.
  intros [[c f] rd l] q s' HC H. unfold CountInv in *. cbn [nbase nsubs v] in HC.
  unfold nstep, nstep_gen in H. cbn [nbase nround nsubs] in H. change {| sp := c; v := f |} with (mk c f) in *.
  destruct q as [p|i p].
  - destruct (src p) eqn:Ha; [discriminate H|].
    destruct (step_gen good_flags (mk c f) p) as [b'|] eqn:Hb; [|discriminate H]. fold (step (mk c f) p) in Hb.
    destruct (is_count (mk c f) p) eqn:Hc; injection H as <-; cbn [nbase nsubs]; intros x Hx.
    + rewrite (count_effect c f p b' x Hc Hb Hx), (at_pc_relabel l x Hx).
      destruct x; try discriminate Hx; cbn [pre_count]; rewrite ?HC by reflexivity; reflexivity.
    + rewrite (sender_keeps_threads c f p b' x Ha Hc Hb Hx). apply HC, Hx.
  - destruct (nth_error l i) as [y|] eqn:Hy; [|discriminate H]. destruct (src p) as [a|] eqn:Ha; [|discriminate H].
    destruct (var_beq (pc y) a) eqn:Hya; [|discriminate H]. apply var_beq_eq in Hya.
    destruct (step_gen good_flags (mk c f) p) as [b'|] eqn:Hb; [|discriminate H]. fold (step (mk c f) p) in Hb.
    injection H as <-. cbn [nbase nsubs v mk]. intros x Hx.
    pose proof (sub_step_effect c f p b' a x Hb Ha Hx) as E1.
    pose proof (cntp_upd (fun z => var_beq (pc z) x) l i y
                  {| pc := dst good_flags f p; cnted := cnted y; subat := match p with PU1 => rd | _ => subat y end;
                     slog := if is_recv p then rd :: slog y else slog y |} Hy) as E2.
    cbn [pc] in E2. rewrite Hya in E2. specialize (HC x Hx). unfold at_pc in *. lia.
Qed.

Lemma at_pc_repeat : forall n x, at_pc x (repeat sub0 n) = if var_beq u0 x then n else 0.
Proof.
  induction n as [|n IH]; intros x; [destruct (var_beq u0 x); reflexivity|].
  cbn [repeat]. unfold at_pc in *. rewrite cntp_cons, IH. cbn [sub0 pc]. destruct (var_beq u0 x); cbn [b2n]; lia.
Qed.

Lemma CountInv_init : forall senders n, CountInv (ninit senders n).
Proof.
  intros a n x Hx. cbn [ninit nbase nsubs init mk v]. rewrite at_pc_repeat. destruct x; try discriminate Hx; reflexivity.
Qed.

(* ------------------------------------------------------------------------------------------------------- *)
(* Every index's view is a tagged run                                                                        *)

Lemma view_step : forall s q s', CountInv s -> nstep s q = Some s' ->
  forall i t, view i s = Some t -> exists q' t', tstep t q' = Some t' /\ view i s' = Some t'.
Proof.
  intros [[c f] rd l] q s' HC H i t Hv. unfold view in Hv. cbn [nbase nround nsubs] in Hv.
  destruct (nth_error l i) as [x|] eqn:Hx; [|discriminate Hv]. injection Hv as <-.
  unfold nstep, nstep_gen in H. cbn [nbase nround nsubs] in H. change {| sp := c; v := f |} with (mk c f) in *.
  unfold tstep, tstep_gen. cbn [base tp round towed tsub tlog].
  destruct q as [p|j p].
  - (* the sender *)
    destruct (src p) eqn:Ha; [discriminate H|].
    destruct (step_gen good_flags (mk c f) p) as [b'|] eqn:Hb; [|discriminate H].
    exists (Anon p). rewrite Hb, Ha.
    destruct (is_count (mk c f) p) eqn:Hc; injection H as <-; eexists; (split; [reflexivity|]);
      unfold view; cbn [nbase nround nsubs].
    + rewrite nth_error_map, Hx. reflexivity.
    + rewrite Hx. reflexivity.
  - destruct (nth_error l j) as [y|] eqn:Hy; [|discriminate H]. destruct (src p) as [a|] eqn:Ha; [|discriminate H].
    destruct (var_beq (pc y) a) eqn:Hya; [|discriminate H].
    destruct (step_gen good_flags (mk c f) p) as [b'|] eqn:Hb; [|discriminate H]. injection H as <-.
    destruct (Nat.eq_dec j i) as [-> | Hne].
    + (* subscriber i itself *)
      rewrite Hx in Hy. injection Hy as <-. exists (Tag p). rewrite Ha, Hya, Hb. eexists. split; [reflexivity|].
      unfold view. cbn [nbase nround nsubs v mk]. rewrite (nth_error_upd_same l i x _ Hx). reflexivity.
    + (* another subscriber: an anonymous step of the view *)
      exists (Anon p). rewrite Hb, Ha. cbn [v mk].
      assert (Hpos : pos (f a - (if var_beq (pc x) a then 1 else 0)) = true).
      { pose proof (cntp_two (fun z => var_beq (pc z) a) l j i y x Hy Hx Hne) as Htwo. cbv beta in Htwo.
        assert (Hth : is_thread a = true) by (destruct p; try discriminate Ha; injection Ha as <-; reflexivity).
        pose proof (HC a Hth) as Hc. cbn [nbase nsubs v mk] in Hc. unfold at_pc in Hc. rewrite Hya in Htwo.
        unfold pos. destruct (var_beq (pc x) a); cbn [b2n] in Htwo; lia. }
      rewrite Hpos. eexists. split; [reflexivity|].
      unfold view. cbn [nbase nround nsubs]. rewrite (nth_error_upd_other l j i _ Hne), Hx. reflexivity.
Qed.

Lemma nstep_length : forall s q s', nstep s q = Some s' -> length (nsubs s') = length (nsubs s).
Proof.
  intros s q s' H. unfold nstep, nstep_gen in H. destruct q as [p|i p].
  - destruct (src p); [discriminate H|]. destruct (step_gen good_flags (nbase s) p); [|discriminate H].
    destruct (is_count _ _); injection H as <-; cbn [nsubs]; [apply map_length | reflexivity].
  - destruct (nth_error (nsubs s) i) as [x|]; [|discriminate H]. destruct (src p) as [a|]; [|discriminate H].
    destruct (var_beq (pc x) a); [|discriminate H]. destruct (step_gen good_flags (nbase s) p); [|discriminate H].
    injection H as <-. cbn [nsubs]. apply length_upd.
Qed.

Lemma view_defined : forall i s, i < length (nsubs s) -> exists t, view i s = Some t.
Proof.
  intros i s H. unfold view. destruct (nth_error (nsubs s) i) eqn:E; [eexists; reflexivity|].
  apply nth_error_None in E. lia.
Qed.

Lemma view_init : forall senders others i, i < S others -> view i (ninit senders (S others)) = Some (tinit senders others).
Proof.
  intros a b i H. unfold view, ninit. cbn [nbase nround nsubs].
  assert (E : nth_error (repeat sub0 (S b)) i = Some sub0).
  { revert i H. generalize (S b) as n. induction n as [|n IH]; intros i H; [lia|].
    destruct i as [|i]; cbn [repeat nth_error]; [reflexivity | apply IH; lia]. }
  rewrite E. reflexivity.
Qed.

Lemma trun_snoc : forall sched t q, trun t (sched ++ [q]) = match tstep (trun t sched) q with Some t' => t' | None => trun t sched end.
Proof. intros sched t q. rewrite trun_app. reflexivity. Qed.

(* THE SYMMETRY THEOREM: whichever subscriber index i one looks at, what it sees of an indexed run (of [senders] Sends and
   [S others] subscribers, any schedule) is a run of the tagged model with i as the tagged subscriber.  So everything proved of
   "the tagged subscription" in Proofs/PubSubTag.v and Proofs/PubSubMore.v is true of each of the subscriptions. *)
Theorem every_index_is_a_tagged_run : forall senders others sched i, i < S others ->
  CountInv (nrun (ninit senders (S others)) sched) /\
  length (nsubs (nrun (ninit senders (S others)) sched)) = S others /\
  exists tsched, view i (nrun (ninit senders (S others)) sched) = Some (trun (tinit senders others) tsched).
Proof.
  intros a b sched i Hi.
  assert (G : forall sc s ts, CountInv s -> length (nsubs s) = S b -> view i s = Some (trun (tinit a b) ts) ->
              CountInv (nrun s sc) /\ length (nsubs (nrun s sc)) = S b /\
              exists ts', view i (nrun s sc) = Some (trun (tinit a b) ts')).
  { induction sc as [|q rest IH]; intros s ts HC HL Hv; [split; [exact HC | split; [exact HL | exists ts; exact Hv]]|].
    cbn [nrun]. destruct (nstep s q) as [s'|] eqn:Hq; [|eapply IH; eassumption].
    destruct (view_step s q s' HC Hq i _ Hv) as (q' & t' & Ht & Hv').
    apply (IH s' (ts ++ [q'])); [eapply CountInv_step; eassumption | rewrite (nstep_length s q s' Hq); exact HL|].
    rewrite trun_snoc, Ht. exact Hv'. }
  apply (G sched (ninit a (S b)) []); [apply CountInv_init | cbn [ninit nsubs]; apply repeat_length | apply view_init, Hi].
Qed.

Theorem count_inv_run : forall senders n sched, CountInv (nrun (ninit senders n) sched).
Proof.
  intros a n sched.
  assert (G : forall sc s, CountInv s -> CountInv (nrun s sc)).
  { induction sc as [|q rest IH]; intros s HC; [exact HC|]. cbn [nrun].
    destruct (nstep s q) as [s'|] eqn:Hq; [apply IH; eapply CountInv_step; eassumption | apply IH, HC]. }
  apply G, CountInv_init.
Qed.

(* ------------------------------------------------------------------------------------------------------- *)
(* The tagged theorems, for every index                                                                      *)

Lemma idx_view : forall senders others sched i x,
  let s := nrun (ninit senders (S others)) sched in
  nth_error (nsubs s) i = Some x ->
  exists tsched,
    trun (tinit senders others) tsched =
    {| base := nbase s; tp := pc x; round := nround s; towed := cnted x; tsub := subat x; tlog := slog x |}.
Proof.
  intros senders others sched i x s Hx.
  assert (Hi : i < S others).
  { destruct (every_index_is_a_tagged_run senders others sched 0 ltac:(lia)) as (_ & HL & _). fold s in HL.
    rewrite <- HL. apply nth_error_Some. rewrite Hx. discriminate. }
  destruct (every_index_is_a_tagged_run senders others sched i Hi) as (_ & _ & ts & Hv). fold s in Hv.
  unfold view in Hv. rewrite Hx in Hv. injection Hv as Hv. exists ts. symmetry. exact Hv.
Qed.

(* each subscription sees a contiguous run of the one global order, no duplicates, nothing stale *)
Theorem idx_contiguous : forall senders others sched i x,
  nth_error (nsubs (nrun (ninit senders (S others)) sched)) i = Some x ->
  exists a, rev (slog x) = seq a (length (slog x)).
Proof.
  intros senders others sched i x Hx. destruct (idx_view senders others sched i x Hx) as [ts E].
  pose proof (receipts_are_contiguous_run senders others ts) as H. cbv zeta in H. rewrite E in H. exact H.
Qed.

Theorem idx_no_duplicate : forall senders others sched i x,
  nth_error (nsubs (nrun (ninit senders (S others)) sched)) i = Some x -> NoDup (slog x).
Proof.
  intros senders others sched i x Hx. destruct (idx_view senders others sched i x Hx) as [ts E].
  pose proof (receipts_no_duplicate senders others ts) as H. rewrite E in H. exact H.
Qed.

Theorem idx_no_stale : forall senders others sched i x,
  let s := nrun (ninit senders (S others)) sched in
  nth_error (nsubs s) i = Some x -> Forall (fun n => subat x < n <= nround s) (slog x).
Proof.
  intros senders others sched i x s Hx. destruct (idx_view senders others sched i x Hx) as [ts E].
  pose proof (receipts_not_stale senders others ts) as H. cbv zeta in H. rewrite E in H. exact H.
Qed.

(* every subscription established before the count and still standing past delivery has received this round *)
Theorem idx_established_included : forall senders others sched i x,
  let s := nrun (ninit senders (S others)) sched in
  nth_error (nsubs s) i = Some x ->
  (sp (nbase s) = S8 \/ sp (nbase s) = S9 \/ sp (nbase s) = S10) ->
  standing (pc x) = true -> subat x < nround s -> hd_error (slog x) = Some (nround s).
Proof.
  intros senders others sched i x s Hx. destruct (idx_view senders others sched i x Hx) as [ts E].
  pose proof (established_included senders others ts) as H. cbv zeta in H. rewrite E in H. exact H.
Qed.

(* ------------------------------------------------------------------------------------------------------- *)
(* Exactly n DISTINCT subscribers hold a receipt of the round of a Send that returns n                       *)

(* the bundle of invariants of an indexed state *)
Definition AllInv (s : nst) : Prop :=
  CountInv s /\ Inv (nbase s) /\ rcv_inv (nbase s) /\ forall i t, view i s = Some t -> TInv t.

Lemma AllInv_step : forall s q s', AllInv s -> nstep s q = Some s' -> AllInv s'.
Proof.
  intros s q s' (HC & HI & HR & HT) Hq. destruct (nstep_base s q s' Hq) as (p & Hb & _).
  split; [eapply CountInv_step; eassumption|]. split; [eapply Inv_step; eassumption|].
  split; [eapply rcv_inv_step; eassumption|].
  intros i t' Hv'.
  assert (Hi : i < length (nsubs s)).
  { rewrite <- (nstep_length s q s' Hq). apply nth_error_Some. unfold view in Hv'. destruct (nth_error (nsubs s') i); [discriminate | discriminate Hv']. }
  destruct (view_defined i s Hi) as [t Hv]. destruct (view_step s q s' HC Hq i t Hv) as (q' & t'' & Ht & Hv'').
  rewrite Hv' in Hv''. injection Hv'' as <-.
  eapply TInv_step; [|apply (HT i t Hv)|exact Ht]. unfold view in Hv. destruct (nth_error (nsubs s) i); [|discriminate Hv].
  injection Hv as <-. exact HI.
Qed.

Lemma AllInv_init : forall senders n, AllInv (ninit senders n).
Proof.
  intros a n. split; [apply CountInv_init|]. split; [apply Inv_init|]. split; [exact I|].
  intros i t Hv. unfold view, ninit in Hv. cbn [nbase nround nsubs] in Hv.
  destruct n as [|n]; [destruct i; discriminate Hv|].
  destruct (nth_error (repeat sub0 (S n)) i) as [x|] eqn:E; [|discriminate Hv].
  apply nth_error_In, repeat_spec in E. subst x. injection Hv as <-. apply (TInv_init a n).
Qed.

Lemma AllInv_run : forall senders n sched, AllInv (nrun (ninit senders n) sched).
Proof.
  intros a n sched.
  assert (G : forall sc s, AllInv s -> AllInv (nrun s sc)).
  { induction sc as [|q rest IH]; intros s HA; [exact HA|]. cbn [nrun].
    destruct (nstep s q) as [s'|] eqn:Hq; [apply IH; eapply AllInv_step; eassumption | apply IH, HA]. }
  apply G, AllInv_init.
Qed.

(* newest-first consecutive numbers are bounded by the head *)
Lemma desc_le_hd : forall l h, desc l -> hd_error l = Some h -> Forall (fun n => n <= h) l.
Proof.
  induction l as [|a [|b rest] IH]; intros h Hd Hh; [constructor | |].
  - cbn in Hh. injection Hh as ->. repeat constructor.
  - cbn in Hh. injection Hh as ->. destruct Hd as (-> & Hd). constructor; [lia|].
    eapply Forall_impl; [|apply (IH b Hd eq_refl)]. cbn. intros n Hn. lia.
Qed.

Lemma has_round_In : forall r x, has_round r x = true <-> In r (slog x).
Proof.
  intros r x. unfold has_round. rewrite existsb_exists. split.
  - intros (n & Hin & E). apply Nat.eqb_eq in E. subst n. exact Hin.
  - intros Hin. exists r. split; [exact Hin | apply Nat.eqb_refl].
Qed.

Definition delivering_or_acking (c : spc) : bool := match c with S6 | S7 | S8 | S9 | S10 => true | _ => false end.

(* number of distinct indices holding a receipt of the current round = the ghost receipt counter of PubSubAbs *)
Definition RcvCount (s : nst) : Prop :=
  match sp (nbase s) with
  | S5 => length (receivers_of_round s) = 0
  | S6 | S7 | S8 | S9 | S10 => length (receivers_of_round s) = v (nbase s) rcv
  | _ => True
  end.

Lemma filter_none : forall (P : sub -> bool) l, (forall y, In y l -> P y = false) -> filter P l = [].
Proof.
  intros P. induction l as [|a l IH]; intros H; [reflexivity|]. cbn [filter].
  rewrite (H a (or_introl eq_refl)). apply IH. intros y Hy. apply H. right. exact Hy.
Qed.

Lemma RcvCount_step : forall s q s', AllInv s -> RcvCount s -> nstep s q = Some s' -> RcvCount s'.
Proof.
  intros [[c f] rd l] q s' (HC & HI & HR & HT) HN H.
  unfold RcvCount, receivers_of_round in *. cbn [nbase nround nsubs sp v] in *.
  unfold nstep, nstep_gen in H. cbn [nbase nround nsubs] in H. change {| sp := c; v := f |} with (mk c f) in *.
  destruct q as [p|i p].
  - destruct (src p) eqn:Ha; [discriminate H|].
    destruct (step_gen good_flags (mk c f) p) as [b'|] eqn:Hb; [|discriminate H].
    destruct (is_count (mk c f) p) eqn:Hc; injection H as <-; cbn [nbase nround nsubs].
    + (* the count: a new round, nobody has it *)
      destruct (count_keeps_thread c f p b' u0 Hc Hb eq_refl) as (_ & -> & _).
      rewrite filter_none; [reflexivity|]. intros y Hy. apply in_map_iff in Hy. destruct Hy as (z & <- & Hz).
      apply In_nth_error in Hz. destruct Hz as [i Hz].
      assert (Hv : view i {| nbase := mk c f; nround := rd; nsubs := l |} =
                   Some {| base := mk c f; tp := pc z; round := rd; towed := cnted z; tsub := subat z; tlog := slog z |})
        by (unfold view; cbn [nsubs nbase nround]; rewrite Hz; reflexivity).
      destruct (HT i _ Hv) as (_ & _ & _ & T4 & _). cbn [tlog tsub round] in T4.
      destruct (has_round (S rd) (relabel_sub z)) eqn:E; [|reflexivity]. apply has_round_In in E. cbn [relabel_sub slog] in E.
      rewrite Forall_forall in T4. specialize (T4 _ E). lia.
    + (* another sender step: the logs and the round do not change; rcv changes only when it is reset at S5 *)
      unfold step_gen in Hb. cbn [sp v mk] in Hb. unfold is_count in Hc. cbn [sp v mk] in Hc.
      destruct p; try discriminate Ha; destruct c; try discriminate Hb; brk_hyp Hb; try discriminate Hc;
        injection Hb as <-; cbn [sp v mk]; red_set; try exact I; try exact HN; lia.
  - destruct (nth_error l i) as [y|] eqn:Hy; [|discriminate H]. destruct (src p) as [a|] eqn:Ha; [|discriminate H].
    destruct (var_beq (pc y) a) eqn:Hya; [|discriminate H]. apply var_beq_eq in Hya.
    destruct (step_gen good_flags (mk c f) p) as [b'|] eqn:Hb; [|discriminate H]. injection H as <-.
    cbn [nbase nround nsubs].
    assert (Hv : view i {| nbase := mk c f; nround := rd; nsubs := l |} =
                 Some {| base := mk c f; tp := pc y; round := rd; towed := cnted y; tsub := subat y; tlog := slog y |})
      by (unfold view; cbn [nsubs nbase nround]; rewrite Hy; reflexivity).
    destruct (HT i _ Hv) as (_ & _ & T3 & T4 & T5 & T6). cbn [tp tlog tsub round towed] in *.
    pose proof (cntp_upd (has_round rd) l i y
                  {| pc := dst good_flags (v (mk c f)) p; cnted := cnted y; subat := match p with PU1 => rd | _ => subat y end;
                     slog := if is_recv p then rd :: slog y else slog y |} Hy) as E. unfold cntp in E.
    destruct HI as (HCm & HL & HP). cbn [sp v mk] in HCm, HL, HP.
    unfold step_gen in Hb. cbn [sp v mk fl_wlock fl_route good_flags] in Hb. unfold pos in Hb.
    assert (Hno : pc y = b0o -> has_round rd y = false).
    { intros Hb0. destruct (has_round rd y) eqn:Eh; [|reflexivity]. apply has_round_In in Eh. exfalso.
      rewrite Hb0 in T6. destruct T6 as (_ & Hlt & [Hnil | Hhd]); [rewrite Hnil in Eh; exact Eh|].
      pose proof (desc_le_hd _ _ T3 Hhd) as Hle. rewrite Forall_forall in Hle. specialize (Hle _ Eh). lia. }
    unfold has_round in *. cbn [slog] in E.
    destruct p; try discriminate Ha; injection Ha as <-; cbn [is_recv v mk] in E |- *;
      destruct c; try discriminate Hb; brk_hyp Hb; injection Hb as <-; cbn [sp v mk]; red_set; try exact I;
      try lia.
    + (* PRecvO: subscriber i, waiting for its copy (so without one), takes it *)
      cbn [existsb] in E. rewrite Nat.eqb_refl in E. rewrite (Hno Hya) in E. cbn [orb b2n] in E. lia.
    + (* PRecvN: never enabled *)
      exfalso. unfold phase_inv in HP. lia.
Qed.

Lemma RcvCount_run : forall senders n sched, RcvCount (nrun (ninit senders n) sched).
Proof.
  intros a n sched.
  assert (G : forall sc s, AllInv s -> RcvCount s -> RcvCount (nrun s sc)).
  { induction sc as [|q rest IH]; intros s HA HN; [exact HN|]. cbn [nrun].
    destruct (nstep s q) as [s'|] eqn:Hq; [|apply IH; assumption].
    apply IH; [eapply AllInv_step; eassumption | eapply RcvCount_step; eassumption]. }
  apply G; [apply AllInv_init | exact I].
Qed.

(* For every Send that is about to return n (S9: about to publish the pong count; S10: waiting for the pongs, after which it
   returns n): exactly n DISTINCT subscriber indices hold a receipt of this Send's round. *)
Theorem idx_send_returns_number_of_distinct_receivers : forall senders n sched,
  let s := nrun (ninit senders n) sched in
  (sp (nbase s) = S9 \/ sp (nbase s) = S10) ->
  length (receivers_of_round s) = v (nbase s) sent.
Proof.
  intros a n sched s Hc. pose proof (RcvCount_run a n sched) as HN. destruct (AllInv_run a n sched) as (_ & _ & HR & _).
  fold s in HN, HR. unfold RcvCount in HN. unfold rcv_inv in HR. destruct Hc as [E | E]; rewrite E in HN, HR; lia.
Qed.

(* ... and each of them holds exactly one: the total number of receipts of the round, over all subscribers, is n *)
Lemma NoDup_count_occ_b2n : forall l r, NoDup l -> count_occ Nat.eq_dec l r = b2n (existsb (Nat.eqb r) l).
Proof.
  induction l as [|a l IH]; intros r Hd; [reflexivity|]. inversion Hd as [|? ? Hnin Hd']; subst.
  cbn [count_occ existsb]. destruct (Nat.eq_dec a r) as [-> | Hne].
  - rewrite Nat.eqb_refl. cbn [orb b2n]. rewrite (IH r Hd').
    destruct (existsb (Nat.eqb r) l) eqn:E; [|reflexivity]. exfalso. apply Hnin.
    apply existsb_exists in E. destruct E as (m & Hin & Em). apply Nat.eqb_eq in Em. subst m. exact Hin.
  - assert (E : (r =? a) = false) by (apply Nat.eqb_neq; congruence). rewrite E. cbn [orb]. apply IH, Hd'.
Qed.

Definition receipts_of_round (s : nst) : nat :=
  list_sum (map (fun x => count_occ Nat.eq_dec (slog x) (nround s)) (nsubs s)).

Lemma list_sum_b2n_filter : forall (P : sub -> bool) l, list_sum (map (fun x => b2n (P x)) l) = length (filter P l).
Proof.
  intros P. induction l as [|a l IH]; [reflexivity|]. cbn [map filter].
  change (list_sum (b2n (P a) :: map (fun x => b2n (P x)) l)) with (b2n (P a) + list_sum (map (fun x => b2n (P x)) l)).
  rewrite IH. destruct (P a); cbn [b2n length]; lia.
Qed.

Theorem idx_message_received_exactly_n_times : forall senders n sched,
  let s := nrun (ninit senders n) sched in
  (sp (nbase s) = S9 \/ sp (nbase s) = S10) ->
  receipts_of_round s = v (nbase s) sent.
Proof.
  intros a n sched s Hc. pose proof (idx_send_returns_number_of_distinct_receivers a n sched Hc) as Hn. fold s in Hn.
  rewrite <- Hn. unfold receipts_of_round, receivers_of_round. rewrite <- list_sum_b2n_filter. f_equal.
  apply map_ext_in. intros x Hx. unfold has_round. apply NoDup_count_occ_b2n.
  destruct (AllInv_run a n sched) as (_ & _ & _ & HT). fold s in HT.
  apply In_nth_error in Hx. destruct Hx as [i Hx].
  assert (Hv : view i s = Some {| base := nbase s; tp := pc x; round := nround s; towed := cnted x; tsub := subat x; tlog := slog x |})
    by (unfold view; rewrite Hx; reflexivity).
  destruct (HT i _ Hv) as (_ & _ & T3 & _). cbn [tlog] in T3.
  destruct (desc_rev_seq _ T3) as [b Hb]. pose proof (seq_NoDup (length (slog x)) b) as Hnd. rewrite <- Hb in Hnd.
  apply NoDup_rev in Hnd. rewrite rev_involutive in Hnd. exact Hnd.
Qed.

(* ------------------------------------------------------------------------------------------------------- *)
(* The indexed model is the counter abstraction seen with names: same base runs, nothing lost                *)

Theorem indexed_base_is_abstract_run : forall sched s, exists sched', nbase (nrun s sched) = run (nbase s) sched'.
Proof.
  induction sched as [|q rest IH]; intros s; [exists []; reflexivity|]. cbn [nrun].
  destruct (nstep s q) as [s'|] eqn:Hq; [|apply IH].
  destruct (nstep_base s q s' Hq) as (p & Hb & _). destruct (IH s') as [sc Hsc].
  exists (p :: sc). unfold run. cbn [run_gen]. fold (step (nbase s) p). rewrite Hb. exact Hsc.
Qed.

Lemma cntp_pos_nth : forall P l, 1 <= cntp P l -> exists i y, nth_error l i = Some y /\ P y = true.
Proof.
  intros P. induction l as [|a l IH]; intros H; [cbn in H; lia|].
  rewrite cntp_cons in H. destruct (P a) eqn:E; [exists 0, a; split; [reflexivity | exact E]|].
  cbn [b2n] in H. destruct (IH ltac:(lia)) as (i & y & Hi & Hy). exists (S i), y. split; assumption.
Qed.

Theorem indexing_is_complete : forall s p b', CountInv s -> step (nbase s) p = Some b' ->
  exists q s', nstep s q = Some s' /\ nbase s' = b' /\ p = match q with Sender p | Sub _ p => p end.
Proof.
  intros [[c f] rd l] p b' HC Hs. cbn [nbase] in Hs. change {| sp := c; v := f |} with (mk c f) in *.
  unfold nstep, nstep_gen. cbn [nbase nround nsubs]. change {| sp := c; v := f |} with (mk c f).
  destruct (src p) as [a|] eqn:Ha.
  - pose proof (step_src_pos c f p b' a Hs Ha) as Hpos.
    assert (Hth : is_thread a = true) by (destruct p; try discriminate Ha; injection Ha as <-; reflexivity).
    pose proof (HC a Hth) as Hc. cbn [nbase nsubs v mk] in Hc. unfold at_pc in Hc.
    assert (H1 : 1 <= cntp (fun y => var_beq (pc y) a) l) by lia.
    destruct (cntp_pos_nth _ l H1) as (i & y & Hi & Hy). cbv beta in Hy.
    exists (Sub i p). rewrite Hi, Ha, Hy. unfold step in Hs. rewrite Hs. eexists. repeat split; reflexivity.
  - exists (Sender p). rewrite Ha. unfold step in Hs. rewrite Hs.
    destruct (is_count (mk c f) p); eexists; repeat split; reflexivity.
Qed.

(* ------------------------------------------------------------------------------------------------------- *)
(* Non-vacuity                                                                                               *)

(* three subscribers join; a Send counts 3; subscriber 1 leaves in the middle of the delivery (absorbs its copy); subscribers 0
   and 2 receive: Send is about to return 2 and exactly the two indices 0 and 2 hold round 1 *)
Definition nsched_demo : list npick :=
  [Sub 0 PU0; Sub 0 PU1; Sub 0 PU2; Sub 1 PU0; Sub 1 PU1; Sub 1 PU2; Sub 2 PU0; Sub 2 PU1; Sub 2 PU2;
   Sender PSendStart; Sender PSendLock; Sender PS; Sender PS; Sender PS; Sender PS;
   Sub 1 PUnsubO; Sub 1 PSpinO; Sub 1 PN2FO; Sub 1 PN4O;
   Sub 2 PRecvO; Sub 0 PRecvO; Sub 1 PAbsorb;
   Sender PS; Sender PS; Sender PS].

Example idx_demo :
  let s := nrun (ninit 1 3) nsched_demo in
  sp (nbase s) = S9 /\ v (nbase s) sent = 2 /\ nround s = 1 /\
  map slog (nsubs s) = [[1]; []; [1]] /\ map pc (nsubs s) = [b1; fin; b1] /\
  length (receivers_of_round s) = 2 /\ receipts_of_round s = 2.
Proof. vm_compute. repeat split. Qed.

Print Assumptions every_index_is_a_tagged_run.
Print Assumptions count_inv_run.
Print Assumptions idx_contiguous.
Print Assumptions idx_no_duplicate.
Print Assumptions idx_no_stale.
Print Assumptions idx_established_included.
Print Assumptions idx_send_returns_number_of_distinct_receivers.
Print Assumptions idx_message_received_exactly_n_times.
Print Assumptions indexed_base_is_abstract_run.
Print Assumptions indexing_is_complete.
