(* What a run of the cleaner achieves on the Buffer model (C04, Buffer level).

   Proofs/CleanerProto.v shows that the wake-up protocol runs cleanupLogic after the last state change (terminal states
   have dirty = false); here: what that run does to the buffer.  [dirty s = false] is the model's record of "cleanupLogic
   has run since the last state change that broadcasts".

   - default cleaner: whenever dirty = false (buffer open, some consumer registered) the base IS the least committed
     offset of the registered consumers (capped by the number of values put): the prefix every open consumer has committed
     past is gone, Size is the backlog of the slowest registered consumer, a consumer that finished closing no longer
     counts.  For every schedule.
   - FixedBufferCleaner(max, target), target <= max, 0 <= max: whenever dirty = false the size is at most max.
   - the first clause is FALSE for FixedBufferCleaner ([fixed_retains_consumed_refuted]): after a forced trim the values
     that remain (at most target) stay although every consumer has committed past them, until the next state change: one
     run of cleanupLogic is not a fixpoint of the fixed cleaner, and the cleaner's own broadcast cannot wake itself. *)
From Coq Require Import List ZArith Bool Arith Lia.
From BB.Model Require Import Cleaner Buffer.
From BB.Proofs Require Cleaner Buffer.
Import BB.Model.Buffer.
Import ListNotations.

Arguments Nat.sub : simpl never.
Arguments Nat.min : simpl never.

Definition regs (s : st) : list nat := map ccommit (filter creg (cs s)).

(* the least committed offset of the registered consumers, capped by the number of values ever put *)
Definition min_commit (s : st) : nat := fold_right Nat.min (length (log s)) (regs s).

(* ---- arithmetic of the default cleaner over non-negative offsets ------------------------------------------------ *)

Lemma fold_min_acc (l : list Z) (a o : Z) : fold_right Z.min (Z.min a o) l = Z.min o (fold_right Z.min a l).
Proof. induction l as [|x l IH]; cbn [fold_right]; [lia|rewrite IH; lia]. Qed.

Lemma min_nonneg_fold (l : list Z) : forall acc, Forall (fun o => (0 <= o)%Z) l -> min_nonneg l acc = fold_right Z.min acc l.
Proof.
  induction l as [|o l IH]; intros acc H; [reflexivity|]. inversion H as [|? ? Ho Hl]; subst.
  cbn [min_nonneg fold_right]. replace (0 <=? o)%Z with true by (symmetry; apply Z.leb_le; lia).
  rewrite IH by assumption. apply fold_min_acc.
Qed.

Lemma any_nonneg_cons_true (o : Z) l : (0 <= o)%Z -> any_nonneg (o :: l) = true.
Proof. intros H. unfold any_nonneg. cbn [existsb]. replace (0 <=? o)%Z with true by (symmetry; apply Z.leb_le; lia). reflexivity. Qed.

Lemma fold_min_rel (l : list nat) (a b : nat) :
  fold_right Z.min (Z.of_nat a - Z.of_nat b)%Z (map (fun c => (Z.of_nat c - Z.of_nat b)%Z) l)
  = (Z.of_nat (fold_right Nat.min a l) - Z.of_nat b)%Z.
Proof. induction l as [|x l IH]; cbn [map fold_right]; [reflexivity|]. rewrite IH. lia. Qed.

Lemma fold_min_le_acc (l : list nat) a : fold_right Nat.min a l <= a.
Proof. induction l as [|x l IH]; cbn [fold_right]; lia. Qed.

Lemma fold_min_ge (l : list nat) a b : b <= a -> Forall (fun x => b <= x) l -> b <= fold_right Nat.min a l.
Proof. intros Ha H. induction H as [|x l Hx Hl IH]; cbn [fold_right]; lia. Qed.

Lemma rel_offsets_regs s : rel_offsets s = map (fun c => (Z.of_nat c - Z.of_nat (base s))%Z) (regs s).
Proof. unfold rel_offsets, regs. rewrite map_map. reflexivity. Qed.

Lemma regs_ge_base s : Proofs.Buffer.DInv s -> Forall (fun x => base s <= x) (regs s).
Proof.
  unfold Proofs.Buffer.DInv, regs. intros H. rewrite Forall_forall in *. intros x Hin.
  apply in_map_iff in Hin. destruct Hin as (c & <- & Hc). apply filter_In in Hc. destruct Hc as [Hin Hr]. auto.
Qed.

(* ---- one run of cleanupLogic with the default cleaner reclaims exactly the prefix all registered consumers are past -- *)

Theorem default_clean_reclaims s :
  cfg s = CDefault -> bclosed s = false -> Proofs.Buffer.Inv s -> Proofs.Buffer.DInv s -> regs s <> [] ->
  base (clean s) = min_commit s.
Proof.
  intros Hc Hb [Hbl HI] HD Hne. unfold clean. rewrite Hb, Hc. cbn [cleaner_of].
  unfold clean_with, set_base; cbn [base].
  pose proof (regs_ge_base s HD) as Hge.
  assert (Hsz : Z.of_nat (size s) = (Z.of_nat (length (log s)) - Z.of_nat (base s))%Z) by (unfold size; lia).
  assert (Hdef : default_cleaner (Z.of_nat (size s)) (rel_offsets s) = (Z.of_nat (min_commit s) - Z.of_nat (base s))%Z).
  { rewrite Proofs.Cleaner.default_cleaner_is_spec by lia. unfold default_spec.
    rewrite rel_offsets_regs. destruct (regs s) as [|x l] eqn:E; [congruence|].
    inversion Hge as [|? ? Hx Hl]; subst.
    cbn [map]. rewrite any_nonneg_cons_true by lia.
    rewrite min_nonneg_fold.
    - rewrite Hsz. change (Z.of_nat x - Z.of_nat (base s) :: map (fun c => Z.of_nat c - Z.of_nat (base s)) l)%Z
        with (map (fun c => (Z.of_nat c - Z.of_nat (base s))%Z) (x :: l)).
      rewrite fold_min_rel. unfold min_commit. rewrite E. reflexivity.
    - constructor; [lia|]. rewrite Forall_forall in *. intros o Ho. apply in_map_iff in Ho.
      destruct Ho as (c & <- & Hin). specialize (Hl c Hin). lia. }
  rewrite Hdef.
  assert (Hm1 : min_commit s <= length (log s)) by apply fold_min_le_acc.
  assert (Hm2 : base s <= min_commit s) by (apply fold_min_ge; auto).
  pose proof (Proofs.Cleaner.clamp_shift_spec (Z.of_nat (size s)) (Z.of_nat (min_commit s) - Z.of_nat (base s))%Z) as Hcl.
  cbv zeta in Hcl. destruct Hcl as (_ & Hid & _); [lia|]. rewrite Hid by lia. lia.
Qed.

(* without a registered consumer nothing is removed (Proofs.Buffer.default_no_consumer_no_eviction) *)

(* ---- regs is untouched by everything that does not broadcast -------------------------------------------------------- *)

Lemma regs_upd_list (l : list cons) c k x :
  nth_error l c = Some k -> creg x = creg k -> ccommit x = ccommit k ->
  map ccommit (filter creg (upd l c x)) = map ccommit (filter creg l).
Proof.
  revert c. induction l as [|h t IH]; intros c Hk Hr Hcm; [destruct c; discriminate|].
  destruct c as [|c]; cbn [upd nth_error] in *.
  - inversion Hk; subst h. cbn [filter]. rewrite Hr. destruct (creg k); cbn [map]; congruence.
  - cbn [filter]. destruct (creg h); cbn [map]; rewrite (IH c); auto.
Qed.

Lemma regs_upd s c k x d :
  getc s c = Some k -> creg x = creg k -> ccommit x = ccommit k -> regs (set_cs s (upd (cs s) c x) d) = regs s.
Proof. intros. unfold regs, set_cs; cbn [cs]. eapply regs_upd_list; eauto. Qed.

Lemma settle_c_quiet c :
  (let c1 := if ccancel c && negb (conce c) then c_close_begin c else c in conce c1 && negb (cdone c1) && (cdelta c1 =? 0)) = false ->
  creg (settle_c c) = creg c /\ ccommit (settle_c c) = ccommit c.
Proof.
  cbv zeta. unfold settle_c. intros H. rewrite H. destruct (ccancel c && negb (conce c)); cbn; auto.
Qed.

Lemma regs_settle_quiet s : any_finishing (cs s) = false -> regs (settle s) = regs s.
Proof.
  unfold regs, settle; cbn [cs]. intros H. induction (cs s) as [|h t IH]; [reflexivity|].
  cbn [any_finishing existsb] in H. apply orb_false_iff in H. destruct H as [Hh Ht].
  destruct (settle_c_quiet h Hh) as [Hr Hc]. cbn [map filter]. rewrite Hr.
  destruct (creg h); cbn [map]; rewrite ?Hc, IH; auto.
Qed.

(* ---- the invariants: "the cleaner has run since the last change" means "nothing reclaimable is left" ---------------- *)

Definition QInv (s : st) : Prop :=
  dirty s = false -> bclosed s = false -> regs s <> [] -> base s = min_commit s.

Lemma min_commit_same s s' : log s' = log s -> regs s' = regs s -> min_commit s' = min_commit s.
Proof. intros Hl Hr. unfold min_commit. rewrite Hl, Hr. reflexivity. Qed.

Lemma QInv_same s s' :
  QInv s -> log s' = log s -> base s' = base s -> regs s' = regs s -> bclosed s' = bclosed s ->
  (dirty s' = false -> dirty s = false) -> QInv s'.
Proof.
  intros HQ Hl Hb Hr Hc Hd Hd' Hc' Hn'. rewrite Hb, (min_commit_same _ _ Hl Hr).
  apply HQ; [auto|congruence|congruence].
Qed.

Lemma QInv_dirty s : dirty s = true -> QInv s.
Proof. intros H H'. congruence. Qed.

Lemma QInv_step s o : QInv s -> QInv (fst (step s o)).
Proof.
  intros HQ. destruct o; unfold step; cbn [fst]; try exact HQ.
  - destruct (bclosed s); cbn [fst]; [exact HQ|]. apply QInv_dirty. reflexivity.
  - destruct (bclosed s); cbn [fst]; [exact HQ|]. apply QInv_dirty. reflexivity.
  - destruct (step s (OGet c)) as [s' r] eqn:Hs. unfold step in Hs. rewrite Hs. cbn [fst].
    destruct r; try (destruct (Proofs.Buffer.step_get_fail _ _ _ _ Hs) as [-> _]; [intros v0 E; discriminate E|exact HQ]).
    destruct (Proofs.Buffer.step_get_val _ _ _ _ Hs) as (k & Hk & _ & _ & _ & _ & _ & ->).
    eapply QInv_same; [exact HQ|reflexivity|reflexivity|eapply regs_upd; eauto|reflexivity|cbn; auto].
  - destruct (getc s c) as [k|] eqn:Hk; cbn [fst]; [|exact HQ].
    destruct (cdelta k =? 0); cbn [fst]; [exact HQ|]. destruct (negb (creg k)); cbn [fst]; [exact HQ|].
    apply QInv_dirty. reflexivity.
  - destruct (getc s c) as [k|] eqn:Hk; cbn [fst]; [|exact HQ].
    destruct (cdelta k =? 0); cbn [fst]; [exact HQ|].
    eapply QInv_same; [exact HQ|reflexivity|reflexivity|eapply regs_upd; eauto|reflexivity|cbn; auto].
  - destruct (getc s c) as [k|]; [destruct (creg k)|]; exact HQ.
  - destruct (getc s c) as [k|] eqn:Hk; cbn [fst]; [|exact HQ].
    destruct (conce k); cbn [fst]; [exact HQ|].
    destruct (cdelta k =? 0); cbn [fst]; [apply QInv_dirty; reflexivity|].
    eapply QInv_same; [exact HQ|reflexivity|reflexivity|eapply regs_upd; eauto|reflexivity|cbn; auto].
  - destruct (bonce s); cbn [fst]; [exact HQ|]. intros _ Hb. exfalso.
    destruct (Proofs.Buffer.settle_log {| log := log s; base := base s; cs := map c_cancel (cs s); bclosed := true; bonce := true;
                                          bdone := bdone s; cfg := cfg s; dirty := dirty s |}) as (_ & _ & Hbc & _).
    rewrite Hbc in Hb. discriminate.
  - destruct (getc s c); exact HQ.
  - match goal with |- QInv (fst (if ?b then _ else _)) => destruct b end; exact HQ.
  - destruct (getc s c); exact HQ.
Qed.

Lemma QInv_settle s : QInv s -> QInv (settle s).
Proof.
  intros HQ. destruct (any_finishing (cs s)) eqn:Ef.
  - apply QInv_dirty. cbn [settle dirty]. rewrite Ef. apply orb_true_r.
  - eapply QInv_same; [exact HQ|reflexivity|reflexivity|apply regs_settle_quiet; auto|reflexivity|].
    cbn [settle dirty]. rewrite Ef, orb_false_r. auto.
Qed.

Lemma regs_clean s : regs (clean s) = regs s /\ log (clean s) = log s /\ bclosed (clean s) = bclosed s.
Proof. unfold clean. destruct (bclosed s) eqn:E; auto. Qed.

Lemma QInv_estep s e :
  cfg s = CDefault -> Proofs.Buffer.Inv s -> Proofs.Buffer.DInv s -> QInv s -> QInv (fst (estep s e)).
Proof.
  intros Hc HI HD HQ. destruct e as [o| |]; cbn [estep].
  - pose proof (QInv_step s o HQ) as H. destruct (step s o); exact H.
  - cbn [fst]. intros _ Hb Hn. destruct (regs_clean s) as (Hr & Hl & Hbc).
    rewrite Hbc in Hb. rewrite Hr in Hn. rewrite (min_commit_same _ _ Hl Hr).
    apply default_clean_reclaims; auto.
  - apply QInv_settle; auto.
Qed.

Theorem default_quiescent_base_is_min_commit evs : forall s,
  cfg s = CDefault -> Proofs.Buffer.Inv s -> Proofs.Buffer.DInv s -> QInv s -> QInv (fst (erun s evs)).
Proof.
  induction evs as [|e rest IH]; intros s Hc HI HD HQ; [exact HQ|].
  rewrite Proofs.Buffer.erun_cons. cbn [fst].
  apply IH; [rewrite Proofs.Buffer.cfg_estep; auto|apply Proofs.Buffer.Inv_estep; auto|apply Proofs.Buffer.DInv_estep; auto|
             apply QInv_estep; auto].
Qed.

(* Every schedule of operations, cleaner runs and shutdown steps from a new Buffer with the default cleaner: whenever
   cleanupLogic has run since the last change, the buffer is open and some consumer is registered,
   Size = (values put) - (least committed offset of the registered consumers). *)
Corollary default_quiescent_size_is_slowest_backlog evs :
  let s := fst (erun (init CDefault) evs) in
  dirty s = false -> bclosed s = false -> regs s <> [] ->
  base s = min_commit s /\ size s = length (log s) - min_commit s.
Proof.
  cbv zeta. intros Hd Hb Hn.
  assert (H : QInv (fst (erun (init CDefault) evs))).
  { apply default_quiescent_base_is_min_commit; [reflexivity|apply Proofs.Buffer.Inv_init|constructor|].
    intros _ _ Hne. exfalso. apply Hne. reflexivity. }
  specialize (H Hd Hb Hn). split; [exact H|]. unfold size. rewrite H. reflexivity.
Qed.

Lemma clean_fix s : bclosed s = false -> dirty s = false -> base (clean s) = base s -> clean s = s.
Proof.
  intros Hb Hd. unfold clean. rewrite Hb. unfold clean_with, set_base. cbn [base]. intros H. rewrite H.
  destruct s; cbn in *; subst; reflexivity.
Qed.

(* a second run of cleanupLogic changes nothing: one run is a fixpoint of the default cleaner *)
Theorem default_clean_idempotent s :
  cfg s = CDefault -> bclosed s = false -> Proofs.Buffer.Inv s -> Proofs.Buffer.DInv s -> regs s <> [] ->
  clean (clean s) = clean s.
Proof.
  intros Hc Hb HI HD Hn.
  assert (Hb1 : base (clean (clean s)) = base (clean s)).
  { destruct (regs_clean s) as (Hr & Hl & Hbc).
    rewrite default_clean_reclaims; auto.
    - rewrite (min_commit_same _ _ Hl Hr). symmetry. apply default_clean_reclaims; auto.
    - pose proof (Proofs.Buffer.cfg_estep s EClean) as H. cbn [estep fst] in H. congruence.
    - congruence.
    - apply Proofs.Buffer.Inv_clean; auto.
    - pose proof (Proofs.Buffer.DInv_estep s EClean Hc HI HD) as H. exact H.
    - congruence. }
  apply clean_fix; auto.
  - destruct (regs_clean s) as (_ & _ & Hbc). congruence.
  - unfold clean. rewrite Hb. reflexivity.
Qed.

(* ---- FixedBufferCleaner: the bound ---------------------------------------------------------------------------------- *)

Theorem fixed_clean_size_le_max s mx tg :
  cfg s = CFixed mx tg -> bclosed s = false -> Proofs.Buffer.Inv s -> (tg <= mx)%Z -> (0 <= mx)%Z ->
  (Z.of_nat (size (clean s)) <= mx)%Z.
Proof.
  intros Hc Hb [Hbl _] Htm Hm. unfold clean. rewrite Hb, Hc. cbn [cleaner_of].
  unfold clean_with, set_base, size; cbn [base log].
  set (sz := Z.of_nat (length (log s) - base s)).
  pose proof (Proofs.Cleaner.clamp_shift_spec sz (fixed_cleaner mx tg sz (rel_offsets s))) as Hcl.
  cbv zeta in Hcl. destruct Hcl as (Hrange & Hid & Hneg & Hbig); [subst sz; lia|].
  unfold size in *. fold sz in Hrange, Hid, Hneg, Hbig |- *.
  destruct (Proofs.Cleaner.fixed_cleaner_spec mx tg sz (rel_offsets s)) as [Hgt Hle]; [subst sz; lia|].
  destruct (Z_gt_le_dec sz mx) as [G|G].
  - specialize (Hgt G). rewrite Hgt in *.
    destruct (Z_lt_le_dec tg 0) as [T|T].
    + rewrite Hbig by lia. subst sz. lia.
    + rewrite Hid by lia. subst sz. lia.
  - subst sz. lia.
Qed.

Definition FInv (mx : Z) (s : st) : Prop := dirty s = false -> bclosed s = false -> (Z.of_nat (size s) <= mx)%Z.

Lemma FInv_same mx s s' :
  FInv mx s -> log s' = log s -> base s' = base s -> bclosed s' = bclosed s -> (dirty s' = false -> dirty s = false) -> FInv mx s'.
Proof. intros HF Hl Hb Hc Hd Hd' Hc'. unfold size. rewrite Hl, Hb. apply HF; [auto|congruence]. Qed.

Lemma FInv_dirty mx s : dirty s = true -> FInv mx s.
Proof. intros H H'. congruence. Qed.

Lemma FInv_step mx s o : FInv mx s -> FInv mx (fst (step s o)).
Proof.
  intros HQ. destruct o; unfold step; cbn [fst]; try exact HQ.
  - destruct (bclosed s); cbn [fst]; [exact HQ|]. apply FInv_dirty. reflexivity.
  - destruct (bclosed s); cbn [fst]; [exact HQ|]. apply FInv_dirty. reflexivity.
  - destruct (step s (OGet c)) as [s' r] eqn:Hs. unfold step in Hs. rewrite Hs. cbn [fst].
    destruct r; try (destruct (Proofs.Buffer.step_get_fail _ _ _ _ Hs) as [-> _]; [intros v0 E; discriminate E|exact HQ]).
    destruct (Proofs.Buffer.step_get_val _ _ _ _ Hs) as (k & Hk & _ & _ & _ & _ & _ & ->).
    eapply FInv_same; [exact HQ|reflexivity|reflexivity|reflexivity|cbn; auto].
  - destruct (getc s c) as [k|] eqn:Hk; cbn [fst]; [|exact HQ].
    destruct (cdelta k =? 0); cbn [fst]; [exact HQ|]. destruct (negb (creg k)); cbn [fst]; [exact HQ|].
    apply FInv_dirty. reflexivity.
  - destruct (getc s c) as [k|] eqn:Hk; cbn [fst]; [|exact HQ].
    destruct (cdelta k =? 0); cbn [fst]; [exact HQ|].
    eapply FInv_same; [exact HQ|reflexivity|reflexivity|reflexivity|cbn; auto].
  - destruct (getc s c) as [k|]; [destruct (creg k)|]; exact HQ.
  - destruct (getc s c) as [k|] eqn:Hk; cbn [fst]; [|exact HQ].
    destruct (conce k); cbn [fst]; [exact HQ|].
    destruct (cdelta k =? 0); cbn [fst]; [apply FInv_dirty; reflexivity|].
    eapply FInv_same; [exact HQ|reflexivity|reflexivity|reflexivity|cbn; auto].
  - destruct (bonce s); cbn [fst]; [exact HQ|]. intros _ Hb. exfalso.
    destruct (Proofs.Buffer.settle_log {| log := log s; base := base s; cs := map c_cancel (cs s); bclosed := true; bonce := true;
                                          bdone := bdone s; cfg := cfg s; dirty := dirty s |}) as (_ & _ & Hbc & _).
    rewrite Hbc in Hb. discriminate.
  - destruct (getc s c); exact HQ.
  - match goal with |- FInv mx (fst (if ?b then _ else _)) => destruct b end; exact HQ.
  - destruct (getc s c); exact HQ.
Qed.

Lemma FInv_estep mx tg s e :
  cfg s = CFixed mx tg -> (tg <= mx)%Z -> (0 <= mx)%Z -> Proofs.Buffer.Inv s -> FInv mx s -> FInv mx (fst (estep s e)).
Proof.
  intros Hc Htm Hm HI HQ. destruct e as [o| |]; cbn [estep].
  - pose proof (FInv_step mx s o HQ) as H. destruct (step s o); exact H.
  - cbn [fst]. intros _ Hb. destruct (regs_clean s) as (_ & _ & Hbc). rewrite Hbc in Hb.
    eapply fixed_clean_size_le_max; eauto.
  - eapply FInv_same; [exact HQ|reflexivity|reflexivity|reflexivity|].
    cbn [settle dirty]. intros H. apply orb_false_iff in H. tauto.
Qed.

(* Every schedule from a new Buffer with FixedBufferCleaner(max, target), target <= max (and a max that a size can
   meet): whenever cleanupLogic has run since the last change, the size is at most max. *)
Theorem fixed_quiescent_size_le_max mx tg evs :
  (tg <= mx)%Z -> (0 <= mx)%Z ->
  let s := fst (erun (init (CFixed mx tg)) evs) in
  dirty s = false -> bclosed s = false -> (Z.of_nat (size s) <= mx)%Z.
Proof.
  intros Htm Hm. cbv zeta.
  assert (H : forall evs s, cfg s = CFixed mx tg -> Proofs.Buffer.Inv s -> FInv mx s -> FInv mx (fst (erun s evs))).
  { clear evs. induction evs as [|e rest IH]; intros s Hc HI HQ; [exact HQ|].
    rewrite Proofs.Buffer.erun_cons. cbn [fst].
    apply IH; [rewrite Proofs.Buffer.cfg_estep; auto|apply Proofs.Buffer.Inv_estep; auto|eapply FInv_estep; eauto]. }
  apply H; [reflexivity|apply Proofs.Buffer.Inv_init|]. intros _ _. unfold size, init; cbn [log base length]. lia.
Qed.

(* ---- ... and the refutation of full reclamation under the fixed cleaner --------------------------------------------- *)

Definition fixed_witness : list ev :=
  [EOp ONew; EOp (OPut [1; 2; 3; 4; 5; 6; 7; 8; 9; 10]%Z)] ++ repeat (EOp (OGet 0)) 10 ++ [EOp (OCommit 0); EClean].

(* FixedBufferCleaner(2, 2), one consumer, ten values put, read and committed, cleanupLogic has run, nothing is pending:
   two values that the only consumer has committed past are still held (and a second run would remove them). *)
Theorem fixed_retains_consumed_refuted :
  exists evs, let s := fst (erun (init (CFixed 2 2)) evs) in
    dirty s = false /\ unsettled s = false /\ bclosed s = false /\
    regs s = [10] /\ length (log s) = 10 /\ min_commit s = 10 /\
    base s = 8 /\ size s = 2 /\ snd (step s OSettled) = RInt 2 /\
    base (clean s) = 10.
Proof. exists fixed_witness. vm_compute. repeat split. Qed.

(* with a negative max the bound cannot hold (a size is never negative): the configuration is meaningless, and
   FixedBufferCleaner does not reject it *)
Example fixed_negative_max_degenerate :
  let s := fst (erun (init (CFixed (-1) (-1))) [EOp (OPut [1]%Z); EClean]) in
  dirty s = false /\ (Z.of_nat (size s) > -1)%Z.
Proof. vm_compute. split; reflexivity. Qed.

Print Assumptions default_clean_reclaims.
Print Assumptions default_quiescent_size_is_slowest_backlog.
Print Assumptions default_clean_idempotent.
Print Assumptions fixed_quiescent_size_le_max.
Print Assumptions fixed_retains_consumed_refuted.
