(* Proofs about Model/ExclusiveVal.v, part 1: the k tracked calls are counted consistently, and EVERY tracked call
   sees a run of the one-tag model Model/ExclusiveAbs.v in which IT is the tagged call (the symmetry argument "which
   call is tagged is immaterial", as a theorem).  Values and function identity: Proofs/ExclusiveValRes.v. *)
From Coq Require Import List Arith Lia Bool ZifyBool.
From BB.Model Require Import ExclusiveAbs ExclusiveVal.
From BB.Proofs Require Import ExclusiveAbs.
Import ListNotations.
Arguments Nat.sub : simpl never. Arguments Nat.ltb : simpl never. Arguments Nat.leb : simpl never.
Arguments Nat.eqb : simpl never. Arguments Nat.mul : simpl never.

(* ========================================================================================================== *)
(* 0. Lists of tracked calls                                                                                  *)

Definition b2n (b : bool) : nat := if b then 1 else 0.
Definition atp (p : tagpc) (t : vtag) : bool := tagpc_beq (tpc (bt t)) p.

Lemma tagpc_beq_eq a b : tagpc_beq a b = true <-> a = b.
Proof. destruct a, b; cbn; split; intros H; try reflexivity; discriminate H. Qed.

Lemma atp_true p t : atp p t = true <-> tpc (bt t) = p.
Proof. apply tagpc_beq_eq. Qed.

Lemma cnt_cons p t l : cnt p (t :: l) = b2n (atp p t) + cnt p l.
Proof. reflexivity. Qed.

Lemma cnt_lset p l i t t1 :
  nth_error l i = Some t -> cnt p (lset l i t1) + b2n (atp p t) = cnt p l + b2n (atp p t1).
Proof.
  revert i. induction l as [|y rest IH]; intros i H; destruct i as [|j]; cbn [nth_error] in H; try discriminate H.
  - injection H as ->. cbn [lset]. rewrite !cnt_cons. lia.
  - cbn [lset]. rewrite !cnt_cons. specialize (IH j H). lia.
Qed.

Lemma nth_lset_same l i t t1 : nth_error l i = Some t -> nth_error (lset l i t1) i = Some t1.
Proof.
  revert i. induction l as [|y rest IH]; intros i H; destruct i as [|j]; cbn [nth_error] in H; try discriminate H.
  - reflexivity.
  - cbn [lset nth_error]. exact (IH j H).
Qed.

Lemma nth_lset_other l i j t1 : i <> j -> nth_error (lset l i t1) j = nth_error l j.
Proof.
  revert i j. induction l as [|y rest IH]; intros i j H; destruct i as [|i']; destruct j as [|j']; cbn [lset nth_error];
    try reflexivity; try (exfalso; apply H; reflexivity).
  apply IH. intros E. apply H. rewrite E. reflexivity.
Qed.

Lemma length_lset l i t1 : length (lset l i t1) = length l.
Proof. revert i. induction l as [|y rest IH]; intros [|j]; cbn [lset length]; try reflexivity. rewrite IH. reflexivity. Qed.

Lemma nth_cnt p l i t : nth_error l i = Some t -> tpc (bt t) = p -> cnt p l >= 1.
Proof.
  revert i. induction l as [|y rest IH]; intros i H HP; destruct i as [|j]; cbn [nth_error] in H; try discriminate H.
  - injection H as ->. rewrite cnt_cons. apply atp_true in HP. rewrite HP. cbn [b2n]. lia.
  - rewrite cnt_cons. specialize (IH j H HP). lia.
Qed.

(* two different tracked calls at the same location *)
Lemma nth2_cnt p l i j ti tj :
  i <> j -> nth_error l i = Some ti -> nth_error l j = Some tj -> tpc (bt ti) = p -> tpc (bt tj) = p -> cnt p l >= 2.
Proof.
  revert i j. induction l as [|y rest IH]; intros i j HN Hi Hj Pi Pj; destruct i as [|i']; destruct j as [|j'];
    cbn [nth_error] in Hi, Hj; try discriminate; rewrite cnt_cons.
  - exfalso. apply HN. reflexivity.
  - injection Hi as ->. apply atp_true in Pi. rewrite Pi. pose proof (nth_cnt p _ _ _ Hj Pj). cbn [b2n]. lia.
  - injection Hj as ->. apply atp_true in Pj. rewrite Pj. pose proof (nth_cnt p _ _ _ Hi Pi). cbn [b2n]. lia.
  - assert (HN' : i' <> j') by (intros E; apply HN; rewrite E; reflexivity).
    specialize (IH i' j' HN' Hi Hj Pi Pj). lia.
Qed.

Lemma cnt_pos_ex p l : cnt p l >= 1 -> exists i t, nth_error l i = Some t /\ tpc (bt t) = p.
Proof.
  induction l as [|y rest IH]; intros H; [cbn in H; lia|].
  rewrite cnt_cons in H. destruct (atp p y) eqn:E.
  - exists 0, y. split; [reflexivity|]. apply atp_true. exact E.
  - cbn [b2n] in H. destruct (IH ltac:(lia)) as (i & t & Hn & Hp). exists (S i), t. split; assumption.
Qed.

Lemma cnt_repeat0 p k : p <> TNone -> cnt p (repeat vtag0 k) = 0.
Proof.
  intros HP. induction k as [|k IH]; [reflexivity|]. cbn [repeat]. rewrite cnt_cons, IH.
  destruct (atp p vtag0) eqn:E; [|reflexivity]. apply atp_true in E. cbn in E. congruence.
Qed.

Lemma nth_repeat0 k i t : nth_error (repeat vtag0 k) i = Some t -> t = vtag0.
Proof. intros H. apply nth_error_In in H. apply repeat_spec in H. exact H. Qed.

(* ========================================================================================================== *)
(* 1. How the steps move the tracked calls between locations                                                  *)

Lemma vtag_eff_bt e f' rec o t : bt (vtag_eff e f' rec o t) = tag_eff e f' (bt t).
Proof. unfold vtag_eff. destruct e, (tpc (bt t)); reflexivity. Qed.

(* location of a tracked call after a counter-level effect *)
Definition pc_eff (e : eff) (p : tagpc) : tagpc :=
  match e, p with
  | EReplace, TC2M => TC2S | EReplace, TGWM => TGWX
  | EComplete, TGWX => TGD | EComplete, TRun => TDone
  | EDelete, TC2M => TC2S
  | _, _ => p
  end.

Lemma tag_eff_pc e f' b : tpc (tag_eff e f' b) = pc_eff e (tpc b).
Proof. destruct b as [tp sa tc te tr ta]. destruct e, tp; reflexivity. Qed.

(* the counts after an effect, from the counts before *)
Definition ceff (e : eff) (c : tagpc -> nat) (p : tagpc) : nat :=
  match e with
  | ENone => c p
  | EReplace => match p with TC2M => 0 | TC2S => c TC2S + c TC2M | TGWM => 0 | TGWX => c TGWX + c TGWM | _ => c p end
  | EComplete => match p with TGWX => 0 | TGD => c TGD + c TGWX | TRun => 0 | TDone => c TDone + c TRun | _ => c p end
  | EDelete => match p with TC2M => 0 | TC2S => c TC2S + c TC2M | _ => c p end
  end.

Lemma cnt_map_eff e f' rec o l p : cnt p (map (vtag_eff e f' rec o) l) = ceff e (fun q => cnt q l) p.
Proof.
  induction l as [|y rest IH].
  - destruct e, p; reflexivity.
  - cbn [map]. rewrite cnt_cons, IH. unfold atp. rewrite vtag_eff_bt, tag_eff_pc.
    destruct e, p; cbn [ceff]; rewrite ?cnt_cons; unfold atp; destruct (tpc (bt y)); cbn [pc_eff tagpc_beq b2n]; lia.
Qed.

(* a tracked call's own step: where it must be, where it goes *)
Definition src_of (p : tpick) : tagpc :=
  match p with TCall => TNone | TStale => TC2S | TAttach _ => TC2M | TWake _ => TGWM | TDrain => TGD end.
Definition dst_of (f : var -> nat) (p : tpick) : tagpc :=
  match p with
  | TCall => TC2M | TStale => TC2M | TAttach _ => if f mm =? 2 then TGWM else TRun | TWake _ => TRun | TDrain => TDone
  end.

Lemma tag_pre_pcs f p b b1 : tag_pre f p b = Some b1 -> tpc b = src_of p /\ tpc b1 = dst_of f p.
Proof.
  destruct b as [tp sa tc te tr ta]. destruct p as [| |sl|sl|]; destruct tp; cbn [tag_pre tpc]; intros H; try discriminate H;
    injection H as <-; cbn [with_tpc resolved tpc src_of dst_of]; auto.
Qed.

Lemma vtag_pre_bt cur f a L p t t1 : vtag_pre cur f a L p t = Some t1 -> tag_pre f p (bt t) = Some (bt t1).
Proof.
  unfold vtag_pre. destruct (tag_pre f p (bt t)) as [b1|]; [|discriminate]. intros H. injection H as <-.
  destruct p; reflexivity.
Qed.

Lemma vtag_pre_pcs cur f a L p t t1 :
  vtag_pre cur f a L p t = Some t1 -> tpc (bt t) = src_of p /\ tpc (bt t1) = dst_of f p.
Proof. intros H. apply vtag_pre_bt in H. exact (tag_pre_pcs _ _ _ _ H). Qed.

(* ========================================================================================================== *)
(* 2. The count invariant: the tracked calls at a location are among the goroutines counted there             *)

Definition CInvc (r : rpc) (f : var -> nat) (c : tagpc -> nat) : Prop :=
  c TC2M <= f c2mc /\ c TC2S <= f c2sc /\ c TGWM <= f gwmc /\ c TGWX <= f gwxc /\ c TGD <= f gdc /\
  c TRun <= owes r * f rown.

(* the guard of an anonymous step, on the counts *)
Definition cguard (c : tagpc -> nat) (f : var -> nat) (b : bpick) : bool :=
  match b with
  | PStale KC => c TC2S <? f c2sc
  | PAttach KC _ => c TC2M <? f c2mc
  | PWake KC _ => c TGWM <? f gwmc
  | PDrain KC => c TGD <? f gdc
  | _ => true
  end.

Lemma vguard_cguard l f b : vguard l f b = cguard (fun q => cnt q l) f b.
Proof. destruct b as [k|k|k sl|k sl| | | | |k]; try destruct k; reflexivity. Qed.

Lemma CInvc_anon r f c b e r' f' :
  Invc r f -> CInvc r f c -> cguard c f b = true -> cstep good r f b = Some (e, r', f') -> CInvc r' f' (ceff e c).
Proof.
  intros HI HC HG HS.
  destruct b as [k|k|k sl|k sl| | | | |k]; try destruct k; try destruct sl; destruct r;
    open_cstep HS; split_ifs HS; try discriminate HS;
    injection HS as <- <- <-;
    unfold CInvc, Invc, phase, cguard, ceff in *; cbn [set var_beq isSleep owes] in *; lia.
Qed.

(* the same for a tracked call's own step: c1 = the counts after it left src_of p for dst_of f p *)
Lemma CInvc_tagged r f c c1 p e r' f' :
  Invc r f -> CInvc r f c -> c (src_of p) >= 1 ->
  (forall q, c1 q + b2n (tagpc_beq (src_of p) q) = c q + b2n (tagpc_beq (dst_of f p) q)) ->
  cstep good r f (base_of p) = Some (e, r', f') -> CInvc r' f' (ceff e c1).
Proof.
  intros HI HC H1 HQ HS.
  pose proof (HQ TC2M) as Q1. pose proof (HQ TC2S) as Q2. pose proof (HQ TGWM) as Q3. pose proof (HQ TGWX) as Q4.
  pose proof (HQ TGD) as Q5. pose proof (HQ TRun) as Q6. clear HQ.
  destruct p as [| |sl|sl|]; try destruct sl; cbn [base_of src_of dst_of] in *; destruct r;
    open_cstep HS; split_ifs HS; try discriminate HS;
    injection HS as <- <- <-;
    unfold CInvc, Invc, phase, ceff in *; cbn [set var_beq isSleep owes tagpc_beq b2n] in *; lia.
Qed.

(* ========================================================================================================== *)
(* 3. The invariant of the model and its preservation                                                          *)

Definition cv (s : vst) : tagpc -> nat := fun q => cnt q (tags s).

Record VInv (s : vst) : Prop := {
  vi_inv : Invc (vrp s) (vf s);
  vi_cnt : CInvc (vrp s) (vf s) (cv s);
  vi_tag : forall i t, nth_error (tags s) i = Some t -> TInvc (vrp s) (vf s) (bt t)
}.

(* the one-tag state seen by a tracked call *)
Definition view (s : vst) (t : vtag) : st := {| rp := vrp s; v := vf s; tg := bt t |}.

Lemma vapply_inv fl s b x l1 s' :
  vapply fl s b x l1 = Some s' ->
  exists e rec o, cstep fl (vrp s) (vf s) b = Some (e, vrp s', vf s') /\ tags s' = map (vtag_eff e (vf s') rec o) l1.
Proof.
  unfold vapply. destruct (cstep fl (vrp s) (vf s) b) as [[[e r'] f']|]; [|discriminate].
  intros H. injection H as <-. cbn [vrp vf tags]. eexists e, _, _. split; reflexivity.
Qed.

(* Every step of the k-call model is, for EACH tracked call, a step of the one-tag model in which that call is the
   tagged one: its own steps are the tagged steps, everybody else's are anonymous steps. *)
Lemma vstep_view s p s' i t :
  Invc (vrp s) (vf s) -> CInvc (vrp s) (vf s) (cv s) ->
  vstep s p = Some s' -> nth_error (tags s) i = Some t ->
  exists t', nth_error (tags s') i = Some t' /\ step (view s t) (vproj_pick i p) = Some (view s' t').
Proof.
  intros HI HC HS Hn. unfold vstep, vstep_gen in HS. destruct p as [b x|j tp]; cbn [vproj_pick].
  - destruct (vguard (tags s) (vf s) b) eqn:HG; [|discriminate HS].
    destruct (vapply_inv _ _ _ _ _ _ HS) as (e & rec & o & HCS & HT).
    exists (vtag_eff e (vf s') rec o t). split; [rewrite HT; apply map_nth_error; exact Hn|].
    unfold step, step_gen, lift, view. cbn [rp v tg].
    assert (HG' : guard (tpc (bt t)) (vf s) b = true).
    { pose proof (fun p => nth_cnt p _ _ _ Hn) as HN.
      destruct b as [k|k|k sl|k sl| | | | |k]; try destruct k; destruct (tpc (bt t)) eqn:HP; cbn [guard vguard] in *;
        try reflexivity; specialize (HN _ eq_refl); lia. }
    rewrite HG', HCS, vtag_eff_bt. reflexivity.
  - destruct (nth_error (tags s) j) as [tj|] eqn:Hj; [|discriminate HS].
    destruct (vtag_pre false (vf s) (S (att s)) (elog s) tp tj) as [t1|] eqn:HP; [|discriminate HS].
    destruct (vapply_inv _ _ _ _ _ _ HS) as (e & rec & o & HCS & HT).
    destruct (Nat.eqb_spec j i) as [->|HN].
    + rewrite Hn in Hj. injection Hj as <-.
      exists (vtag_eff e (vf s') rec o t1). split; [rewrite HT; apply map_nth_error, (nth_lset_same _ _ _ _ Hn)|].
      unfold step, step_gen, lift, view. cbn [rp v tg].
      rewrite (vtag_pre_bt _ _ _ _ _ _ _ HP), HCS, vtag_eff_bt. reflexivity.
    + exists (vtag_eff e (vf s') rec o t). split.
      { rewrite HT. apply map_nth_error. rewrite nth_lset_other by exact HN. exact Hn. }
      unfold step, step_gen, lift, view. cbn [rp v tg].
      assert (HG' : guard (tpc (bt t)) (vf s) (base_of tp) = true).
      { destruct (vtag_pre_pcs _ _ _ _ _ _ _ HP) as [HS1 _].
        pose proof (fun p => nth2_cnt p _ _ _ _ _ HN Hj Hn) as H2.
        unfold CInvc, cv in HC.
        destruct tp as [| |sl|sl|]; cbn [base_of src_of] in *; destruct (tpc (bt t)) eqn:HP2; cbn [guard];
          try reflexivity; specialize (H2 _ HS1 eq_refl); lia. }
      rewrite HG', HCS, vtag_eff_bt. reflexivity.
Qed.

Lemma VInv_init a b k : VInv (vinit a b k).
Proof.
  constructor.
  - exact (Inv_init a b).
  - unfold CInvc, cv, vinit; cbn [tags vrp vf]. rewrite !cnt_repeat0 by discriminate. lia.
  - intros i t H. cbn [vinit tags] in H. apply nth_repeat0 in H. subst t. exact (TInv_init a b).
Qed.

Lemma VInv_step s p s' : VInv s -> vstep s p = Some s' -> VInv s'.
Proof.
  intros [HI HC HT] HS. pose proof HS as HS0. unfold vstep, vstep_gen in HS. constructor.
  - (* counters: a cstep *)
    destruct p as [b x|j tp].
    + destruct (vguard (tags s) (vf s) b); [|discriminate HS].
      destruct (vapply_inv _ _ _ _ _ _ HS) as (e & rec & o & HCS & _). exact (Invc_cstep _ _ _ _ _ _ HI HCS).
    + destruct (nth_error (tags s) j) as [tj|]; [|discriminate HS].
      destruct (vtag_pre false (vf s) (S (att s)) (elog s) tp tj) as [t1|]; [|discriminate HS].
      destruct (vapply_inv _ _ _ _ _ _ HS) as (e & rec & o & HCS & _). exact (Invc_cstep _ _ _ _ _ _ HI HCS).
  - (* counts *)
    destruct p as [b x|j tp].
    + destruct (vguard (tags s) (vf s) b) eqn:HG; [|discriminate HS].
      destruct (vapply_inv _ _ _ _ _ _ HS) as (e & rec & o & HCS & HTs).
      rewrite vguard_cguard in HG.
      pose proof (CInvc_anon _ _ _ _ _ _ _ HI HC HG HCS) as H.
      unfold CInvc, cv in *. rewrite HTs, !cnt_map_eff. exact H.
    + destruct (nth_error (tags s) j) as [tj|] eqn:Hj; [|discriminate HS].
      destruct (vtag_pre false (vf s) (S (att s)) (elog s) tp tj) as [t1|] eqn:HP; [|discriminate HS].
      destruct (vapply_inv _ _ _ _ _ _ HS) as (e & rec & o & HCS & HTs).
      destruct (vtag_pre_pcs _ _ _ _ _ _ _ HP) as [HS1 HD1].
      assert (HQ : forall q, cnt q (lset (tags s) j t1) + b2n (tagpc_beq (src_of tp) q)
                             = cnt q (tags s) + b2n (tagpc_beq (dst_of (vf s) tp) q)).
      { intros q. pose proof (cnt_lset q _ _ _ t1 Hj) as H. unfold atp in H. rewrite HS1, HD1 in H. exact H. }
      pose proof (nth_cnt _ _ _ _ Hj HS1) as H1.
      pose proof (CInvc_tagged _ _ (cv s) (fun q => cnt q (lset (tags s) j t1)) _ _ _ _ HI HC H1 HQ HCS) as H.
      unfold CInvc, cv in *. rewrite HTs, !cnt_map_eff. exact H.
  - (* each tracked call: the one-tag invariant, through its view *)
    intros i t' Hn'.
    assert (Hlen : length (tags s') = length (tags s)).
    { destruct p as [b x|j tp].
      - destruct (vguard (tags s) (vf s) b); [|discriminate HS].
        destruct (vapply_inv _ _ _ _ _ _ HS) as (e & rec & o & _ & HTs). rewrite HTs, map_length. reflexivity.
      - destruct (nth_error (tags s) j) as [tj|]; [|discriminate HS].
        destruct (vtag_pre false (vf s) (S (att s)) (elog s) tp tj) as [t1|]; [|discriminate HS].
        destruct (vapply_inv _ _ _ _ _ _ HS) as (e & rec & o & _ & HTs). rewrite HTs, map_length, length_lset. reflexivity. }
    destruct (nth_error (tags s) i) as [t|] eqn:Hn.
    + destruct (vstep_view _ _ _ _ _ HI HC HS0 Hn) as (t2 & Hn2 & HV).
      rewrite Hn' in Hn2. injection Hn2 as <-.
      exact (TInv_step (view s t) _ (view s' t') HI (HT _ _ Hn) HV).
    + exfalso. apply nth_error_None in Hn. assert (i < length (tags s')) by (apply nth_error_Some; congruence). lia.
Qed.

Lemma VInv_run_from s sched : VInv s -> VInv (vrun s sched).
Proof.
  revert s. induction sched as [|p rest IH]; intros s HI; [exact HI|].
  unfold vrun in *. cbn [vrun_gen]. fold vstep. destruct (vstep s p) as [s'|] eqn:HS.
  - apply IH. exact (VInv_step _ _ _ HI HS).
  - apply IH. exact HI.
Qed.

Theorem VInv_run : forall a b k sched, VInv (vrun (vinit a b k) sched).
Proof. intros. apply VInv_run_from, VInv_init. Qed.

(* ========================================================================================================== *)
(* 4. Symmetry, as a theorem: every tracked call's view of a run is a run of the one-tag model                 *)

Lemma view_run_from s sched i t :
  VInv s -> nth_error (tags s) i = Some t ->
  exists sched1 t', nth_error (tags (vrun s sched)) i = Some t' /\ view (vrun s sched) t' = run (view s t) sched1.
Proof.
  revert s t. induction sched as [|p rest IH]; intros s t HI Hn.
  - exists [], t. split; [exact Hn|reflexivity].
  - unfold vrun in *. cbn [vrun_gen]. fold vstep. destruct (vstep s p) as [s'|] eqn:HS.
    + destruct (vstep_view _ _ _ _ _ (vi_inv _ HI) (vi_cnt _ HI) HS Hn) as (t1 & Hn1 & HV).
      destruct (IH s' t1 (VInv_step _ _ _ HI HS) Hn1) as (sched1 & t' & Hn' & HR).
      exists (vproj_pick i p :: sched1), t'. split; [exact Hn'|].
      rewrite HR. unfold run. cbn [run_gen]. fold step. rewrite HV. reflexivity.
    + exact (IH s t HI Hn).
Qed.

Theorem tracked_call_is_the_tagged_call : forall a b k sched i, i < k ->
  exists sched1 t, nth_error (tags (vrun (vinit a b k) sched)) i = Some t /\
                   view (vrun (vinit a b k) sched) t = run (init a b) sched1.
Proof.
  intros a b k sched i Hi.
  assert (Hn : nth_error (tags (vinit a b k)) i = Some vtag0).
  { cbn [vinit tags]. destruct (nth_error (repeat vtag0 k) i) as [t|] eqn:E.
    - apply nth_repeat0 in E. subst t. reflexivity.
    - apply nth_error_None in E. rewrite repeat_length in E. lia. }
  destruct (view_run_from (vinit a b k) sched i vtag0 (VInv_init a b k) Hn) as (sched1 & t & H1 & H2).
  exists sched1, t. split; [exact H1|]. rewrite H2. reflexivity.
Qed.

(* and the counters evolve by the SAME counter protocol, whoever is tracked *)
Lemma vstep_proj s p s' : vstep s p = Some s' -> exists e, cstep good (vrp s) (vf s) (vuntag p) = Some (e, vrp s', vf s').
Proof.
  unfold vstep, vstep_gen. intros HS. destruct p as [b x|j tp]; cbn [vuntag].
  - destruct (vguard (tags s) (vf s) b); [|discriminate HS].
    destruct (vapply_inv _ _ _ _ _ _ HS) as (e & rec & o & HCS & _). exists e. exact HCS.
  - destruct (nth_error (tags s) j) as [tj|]; [|discriminate HS].
    destruct (vtag_pre false (vf s) (S (att s)) (elog s) tp tj) as [t1|]; [|discriminate HS].
    destruct (vapply_inv _ _ _ _ _ _ HS) as (e & rec & o & HCS & _). exists e. exact HCS.
Qed.

(* ========================================================================================================== *)
(* 5. Conversely, the one-tag model IS the instance with one tracked call: nothing was lost                     *)

Definition lift1 (p : pick) : vpick := match p with PB b => VB b 0 | PT t => VT 0 t end.

Lemma step_vlift1 s t p s1 :
  tags s = [t] -> step (view s t) p = Some s1 ->
  exists s' t', vstep s (lift1 p) = Some s' /\ tags s' = [t'] /\ view s' t' = s1.
Proof.
  intros HT HS. unfold step, step_gen, lift, view in HS. cbn [rp v tg] in HS.
  destruct p as [b|tp]; cbn [lift1]; unfold vstep, vstep_gen.
  - destruct (guard (tpc (bt t)) (vf s) b) eqn:HG; [|discriminate HS].
    destruct (cstep good (vrp s) (vf s) b) as [[[e r'] f']|] eqn:HC; [|discriminate HS]. injection HS as <-.
    assert (HV : vguard (tags s) (vf s) b = true).
    { rewrite HT. destruct b as [k|k|k sl|k sl| | | | |k]; try destruct k; cbn [vguard cnt]; try reflexivity;
        destruct (tpc (bt t)) eqn:E; cbn [tagpc_beq guard] in *;
        open_cstep HC; split_ifs HC; try discriminate HC; lia. }
    rewrite HV. unfold vapply. rewrite HC. eexists. eexists. split; [reflexivity|]. cbn [tags vrp vf]. rewrite HT. cbn [map].
    split; [reflexivity|]. unfold view. cbn [vrp vf]. rewrite vtag_eff_bt. reflexivity.
  - rewrite HT. cbn [nth_error]. unfold vtag_pre.
    destruct (tag_pre (vf s) tp (bt t)) as [b1|] eqn:HP; [|discriminate HS].
    destruct (cstep good (vrp s) (vf s) (base_of tp)) as [[[e r'] f']|] eqn:HC; [|discriminate HS]. injection HS as <-.
    unfold vapply. rewrite HC. eexists. eexists. split; [reflexivity|]. cbn [tags vrp vf lset map].
    split; [reflexivity|]. unfold view. cbn [vrp vf]. rewrite vtag_eff_bt. destruct tp; reflexivity.
Qed.

Theorem one_tag_model_is_one_tracked_call : forall a b sched,
  exists vsched t, tags (vrun (vinit a b 1) vsched) = [t] /\ view (vrun (vinit a b 1) vsched) t = run (init a b) sched.
Proof.
  intros a b sched.
  assert (H : forall s t, tags s = [t] ->
            exists vsched t', tags (vrun s vsched) = [t'] /\ view (vrun s vsched) t' = run (view s t) sched).
  { induction sched as [|p rest IH]; intros s t HT.
    - exists [], t. split; [exact HT|reflexivity].
    - unfold run. cbn [run_gen]. fold step. destruct (step (view s t) p) as [s1|] eqn:HS.
      + destruct (step_vlift1 _ _ _ _ HT HS) as (s' & t1 & HV & HT' & <-).
        destruct (IH s' t1 HT') as (vsched & t' & H1 & H2).
        exists (lift1 p :: vsched), t'. unfold vrun in *. cbn [vrun_gen]. fold vstep. rewrite HV. split; assumption.
      + exact (IH s t HT). }
  destruct (H (vinit a b 1) vtag0 eq_refl) as (vsched & t & H1 & H2). exists vsched, t. split; [exact H1|]. rewrite H2. reflexivity.
Qed.

(* ========================================================================================================== *)
(* 6. Renaming: with two tracked calls, exchanging their names commutes with the transition function           *)

Definition swap2l (l : list vtag) : list vtag := match l with [t0; t1] => [t1; t0] | _ => l end.
Definition swap2 (s : vst) : vst :=
  {| vrp := vrp s; vf := vf s; tags := swap2l (tags s); att := att s; msrc := msrc s; elog := elog s |}.
Definition swap2p (p : vpick) : vpick :=
  match p with VT 0 t => VT 1 t | VT 1 t => VT 0 t | _ => p end.

Lemma cnt_swap2l p l : cnt p (swap2l l) = cnt p l.
Proof. destruct l as [|t0 [|t1 [|t2 rest]]]; try reflexivity. cbn [swap2l cnt]. lia. Qed.

Lemma vguard_swap2l l f b : vguard (swap2l l) f b = vguard l f b.
Proof. destruct b as [k|k|k sl|k sl| | | | |k]; try destruct k; cbn [vguard]; rewrite ?cnt_swap2l; reflexivity. Qed.

Lemma map_swap2l (g : vtag -> vtag) l : map g (swap2l l) = swap2l (map g l).
Proof. destruct l as [|t0 [|t1 [|t2 rest]]]; reflexivity. Qed.

Lemma vapply_swap2 fl s b x l1 :
  vapply fl (swap2 s) b x (swap2l l1) = option_map swap2 (vapply fl s b x l1).
Proof.
  unfold vapply. cbn [swap2 vrp vf att msrc elog].
  destruct (cstep fl (vrp s) (vf s) b) as [[[e r'] f']|]; [|reflexivity].
  cbn [option_map]. unfold swap2. cbn [vrp vf tags att msrc elog]. rewrite map_swap2l. reflexivity.
Qed.

Theorem vstep_swap2 : forall fl cur s p,
  length (tags s) = 2 -> vstep_gen fl cur (swap2 s) (swap2p p) = option_map swap2 (vstep_gen fl cur s p).
Proof.
  intros fl cur s p HL.
  assert (HT : exists t0 t1, tags s = t0 :: t1 :: nil).
  { destruct (tags s) as [|t0 [|t1 [|t2 rest]]]; try discriminate HL. exists t0, t1. reflexivity. }
  destruct HT as (t0 & t1 & HT). clear HL.
  destruct p as [b x|i tp]; cbn [swap2p].
  - unfold vstep_gen. cbn [swap2 tags vf]. rewrite vguard_swap2l.
    destruct (vguard (tags s) (vf s) b); [|reflexivity].
    exact (vapply_swap2 fl s b x (tags s)).
  - destruct i as [|[|i]]; unfold vstep_gen; cbn [swap2 tags vf att elog]; rewrite HT; cbn [swap2l nth_error].
    + destruct (vtag_pre cur (vf s) (S (att s)) (elog s) tp t0) as [u|]; [|reflexivity].
      rewrite <- (vapply_swap2 fl s (base_of tp) 0). unfold swap2. rewrite HT. reflexivity.
    + destruct (vtag_pre cur (vf s) (S (att s)) (elog s) tp t1) as [u|]; [|reflexivity].
      rewrite <- (vapply_swap2 fl s (base_of tp) 0). unfold swap2. rewrite HT. reflexivity.
    + destruct i; reflexivity.
Qed.

Corollary vrun_swap2 : forall sched s,
  length (tags s) = 2 -> vrun (swap2 s) (map swap2p sched) = swap2 (vrun s sched).
Proof.
  induction sched as [|p rest IH]; intros s HL; [reflexivity|].
  unfold vrun in *. cbn [map vrun_gen]. rewrite (vstep_swap2 good false s p HL).
  destruct (vstep_gen good false s p) as [s'|] eqn:HS; cbn [option_map].
  - apply IH. destruct p as [b x|i tp]; unfold vstep_gen in HS.
    + destruct (vguard (tags s) (vf s) b); [|discriminate HS].
      destruct (vapply_inv _ _ _ _ _ _ HS) as (e & rec & o & _ & ->). rewrite map_length. exact HL.
    + destruct (nth_error (tags s) i) as [ti|]; [|discriminate HS].
      destruct (vtag_pre false (vf s) (S (att s)) (elog s) tp ti) as [u|]; [|discriminate HS].
      destruct (vapply_inv _ _ _ _ _ _ HS) as (e & rec & o & _ & ->). rewrite map_length, length_lset. exact HL.
  - apply IH. exact HL.
Qed.

Print Assumptions VInv_run.
Print Assumptions tracked_call_is_the_tagged_call.
Print Assumptions one_tag_model_is_one_tracked_call.
Print Assumptions vstep_swap2.
Print Assumptions vrun_swap2.
