(* More proofs about Model/Buffer.v (C01, C03, C12):
   1. schedules with ARBITRARY cleaner functions, possibly a different one at every cleaner run ([gev]/[grun]): the run
      theorems of Proofs/Buffer.v re-proved for them (erun is the special case, [erun_is_grun]);
   2. what one event does to one consumer record ([step_cons], [gstep_cons]): a composition of six primitive moves [ctr];
   3. a stronger per-consumer invariant [CInv2]: the read history lists first occurrences in increasing, contiguous order
      starting at the start offset; re-reads only after a Rollback; closedness flags;
   4. where a consumer starts (the base at its creation) and what it reads first;
   5. consumers at or beyond a trim point are unaffected by the trim;
   6. closed consumers / closed buffers: what each call returns, permanently. *)
From Coq Require Import List ZArith Bool Arith Lia.
From BB.Model Require Import Cleaner Buffer.
From BB.Proofs Require Cleaner.
From BB.Proofs Require Import Buffer.
Import ListNotations.

Arguments Nat.sub : simpl never.
Arguments Nat.eqb : simpl never.
Arguments Nat.ltb : simpl never.
Arguments Nat.max : simpl never.

(* ---------------------------------------------------------------------------------------------------------- *)
(* 1. schedules with arbitrary cleaner functions                                                                *)
(* ---------------------------------------------------------------------------------------------------------- *)
(* [GShift f]: one run of cleanupLogic with the cleaner function f — any function at all, and a different one at every
   run if the schedule says so (SetCleanerConfig replacing the cleaner between runs).  As in [clean], the cleaner
   goroutine only lives while the buffer's context does. *)
Inductive gev := GEv (e : ev) | GShift (f : Z -> list Z -> Z).

Definition gstep (s : st) (g : gev) : st * option out :=
  match g with
  | GEv e => estep s e
  | GShift f => (if bclosed s then s else clean_with f s, None)
  end.

Fixpoint grun (s : st) (gs : list gev) : st * list out :=
  match gs with
  | [] => (s, [])
  | g :: rest =>
      let '(s1, r) := gstep s g in
      let '(s2, rs) := grun s1 rest in
      (s2, match r with Some x => x :: rs | None => rs end)
  end.

Lemma grun_cons s g rest :
  grun s (g :: rest) =
  (fst (grun (fst (gstep s g)) rest),
   match snd (gstep s g) with Some x => x :: snd (grun (fst (gstep s g)) rest) | None => snd (grun (fst (gstep s g)) rest) end).
Proof.
  cbn [grun]. destruct (gstep s g) as [s1 r]. cbn [fst snd]. destruct (grun s1 rest) as [s2 rs]. reflexivity.
Qed.

Lemma grun_app gs1 : forall s gs2,
  fst (grun s (gs1 ++ gs2)) = fst (grun (fst (grun s gs1)) gs2).
Proof.
  induction gs1 as [|g rest IH]; intros s gs2; [reflexivity|].
  rewrite <- app_comm_cons, !grun_cons. cbn [fst]. apply IH.
Qed.

(* the schedules of Model/Buffer.v are the special case without GShift *)
Theorem erun_is_grun evs : forall s, erun s evs = grun s (map GEv evs).
Proof.
  induction evs as [|e rest IH]; intros s; [reflexivity|].
  cbn [map]. rewrite erun_cons, grun_cons. cbn [gstep]. rewrite IH. reflexivity.
Qed.

(* EClean is GShift of the configured cleaner *)
Lemma clean_is_gshift s : clean s = fst (gstep s (GShift (cleaner_of (cfg s)))).
Proof. reflexivity. Qed.

Lemma Inv_gstep s g : Inv s -> Inv (fst (gstep s g)).
Proof.
  intros HI. destruct g as [e|f]; cbn [gstep]; [apply Inv_estep; auto|].
  cbn [fst]. destruct (bclosed s); auto. apply Inv_clean_with; auto.
Qed.

Theorem Inv_grun gs : forall s, Inv s -> Inv (fst (grun s gs)).
Proof.
  induction gs as [|g rest IH]; intros s HI; [exact HI|].
  rewrite grun_cons. cbn [fst]. apply IH, Inv_gstep; auto.
Qed.

(* generic induction over a run: a state predicate preserved by every event (given Inv) holds at the end *)
Lemma grun_preserves (P : st -> Prop) :
  (forall s g, Inv s -> P s -> P (fst (gstep s g))) ->
  forall gs s, Inv s -> P s -> P (fst (grun s gs)).
Proof.
  intros Hstep. induction gs as [|g rest IH]; intros s HI HP; [exact HP|].
  rewrite grun_cons. cbn [fst]. apply IH; [apply Inv_gstep; auto|apply Hstep; auto].
Qed.

(* the log is append-only *)
Definition gappended (s : st) (g : gev) : list Z := match g with GEv e => appended s e | GShift _ => [] end.

Fixpoint gbatches (s : st) (gs : list gev) : list Z :=
  match gs with
  | [] => []
  | g :: rest => gappended s g ++ gbatches (fst (gstep s g)) rest
  end.

Lemma gstep_log s g : Inv s -> log (fst (gstep s g)) = log s ++ gappended s g.
Proof.
  intros HI. destruct g as [e|f]; cbn [gstep gappended]; [apply estep_log; auto|].
  rewrite app_nil_r. cbn [fst]. destruct (bclosed s); reflexivity.
Qed.

Theorem grun_log gs : forall s, Inv s -> log (fst (grun s gs)) = log s ++ gbatches s gs.
Proof.
  induction gs as [|g rest IH]; intros s HI; cbn [gbatches].
  - cbn. rewrite app_nil_r. reflexivity.
  - rewrite grun_cons. cbn [fst]. rewrite IH by (apply Inv_gstep; auto). rewrite gstep_log by auto.
    rewrite app_assoc. reflexivity.
Qed.

Corollary grun_log_stable gs s p v :
  Inv s -> nth_error (log s) p = Some v -> nth_error (log (fst (grun s gs))) p = Some v.
Proof.
  intros HI Hn. rewrite grun_log by auto. rewrite nth_error_app1; auto. apply nth_error_Some. rewrite Hn. discriminate.
Qed.

(* base and committed offsets never decrease *)
Lemma sle_gstep s g : Inv s -> sle s (fst (gstep s g)).
Proof.
  intros HI. destruct g as [e|f]; cbn [gstep]; [apply sle_estep; auto|].
  cbn [fst]. destruct (bclosed s); [apply sle_refl|]. destruct HI as [H1 _].
  destruct (clean_with_base f s H1) as ([Ha _] & _ & Hc & _).
  split; auto. intros i k Hi. exists k. unfold getc in *. rewrite Hc. split; auto. apply cle_refl.
Qed.

Theorem sle_grun gs : forall s, Inv s -> sle s (fst (grun s gs)).
Proof.
  induction gs as [|g rest IH]; intros s HI; [apply sle_refl|].
  rewrite grun_cons. cbn [fst]. eapply sle_trans; [apply sle_gstep; auto|]. apply IH, Inv_gstep; auto.
Qed.

Theorem committed_never_returned_again_g gs s c k s1 s2 v :
  Inv s -> getc s c = Some k ->
  s1 = fst (grun s gs) -> step s1 (OGet c) = (s2, RVal v) ->
  exists k1, getc s1 c = Some k1 /\ ccommit k <= ccommit k1 /\
             nth_error (log s1) (ccommit k1 + cdelta k1) = Some v /\ cstart k <= ccommit k1 + cdelta k1.
Proof.
  intros HI Hk -> Hs. destruct (sle_grun gs s HI) as [_ Hc]. destruct (Hc _ _ Hk) as (k1 & Hk1 & (L1 & L2 & L3)).
  destruct (step_get_val _ _ _ _ Hs) as (k1' & Hk1' & Hn & _). rewrite Hk1 in Hk1'. inversion Hk1'; subst k1'.
  exists k1. repeat split; auto.
  pose proof (Inv_grun gs s HI) as [_ HF]. pose proof (Forall_nth_error _ _ _ _ HF Hk1) as (Ha & _). lia.
Qed.

(* evicted fails forever, whatever cleaners run later *)
Lemma lagging_gstep s g i : Inv s -> lagging s i -> lagging (fst (gstep s g)) i.
Proof.
  intros HI HL. destruct g as [e|f]; cbn [gstep]; [apply lagging_estep; auto|].
  cbn [fst]. destruct (bclosed s); auto. destruct HI as [H1 _].
  destruct (clean_with_base f s H1) as ([Ha _] & _ & Hc & _).
  destruct HL as (k & Hk & Hl). exists k. unfold getc in *. rewrite Hc. split; auto. lia.
Qed.

Theorem evicted_fails_forever_g gs : forall s i,
  Inv s -> lagging s i ->
  let s' := fst (grun s gs) in lagging s' i /\ step s' (OGet i) = (s', RErr).
Proof.
  induction gs as [|g rest IH]; intros s i HI HL; cbv zeta.
  - cbn. split; auto. apply lagging_get_errs; auto.
  - rewrite grun_cons. cbn [fst]. apply IH; [apply Inv_gstep; auto|apply lagging_gstep; auto].
Qed.

Lemma bclosed_gstep s g : bclosed s = true -> bclosed (fst (gstep s g)) = true.
Proof.
  intros Hb. destruct g as [e|f]; cbn [gstep]; [apply bclosed_estep; auto|]. cbn [fst]. rewrite Hb. exact Hb.
Qed.

Theorem closed_stays_closed_g gs : forall s, bclosed s = true -> bclosed (fst (grun s gs)) = true.
Proof.
  induction gs as [|g rest IH]; intros s Hb; [exact Hb|]. rewrite grun_cons. cbn [fst]. apply IH, bclosed_gstep; auto.
Qed.

(* ---------------------------------------------------------------------------------------------------------- *)
(* 2. what one event does to one consumer record                                                                *)
(* ---------------------------------------------------------------------------------------------------------- *)
Lemma getc_upd_cases s c0 c k x d k' :
  getc s c0 = Some k -> getc (set_cs s (upd (cs s) c0 x) d) c = Some k' ->
  (c0 = c /\ k' = x) \/ (c0 <> c /\ getc s c = Some k').
Proof.
  intros Hk Hg. unfold getc, set_cs in *; cbn [cs] in Hg. destruct (Nat.eq_dec c0 c) as [->|Hne].
  - left. split; auto. rewrite (nth_error_upd_same _ _ _ _ Hk) in Hg. congruence.
  - right. split; auto. rewrite nth_error_upd_other in Hg; auto.
Qed.

(* the effect of operation o on the record of consumer c (k before, k' after); [k' = k] is always allowed *)
Definition optr (s : st) (o : op) (c : nat) (k k' : cons) : Prop :=
  k' = k \/
  match o with
  | OGet c0 => c0 = c /\ (exists v, nth_error (log s) (ccommit k + cdelta k) = Some v) /\ base s <= ccommit k + cdelta k /\
               ccancel k = false /\ bclosed s = false /\ creg k = true /\ k' = c_get k (ccommit k + cdelta k)
  | OCommit c0 => c0 = c /\ cdelta k <> 0 /\ creg k = true /\ k' = c_commit k
  | ORollback c0 => c0 = c /\ cdelta k <> 0 /\ k' = c_rollback k
  | OCloseC c0 => c0 = c /\ conce k = false /\
                  ((cdelta k <> 0 /\ k' = c_close_begin k) \/ (cdelta k = 0 /\ k' = c_finish (c_close_begin k)))
  | OCloseB => bonce s = false /\ k' = settle_c (c_cancel k)
  | _ => False
  end.

Lemma step_cons s o c k' :
  getc (fst (step s o)) c = Some k' ->
  (exists k, getc s c = Some k /\ optr s o c k k') \/
  (getc s c = None /\ o = ONew /\ bclosed s = false /\ c = length (cs s) /\ k' = c_new (base s)).
Proof.
  assert (Hsame : getc s c = Some k' -> (exists k, getc s c = Some k /\ optr s o c k k') \/
            (getc s c = None /\ o = ONew /\ bclosed s = false /\ c = length (cs s) /\ k' = c_new (base s))).
  { intros H. left. exists k'. split; auto. left; reflexivity. }
  destruct o; unfold step; cbn [fst]; try exact Hsame.
  - (* Put *) destruct (bclosed s); cbn [fst]; exact Hsame.
  - (* New *)
    destruct (bclosed s) eqn:Hb; cbn [fst]; [exact Hsame|]. unfold getc, set_cs; cbn [cs]. intros Hg.
    destruct (lt_eq_lt_dec c (length (cs s))) as [[Hlt|Heq]|Hgt].
    + rewrite nth_error_app1 in Hg by auto. apply Hsame. exact Hg.
    + right. subst c. rewrite nth_error_app2, Nat.sub_diag in Hg by auto. cbn in Hg.
      repeat split; auto; [apply nth_error_None; auto|congruence].
    + rewrite nth_error_app2 in Hg by lia. destruct (c - length (cs s)) as [|n] eqn:E; [lia|].
      cbn in Hg. destruct n; discriminate.
  - (* Get *)
    destruct (step s (OGet c0)) as [s' r] eqn:Hs. unfold step in Hs. rewrite Hs. cbn [fst].
    destruct r; try (destruct (step_get_fail _ _ _ _ Hs) as [-> _]; [intros v0 E; discriminate E|exact Hsame]).
    destruct (step_get_val _ _ _ _ Hs) as (k & Hk & Hn & Hb & Hcc & Hbc & Hr & ->). intros Hg.
    destruct (getc_upd_cases _ _ _ _ _ _ _ Hk Hg) as [[-> ->]|[Hne Hg']]; [|apply Hsame; auto].
    left. exists k. split; auto. right. repeat split; eauto.
  - (* Commit *)
    destruct (getc s c0) as [k|] eqn:Hk; cbn [fst]; [|exact Hsame].
    destruct (cdelta k =? 0) eqn:Ed; cbn [fst]; [exact Hsame|]. destruct (creg k) eqn:Er; cbn [negb fst]; [|exact Hsame].
    intros Hg. destruct (getc_upd_cases _ _ _ _ _ _ _ Hk Hg) as [[-> ->]|[Hne Hg']]; [|apply Hsame; auto].
    left. exists k. split; auto. right. apply Nat.eqb_neq in Ed. repeat split; auto.
  - (* Rollback *)
    destruct (getc s c0) as [k|] eqn:Hk; cbn [fst]; [|exact Hsame].
    destruct (cdelta k =? 0) eqn:Ed; cbn [fst]; [exact Hsame|].
    intros Hg. destruct (getc_upd_cases _ _ _ _ _ _ _ Hk Hg) as [[-> ->]|[Hne Hg']]; [|apply Hsame; auto].
    left. exists k. split; auto. right. apply Nat.eqb_neq in Ed. repeat split; auto.
  - (* Diff *) destruct (getc s c0) as [k|]; [destruct (creg k)|]; exact Hsame.
  - (* CloseC *)
    destruct (getc s c0) as [k|] eqn:Hk; cbn [fst]; [|exact Hsame].
    destruct (conce k) eqn:Ho; cbn [fst]; [exact Hsame|].
    destruct (cdelta k =? 0) eqn:Ed; cbn [fst]; intros Hg;
      (destruct (getc_upd_cases _ _ _ _ _ _ _ Hk Hg) as [[-> ->]|[Hne Hg']]; [|apply Hsame; auto]);
      left; exists k; (split; [auto|]); right; (split; [reflexivity|]); (split; [exact Ho|]).
    + right. apply Nat.eqb_eq in Ed. auto.
    + left. apply Nat.eqb_neq in Ed. auto.
  - (* CloseB *)
    destruct (bonce s) eqn:Ho; cbn [fst]; [exact Hsame|]. unfold getc; cbn [settle cs].
    rewrite !nth_error_map. fold (getc s c). destruct (getc s c) as [k|]; cbn [option_map]; [|discriminate].
    intros Hg. inversion Hg; subst k'. left. exists k. split; auto. right. auto.
  - (* DoneC *) destruct (getc s c0); exact Hsame.
  - (* Settled *) match goal with |- getc (fst (if ?b then _ else _)) _ = _ -> _ => destruct b end; exact Hsame.
  - (* ProbeCloseC *) destruct (getc s c0); exact Hsame.
Qed.

(* the six primitive moves of a consumer record *)
Inductive ctr (s : st) : cons -> cons -> Prop :=
| ctr_get k v : nth_error (log s) (ccommit k + cdelta k) = Some v -> base s <= ccommit k + cdelta k ->
                ccancel k = false -> bclosed s = false -> creg k = true -> ctr s k (c_get k (ccommit k + cdelta k))
| ctr_commit k : cdelta k <> 0 -> creg k = true -> ctr s k (c_commit k)
| ctr_rollback k : cdelta k <> 0 -> ctr s k (c_rollback k)
| ctr_close_begin k : conce k = false -> ctr s k (c_close_begin k)
| ctr_cancel k : ctr s k (c_cancel k)
| ctr_finish k : conce k = true -> cdelta k = 0 -> ctr s k (c_finish k).

Inductive ctrs (s : st) : cons -> cons -> Prop :=
| ctrs_refl k : ctrs s k k
| ctrs_step k k1 k2 : ctr s k k1 -> ctrs s k1 k2 -> ctrs s k k2.

Lemma ctrs_one s k k' : ctr s k k' -> ctrs s k k'.
Proof. intros H. eapply ctrs_step; [exact H|apply ctrs_refl]. Qed.

Lemma ctrs_trans s a b c : ctrs s a b -> ctrs s b c -> ctrs s a c.
Proof. intros H1 H2. induction H1; auto. eapply ctrs_step; eauto. Qed.

Lemma settle_c_ctrs s k : ctrs s k (settle_c k).
Proof.
  unfold settle_c. destruct (ccancel k && negb (conce k)) eqn:E1.
  - apply andb_true_iff in E1. destruct E1 as [_ E1]. apply negb_true_iff in E1.
    destruct (conce (c_close_begin k) && negb (cdone (c_close_begin k)) && (cdelta (c_close_begin k) =? 0)) eqn:E2.
    + apply andb_true_iff in E2. destruct E2 as [E2 E3]. apply andb_true_iff in E2. destruct E2 as [E2 E4].
      apply negb_true_iff in E4. apply Nat.eqb_eq in E3.
      eapply ctrs_step; [apply ctr_close_begin; auto|]. apply ctrs_one. apply ctr_finish; auto.
    + apply ctrs_one. apply ctr_close_begin; auto.
  - destruct (conce k && negb (cdone k) && (cdelta k =? 0)) eqn:E2; [|apply ctrs_refl].
    apply andb_true_iff in E2. destruct E2 as [E2 E3]. apply andb_true_iff in E2. destruct E2 as [E2 E4].
    apply negb_true_iff in E4. apply Nat.eqb_eq in E3. apply ctrs_one. apply ctr_finish; auto.
Qed.

Lemma optr_ctrs s o c k k' : optr s o c k k' -> ctrs s k k'.
Proof.
  intros [->|H]; [apply ctrs_refl|]. destruct o; try contradiction.
  - destruct H as (_ & [v Hv] & Hb & Hc & Hbc & Hr & ->). apply ctrs_one. eapply ctr_get; eauto.
  - destruct H as (_ & Hd & Hr & ->). apply ctrs_one. apply ctr_commit; auto.
  - destruct H as (_ & Hd & ->). apply ctrs_one. apply ctr_rollback; auto.
  - destruct H as (_ & Ho & [[Hd ->]|[Hd ->]]).
    + apply ctrs_one. apply ctr_close_begin; auto.
    + eapply ctrs_step; [apply ctr_close_begin; auto|]. apply ctrs_one. apply ctr_finish; auto.
  - destruct H as (_ & ->). eapply ctrs_step; [apply ctr_cancel|]. apply settle_c_ctrs.
Qed.

Lemma gstep_cons s g c k' :
  getc (fst (gstep s g)) c = Some k' ->
  (exists k, getc s c = Some k /\ ctrs s k k') \/
  (getc s c = None /\ g = GEv (EOp ONew) /\ bclosed s = false /\ c = length (cs s) /\ k' = c_new (base s)).
Proof.
  destruct g as [[o| |]|f]; cbn [gstep estep].
  - pose proof (step_cons s o c k') as H. destruct (step s o) as [s1 r]. cbn [fst] in *. intros Hg.
    destruct (H Hg) as [(k & Hk & Ho)|(Hn & -> & Hb & Hc & Hk)].
    + left. exists k. split; auto. eapply optr_ctrs; eauto.
    + right. auto 6.
  - cbn [fst]. unfold clean. destruct (bclosed s); intros Hg; left; exists k'; (split; [exact Hg|apply ctrs_refl]).
  - unfold getc; cbn [settle cs fst]. rewrite nth_error_map. destruct (nth_error (cs s) c) as [k|]; cbn [option_map]; [|discriminate].
    intros Hg. inversion Hg; subst k'. left. exists k. split; auto. apply settle_c_ctrs.
  - cbn [fst]. destruct (bclosed s); intros Hg; left; exists k'; (split; [exact Hg|apply ctrs_refl]).
Qed.

Lemma Forall_nth_iff {A} (P : A -> Prop) (l : list A) : Forall P l <-> (forall i x, nth_error l i = Some x -> P x).
Proof.
  split.
  - intros HF i x Hn. eapply Forall_nth_error; eauto.
  - intros H. apply Forall_forall. intros x Hin. destruct (In_nth_error _ _ Hin) as [i Hi]. eauto.
Qed.

(* a per-consumer predicate (which may mention the state) is preserved by an event if it is closed under the primitive
   moves at the old state, holds of a new consumer, and survives the change of state *)
Lemma Forall_cs_gstep (Q : st -> cons -> Prop) s g :
  (forall k k', Q s k -> ctr s k k' -> Q s k') ->
  (bclosed s = false -> Q s (c_new (base s))) ->
  (forall k, Q s k -> Q (fst (gstep s g)) k) ->
  Forall (Q s) (cs s) -> Forall (Q (fst (gstep s g))) (cs (fst (gstep s g))).
Proof.
  intros Hctr Hnew Hmono HF. apply Forall_nth_iff. intros i k' Hi. apply Hmono.
  destruct (gstep_cons s g i k' Hi) as [(k & Hk & Ht)|(_ & _ & Hb & _ & ->)]; [|auto].
  pose proof (Forall_nth_error _ _ _ _ HF Hk) as HQ. clear Hk Hi. induction Ht as [k|k k1 k2 H1 _ IH]; eauto.
Qed.

Lemma CInv_ctr s k k' : ctr s k k' -> CInv (length (log s)) k -> CInv (length (log s)) k'.
Proof.
  intros Ht HC. destruct Ht as [k v Hn _ _ _ _|k _ _|k _|k _|k|k Ho _].
  - apply CInv_get; auto. apply nth_error_Some. rewrite Hn. discriminate.
  - apply CInv_commit; auto.
  - apply CInv_rollback; auto.
  - apply CInv_close_begin; auto.
  - apply CInv_cancel; auto.
  - apply CInv_finish; auto.
Qed.

(* ---------------------------------------------------------------------------------------------------------- *)
(* 3. the order of the read history                                                                             *)
(* ---------------------------------------------------------------------------------------------------------- *)
(* high-water mark of a history (newest first) of a consumer that started at st: one past the largest position read *)
Definition hw (st : nat) (l : list nat) : nat := fold_right Nat.max st (map S l).

(* every position read is at least the start and at most the high-water mark of what was read BEFORE it: a read either
   repeats an earlier position or is exactly the next new one *)
Fixpoint ordered (st : nat) (l : list nat) : Prop :=
  match l with
  | [] => True
  | p :: l2 => st <= p <= hw st l2 /\ ordered st l2
  end.

Lemma hw_cons st p l : hw st (p :: l) = Nat.max (S p) (hw st l).
Proof. reflexivity. Qed.

Lemma hw_ge st l : st <= hw st l.
Proof. induction l as [|p l IH]; [cbn; lia|]. rewrite hw_cons. lia. Qed.

Lemma ordered_In st l : ordered st l -> forall p, In p l <-> st <= p < hw st l.
Proof.
  induction l as [|q l IH]; intros Ho p.
  - cbn. lia.
  - destruct Ho as [Hq Ho]. specialize (IH Ho). rewrite hw_cons. cbn [In]. rewrite IH.
    destruct (Nat.eq_dec q p) as [->|Hne]; [lia|]. lia.
Qed.

Lemma ordered_split st l1 : forall p l2, ordered st (l1 ++ p :: l2) -> st <= p <= hw st l2 /\ ordered st l2.
Proof.
  induction l1 as [|q l1 IH]; intros p l2 Ho.
  - exact Ho.
  - destruct Ho as [_ Ho]. apply IH; auto.
Qed.

(* a position not read before is exactly the previous high-water mark; one read before is below it *)
Lemma ordered_new_is_high st l1 p l2 : ordered st (l1 ++ p :: l2) -> ~ In p l2 -> p = hw st l2.
Proof.
  intros Ho Hn. destruct (ordered_split _ _ _ _ Ho) as [Hp Ho2]. rewrite (ordered_In _ _ Ho2) in Hn. lia.
Qed.

Lemma ordered_old_is_below st l1 p l2 : ordered st (l1 ++ p :: l2) -> (In p l2 <-> p < hw st l2).
Proof.
  intros Ho. destruct (ordered_split _ _ _ _ Ho) as [Hp Ho2]. rewrite (ordered_In _ _ Ho2). lia.
Qed.

(* the first read of all is the start *)
Lemma ordered_last st l : ordered st l -> l = [] \/ exists l', l = l' ++ [st].
Proof.
  induction l as [|p l IH]; intros Ho; [left; auto|right]. destruct Ho as [Hp Ho].
  destruct (IH Ho) as [->|[l' ->]].
  - exists []. cbn in Hp. cbn. f_equal. lia.
  - exists (p :: l'). reflexivity.
Qed.

(* first occurrences, oldest first *)
Fixpoint firsts (l : list nat) : list nat :=
  match l with
  | [] => []
  | p :: l2 => if existsb (Nat.eqb p) l2 then firsts l2 else firsts l2 ++ [p]
  end.

Lemma existsb_eqb_In p l : existsb (Nat.eqb p) l = true <-> In p l.
Proof.
  rewrite existsb_exists. split.
  - intros (x & Hin & E). apply Nat.eqb_eq in E. subst; auto.
  - intros Hin. exists p. split; auto. apply Nat.eqb_refl.
Qed.

Theorem ordered_firsts st l : ordered st l -> firsts l = seq st (hw st l - st).
Proof.
  induction l as [|p l IH]; intros Ho.
  - cbn. rewrite Nat.sub_diag. reflexivity.
  - pose proof Ho as [Hp Ho2]. specialize (IH Ho2). cbn [firsts]. rewrite hw_cons.
    pose proof (ordered_In _ _ Ho2 p) as HIn. pose proof (hw_ge st l) as Hge.
    destruct (existsb (Nat.eqb p) l) eqn:E.
    + apply existsb_eqb_In in E. apply HIn in E. rewrite IH. f_equal. lia.
    + assert (Hn : ~ In p l) by (intros Hin; apply existsb_eqb_In in Hin; congruence).
      assert (Hph : p = hw st l) by (rewrite HIn in Hn; lia).
      rewrite IH. replace (Nat.max (S p) (hw st l) - st) with (S (hw st l - st)) by lia.
      rewrite seq_S. f_equal. f_equal. lia.
Qed.

(* the stronger per-consumer invariant *)
Definition CInv2 (k : cons) : Prop :=
  chigh k = hw (cstart k) (chist k) /\
  ordered (cstart k) (chist k) /\
  (conce k = true -> ccancel k = true) /\
  (cdone k = true -> cdelta k = 0) /\
  (creg k = false -> cdone k = true).

Lemma CInv2_new b : CInv2 (c_new b).
Proof. unfold CInv2, c_new; cbn. repeat split; auto; discriminate. Qed.

Lemma CInv2_ctr s len k k' : ctr s k k' -> CInv len k -> CInv2 k -> CInv2 k'.
Proof.
  intros Ht (C1 & C2 & C3 & C4 & C5 & C6) (H1 & H2 & H3 & H4 & H5).
  destruct Ht as [k v Hn Hb Hcc Hbc Hr|k Hd Hr|k Hd|k Ho|k|k Ho Hd]; unfold CInv2;
    cbn [c_get c_commit c_rollback c_close_begin c_cancel c_finish chigh cstart chist conce ccancel cdone cdelta creg].
  - rewrite hw_cons, <- H1. repeat split; auto; try lia.
    + intros Hdn. destruct (C6 Hdn). congruence.
  - repeat split; auto.
  - repeat split; auto.
  - repeat split; auto.
  - repeat split; auto.
  - repeat split; auto.
Qed.

Definition CI (len : nat) (k : cons) : Prop := CInv len k /\ CInv2 k.

Definition Inv2 (s : st) : Prop := Inv s /\ Forall CInv2 (cs s).

Lemma Inv2_CI s : Inv2 s <-> base s <= length (log s) /\ Forall (CI (length (log s))) (cs s).
Proof.
  unfold Inv2, Inv, CI. rewrite !Forall_forall. split.
  - intros [[Hb HF] HF2]. split; auto.
  - intros [Hb HF]. split; [split; auto|]; intros y Hin; apply (HF y Hin).
Qed.

Lemma Inv2_init k : Inv2 (init k).
Proof. split; [apply Inv_init|constructor]. Qed.

Lemma Inv2_gstep s g : Inv2 s -> Inv2 (fst (gstep s g)).
Proof.
  intros H2. pose proof H2 as [HI _]. apply Inv2_CI in H2. destruct H2 as [Hb HF].
  apply Inv2_CI. pose proof (Inv_gstep s g HI) as [Hb' _]. split; auto.
  apply (Forall_cs_gstep (fun s k => CI (length (log s)) k)); auto.
  - intros k k' [HC HC2] Ht. split; [eapply CInv_ctr; eauto|eapply CInv2_ctr; eauto].
  - intros _. split; [apply CInv_new; auto|apply CInv2_new].
  - intros k [HC HC2]. split; auto. eapply CInv_mono; [|exact HC]. rewrite gstep_log by auto. rewrite app_length. lia.
Qed.

Theorem Inv2_grun gs : forall s, Inv2 s -> Inv2 (fst (grun s gs)).
Proof.
  induction gs as [|g rest IH]; intros s HI; [exact HI|].
  rewrite grun_cons. cbn [fst]. apply IH, Inv2_gstep; auto.
Qed.

Corollary Inv2_erun evs s : Inv2 s -> Inv2 (fst (erun s evs)).
Proof. rewrite erun_is_grun. apply Inv2_grun. Qed.

(* C01, the stream of one consumer in plain terms, in every state reachable under any schedule with any cleaners:
   (a) the history lists, newest first, positions such that each one is either one already read or exactly the next new
       position (one past everything read before, the start offset at first);
   (b) so the first occurrences, oldest first, are start, start+1, ..., high-1 — no gap, no reordering, each once;
   (c) the very first read, if any, is at the start offset;
   (d) the high-water mark is one past the largest position read. *)
Theorem stream_order s c k :
  Inv2 s -> getc s c = Some k ->
  (forall l1 p l2, chist k = l1 ++ p :: l2 -> cstart k <= p <= hw (cstart k) l2 /\ (In p l2 <-> p < hw (cstart k) l2) /\
                   (~ In p l2 -> p = hw (cstart k) l2)) /\
  firsts (chist k) = seq (cstart k) (chigh k - cstart k) /\
  (chist k = [] \/ exists l', chist k = l' ++ [cstart k]) /\
  chigh k = hw (cstart k) (chist k).
Proof.
  intros [_ HF] Hk. pose proof (Forall_nth_error _ _ _ _ HF Hk) as (H1 & H2 & _).
  split; [|split; [|split]]; auto.
  - intros l1 p l2 E. rewrite E in H2. split; [apply (ordered_split _ _ _ _ H2)|]. split.
    + eapply ordered_old_is_below; eauto.
    + eapply ordered_new_is_high; eauto.
  - rewrite H1. apply ordered_firsts; auto.
  - apply ordered_last; auto.
Qed.

(* A successful Get at the high-water mark returns a NEW position (never read before) and raises the mark by one; a Get
   below it re-reads a position already read and leaves the mark alone.  Either way the cursor advances by one. *)
Theorem get_new_or_reread len k :
  CInv len k ->
  let p := ccommit k + cdelta k in
  ccommit (c_get k p) + cdelta (c_get k p) = S p /\
  (p = chigh k -> ~ In p (chist k) /\ chigh (c_get k p) = S p) /\
  (p < chigh k -> In p (chist k) /\ chigh (c_get k p) = chigh k).
Proof.
  intros (C1 & C2 & C3 & C4 & _). cbv zeta. cbn [c_get ccommit cdelta chigh]. split; [lia|]. split.
  - intros E. split; [rewrite C4; lia|lia].
  - intros E. split; [rewrite C4; lia|lia].
Qed.

Lemma settle_c_same k :
  ccommit (settle_c k) = ccommit k /\ cdelta (settle_c k) = cdelta k /\ chigh (settle_c k) = chigh k /\
  chist (settle_c k) = chist k /\ cstart (settle_c k) = cstart k.
Proof.
  unfold settle_c. destruct (ccancel k && negb (conce k));
    match goal with |- context [if ?b then _ else _] => destruct b end; cbn; auto.
Qed.

(* what an operation does to the cursor of consumer c: Rollback c moves it back to the committed offset, a successful
   Get c advances it by one, nothing else touches cursor, high-water mark or history *)
Lemma optr_cursor s o c k k' :
  optr s o c k k' ->
  (o = ORollback c /\ k' = c_rollback k /\ cdelta k <> 0) \/
  (o = OGet c /\ k' = c_get k (ccommit k + cdelta k)) \/
  (ccommit k' + cdelta k' = ccommit k + cdelta k /\ chigh k' = chigh k /\ chist k' = chist k /\ ccommit k <= ccommit k').
Proof.
  intros [->|H]; [right; right; auto|]. destruct o; try contradiction.
  - destruct H as (-> & _ & _ & _ & _ & _ & ->). auto.
  - destruct H as (_ & _ & _ & ->). right; right. cbn. repeat split; auto; lia.
  - destruct H as (-> & Hd & ->). auto.
  - destruct H as (_ & _ & [[_ ->]|[_ ->]]); right; right; cbn; auto.
  - destruct H as (_ & ->). right; right. destruct (settle_c_same (c_cancel k)) as (E1 & E2 & E3 & E4 & _).
    rewrite E1, E2, E3, E4. cbn. auto.
Qed.

(* the same for an arbitrary event *)
Lemma gstep_cursor s g c k k' :
  getc s c = Some k -> getc (fst (gstep s g)) c = Some k' ->
  (g = GEv (EOp (ORollback c)) /\ k' = c_rollback k /\ cdelta k <> 0) \/
  (g = GEv (EOp (OGet c)) /\ k' = c_get k (ccommit k + cdelta k)) \/
  (ccommit k' + cdelta k' = ccommit k + cdelta k /\ chigh k' = chigh k /\ chist k' = chist k /\ ccommit k <= ccommit k').
Proof.
  intros Hk. destruct g as [[o| |]|f]; cbn [gstep estep].
  - pose proof (step_cons s o c k') as H. destruct (step s o) as [s1 r]. cbn [fst] in *. intros Hg.
    destruct (H Hg) as [(k0 & Hk0 & Ho)|(Hn & _)]; [|congruence].
    rewrite Hk in Hk0. inversion Hk0; subst k0.
    destruct (optr_cursor _ _ _ _ _ Ho) as [(-> & H1)|[(-> & H1)|H1]]; auto.
  - cbn [fst]. unfold clean. destruct (bclosed s); intros Hg; right; right;
      (assert (E : k' = k) by (unfold getc in *; cbn in Hg; congruence)); subst; auto.
  - unfold getc in *; cbn [settle cs fst]. rewrite nth_error_map, Hk. cbn [option_map].
    intros Hg. inversion Hg; subst k'. right; right. destruct (settle_c_same k) as (E1 & E2 & E3 & E4 & _).
    rewrite E1, E2, E3, E4. auto.
  - cbn [fst]. destruct (bclosed s); intros Hg; right; right;
      (assert (E : k' = k) by (unfold getc in *; cbn in Hg; congruence)); subst; auto.
Qed.

(* "a value re-read after a rollback": the cursor of a consumer sits at its high-water mark (so its next Get returns a
   new position) unless a Rollback moved it back; only Rollback breaks this, Gets of re-read positions walk the cursor
   forward again one by one (get_new_or_reread), and no other event — Commit, Puts, other consumers, cleaner runs with
   any cleaner, closes — changes the distance. *)
Theorem reread_only_after_rollback s g c k k' :
  getc s c = Some k -> getc (fst (gstep s g)) c = Some k' ->
  ccommit k + cdelta k = chigh k ->
  ccommit k' + cdelta k' = chigh k' \/ g = GEv (EOp (ORollback c)).
Proof.
  intros Hk Hk' E. destruct (gstep_cursor _ _ _ _ _ Hk Hk') as [(-> & _)|[(_ & ->)|(E1 & E2 & _)]]; auto.
  - left. cbn. lia.
  - left. lia.
Qed.

Theorem distance_to_high_water s g c k k' :
  Inv s -> getc s c = Some k -> getc (fst (gstep s g)) c = Some k' ->
  g <> GEv (EOp (ORollback c)) ->
  chigh k' - (ccommit k' + cdelta k') <= chigh k - (ccommit k + cdelta k).
Proof.
  intros [_ HF] Hk Hk' Hne. pose proof (Forall_nth_error _ _ _ _ HF Hk) as (_ & C2 & _).
  destruct (gstep_cursor _ _ _ _ _ Hk Hk') as [(-> & _)|[(_ & ->)|(E1 & E2 & _)]]; [congruence| |lia].
  cbn. lia.
Qed.

(* ---------------------------------------------------------------------------------------------------------- *)
(* a consumer record only ever moves forward: start fixed, committed offset and high-water mark grow, the history is     *)
(* only extended (at its front), and cancelled / closing / done are permanent                                           *)
(* ---------------------------------------------------------------------------------------------------------- *)
Definition cext (k k' : cons) : Prop :=
  cstart k' = cstart k /\ ccommit k <= ccommit k' /\ chigh k <= chigh k' /\ (exists l, chist k' = l ++ chist k) /\
  (ccancel k = true -> ccancel k' = true) /\ (conce k = true -> conce k' = true) /\ (cdone k = true -> cdone k' = true).

Lemma cext_refl k : cext k k.
Proof. unfold cext. repeat split; auto. exists []. reflexivity. Qed.

Lemma cext_trans a b c : cext a b -> cext b c -> cext a c.
Proof.
  intros (A1 & A2 & A3 & [la A4] & A5 & A6 & A7) (B1 & B2 & B3 & [lb B4] & B5 & B6 & B7).
  unfold cext. repeat split; auto; try lia; try congruence.
  exists (lb ++ la). rewrite B4, A4, app_assoc. reflexivity.
Qed.

Lemma cext_ctr s k k' : ctr s k k' -> cext k k'.
Proof.
  intros Ht. destruct Ht; unfold cext;
    cbn [c_get c_commit c_rollback c_close_begin c_cancel c_finish chigh cstart chist conce ccancel cdone cdelta creg ccommit];
    repeat split; auto; try lia; try (exists []; reflexivity).
  eexists [_]. reflexivity.
Qed.

Lemma cext_ctrs s k k' : ctrs s k k' -> cext k k'.
Proof.
  intros Ht. induction Ht as [k|k k1 k2 H1 _ IH]; [apply cext_refl|].
  eapply cext_trans; [eapply cext_ctr; eauto|exact IH].
Qed.

Lemma cext_gstep s g c k :
  Inv s -> getc s c = Some k -> exists k', getc (fst (gstep s g)) c = Some k' /\ cext k k'.
Proof.
  intros HI Hk. destruct (sle_gstep s g HI) as [_ Hc]. destruct (Hc _ _ Hk) as (k' & Hk' & _).
  exists k'. split; auto. destruct (gstep_cons _ _ _ _ Hk') as [(k0 & Hk0 & Ht)|(Hn & _)]; [|congruence].
  rewrite Hk in Hk0. inversion Hk0; subst k0. eapply cext_ctrs; eauto.
Qed.

Theorem cext_grun gs : forall s c k,
  Inv s -> getc s c = Some k -> exists k', getc (fst (grun s gs)) c = Some k' /\ cext k k'.
Proof.
  induction gs as [|g rest IH]; intros s c k HI Hk.
  - exists k. split; auto. apply cext_refl.
  - rewrite grun_cons. cbn [fst]. destruct (cext_gstep s g c k HI Hk) as (k1 & Hk1 & E1).
    destruct (IH _ _ _ (Inv_gstep s g HI) Hk1) as (k2 & Hk2 & E2). exists k2. split; auto. eapply cext_trans; eauto.
Qed.

(* ---------------------------------------------------------------------------------------------------------- *)
(* 4. where a consumer starts                                                                                   *)
(* ---------------------------------------------------------------------------------------------------------- *)
Lemma nth_error_skipn_add {A} (l : list A) : forall n m, nth_error (skipn n l) m = nth_error l (n + m).
Proof.
  induction l as [|h t IH]; intros [|n] m; cbn [skipn Nat.add]; auto.
  - destruct m; reflexivity.
  - cbn [nth_error]. apply IH.
Qed.

(* NewConsumer on an open buffer: the new consumer gets the next id; its start and committed offset are the current
   base (Buffer.offset: the absolute index of the oldest value still retained), nothing read yet; its first Get returns
   the oldest retained value — the head of Slice() — or parks if the buffer is empty. *)
Theorem new_consumer_spec s :
  bclosed s = false ->
  let c := length (cs s) in
  let s' := fst (step s ONew) in
  snd (step s ONew) = RId c /\ getc s' c = Some (c_new (base s)) /\
  log s' = log s /\ base s' = base s /\ (forall c', c' < c -> getc s' c' = getc s c') /\
  snd (step s' (OGet c)) = match nth_error (skipn (base s) (log s)) 0 with Some v => RVal v | None => REmpty end.
Proof.
  intros Hb. cbv zeta.
  assert (Hstep : step s ONew = (set_cs s (cs s ++ [c_new (base s)]) true, RId (length (cs s)))).
  { unfold step. rewrite Hb. reflexivity. }
  rewrite Hstep. cbn [fst snd].
  assert (Hg : getc (set_cs s (cs s ++ [c_new (base s)]) true) (length (cs s)) = Some (c_new (base s))).
  { unfold getc, set_cs; cbn [cs]. rewrite nth_error_app2, Nat.sub_diag by auto. reflexivity. }
  split; [reflexivity|]. split; [exact Hg|]. split; [reflexivity|]. split; [reflexivity|]. split.
  - intros c' Hlt. unfold getc, set_cs; cbn [cs]. apply nth_error_app1; auto.
  - unfold step, get_attempt. rewrite Hg. cbn [c_new ccancel creg ccommit cdelta negb set_cs bclosed base log]. rewrite Hb.
    replace (base s + 0 <? base s) with false by (symmetry; apply Nat.ltb_ge; lia).
    rewrite nth_error_skipn_add. destruct (nth_error (log s) (base s + 0)); reflexivity.
Qed.

(* the first successful Get a consumer ever makes reads the position of its start offset *)
Theorem first_read_is_start s c k s' v :
  Inv s -> getc s c = Some k -> chist k = [] -> step s (OGet c) = (s', RVal v) ->
  ccommit k + cdelta k = cstart k /\ nth_error (log s) (cstart k) = Some v.
Proof.
  intros [_ HF] Hk Hh Hs. pose proof (Forall_nth_error _ _ _ _ HF Hk) as (C1 & C2 & C3 & C4 & _).
  destruct (step_get_val _ _ _ _ Hs) as (k0 & Hk0 & Hn & _). rewrite Hk in Hk0. inversion Hk0; subst k0.
  assert (E : ccommit k + cdelta k = cstart k).
  { destruct (Nat.eq_dec (chigh k) (cstart k)) as [E|NE]; [lia|].
    assert (Hin : In (cstart k) (chist k)) by (apply C4; lia). rewrite Hh in Hin. destruct Hin. }
  split; auto. rewrite <- E. exact Hn.
Qed.

(* Over runs: a consumer created by a NewConsumer that happens after any prefix of any schedule has, in every later state,
   the base at the moment of its creation as its start; everything it ever reads is at or beyond that offset, its first
   read is exactly that offset, and the value there is the oldest value that was retained when it was created (if any
   was; otherwise the first value put afterwards). *)
Theorem consumer_starts_at_base_of_creation gs1 gs2 s :
  Inv2 s ->
  let s1 := fst (grun s gs1) in
  bclosed s1 = false ->
  let c := length (cs s1) in
  let s2 := fst (grun s1 (GEv (EOp ONew) :: gs2)) in
  getc s1 c = None /\
  exists k, getc s2 c = Some k /\ cstart k = base s1 /\
    (chist k = [] \/ exists l', chist k = l' ++ [base s1]) /\
    (forall p, In p (chist k) -> base s1 <= p) /\
    firsts (chist k) = seq (base s1) (chigh k - base s1) /\
    (forall v, nth_error (skipn (base s1) (log s1)) 0 = Some v -> nth_error (log s2) (base s1) = Some v).
Proof.
  intros H2. cbv zeta. intros Hb.
  set (s1 := fst (grun s gs1)) in *.
  assert (H21 : Inv2 s1) by (apply Inv2_grun; auto). pose proof H21 as [HI1 _].
  split; [unfold getc; apply nth_error_None; auto|].
  destruct (new_consumer_spec s1 Hb) as (_ & Hg & _).
  rewrite grun_cons. cbn [fst gstep estep].
  assert (Es : fst (let '(s0, r) := step s1 ONew in (s0, Some r)) = fst (step s1 ONew)) by (destruct (step s1 ONew); reflexivity).
  rewrite Es.
  assert (H2n : Inv2 (fst (step s1 ONew))).
  { pose proof (Inv2_gstep s1 (GEv (EOp ONew)) H21) as H. cbn [gstep estep] in H. rewrite Es in H. exact H. }
  pose proof H2n as [HIn _].
  destruct (cext_grun gs2 _ _ _ HIn Hg) as (k & Hk & (E1 & _)). cbn [c_new cstart] in E1.
  pose proof (Inv2_grun gs2 _ H2n) as H2f.
  destruct (stream_order _ _ _ H2f Hk) as (_ & Hfirsts & Hlast & _).
  pose proof H2f as [[_ HFf] _]. pose proof (Forall_nth_error _ _ _ _ HFf Hk) as (_ & _ & _ & C4 & _).
  exists k. rewrite E1 in *. repeat split; auto.
  - intros p Hin. apply C4 in Hin. lia.
  - intros v Hv. rewrite nth_error_skipn_add, Nat.add_0_r in Hv. apply grun_log_stable; auto.
    destruct (new_consumer_spec s1 Hb) as (_ & _ & -> & _). exact Hv.
Qed.

(* a consumer's start is never ahead of the base: it was the base once, and the base only grows *)
Definition SB (s : st) : Prop := Forall (fun k => cstart k <= base s) (cs s).

Lemma SB_gstep s g : Inv s -> SB s -> SB (fst (gstep s g)).
Proof.
  intros HI HS. unfold SB. apply (Forall_cs_gstep (fun s k => cstart k <= base s)); auto.
  - intros k k' Hle Ht. destruct (cext_ctr _ _ _ Ht) as (-> & _). exact Hle.
  - intros k Hle. destruct (sle_gstep s g HI) as [Hb _]. lia.
Qed.

Theorem start_le_base_g gs s : Inv s -> SB s -> SB (fst (grun s gs)).
Proof. intros HI HS. apply (grun_preserves SB); auto. intros; apply SB_gstep; auto. Qed.

(* ---------------------------------------------------------------------------------------------------------- *)
(* 5. consumers at or beyond a trim point are unaffected by the trim (any cleaner function)                      *)
(* ---------------------------------------------------------------------------------------------------------- *)
Lemma regs_upd_same (l : list cons) : forall c k x,
  nth_error l c = Some k -> creg x = creg k -> ccommit x = ccommit k ->
  map ccommit (filter creg (upd l c x)) = map ccommit (filter creg l).
Proof.
  induction l as [|h t IH]; intros [|c] k x Hn Hr Hc; cbn in Hn; try discriminate.
  - inversion Hn; subst h. cbn [upd filter]. rewrite Hr. destruct (creg k); cbn [map]; congruence.
  - cbn [upd filter]. destruct (creg h); cbn [map]; erewrite IH; eauto.
Qed.

Lemma rel_offsets_upd s c k x d :
  getc s c = Some k -> creg x = creg k -> ccommit x = ccommit k ->
  rel_offsets (set_cs s (upd (cs s) c x) d) = rel_offsets s.
Proof.
  intros Hk Hr Hc. unfold rel_offsets, set_cs; cbn [cs base].
  rewrite <- (map_map ccommit (fun n => (Z.of_nat n - Z.of_nat (base s))%Z)).
  rewrite <- (map_map ccommit (fun n => (Z.of_nat n - Z.of_nat (base s))%Z) (filter creg (cs s))).
  f_equal. eapply regs_upd_same; eauto.
Qed.

Lemma clean_with_upd f s c k x :
  getc s c = Some k -> creg x = creg k -> ccommit x = ccommit k ->
  set_cs (clean_with f s) (upd (cs s) c x) false = clean_with f (set_cs s (upd (cs s) c x) (dirty s)).
Proof.
  intros Hk Hr Hc. unfold clean_with. rewrite (rel_offsets_upd s c k x (dirty s) Hk Hr Hc). reflexivity.
Qed.

(* One cleaner run with ANY function f, and a consumer whose cursor (committed offset + reads since) is at or beyond the
   new base: its Get, Diff, Commit and Rollback return exactly what they would have returned without the trim; and the
   trim commutes with Get, Diff and Rollback (same final state either way); after a Commit the two states agree on log
   and consumers (the base is the trimmed one — a later cleaner run may of course see the new committed offset). *)
Theorem beyond_trim_unaffected f s c k :
  Inv s -> getc s c = Some k ->
  let s' := clean_with f s in
  base s' <= ccommit k + cdelta k ->
  snd (step s' (OGet c)) = snd (step s (OGet c)) /\
  snd (step s' (ODiff c)) = snd (step s (ODiff c)) /\
  snd (step s' (OCommit c)) = snd (step s (OCommit c)) /\
  snd (step s' (ORollback c)) = snd (step s (ORollback c)) /\
  fst (step s' (OGet c)) = clean_with f (fst (step s (OGet c))) /\
  fst (step s' (ODiff c)) = clean_with f (fst (step s (ODiff c))) /\
  fst (step s' (ORollback c)) = clean_with f (fst (step s (ORollback c))) /\
  (cs (fst (step s' (OCommit c))) = cs (fst (step s (OCommit c))) /\
   log (fst (step s' (OCommit c))) = log (fst (step s (OCommit c))) /\
   base (fst (step s' (OCommit c))) = base s').
Proof.
  intros [H1 _] Hk. cbv zeta. intros Hle.
  destruct (clean_with_base f s H1) as ([Ha _] & _).
  set (s' := clean_with f s) in *.
  assert (Eg : getc s' c = Some k) by exact Hk.
  assert (El : log s' = log s) by reflexivity.
  assert (Ec : cs s' = cs s) by reflexivity.
  assert (Eb : bclosed s' = bclosed s) by reflexivity.
  assert (Ed : dirty s' = false) by reflexivity.
  assert (Lt1 : (ccommit k + cdelta k <? base s') = false) by (apply Nat.ltb_ge; lia).
  assert (Lt2 : (ccommit k + cdelta k <? base s) = false) by (apply Nat.ltb_ge; lia).
  assert (HGet : snd (step s' (OGet c)) = snd (step s (OGet c)) /\
                 fst (step s' (OGet c)) = clean_with f (fst (step s (OGet c)))).
  { unfold step, get_attempt. rewrite Eg, Hk, Eb, El, Lt1, Lt2, Ec, Ed.
    destruct (ccancel k); [split; reflexivity|]. destruct (bclosed s); [split; reflexivity|].
    destruct (negb (creg k)); [split; reflexivity|].
    destruct (nth_error (log s) (ccommit k + cdelta k)) as [v|]; cbn [fst snd]; [|split; reflexivity].
    split; [reflexivity|]. apply clean_with_upd with (k := k); auto. }
  assert (HRb : snd (step s' (ORollback c)) = snd (step s (ORollback c)) /\
                fst (step s' (ORollback c)) = clean_with f (fst (step s (ORollback c)))).
  { unfold step. rewrite Eg, Hk, Ec, Ed. destruct (cdelta k =? 0); cbn [fst snd]; [split; reflexivity|].
    split; [reflexivity|]. apply clean_with_upd with (k := k); auto. }
  assert (HDf : snd (step s' (ODiff c)) = snd (step s (ODiff c)) /\
                fst (step s' (ODiff c)) = clean_with f (fst (step s (ODiff c)))).
  { unfold step. rewrite Eg, Hk, El. destruct (creg k); split; reflexivity. }
  assert (HCm : snd (step s' (OCommit c)) = snd (step s (OCommit c)) /\
                cs (fst (step s' (OCommit c))) = cs (fst (step s (OCommit c))) /\
                log (fst (step s' (OCommit c))) = log (fst (step s (OCommit c))) /\
                base (fst (step s' (OCommit c))) = base s').
  { unfold step. rewrite Eg, Hk, Ec. destruct (cdelta k =? 0); [repeat split; reflexivity|].
    destruct (negb (creg k)); repeat split; reflexivity. }
  destruct HGet, HRb, HDf, HCm as (? & ? & ? & ?). repeat split; auto.
Qed.

(* Any sequence of calls on one consumer whose COMMITTED offset is at or beyond the trim point (so that not even a
   Rollback takes it below): identical results with and without the trim, and the two final states still agree. *)
Definition on_c (c : nat) (o : op) : Prop := o = OGet c \/ o = ODiff c \/ o = OCommit c \/ o = ORollback c.

Definition agree (c : nat) (s1 s2 : st) : Prop :=
  log s1 = log s2 /\ cs s1 = cs s2 /\ bclosed s1 = bclosed s2 /\ base s2 <= base s1 /\
  (forall k, getc s1 c = Some k -> base s1 <= ccommit k).

Lemma agree_step c s1 s2 o :
  on_c c o -> agree c s1 s2 ->
  snd (step s1 o) = snd (step s2 o) /\ agree c (fst (step s1 o)) (fst (step s2 o)).
Proof.
  intros Ho (El & Ec & Eb & Hb & Hc). assert (Eg : getc s1 c = getc s2 c) by (unfold getc; rewrite Ec; reflexivity).
  assert (Hsame : agree c s1 s2) by (repeat split; auto).
  destruct (getc s2 c) as [k|] eqn:Hk.
  2:{ destruct Ho as [->|[->|[->| ->]]]; unfold step, get_attempt; rewrite Eg, ?Hk; cbn [fst snd]; split; auto. }
  specialize (Hc k Eg).
  assert (Hupd : forall x d1 d2, ccommit k <= ccommit x ->
            agree c (set_cs s1 (upd (cs s1) c x) d1) (set_cs s2 (upd (cs s2) c x) d2)).
  { intros x d1 d2 Hx. unfold agree, set_cs; cbn [log cs bclosed base]. rewrite Ec. repeat split; auto.
    intros k0 Hk0. unfold getc in *; cbn [cs] in Hk0. rewrite (nth_error_upd_same _ _ _ _ Hk) in Hk0.
    inversion Hk0; subst k0. lia. }
  destruct Ho as [->|[->|[->| ->]]]; unfold step, get_attempt; rewrite Eg, ?Hk, ?Eb, ?El.
  - destruct (ccancel k); [split; auto|]. destruct (bclosed s2); [split; auto|]. destruct (negb (creg k)); [split; auto|].
    replace (ccommit k + cdelta k <? base s1) with false by (symmetry; apply Nat.ltb_ge; lia).
    replace (ccommit k + cdelta k <? base s2) with false by (symmetry; apply Nat.ltb_ge; lia).
    destruct (nth_error (log s2) (ccommit k + cdelta k)); cbn [fst snd]; split; auto; try (apply Hupd; cbn; lia).
  - destruct (creg k); cbn [fst snd]; split; auto.
  - destruct (cdelta k =? 0); [split; auto|]. destruct (negb (creg k)); cbn [fst snd]; split; auto; try (apply Hupd; cbn; lia).
  - destruct (cdelta k =? 0); cbn [fst snd]; split; auto; try (apply Hupd; cbn; lia).
Qed.

Theorem beyond_trim_unaffected_run c ops : forall s1 s2,
  Forall (on_c c) ops -> agree c s1 s2 ->
  snd (erun s1 (map EOp ops)) = snd (erun s2 (map EOp ops)) /\
  agree c (fst (erun s1 (map EOp ops))) (fst (erun s2 (map EOp ops))).
Proof.
  induction ops as [|o rest IH]; intros s1 s2 HF HA; [split; auto|].
  inversion HF as [|? ? Ho HF']; subst. cbn [map]. rewrite !erun_cons. cbn [estep fst snd].
  destruct (agree_step c s1 s2 o Ho HA) as [Er HA'].
  destruct (step s1 o) as [s1' r1]. destruct (step s2 o) as [s2' r2]. cbn [fst snd] in *. subst r2.
  destruct (IH s1' s2' HF' HA') as [Ers HA'']. rewrite Ers. split; auto.
Qed.

Corollary trim_agree f s c k :
  Inv s -> getc s c = Some k -> base (clean_with f s) <= ccommit k -> agree c (clean_with f s) s.
Proof.
  intros [H1 _] Hk Hle. destruct (clean_with_base f s H1) as ([Ha _] & _).
  unfold agree. repeat split; auto. intros k0 Hk0. change (getc s c = Some k0) in Hk0. congruence.
Qed.

Theorem beyond_trim_unaffected_calls f s c k ops :
  Inv s -> getc s c = Some k -> base (clean_with f s) <= ccommit k -> Forall (on_c c) ops ->
  snd (erun (clean_with f s) (map EOp ops)) = snd (erun s (map EOp ops)) /\
  cs (fst (erun (clean_with f s) (map EOp ops))) = cs (fst (erun s (map EOp ops))) /\
  log (fst (erun (clean_with f s) (map EOp ops))) = log (fst (erun s (map EOp ops))).
Proof.
  intros HI Hk Hle HF. destruct (beyond_trim_unaffected_run c ops _ _ HF (trim_agree f s c k HI Hk Hle)) as [E (El & Ec & _)].
  auto.
Qed.

(* ---------------------------------------------------------------------------------------------------------- *)
(* 6. C12: closed consumers, closed buffers                                                                     *)
(* ---------------------------------------------------------------------------------------------------------- *)
(* a consumer whose context is cancelled (its own Close has begun, or the buffer was closed): Get fails at once and
   changes nothing, whether or not the buffer itself is still open *)
Theorem cancelled_consumer_get_fails s c k :
  getc s c = Some k -> ccancel k = true -> step s (OGet c) = (s, RErr).
Proof. intros Hk Hc. unfold step, get_attempt. rewrite Hk, Hc. reflexivity. Qed.

(* a consumer whose Close has completed (Done closed): it is deregistered and has nothing uncommitted, and
   Get -> error, Commit -> error ("nothing to commit"), Rollback -> error ("nothing to rollback"),
   Diff -> (0,false), a second Close -> error; none of them changes anything or blocks *)
Theorem closed_consumer_calls s c k :
  Inv2 s -> getc s c = Some k -> cdone k = true ->
  (ccancel k = true /\ creg k = false /\ cdelta k = 0) /\
  step s (OGet c) = (s, RErr) /\ step s (OCommit c) = (s, RErr) /\ step s (ORollback c) = (s, RErr) /\
  step s (ODiff c) = (s, RDiff 0 false) /\ step s (OCloseC c) = (s, RErr) /\ step s (ODoneC c) = (s, RBool true).
Proof.
  intros [[_ HF] HF2] Hk Hd.
  pose proof (Forall_nth_error _ _ _ _ HF Hk) as (_ & _ & _ & _ & _ & C6).
  pose proof (Forall_nth_error _ _ _ _ HF2 Hk) as (_ & _ & D3 & D4 & _).
  destruct (C6 Hd) as [Hr Ho]. specialize (D3 Ho). specialize (D4 Hd).
  split; [auto|]. unfold step, get_attempt. rewrite Hk, D3, D4, Hr, Ho, Hd. cbn. repeat split; reflexivity.
Qed.

(* and this is permanent: cancelled, closing and done are never reset, under any schedule with any cleaners *)
Theorem consumer_closedness_permanent gs s c k :
  Inv s -> getc s c = Some k ->
  exists k', getc (fst (grun s gs)) c = Some k' /\
    (ccancel k = true -> ccancel k' = true) /\ (conce k = true -> conce k' = true) /\ (cdone k = true -> cdone k' = true).
Proof.
  intros HI Hk. destruct (cext_grun gs s c k HI Hk) as (k' & Hk' & (_ & _ & _ & _ & E1 & E2 & E3)). eauto.
Qed.

Theorem cancelled_consumer_get_fails_forever gs s c k :
  Inv s -> getc s c = Some k -> ccancel k = true ->
  let s' := fst (grun s gs) in step s' (OGet c) = (s', RErr).
Proof.
  intros HI Hk Hc. cbv zeta. destruct (consumer_closedness_permanent gs s c k HI Hk) as (k' & Hk' & E1 & _).
  eapply cancelled_consumer_get_fails; eauto.
Qed.

Theorem closed_consumer_calls_forever gs s c k :
  Inv2 s -> getc s c = Some k -> cdone k = true ->
  let s' := fst (grun s gs) in
  step s' (OGet c) = (s', RErr) /\ step s' (OCommit c) = (s', RErr) /\ step s' (ORollback c) = (s', RErr) /\
  step s' (ODiff c) = (s', RDiff 0 false) /\ step s' (OCloseC c) = (s', RErr) /\ step s' (ODoneC c) = (s', RBool true).
Proof.
  intros H2 Hk Hd. cbv zeta. pose proof H2 as [HI _].
  destruct (consumer_closedness_permanent gs s c k HI Hk) as (k' & Hk' & _ & _ & E3).
  apply (closed_consumer_calls _ c k' (Inv2_grun gs s H2) Hk' (E3 Hd)).
Qed.

(* Buffer.Close cancels every consumer at once, also those whose own Close must wait for uncommitted reads: from then on
   (permanently, by the theorems above) every Get on them fails *)
Theorem buffer_close_cancels_all s :
  bonce s = false -> Forall (fun k => ccancel k = true) (cs (fst (step s OCloseB))).
Proof.
  intros Ho. unfold step. rewrite Ho. cbn [fst settle cs]. apply Forall_forall. intros x Hin.
  apply in_map_iff in Hin. destruct Hin as (x1 & <- & Hin). apply in_map_iff in Hin. destruct Hin as (x0 & <- & _).
  destruct (cext_ctrs s _ _ (settle_c_ctrs s (c_cancel x0))) as (_ & _ & _ & _ & E & _). apply E. reflexivity.
Qed.

(* Commit and Rollback of PENDING reads (cdelta > 0) never fail, whatever else is closed: the consumer is necessarily still
   registered (a consumer's Close does not complete, hence does not deregister, before the pending reads are settled).
   buffer.go commit() and consumer.go Commit/Rollback indeed check neither context.  This is what lets a blocked Close
   finish: if a Close is in progress, the shutdown step after the Commit/Rollback completes it. *)
Theorem pending_commit_rollback_succeed s c k :
  Inv2 s -> getc s c = Some k -> cdelta k <> 0 ->
  (creg k = true /\ cdone k = false) /\
  step s (OCommit c) = (set_cs s (upd (cs s) c (c_commit k)) true, ROk) /\
  step s (ORollback c) = (set_cs s (upd (cs s) c (c_rollback k)) (dirty s), ROk).
Proof.
  intros [_ HF2] Hk Hd. pose proof (Forall_nth_error _ _ _ _ HF2 Hk) as (_ & _ & _ & D4 & D5).
  assert (Hdn : cdone k = false) by (destruct (cdone k); auto; specialize (D4 eq_refl); congruence).
  assert (Hr : creg k = true) by (destruct (creg k); auto; specialize (D5 eq_refl); congruence).
  split; [auto|]. unfold step. rewrite Hk, Hr. apply Nat.eqb_neq in Hd. rewrite Hd. cbn [negb]. auto.
Qed.

Theorem pending_commit_rollback_release_close s c k :
  Inv2 s -> getc s c = Some k -> cdelta k <> 0 -> conce k = true ->
  (exists k', getc (settle (fst (step s (OCommit c)))) c = Some k' /\ creg k' = false /\ cdone k' = true) /\
  (exists k', getc (settle (fst (step s (ORollback c)))) c = Some k' /\ creg k' = false /\ cdone k' = true).
Proof.
  intros H2 Hk Hd Ho. destruct (pending_commit_rollback_succeed s c k H2 Hk Hd) as ([Hr Hdn] & -> & ->). cbn [fst].
  split; eapply blocked_close_released.
  - unfold getc, set_cs; cbn [cs]. eapply nth_error_upd_same; eauto.
  - exact Ho.
  - exact Hdn.
  - reflexivity.
  - unfold getc, set_cs; cbn [cs]. eapply nth_error_upd_same; eauto.
  - exact Ho.
  - exact Hdn.
  - reflexivity.
Qed.

(* ---------------------------------------------------------------------------------------------------------- *)
(* non-vacuity: the hypotheses of the theorems above hold on concrete, non-trivial runs                          *)
(* ---------------------------------------------------------------------------------------------------------- *)
(* a schedule with two different custom cleaner functions, a rollback with re-reads, and a consumer created after a trim *)
Definition ex_gs : list gev :=
  [GEv (EOp (OPut [10; 20; 30; 40]%Z)); GEv (EOp ONew); GEv (EOp (OGet 0)); GEv (EOp (OGet 0)); GEv (EOp (ORollback 0));
   GEv (EOp (OGet 0)); GEv (EOp (OCommit 0)); GShift (fun size _ => (size - 3)%Z); GEv (EOp ONew); GEv (EOp (OGet 1));
   GEv (EOp (OGet 0)); GShift (fun _ _ => 1%Z); GEv (EOp (OGet 0))].

Example grun_example :
  snd (grun (init CDefault) ex_gs)
  = [ROk; RId 0; RVal 10; RVal 20; ROk; RVal 10; ROk; RId 1; RVal 20; RVal 20; RVal 30]%Z /\
  let s := fst (grun (init CDefault) ex_gs) in
  base s = 2 /\
  map (fun k => (cstart k, ccommit k, cdelta k, chigh k, chist k, firsts (chist k))) (cs s)
  = [(0, 1, 2, 3, [2; 1; 0; 1; 0], [0; 1; 2]); (1, 1, 1, 2, [1], [1])].
Proof. vm_compute. auto. Qed.

Example grun_example_invariants :
  let s := fst (grun (init CDefault) ex_gs) in Inv2 s /\ SB s /\ log s = gbatches (init CDefault) ex_gs.
Proof.
  cbv zeta. split; [apply Inv2_grun, Inv2_init|]. split.
  - apply start_le_base_g; [apply Inv_init|constructor].
  - rewrite grun_log by apply Inv_init. reflexivity.
Qed.

(* consumer 1 of that run was created after a trim to base 1, with value 20 the oldest retained *)
Example creation_example :
  let s1 := fst (grun (init CDefault) (firstn 8 ex_gs)) in
  bclosed s1 = false /\ length (cs s1) = 1 /\ base s1 = 1 /\ nth_error (skipn (base s1) (log s1)) 0 = Some 20%Z /\
  ex_gs = firstn 8 ex_gs ++ GEv (EOp ONew) :: skipn 9 ex_gs.
Proof. vm_compute. auto. Qed.

(* a lagging consumer under a custom cleaner *)
Example lagging_g_example :
  let s := fst (grun (init CDefault) [GEv (EOp ONew); GEv (EOp (OPut [1; 2; 3]%Z)); GShift (fun size _ => (size - 1)%Z)]) in
  lagging s 0 /\ base s = 2.
Proof. vm_compute. split; [exists (c_new 0); split; [reflexivity|repeat constructor]|reflexivity]. Qed.

(* a forced trim by 2 with consumer 0 at committed offset 2 (one uncommitted read) and consumer 1 left behind *)
Definition ex_trim : st :=
  fst (erun (init CDefault) [EOp (OPut [10; 20; 30; 40]%Z); EOp ONew; EOp ONew; EOp (OGet 0); EOp (OGet 0); EOp (OCommit 0);
                             EOp (OGet 0)]).

Example trim_example :
  Inv ex_trim /\
  (exists k, getc ex_trim 0 = Some k /\ ccommit k = 2 /\ cdelta k = 1) /\
  base ex_trim = 0 /\ base (clean_with (fun _ _ => 2%Z) ex_trim) = 2 /\
  Forall (on_c 0) [OGet 0; ODiff 0; ORollback 0; OGet 0; OCommit 0; OGet 0; OGet 0] /\
  snd (erun (clean_with (fun _ _ => 2%Z) ex_trim) (map EOp [OGet 0; ODiff 0; ORollback 0; OGet 0; OCommit 0; OGet 0; OGet 0]))
  = [RVal 40; RDiff 0 true; ROk; RVal 30; ROk; RVal 40; REmpty]%Z /\
  snd (step (clean_with (fun _ _ => 2%Z) ex_trim) (OGet 1)) = RErr.
Proof.
  split; [apply Inv_erun, Inv_init|]. split; [eexists; split; [vm_compute; reflexivity|split; reflexivity]|].
  split; [reflexivity|]. split; [reflexivity|]. split; [repeat (apply Forall_cons; [unfold on_c; auto|]); apply Forall_nil|].
  split; vm_compute; reflexivity.
Qed.

(* a buffer closed while consumer 0 has one uncommitted read (its Close and the buffer's are blocked) and consumer 1 is
   already closed: Get fails, the pending Commit succeeds and lets both closes complete, after which Commit/Rollback fail *)
Definition ex_closed : st :=
  fst (erun (init CDefault) [EOp (OPut [10; 20]%Z); EOp ONew; EOp ONew; EOp (OGet 0); EOp (OCloseC 1); EOp OCloseB]).

Example closed_example :
  Inv2 ex_closed /\ bclosed ex_closed = true /\ bdone ex_closed = false /\
  map (fun k => (creg k, cdelta k, ccancel k, conce k, cdone k)) (cs ex_closed)
  = [(true, 1, true, true, false); (false, 0, true, true, true)] /\
  snd (erun ex_closed [EOp (OGet 0); EOp (OCommit 0); ESettle; EOp (ODoneC 0); EOp ODoneB; EOp (OCommit 0);
                       EOp (ORollback 0); EOp (ODiff 0)])
  = [RErr; ROk; RBool true; RBool true; RErr; RErr; RDiff 0 false].
Proof.
  split; [apply Inv2_erun, Inv2_init|]. vm_compute. auto.
Qed.

(* ---------------------------------------------------------------------------------------------------------- *)
(* forms used by the Properties files                                                                           *)
(* ---------------------------------------------------------------------------------------------------------- *)
Theorem Inv2_reachable k0 gs : Inv2 (fst (grun (init k0) gs)).
Proof. apply Inv2_grun, Inv2_init. Qed.

Theorem Inv_reachable_g k0 gs : Inv (fst (grun (init k0) gs)).
Proof. apply Inv_grun, Inv_init. Qed.

Theorem stream_order_reachable k0 gs c k :
  let s := fst (grun (init k0) gs) in
  getc s c = Some k ->
  (forall l1 p l2, chist k = l1 ++ p :: l2 -> cstart k <= p <= hw (cstart k) l2 /\ (In p l2 <-> p < hw (cstart k) l2) /\
                   (~ In p l2 -> p = hw (cstart k) l2)) /\
  firsts (chist k) = seq (cstart k) (chigh k - cstart k) /\
  (chist k = [] \/ exists l', chist k = l' ++ [cstart k]) /\
  chigh k = hw (cstart k) (chist k).
Proof. cbv zeta. apply stream_order, Inv2_reachable. Qed.

Theorem consumer_starts_reachable k0 gs1 gs2 :
  let s1 := fst (grun (init k0) gs1) in
  bclosed s1 = false ->
  let c := length (cs s1) in
  let s2 := fst (grun s1 (GEv (EOp ONew) :: gs2)) in
  getc s1 c = None /\
  exists k, getc s2 c = Some k /\ cstart k = base s1 /\
    (chist k = [] \/ exists l', chist k = l' ++ [base s1]) /\
    (forall p, In p (chist k) -> base s1 <= p) /\
    firsts (chist k) = seq (base s1) (chigh k - base s1) /\
    (forall v, nth_error (skipn (base s1) (log s1)) 0 = Some v -> nth_error (log s2) (base s1) = Some v).
Proof. apply (consumer_starts_at_base_of_creation gs1 gs2 (init k0) (Inv2_init k0)). Qed.

Theorem get_new_or_reread_state s c k :
  Inv s -> getc s c = Some k ->
  let p := ccommit k + cdelta k in
  ccommit (c_get k p) + cdelta (c_get k p) = S p /\
  (p = chigh k -> ~ In p (chist k) /\ chigh (c_get k p) = S p) /\
  (p < chigh k -> In p (chist k) /\ chigh (c_get k p) = chigh k).
Proof. intros [_ HF] Hk. eapply get_new_or_reread. eapply Forall_nth_error; eauto. Qed.

Theorem start_le_base_reachable k0 gs : let s := fst (grun (init k0) gs) in Forall (fun k => cstart k <= base s) (cs s).
Proof. cbv zeta. apply start_le_base_g; [apply Inv_init|constructor]. Qed.

Theorem history_only_extended gs s c k :
  Inv s -> getc s c = Some k ->
  exists k', getc (fst (grun s gs)) c = Some k' /\
    cstart k' = cstart k /\ ccommit k <= ccommit k' /\ chigh k <= chigh k' /\ (exists l, chist k' = l ++ chist k).
Proof.
  intros HI Hk. destruct (cext_grun gs s c k HI Hk) as (k' & Hk' & (E1 & E2 & E3 & E4 & _)). eauto 7.
Qed.

Lemma gstep_def s e f :
  gstep s (GEv e) = estep s e /\ gstep s (GShift f) = (if bclosed s then s else clean_with f s, None).
Proof. split; reflexivity. Qed.

Lemma firsts_def p l :
  firsts [] = [] /\ firsts (p :: l) = if existsb (Nat.eqb p) l then firsts l else firsts l ++ [p].
Proof. split; reflexivity. Qed.

Lemma lagging_def s c : lagging s c <-> exists k, getc s c = Some k /\ ccommit k + cdelta k < base s.
Proof. reflexivity. Qed.

Lemma Inv2_reachable_def k0 gs :
  let s := fst (grun (init k0) gs) in
  Inv2 s /\
  (Inv2 s <->
   Inv s /\
   Forall (fun k =>
     chigh k = fold_right Nat.max (cstart k) (map S (chist k)) /\
     ordered (cstart k) (chist k) /\
     (conce k = true -> ccancel k = true) /\
     (cdone k = true -> cdelta k = 0) /\
     (creg k = false -> cdone k = true)) (cs s)).
Proof. cbv zeta. split; [apply Inv2_reachable|reflexivity]. Qed.

Lemma ordered_def st p l :
  (ordered st [] <-> True) /\
  (ordered st (p :: l) <-> st <= p <= fold_right Nat.max st (map S l) /\ ordered st l).
Proof. split; reflexivity. Qed.
