(* Proofs about Model/Callable.v: the repaired pipeline (fixed = true, no seeded defect) is a total functional
   specification of "a direct call, or a descriptive error without any effect"; the pipeline as coded panics. *)
From Coq Require Import List Arith ZArith Lia Bool ZifyBool.
From BB.Model Require Import Callable.
Import ListNotations.
Arguments Nat.sub : simpl never. Arguments Nat.ltb : simpl never. Arguments Nat.leb : simpl never.
Arguments Nat.eqb : simpl never.

(* ---- list helpers ---- *)
Lemma forallb2_length : forall (A B : Type) (f : A -> B -> bool) l1 l2,
  forallb2 f l1 l2 = true -> length l1 = length l2.
Proof.
  intros A B f l1. induction l1 as [|a l1 IH]; intros [|b l2] H; simpl in *; try discriminate; auto.
  apply andb_true_iff in H. destruct H as [_ H]. f_equal. auto.
Qed.

Lemma map2_length : forall (A B C : Type) (f : A -> B -> C) l1 l2,
  length l1 = length l2 -> length (map2 f l1 l2) = length l1.
Proof.
  intros A B C f l1. induction l1 as [|a l1 IH]; intros [|b l2] H; simpl in *; try discriminate; auto.
Qed.

Section Proofs.
Variable ty : Type.
Variable kind : ty -> kindT.
Variable assignable : ty -> ty -> bool.
Variable elem : ty -> ty.
(* reflect: directlyAssignable(T, V) returns true when T == V *)
Hypothesis Hrefl : forall t, assignable t t = true.

Notation val := (val ty). Notation rval := (rval ty). Notation sig := (sig ty). Notation copt := (copt ty).
Notation arg_ok := (arg_ok ty kind assignable).
Notation target_ok := (target_ok ty kind assignable elem).
Notation args_valid := (args_valid ty kind assignable).
Notation results_valid := (results_valid ty kind assignable elem).
Notation slice_valid := (slice_valid ty kind assignable elem).
Notation opt_valid := (opt_valid ty kind assignable elem).
Notation valid := (valid ty kind assignable elem).
Notation expected_args := (expected_args ty).
Notation expected_stores := (expected_stores ty elem).
Notation callF := (call ty kind assignable elem true MNone).

Lemma rval_eta : forall v : rval, mkR (rty v) (rsrc v) = v.
Proof. intros [t s]. reflexivity. Qed.

(* ---- CallArgs ---- *)
Lemma check_assign_spec : forall ins vs i,
  length vs = length ins ->
  (forallb2 arg_ok ins vs = true /\ check_assign ty kind assignable true MNone i (map vty vs) ins = Ok tt) \/
  (forallb2 arg_ok ins vs = false /\ exists e, check_assign ty kind assignable true MNone i (map vty vs) ins = Err e).
Proof.
  induction ins as [|t ins IH]; intros [|a vs] i Hlen; simpl in *; try discriminate.
  - left. auto.
  - injection Hlen as Hlen. unfold Callable.arg_ok at 1 3.
    destruct (vty a) as [at_|] eqn:Ea.
    + rewrite orb_false_r. destruct (assignable at_ t); simpl.
      * apply IH; auto.
      * right. eauto.
    + destruct (nilable (kind t)); simpl.
      * apply IH; auto.
      * right. eauto.
Qed.

Lemma resolve_args_spec : forall (sg : sig) vs,
  (forallb2 arg_ok (param_types sg (length vs)) vs = true /\
   resolve_args ty kind assignable true MNone sg (map vty vs) = Ok (param_types sg (length vs))) \/
  (forallb2 arg_ok (param_types sg (length vs)) vs = false /\
   exists e, resolve_args ty kind assignable true MNone sg (map vty vs) = Err e).
Proof.
  intros sg vs. unfold resolve_args. rewrite map_length.
  change (expand sg (length vs)) with (param_types sg (length vs)).
  destruct (length vs =? length (param_types sg (length vs))) eqn:El.
  - apply Nat.eqb_eq in El.
    destruct (check_assign_spec (param_types sg (length vs)) vs 0 El) as [[Hv Hc]|[Hv [e Hc]]]; rewrite Hc; simpl.
    + left. auto.
    + right. eauto.
  - right. split; [|eauto].
    destruct (forallb2 arg_ok (param_types sg (length vs)) vs) eqn:Ef; auto.
    apply forallb2_length in Ef. apply Nat.eqb_neq in El. congruence.
Qed.

Lemma call_args_spec : forall (sg : sig) vs,
  (args_valid sg vs = true /\
   call_args ty kind assignable true MNone sg vs = Ok (AThunk ty (param_types sg (length vs)) vs)) \/
  (args_valid sg vs = false /\ exists e, call_args ty kind assignable true MNone sg vs = Err e).
Proof.
  intros sg vs. unfold call_args, Callable.args_valid.
  destruct (resolve_args_spec sg vs) as [[Hv Hc]|[Hv [e Hc]]]; rewrite Hc, Hv; simpl.
  - pose proof (forallb2_length _ _ _ _ _ Hv) as Hl. rewrite Hl.
    destruct (funcof_max <? length vs) eqn:Em.
    + right. split; [|eauto]. apply Nat.ltb_lt in Em. apply Nat.leb_gt. exact Em.
    + left. split; auto. apply Nat.ltb_ge in Em. apply Nat.leb_le. exact Em.
  - right. eauto.
Qed.

Lemma thunk_vals_spec : forall ins vs,
  forallb2 arg_ok ins vs = true ->
  thunk_vals ty assignable true ins vs = Ok (map2 pass ins vs).
Proof.
  induction ins as [|t ins IH]; intros [|a vs] H; simpl in *; try discriminate; auto.
  apply andb_true_iff in H. destruct H as [Ha H].
  unfold set_arg, pass. unfold Callable.arg_ok in Ha.
  destruct (vty a) as [at_|]; simpl.
  - rewrite Ha. simpl. rewrite (IH vs H). reflexivity.
  - rewrite (IH vs H). reflexivity.
Qed.

Lemma map2_pass_rty : forall ins (vs : list val),
  length ins = length vs -> map rty (map2 pass ins vs) = ins.
Proof.
  induction ins as [|t ins IH]; intros [|a vs] H; simpl in *; try discriminate; auto.
  injection H as H. f_equal. auto.
Qed.

(* ---- reflect.Value.Call on values that already have the parameter types ---- *)
Lemma convert_all_id : forall vs : list rval, convert_all ty assignable (map rty vs) vs = Ok vs.
Proof.
  induction vs as [|v vs IH]; simpl; auto.
  rewrite Hrefl, IH. simpl. rewrite rval_eta. reflexivity.
Qed.

Lemma convert_all_retype : forall e (vs : list rval),
  forallb (fun o => assignable o e) (map rty vs) = true ->
  convert_all ty assignable (map (fun _ => e) (map rty vs)) vs = Ok (map (retype e) vs).
Proof.
  intros e. induction vs as [|v vs IH]; simpl; intros H; auto.
  apply andb_true_iff in H. destruct H as [Hv H]. rewrite Hv, (IH H). reflexivity.
Qed.

Lemma fn_params_spec : forall (sg : sig) n,
  length (param_types sg n) = n -> fn_params ty sg n = Ok (param_types sg n).
Proof.
  intros sg n H. unfold fn_params, param_types in *. destruct (s_var sg) as [v|]; auto.
  rewrite app_length, repeat_length in H.
  destruct (n <? length (s_fixed sg)) eqn:El; auto.
  apply Nat.ltb_lt in El. lia.
Qed.

(* ---- CallResults ---- *)
Lemma check_targets_spec : forall outs ts i,
  length ts = length outs ->
  (forallb2 target_ok outs ts = true /\ check_targets ty kind assignable elem true MNone i outs ts = Ok tt) \/
  (forallb2 target_ok outs ts = false /\ exists e, check_targets ty kind assignable elem true MNone i outs ts = Err e).
Proof.
  induction outs as [|o outs IH]; intros [|r ts] i Hlen; simpl in *; try discriminate.
  - left. auto.
  - injection Hlen as Hlen. unfold Callable.target_ok at 1 3.
    destruct (vty r) as [t|]; simpl.
    + destruct (is_ptr (kind t)); simpl; [|right; eauto].
      rewrite andb_true_r.
      destruct (vnil r); simpl; [right; eauto|].
      destruct (assignable o (elem t)); simpl; [apply IH; auto | right; eauto].
    + right. eauto.
Qed.

Lemma call_results_spec : forall (sg : sig) ts,
  (results_valid sg ts = true /\
   call_results ty kind assignable elem true MNone sg ts = Ok (RPtrs ty (s_out sg) ts)) \/
  (results_valid sg ts = false /\ exists e, call_results ty kind assignable elem true MNone sg ts = Err e).
Proof.
  intros sg ts. unfold call_results, Callable.results_valid. simpl. rewrite orb_false_r.
  destruct (length ts =? length (s_out sg)) eqn:El.
  - apply Nat.eqb_eq in El.
    destruct (funcof_max <? length (s_out sg)) eqn:Em.
    + right. split; [|eauto]. apply Nat.ltb_lt in Em.
      assert (Hle : (length (s_out sg) <=? funcof_max) = false) by (apply Nat.leb_gt; exact Em).
      rewrite Hle. apply andb_false_r.
    + apply Nat.ltb_ge in Em.
      assert (Hle : (length (s_out sg) <=? funcof_max) = true) by (apply Nat.leb_le; exact Em).
      rewrite Hle, andb_true_r.
      destruct (check_targets_spec (s_out sg) ts 0 El) as [[Hv Hc]|[Hv [e Hc]]]; rewrite Hc; simpl.
      * left. auto.
      * right. eauto.
  - right. split; [|eauto].
    destruct (forallb2 target_ok (s_out sg) ts) eqn:Ef; auto.
    apply forallb2_length in Ef. apply Nat.eqb_neq in El. congruence.
Qed.

Lemma store_all_spec : forall ts (vs : list rval),
  forallb2 target_ok (map rty vs) ts = true ->
  store_all ty kind assignable elem ts vs = (map2 (fun t v => SSet (vid t) v) ts vs, Ok tt).
Proof.
  induction ts as [|t ts IH]; intros [|v vs] H; simpl in *; try discriminate; auto.
  apply andb_true_iff in H. destruct H as [Ht H].
  unfold set_target. unfold Callable.target_ok in Ht.
  destruct (vty t) as [pt|]; [|discriminate].
  apply andb_true_iff in Ht. destruct Ht as [Ht Ha]. apply andb_true_iff in Ht. destruct Ht as [Hp Hn].
  rewrite Hp. simpl. apply negb_true_iff in Hn. rewrite Hn, Ha. rewrite (IH vs H). reflexivity.
Qed.

(* ---- CallResultsSlice ---- *)
Lemma check_slice_assign_spec : forall outs e i,
  (forallb (fun o => assignable o e) outs = true /\ check_slice_assign ty assignable i outs e = Ok tt) \/
  (forallb (fun o => assignable o e) outs = false /\ exists x, check_slice_assign ty assignable i outs e = Err x).
Proof.
  induction outs as [|o outs IH]; intros e i; simpl.
  - left. auto.
  - destruct (assignable o e); simpl; [apply IH | right; eauto].
Qed.

Definition slice_thunk (sg : sig) (t : val) : option (rthunk ty) :=
  match vty t with
  | Some pt => Some (RSlice ty (map (fun _ => elem (elem pt)) (s_out sg)) t)
  | None => None
  end.

Lemma call_results_slice_spec : forall (sg : sig) t,
  (slice_valid sg t = true /\ exists th, slice_thunk sg t = Some th /\
   call_results_slice ty kind assignable elem true sg t = Ok th) \/
  (slice_valid sg t = false /\ exists e, call_results_slice ty kind assignable elem true sg t = Err e).
Proof.
  intros sg t. unfold call_results_slice, Callable.slice_valid, slice_thunk.
  destruct (vty t) as [pt|]; [|right; eauto].
  destruct (is_ptr (kind pt)); simpl; [|right; eauto].
  destruct (vnil t); simpl; [right; eauto|].
  destruct (is_slice (kind (elem pt))); simpl; [|right; eauto].
  destruct (funcof_max <? length (s_out sg)) eqn:Em.
  - right. split; [|eauto]. apply Nat.ltb_lt in Em.
    assert (Hle : (length (s_out sg) <=? funcof_max) = false) by (apply Nat.leb_gt; exact Em).
    rewrite Hle. reflexivity.
  - apply Nat.ltb_ge in Em.
    assert (Hle : (length (s_out sg) <=? funcof_max) = true) by (apply Nat.leb_le; exact Em).
    rewrite Hle. simpl.
    destruct (check_slice_assign_spec (s_out sg) (elem (elem pt)) 0) as [[Hv Hc]|[Hv [e Hc]]]; rewrite Hc, Hv; simpl.
    + left. split; auto. eexists. split; reflexivity.
    + right. eauto.
Qed.

(* ---- the options, in order ---- *)
Definition args_thunk (sg : sig) (a : list val) : athunk ty := AThunk ty (param_types sg (length a)) a.
Definition res_thunk (sg : sig) (o : copt) : option (rthunk ty) :=
  match o with
  | OArgs _ => None
  | OResults r => Some (RPtrs ty (s_out sg) r)
  | OResultsSlice t => slice_thunk sg t
  end.
Definition cfg_of (sg : sig) (accA : option (list val)) (accR : option copt) : option (athunk ty) * option (rthunk ty) :=
  (option_map (args_thunk sg) accA, match accR with None => None | Some o => res_thunk sg o end).

Lemma apply_opts_spec : forall (sg : sig) opts accA accR,
  (forallb (opt_valid sg) opts = true /\
   apply_opts ty kind assignable elem true MNone sg opts (cfg_of sg accA accR)
   = Ok (cfg_of sg (last_args opts accA) (last_results opts accR))) \/
  (forallb (opt_valid sg) opts = false /\
   exists e, apply_opts ty kind assignable elem true MNone sg opts (cfg_of sg accA accR) = Err e).
Proof.
  intros sg. induction opts as [|o opts IH]; intros accA accR.
  - left. simpl. auto.
  - destruct o as [a|r|t]; simpl.
    + destruct (call_args_spec sg a) as [[Hv Hc]|[Hv [e Hc]]]; rewrite Hc, Hv; simpl.
      * apply (IH (Some a) accR).
      * right. eauto.
    + destruct (call_results_spec sg r) as [[Hv Hc]|[Hv [e Hc]]]; rewrite Hc, Hv; simpl.
      * apply (IH accA (Some (OResults r))).
      * right. eauto.
    + destruct (call_results_slice_spec sg t) as [[Hv [th [Hth Hc]]]|[Hv [e Hc]]]; rewrite Hc, Hv; simpl.
      * pose proof (IH accA (Some (OResultsSlice t))) as H. unfold cfg_of in H at 1 3. simpl in H.
        rewrite Hth in H. exact H.
      * right. eauto.
Qed.

Lemma last_args_valid : forall (sg : sig) opts acc a,
  forallb (opt_valid sg) opts = true ->
  (forall a0, acc = Some a0 -> args_valid sg a0 = true) ->
  last_args opts acc = Some a -> args_valid sg a = true.
Proof.
  intros sg. induction opts as [|o opts IH]; intros acc a Hv Hacc Hl; simpl in *.
  - auto.
  - apply andb_true_iff in Hv. destruct Hv as [Ho Hv].
    destruct o as [a1|r|t]; simpl in *.
    + apply (IH (Some a1) a Hv); auto. intros a0 E. injection E as <-. exact Ho.
    + apply (IH acc a Hv); auto.
    + apply (IH acc a Hv); auto.
Qed.

Lemma last_results_valid : forall (sg : sig) opts acc o,
  forallb (opt_valid sg) opts = true ->
  (forall o0, acc = Some o0 -> opt_valid sg o0 = true /\ (forall a, o0 <> OArgs a)) ->
  last_results opts acc = Some o -> opt_valid sg o = true /\ (forall a, o <> OArgs a).
Proof.
  intros sg. induction opts as [|o1 opts IH]; intros acc o Hv Hacc Hl; simpl in *.
  - auto.
  - apply andb_true_iff in Hv. destruct Hv as [Ho Hv].
    destruct o1 as [a1|r|t]; simpl in *.
    + apply (IH acc o Hv); auto.
    + apply (IH (Some (OResults r)) o Hv); auto. intros o0 E. injection E as <-. split; [exact Ho | discriminate].
    + apply (IH (Some (OResultsSlice t)) o Hv); auto. intros o0 E. injection E as <-. split; [exact Ho | discriminate].
Qed.

(* ---- the result thunks, run on the values the function returned ---- *)
Lemma run_results_spec : forall (sg : sig) o th (outs : list rval),
  opt_valid sg o = true -> (forall a, o <> OArgs a) -> res_thunk sg o = Some th ->
  map rty outs = s_out sg ->
  run_rthunk ty kind assignable elem th outs =
  (match o with
   | OResults targets => map2 (fun t v => SSet (vid t) v) targets outs
   | OResultsSlice t =>
       match outs, vty t with
       | _ :: _, Some pt => [SAppend (vid t) (map (retype (elem (elem pt))) outs)]
       | _, _ => []
       end
   | OArgs _ => []
   end, Ok tt).
Proof.
  intros sg o th outs Hv Hna Hth Hty. destruct o as [a|targets|t]; simpl in *.
  - exfalso. exact (Hna a eq_refl).
  - injection Hth as <-. simpl. rewrite <- Hty, convert_all_id.
    unfold Callable.results_valid in Hv. apply andb_true_iff in Hv. destruct Hv as [Hv _].
    apply store_all_spec. rewrite Hty. exact Hv.
  - unfold slice_thunk in Hth. unfold Callable.slice_valid in Hv.
    destruct (vty t) as [pt|] eqn:Et; [|discriminate]. injection Hth as <-. simpl.
    apply andb_true_iff in Hv. destruct Hv as [Hv Ha]. apply andb_true_iff in Hv. destruct Hv as [Hv _].
    apply andb_true_iff in Hv. destruct Hv as [Hv Hs].
    apply andb_true_iff in Hv. destruct Hv as [Hp Hn]. apply negb_true_iff in Hn.
    rewrite <- Hty in Ha |- *. rewrite (convert_all_retype _ _ Ha).
    destruct outs as [|v outs]; simpl; [reflexivity|].
    rewrite Et, Hp, Hn, Hs. simpl. rewrite Hrefl. simpl.
    assert (Hall : forallb (fun a : rval => assignable (rty a) (elem (elem pt))) (map (retype (elem (elem pt))) outs) = true).
    { clear - Hrefl. induction outs as [|x outs IH]; simpl; auto. rewrite Hrefl. exact IH. }
    rewrite Hall. reflexivity.
Qed.

(* ---- main theorem: the repaired pipeline IS "direct call or error without effect" ---- *)
Theorem call_fixed_spec : forall (sg : sig) (body : list rval -> list rval) (opts : list copt),
  (forall a, map rty (body a) = s_out sg) ->
  if valid sg opts
  then callF sg body opts =
       mkOut ROk [expected_args sg opts] (expected_stores opts (body (expected_args sg opts)))
  else exists e, callF sg body opts = mkOut (RErr e) [] [].
Proof.
  intros sg body opts Hbody. unfold Callable.valid, call.
  pose proof (apply_opts_spec sg opts None None) as Hopts. unfold cfg_of in Hopts at 1 3. simpl in Hopts.
  destruct Hopts as [[Hv Hc]|[Hv [e Hc]]]; rewrite Hc, Hv; simpl; [|eauto].
  unfold Callable.args_present, Callable.expected_args, Callable.expected_stores, callable_call.
  destruct (last_args opts None) as [a|] eqn:Ela; simpl.
  - (* CallArgs given *)
    assert (Hav : args_valid sg a = true).
    { apply (last_args_valid sg opts None a Hv); [intros a0 E; discriminate | assumption]. }
    unfold Callable.args_valid in Hav. apply andb_true_iff in Hav. destruct Hav as [Hf _].
    pose proof (forallb2_length _ _ _ _ _ Hf) as Hlen.
    rewrite (thunk_vals_spec _ _ Hf). simpl.
    rewrite map2_length by exact Hlen. rewrite Hlen at 1.
    rewrite (fn_params_spec sg (length a) Hlen). simpl.
    rewrite <- (map2_pass_rty (param_types sg (length a)) a Hlen) at 1. rewrite convert_all_id.
    destruct (last_results opts None) as [o|] eqn:Elr; simpl; [|reflexivity].
    assert (Hacc : forall o0 : copt, None = Some o0 -> opt_valid sg o0 = true /\ (forall a1, o0 <> OArgs a1))
      by (intros o0 E; discriminate).
    destruct (last_results_valid sg opts None o Hv Hacc Elr) as [Hov Hna].
    destruct (res_thunk sg o) as [th|] eqn:Eth.
    + rewrite (run_results_spec sg o th _ Hov Hna Eth (Hbody _)). simpl.
      destruct o as [a0|r|t]; reflexivity.
    + exfalso. destruct o as [a0|r|t]; simpl in *; try discriminate.
      * exact (Hna a0 eq_refl).
      * unfold slice_thunk in Eth. unfold Callable.slice_valid in Hov. destruct (vty t); discriminate.
  - (* CallArgs omitted *)
    destruct (length (s_fixed sg) =? 0) eqn:E0; simpl; [|eauto].
    apply Nat.eqb_eq in E0. apply length_zero_iff_nil in E0.
    assert (Hp : bind (fn_params ty sg 0) (fun ps => convert_all ty assignable ps []) = Ok []).
    { unfold fn_params. rewrite E0. destruct (s_var sg); reflexivity. }
    rewrite Hp.
    destruct (last_results opts None) as [o|] eqn:Elr; simpl; [|reflexivity].
    assert (Hacc : forall o0 : copt, None = Some o0 -> opt_valid sg o0 = true /\ (forall a1, o0 <> OArgs a1))
      by (intros o0 E; discriminate).
    destruct (last_results_valid sg opts None o Hv Hacc Elr) as [Hov Hna].
    destruct (res_thunk sg o) as [th|] eqn:Eth.
    + rewrite (run_results_spec sg o th _ Hov Hna Eth (Hbody _)). simpl.
      destruct o as [a0|r|t]; reflexivity.
    + exfalso. destruct o as [a0|r|t]; simpl in *; try discriminate.
      * exact (Hna a0 eq_refl).
      * unfold slice_thunk in Eth. unfold Callable.slice_valid in Hov. destruct (vty t); discriminate.
Qed.

(* the property as stated: invoked exactly once with exactly the given arguments and the direct call's results stored,
   or an error with no invocation and no store; never a panic *)
Corollary call_or_error : forall (sg : sig) (body : list rval -> list rval) (opts : list copt),
  (forall a, map rty (body a) = s_out sg) ->
  let o := callF sg body opts in
  (o_res o = ROk /\ o_inv o = [expected_args sg opts] /\
   o_sto o = expected_stores opts (body (expected_args sg opts)) /\ valid sg opts = true) \/
  (exists e, o_res o = RErr e /\ o_inv o = [] /\ o_sto o = [] /\ valid sg opts = false).
Proof.
  intros sg body opts Hbody o. subst o. pose proof (call_fixed_spec sg body opts Hbody) as H.
  destruct (valid sg opts).
  - left. rewrite H. simpl. auto.
  - right. destruct H as [e H]. exists e. rewrite H. simpl. auto.
Qed.

Corollary never_panics : forall (sg : sig) (body : list rval -> list rval) (opts : list copt),
  (forall a, map rty (body a) = s_out sg) ->
  forall p, o_res (callF sg body opts) <> RPanic p.
Proof.
  intros sg body opts Hbody p. destruct (call_or_error sg body opts Hbody) as [[H _]|[e [H _]]]; rewrite H; discriminate.
Qed.

(* what the function receives: one value per given argument, of the (variadic-expanded) parameter types, the i-th one
   carrying the i-th argument's tag, or the zero value where an untyped nil was given (only for nilable kinds) *)
Lemma expected_args_shape : forall (sg : sig) opts a,
  valid sg opts = true -> last_args opts None = Some a ->
  length (expected_args sg opts) = length a /\
  map rty (expected_args sg opts) = param_types sg (length a) /\
  Forall2 (fun v r => match vty v with
                      | None => rsrc r = SZeroOf (rty r) /\ nilable (kind (rty r)) = true
                      | Some t => rsrc r = SVal (vid v) /\ assignable t (rty r) = true
                      end) a (expected_args sg opts).
Proof.
  intros sg opts a Hv Hl. unfold Callable.valid in Hv. apply andb_true_iff in Hv. destruct Hv as [Hv _].
  assert (Hav : args_valid sg a = true).
  { apply (last_args_valid sg opts None a Hv); auto. intros a0 E. discriminate. }
  unfold Callable.args_valid in Hav. apply andb_true_iff in Hav. destruct Hav as [Hf _].
  unfold Callable.expected_args. rewrite Hl.
  pose proof (forallb2_length _ _ _ _ _ Hf) as Hlen.
  split; [rewrite map2_length; auto|]. split; [apply map2_pass_rty; auto|].
  clear Hlen Hl. revert Hf. generalize (param_types sg (length a)). intros ps. revert a.
  induction ps as [|t ps IH]; intros [|v a] Hf; simpl in *; try discriminate; constructor.
  - apply andb_true_iff in Hf. destruct Hf as [Ha _]. unfold Callable.arg_ok in Ha. unfold pass. simpl.
    destruct (vty v); auto.
  - apply andb_true_iff in Hf. destruct Hf as [_ Hf]. apply IH. exact Hf.
Qed.

End Proofs.

(* ---------------------------------------------------------------------------------------------------------------- *)
(* Refutations (closed terms, vm_compute) on the small concrete universe of the model file                          *)
(* ---------------------------------------------------------------------------------------------------------------- *)
Definition exC := @call nat ex_kind ex_assignable ex_elem.
Definition ex_body (outs : list (rval nat)) : list (rval nat) -> list (rval nat) := fun _ => outs.
Definition v_nil : val nat := mkVal None false 1%Z.
Definition v_int (id : Z) : val nat := mkVal (Some 0) false id.
Definition v_pint (id : Z) : val nat := mkVal (Some 2) false id.
Definition v_pint_nil (id : Z) : val nat := mkVal (Some 2) true id.
Definition v_str (id : Z) : val nat := mkVal (Some 1) false id.
Definition is_panic {ty} (o : outcome ty) : bool := match o_res o with RPanic _ => true | _ => false end.

(* func(p) with p of type pointer-to-int, Call(f, CallArgs(nil)): nil dereference in resolveArgs, function never invoked *)
Lemma current_nil_arg_panics :
  exC false MNone (mkSig [2] None []) (ex_body []) [OArgs [v_nil]] = mkOut (RPanic PNilType) [] [].
Proof. vm_compute. reflexivity. Qed.

(* func(int, ...*int), CallArgs(7, nil): the same inside the variadic tail *)
Lemma current_nil_variadic_panics :
  exC false MNone (mkSig [0] (Some 2) []) (ex_body []) [OArgs [v_int 7; v_nil]] = mkOut (RPanic PNilType) [] [].
Proof. vm_compute. reflexivity. Qed.

(* func() int, CallResults(nil): Value.Type on the zero Value *)
Lemma current_nil_target_panics :
  exC false MNone (mkSig [] None [0]) (ex_body [mkR 0 (SVal 9)]) [OResults [v_nil]] = mkOut (RPanic PZeroValueType) [] [].
Proof. vm_compute. reflexivity. Qed.

(* func(int), no CallArgs at all: reflect.Value.Call with too few arguments *)
Lemma current_missing_args_panics :
  exC false MNone (mkSig [0] None []) (ex_body []) [] = mkOut (RPanic PCallTooFew) [] [].
Proof. vm_compute. reflexivity. Qed.

(* func(...int) with 129 arguments: reflect.FuncOf refuses more than 128 *)
Lemma current_too_many_args_panics :
  exC false MNone (mkSig [] (Some 0) []) (ex_body []) [OArgs (repeat (v_int 5) 129)] = mkOut (RPanic PFuncOfTooMany) [] [].
Proof. vm_compute. reflexivity. Qed.

(* a function with 129 results and CallResultsSlice(&[]int) / CallResults(129 valid pointers): reflect.FuncOf refuses
   to build the results thunk *)
Definition sig129 : sig nat := mkSig [] None (repeat 0 129).
Definition body129 : list (rval nat) -> list (rval nat) := fun _ => repeat (mkR 0 (SVal 9)) 129.
Lemma current_too_many_results_panics :
  exC false MNone sig129 body129 [OResultsSlice (mkVal (Some 5) false 3%Z)] = mkOut (RPanic PFuncOfTooMany) [] [] /\
  exC false MNone sig129 body129 [OResults (repeat (v_pint 3) 129)] = mkOut (RPanic PFuncOfTooMany) [] [].
Proof. vm_compute. split; reflexivity. Qed.

Lemma nil_refuted : exists (sg : sig nat) (body : list (rval nat) -> list (rval nat)) (opts : list (copt nat)),
  (forall a, map rty (body a) = s_out sg) /\ exists p, o_res (exC false MNone sg body opts) = RPanic p.
Proof.
  exists (mkSig [2] None []), (ex_body []), [OArgs [v_nil]]. split; [reflexivity|].
  exists PNilType. vm_compute. reflexivity.
Qed.

(* every class on which the code as it is panics, each with a well-typed witness *)
Lemma current_panic_classes :
  is_panic (exC false MNone (mkSig [2] None []) (ex_body []) [OArgs [v_nil]]) = true /\
  is_panic (exC false MNone (mkSig [0] (Some 2) []) (ex_body []) [OArgs [v_int 7; v_nil]]) = true /\
  is_panic (exC false MNone (mkSig [] None [0]) (ex_body [mkR 0 (SVal 9)]) [OResults [v_nil]]) = true /\
  is_panic (exC false MNone (mkSig [0] None []) (ex_body []) []) = true /\
  is_panic (exC false MNone (mkSig [] (Some 0) []) (ex_body []) [OArgs (repeat (v_int 5) 129)]) = true /\
  is_panic (exC false MNone sig129 body129 [OResultsSlice (mkVal (Some 5) false 3%Z)]) = true /\
  is_panic (exC false MNone sig129 body129 [OResults (repeat (v_pint 3) 129)]) = true.
Proof. vm_compute. repeat split. Qed.

(* the same inputs through the repaired pipeline: nil for *int is passed as the zero value, the rest are errors *)
Lemma fixed_on_panic_classes :
  exC true MNone (mkSig [2] None []) (ex_body []) [OArgs [v_nil]] = mkOut ROk [[mkR 2 (SZeroOf 2)]] [] /\
  exC true MNone (mkSig [0] (Some 2) []) (ex_body []) [OArgs [v_int 7; v_nil]]
    = mkOut ROk [[mkR 0 (SVal 7); mkR 2 (SZeroOf 2)]] [] /\
  exC true MNone (mkSig [0] None []) (ex_body []) [OArgs [v_nil]] = mkOut (RErr (EArgsNil 0)) [] [] /\
  exC true MNone (mkSig [] None [0]) (ex_body [mkR 0 (SVal 9)]) [OResults [v_nil]] = mkOut (RErr (EResNilTarget 0)) [] [] /\
  exC true MNone (mkSig [0] None []) (ex_body []) [] = mkOut (RErr ECallArgsMissing) [] [] /\
  exC true MNone (mkSig [] (Some 0) []) (ex_body []) [OArgs (repeat (v_int 5) 129)] = mkOut (RErr EArgsTooMany) [] [] /\
  exC true MNone sig129 body129 [OResultsSlice (mkVal (Some 5) false 3%Z)] = mkOut (RErr ESliceTooMany) [] [] /\
  exC true MNone sig129 body129 [OResults (repeat (v_pint 3) 129)] = mkOut (RErr EResTooMany) [] [] /\
  exC true MNone sig129 body129 [] = mkOut ROk [[]] [].
Proof. vm_compute. repeat split. Qed.

(* seeded defects: the theorem is sensitive to each validation *)
(* resolveArgs without the AssignableTo check: func(int) called with a string panics in the argument thunk *)
Lemma no_assign_check_refuted :
  exC true MNoAssignCheck (mkSig [0] None []) (ex_body []) [OArgs [v_str 4]] = mkOut (RPanic PSetNotAssignable) [] [].
Proof. vm_compute. reflexivity. Qed.

(* CallResults without the IsNil check: the function IS invoked, then storing through the nil pointer panics *)
Lemma no_nilptr_check_refuted :
  exC true MNoNilPtrCheck (mkSig [] None [0]) (ex_body [mkR 0 (SVal 9)]) [OResults [v_pint_nil 3]]
  = mkOut (RPanic PSetZeroValue) [[]] [].
Proof. vm_compute. reflexivity. Qed.

(* CallResults without the length check: too few targets panic at option time (index out of range), and with
   func() (int, int) and targets (&a) ... (&a, &b, &c) a surplus target is silently accepted *)
Lemma no_reslen_check_refuted :
  exC true MNoResLenCheck (mkSig [] None [0; 0]) (ex_body [mkR 0 (SVal 8); mkR 0 (SVal 9)]) [OResults [v_pint 3]]
  = mkOut (RPanic PIndex) [] [] /\
  exC true MNoResLenCheck (mkSig [] None [0]) (ex_body [mkR 0 (SVal 9)]) [OResults [v_pint 3; v_pint 4]]
  = mkOut ROk [[]] [SSet 3%Z (mkR 0 (SVal 9))] /\
  valid nat ex_kind ex_assignable ex_elem (mkSig [] None [0]) [OResults [v_pint 3; v_pint 4]] = false.
Proof. vm_compute. repeat split. Qed.

(* ---- examples: the hypotheses are satisfiable and the interesting cases occur ---- *)
Lemma ex_refl : forall t, ex_assignable t t = true.
Proof. intros t. unfold ex_assignable. rewrite Nat.eqb_refl. reflexivity. Qed.

(* func(int, ...interface{}) (int, string) called with (7, nil, "x") and CallResults(&a, &s): variadic expansion, an
   untyped nil passed as the zero interface{}, both results stored *)
Example ex_invoked :
  exC true MNone (mkSig [0] (Some 3) [0; 1]) (ex_body [mkR 0 (SVal 50); mkR 1 (SVal 51)])
      [OArgs [v_int 7; v_nil; v_str 8]; OResults [v_pint 20; mkVal (Some 6) false 21%Z]]
  = mkOut ROk [[mkR 0 (SVal 7); mkR 3 (SZeroOf 3); mkR 3 (SVal 8)]]
          [SSet 20%Z (mkR 0 (SVal 50)); SSet 21%Z (mkR 1 (SVal 51))].
Proof. vm_compute. reflexivity. Qed.

(* the same function with CallResultsSlice(&[]interface{}): both results appended, converted to the element type *)
Example ex_slice :
  exC true MNone (mkSig [0] (Some 3) [0; 1]) (ex_body [mkR 0 (SVal 50); mkR 1 (SVal 51)])
      [OArgs [v_int 7]; OResultsSlice (mkVal (Some 9) false 30%Z)]
  = mkOut ROk [[mkR 0 (SVal 7)]] [SAppend 30%Z [mkR 3 (SVal 50); mkR 3 (SVal 51)]].
Proof. vm_compute. reflexivity. Qed.

(* a later invalid option makes the whole call an error: nothing invoked, nothing stored *)
Example ex_error_no_effect :
  exC true MNone (mkSig [0] None [0]) (ex_body [mkR 0 (SVal 50)])
      [OResults [v_pint 20]; OArgs [v_str 8]]
  = mkOut (RErr (EArgsAssign 0)) [] [].
Proof. vm_compute. reflexivity. Qed.
