(* Buffered ChanCaster (Model/CasterBuf.v): consequences of the invariant of Proofs/CasterBuf.v in the two safe
   regimes ([regime cbuf dg]: cbuf = 0, or nobody gives up), deadlock freedom, and the condition under which the
   RECIPIENTS of a buffered caster are right as well (no value is taken while a receiver counted by a finished Send
   still waits for its own, except by such a receiver). *)
From Coq Require Import List Arith Lia Bool ZifyBool.
From BB.Model Require Import CasterAbs CasterBuf.
From BB.Proofs Require Import CasterBuf.
Import ListNotations.
Arguments Nat.sub : simpl never. Arguments Nat.ltb : simpl never. Arguments Nat.leb : simpl never.
Arguments Nat.eqb : simpl never. Arguments Nat.mul : simpl never. Arguments Nat.add : simpl never.

Section Run.
Variables (cbuf : nat) (dg : bool) (senders receivers : nat) (sched : list qpick).
Hypothesis HR : regime cbuf dg.
Let s := brun cbuf good dg (binit senders receivers) sched.

Lemma inv_s : CInvB cbuf dg (bsp s) (bv s) (bx s).
Proof. exact (InvB_brun cbuf dg senders receivers sched HR). Qed.

(* none of the code's panics fires *)
Theorem safe_no_panic : bv s bad = 0.
Proof. destruct inv_s as ((Hb & _) & _). exact Hb. Qed.

(* a Send about to unlock and return: its return value plus the copies absorbed by racing Add(-1)s is the count it
   armed with, the word is 0, no Add(-1) is still owed a receive, and every buffered value has a registered
   receiver waiting for it *)
Theorem safe_send_return : bsp s = S8 ->
  bv s ret + bv s absd = bv s reg0 /\ bv s cnt = 0 /\ bv s armed = 0 /\ bv s n5 = 0 /\
  qc (bx s) = 0 /\ qo (bx s) = b0s (bx s) /\ bv s got + qo (bx s) = bv s retsum + bv s ret.
Proof.
  intros E. destruct inv_s as (_ & _ & HP & _). rewrite E in HP. unfold phaseB in HP. lia.
Qed.

(* between Sends: the values received plus the values still buffered are exactly the sum of the Sends' return
   values; every buffered value has a waiting receiver whose registration a finished Send has used up; the count
   is the number of the other registered receivers (plus those served early) *)
Theorem safe_conservation : bsp s = SNone ->
  bv s got + qo (bx s) = bv s retsum /\ qc (bx s) = 0 /\ qo (bx s) + pre (bx s) = b0s (bx s) /\
  bv s cnt = bv s u2 + bv s b0n + pre (bx s) /\ bv s armed = 0.
Proof.
  intros E. destruct inv_s as (_ & _ & HP & _). rewrite E in HP. unfold phaseB in HP. lia.
Qed.

End Run.

(* regime B: nobody gives up - every Send returns exactly the count it armed with *)
Theorem nogiveup_send_return_exact : forall cbuf senders receivers sched,
  let s := brun cbuf good false (binit senders receivers) sched in
  bv s bad = 0 /\ (bsp s = S8 -> bv s ret = bv s reg0 /\ bv s cnt = 0 /\ bv s armed = 0).
Proof.
  intros cbuf senders receivers sched s.
  assert (HR : regime cbuf false) by (right; reflexivity).
  pose proof (inv_s cbuf false senders receivers sched HR) as HI. fold s in HI.
  destruct HI as ((Hb & _) & _ & HP & _ & HB). split; [exact Hb|]. intros E.
  rewrite E in HP. unfold phaseB in HP. destruct (HB eq_refl) as (_ & Ha). lia.
Qed.

(* regime A: cbuf = 0 - nothing is ever buffered, nobody is stale, every value reaches a taker of the Send that
   sent it, and the return value is the number of copies delivered to receivers (the statements of CasterAbs) *)
Theorem unbuffered_clean : forall dg senders receivers sched,
  let s := brun 0 good dg (binit senders receivers) sched in
  bv s bad = 0 /\ bv s stolen = 0 /\ misd (bx s) = 0 /\
  qo (bx s) = 0 /\ qc (bx s) = 0 /\ b0s (bx s) = 0 /\ pre (bx s) = 0 /\
  (bsp s = S8 -> bv s ret = bv s dlv /\ bv s ret + bv s absd = bv s reg0 /\ bv s cnt = 0 /\ bv s armed = 0) /\
  (bsp s = SNone -> bv s got = bv s retsum).
Proof.
  intros dg senders receivers sched s.
  assert (HR : regime 0 dg) by (left; reflexivity).
  pose proof (inv_s 0 dg senders receivers sched HR) as HI. fold s in HI.
  destruct HI as ((Hb & _) & _ & HP & HA & _). destruct (HA eq_refl) as (A1 & A2 & A3 & A4 & A5 & A6 & A7).
  split; [exact Hb|]. split; [exact A6|]. split; [exact A5|]. split; [exact A1|]. split; [exact A2|].
  split; [exact A3|]. split; [exact A4|].
  split; intros E; rewrite E in HP, A7; unfold phaseB in HP; lia.
Qed.

(* ------------------------------------------------------------------------------------------------------- *)
(* Deadlock freedom in both regimes                                                                          *)

Ltac open_q :=
  unfold bstep_st, bstep, via_cstep, cstep, dereg, mk, pos, rlockable, qlen;
  cbn [bsp bv bx fl_absorb fl_rlock good qo qc b0s pre misd].
Ltac brk_g :=
  repeat match goal with
         | |- context [if ?b then _ else _] => let E := fresh "E" in destruct b eqn:E
         end.
Ltac solve_en := open_q; brk_g; first [ discriminate | exfalso; lia ].

Section Enabled.
Variables (cbuf : nat) (dg : bool).
Notation stp := (bstep_st cbuf good dg).

Lemma en_sendstart : forall s, 0 < bv s nsend -> stp s (QBase PSendStart) <> None.
Proof. intros [c f [xo xc xs xp xm]] H. cbn [bv] in H. solve_en. Qed.
Lemma en_sendlock : forall s, bsp s = SNone -> 0 < bv s sq -> stp s (QBase PSendLock) <> None.
Proof. intros [c f [xo xc xs xp xm]] E H. cbn [bv bsp] in *. subst c. solve_en. Qed.
Lemma en_ps : forall s,
  match bsp s with SNone => False | S3 => bv s r = 0 | S6 => bv s k = 0 | _ => True end ->
  stp s (QBase PS) <> None.
Proof. intros [c f [xo xc xs xp xm]] H. cbn [bv bsp] in *. destruct c; try contradiction; solve_en. Qed.
Lemma en_u0 : forall s, 0 < bv s a0 -> bv s w = 0 -> bv s wp = 0 -> stp s (QBase PU0) <> None.
Proof. intros [c f [xo xc xs xp xm]] H Hw Hwp. cbn [bv] in *. solve_en. Qed.
Lemma en_u1 : forall s, 0 < bv s u1 -> stp s (QBase PU1) <> None.
Proof. intros [c f [xo xc xs xp xm]] H. cbn [bv] in *. solve_en. Qed.
Lemma en_u2 : forall s, 0 < bv s u2 -> stp s (QBase PU2) <> None.
Proof. intros [c f [xo xc xs xp xm]] H. cbn [bv] in *. solve_en. Qed.
(* a copy waiting in `x.C <- value` with an empty buffer: any taker can have it directly *)
Lemma en_handoff : forall s, bsp s = S6 -> 0 < bv s k -> qlen (bx s) = 0 ->
  (0 < bv s b0o -> stp s (QBase PRecvO) <> None) /\
  (0 < bv s n5 -> stp s (QBase PAbsorb) <> None) /\
  (0 < b0s (bx s) -> stp s QRecvS <> None).
Proof.
  intros [c f [xo xc xs xp xm]] E Hk Hq. cbn [bv bsp bx] in *. subst c. unfold qlen in Hq. cbn [qo qc] in Hq.
  repeat split; intros H; cbn [b0s] in H; solve_en.
Qed.
(* a buffered value: any taker can have it *)
Lemma en_pop : forall s, 0 < qlen (bx s) ->
  (0 < bv s b0o -> stp s QPopO <> None) /\
  (0 < bv s n5 -> stp s QPopA <> None) /\
  (0 < b0s (bx s) -> stp s QPopS <> None).
Proof.
  intros [c f [xo xc xs xp xm]] Hq. cbn [bv bsp bx] in *. unfold qlen in Hq. cbn [qo qc] in Hq.
  repeat split; intros H; cbn [b0s] in H; solve_en.
Qed.

Lemma bquiescentb_spec : forall s, bquiescentb cbuf good dg s = true ->
  forall p, In p all_qpicks -> bvoluntary p = false -> stp s p = None.
Proof.
  intros s H p Hin Hv. unfold bquiescentb in H. rewrite forallb_forall in H.
  specialize (H p Hin). rewrite Hv in H. cbn [orb] in H.
  destruct (stp s p); [discriminate H | reflexivity].
Qed.

(* Nothing can move except idle receivers that might still choose to give up: then no Send is in progress or
   pending, no Add is in progress or pending, nobody owes a receive, the buffer is empty, and the count is the
   number of idle registered receivers.  In particular a Send blocked in `x.C <- value` (S6, k > 0, buffer full or
   cbuf = 0) always has a taker, and a receiver never waits next to a buffered value. *)
Theorem quiescent_all_returned_B : forall s, regime cbuf dg -> InvB cbuf dg s -> bquiescentb cbuf good dg s = true ->
  bsp s = SNone /\ bv s nsend = 0 /\ bv s sq = 0 /\ bv s a0 = 0 /\ bv s u1 = 0 /\ bv s u2 = 0 /\
  bv s n5 = 0 /\ bv s b0o = 0 /\ qo (bx s) = 0 /\ qc (bx s) = 0 /\
  bv s cnt = bv s b0n + b0s (bx s) /\ bv s armed = 0.
Proof.
  intros s HR HI HQ. pose proof (bquiescentb_spec s HQ) as Q.
  unfold InvB, CInvB, commonB in HI. destruct HI as ((Hbad & Hr) & HL & HP & HA & HB).
  assert (Hns : bv s nsend = 0).
  { destruct (Nat.eq_dec (bv s nsend) 0) as [E|E]; [assumption|]. exfalso.
    apply (en_sendstart s); [lia|]. apply Q; [cbn; tauto | reflexivity]. }
  assert (Hu1 : bv s u1 = 0).
  { destruct (Nat.eq_dec (bv s u1) 0) as [E|E]; [assumption|]. exfalso.
    apply (en_u1 s); [lia|]. apply Q; [cbn; tauto | reflexivity]. }
  assert (Hu2 : bv s u2 = 0).
  { destruct (Nat.eq_dec (bv s u2) 0) as [E|E]; [assumption|]. exfalso.
    apply (en_u2 s); [lia|]. apply Q; [cbn; tauto | reflexivity]. }
  assert (Hsp : bsp s = SNone).
  { destruct (bsp s) eqn:Ec; [reflexivity|exfalso..].
    - apply (en_ps s); [rewrite Ec; lia|apply Q; cbn; tauto].
    - apply (en_ps s); [rewrite Ec; exact I|apply Q; cbn; tauto].
    - unfold phaseB in HP.
      destruct (Nat.eq_dec (bv s k) 0) as [Ek|Ek].
      + apply (en_ps s); [rewrite Ec; exact Ek|apply Q; cbn; tauto].
      + destruct (Nat.eq_dec (qlen (bx s)) 0) as [Eq|Eq].
        * destruct (en_handoff s Ec) as (H1 & H2 & H3); [lia|exact Eq|]. unfold qlen in Eq.
          destruct (Nat.eq_dec (bv s b0o) 0) as [Eb|Eb]; [|apply H1; [lia|apply Q; cbn; tauto]].
          destruct (Nat.eq_dec (bv s n5) 0) as [En|En]; [|apply H2; [lia|apply Q; cbn; tauto]].
          apply H3; [lia|apply Q; cbn; tauto].
        * destruct (en_pop s) as (H1 & H2 & H3); [lia|]. unfold qlen in Eq.
          destruct (Nat.eq_dec (bv s b0o) 0) as [Eb|Eb]; [|apply H1; [lia|apply Q; cbn; tauto]].
          destruct (Nat.eq_dec (bv s n5) 0) as [En|En]; [|apply H2; [lia|apply Q; cbn; tauto]].
          apply H3; [lia|apply Q; cbn; tauto].
    - apply (en_ps s); [rewrite Ec; exact I|apply Q; cbn; tauto].
    - apply (en_ps s); [rewrite Ec; exact I|apply Q; cbn; tauto].
    - apply (en_ps s); [rewrite Ec; exact I|apply Q; cbn; tauto]. }
  assert (Hsq : bv s sq = 0).
  { destruct (Nat.eq_dec (bv s sq) 0) as [E|E]; [assumption|]. exfalso.
    apply (en_sendlock s Hsp); [lia|]. apply Q; [cbn; tauto | reflexivity]. }
  rewrite Hsp in HL, HP. unfold lockB, phaseB in HL, HP.
  assert (Ha0 : bv s a0 = 0).
  { destruct (Nat.eq_dec (bv s a0) 0) as [E|E]; [assumption|]. exfalso.
    apply (en_u0 s); [lia|lia|lia|]. apply Q; [cbn; tauto | reflexivity]. }
  assert (Hq : qo (bx s) = 0).
  { destruct (Nat.eq_dec (qo (bx s)) 0) as [E|E]; [assumption|]. exfalso.
    destruct (en_pop s) as (_ & _ & H3); [unfold qlen; lia|].
    apply H3; [lia|apply Q; cbn; tauto]. }
  repeat split; try assumption; lia.
Qed.

End Enabled.

Theorem brun_quiescent_all_returned : forall cbuf dg senders receivers sched, regime cbuf dg ->
  let s := brun cbuf good dg (binit senders receivers) sched in
  bquiescentb cbuf good dg s = true ->
  bsp s = SNone /\ bv s nsend = 0 /\ bv s sq = 0 /\ bv s a0 = 0 /\ bv s u1 = 0 /\ bv s u2 = 0 /\
  bv s n5 = 0 /\ bv s b0o = 0 /\ qo (bx s) = 0 /\ qc (bx s) = 0 /\
  bv s cnt = bv s b0n + b0s (bx s) /\ bv s armed = 0.
Proof.
  intros cbuf dg senders receivers sched HR s. apply quiescent_all_returned_B; [exact HR|].
  apply InvB_brun; exact HR.
Qed.

(* ------------------------------------------------------------------------------------------------------- *)
(* When are the recipients right with a buffer?                                                              *)

(* [clean]: so far every value went to a taker of the Send that sent it.  While that is so, the stale values in the
   buffer are exactly matched by the stale-owed receivers. *)
Definition clean (f : var -> nat) (x : ext) : Prop := f stolen = 0 /\ misd x = 0.
Definition matched (f : var -> nat) (x : ext) : Prop := clean f x -> qo x = b0s x /\ pre x = 0.

Ltac fin_m :=
  unfold CInvB, commonB, lockB, phaseB, regA, regB, matched, clean, pop, pos in *; red_all; brk_goal; regime_hyps;
  intros; lia.
Ltac close_m Hs c :=
  destruct c; try discriminate Hs; brk_hyp Hs; injection Hs as <- <- <-; fin_m.

Lemma matched_step cbuf dg c f x p c' f' x' : regime cbuf dg -> CInvB cbuf dg c f x -> matched f x ->
  bstep cbuf good dg c f x p = Some (c', f', x') -> matched f' x'.
Proof.
  intros HR HI HM Hs. destruct x as [xo xc xs xp xm].
  destruct p as [b| | | | | | | ]; [destruct b|..]; destruct HR as [-> | ->]; open_b Hs.
  all: try (destruct dg); close_m Hs c.
Qed.

(* the steps in which somebody other than a stale-owed receiver takes a value from a non-empty buffer, or a
   stale-owed receiver is handed a copy directly *)
Definition takesb (p : qpick) : bool :=
  match p with QPopO | QPopN | QPopA | QRecvS => true | _ => false end.

(* Such a step taken while no receiver counted by a finished Send is still waiting keeps the recipients right; so
   does every other step. *)
Lemma clean_step cbuf dg c f x p c' f' x' : regime cbuf dg -> CInvB cbuf dg c f x -> matched f x -> clean f x ->
  b0s x = 0 \/ takesb p = false ->
  bstep cbuf good dg c f x p = Some (c', f', x') -> clean f' x'.
Proof.
  intros HR HI HM HC Hd Hs. destruct x as [xo xc xs xp xm].
  destruct (HM HC) as (M1 & M2). cbn [qo b0s pre] in M1, M2, Hd.
  destruct p as [b| | | | | | | ]; [destruct b|..]; cbn [takesb] in Hd;
    (destruct Hd as [Hd|Hd]; [|try discriminate Hd]); destruct HR as [-> | ->]; open_b Hs.
  all: try (destruct dg); destruct c; try discriminate Hs; brk_hyp Hs; injection Hs as <- <- <-;
    unfold CInvB, commonB, lockB, phaseB, regA, regB, clean, pop, pos in *; red_all; brk_goal; regime_hyps; lia.
Qed.

(* along a schedule: every value-taking pick of the above kind is made in a state without stale-owed receivers *)
Fixpoint disciplined (cbuf : nat) (dg : bool) (s : bst) (sched : list qpick) : Prop :=
  match sched with
  | [] => True
  | p :: rest =>
      (b0s (bx s) = 0 \/ takesb p = false) /\
      disciplined cbuf dg (match bstep_st cbuf good dg s p with Some s' => s' | None => s end) rest
  end.

Lemma disciplined_clean_from : forall cbuf dg sched s, regime cbuf dg -> InvB cbuf dg s ->
  matched (bv s) (bx s) -> clean (bv s) (bx s) -> disciplined cbuf dg s sched ->
  let s' := brun cbuf good dg s sched in clean (bv s') (bx s').
Proof.
  intros cbuf dg. induction sched as [|p rest IH]; intros s HR HI HM HC HD; [exact HC|].
  cbn [brun]. cbn [disciplined] in HD. destruct HD as [Hd HD].
  destruct (bstep_st cbuf good dg s p) as [s1|] eqn:Hs.
  - assert (HI1 : InvB cbuf dg s1) by (eapply InvB_step; eassumption).
    destruct s as [c f x]. unfold bstep_st in Hs. unfold InvB in HI. cbn [bsp bv bx] in *.
    destruct (bstep cbuf good dg c f x p) as [[[c' f'] x']|] eqn:Hb; [|discriminate Hs]. injection Hs as <-.
    apply IH; try assumption; cbn [bv bx].
    + exact (matched_step cbuf dg c f x p c' f' x' HR HI HM Hb).
    + exact (clean_step cbuf dg c f x p c' f' x' HR HI HM HC Hd Hb).
  - apply IH; assumption.
Qed.

(* With any buffer, when nobody gives up: if a value is taken only while no receiver counted by a finished Send is
   still waiting for its own (or by such a receiver, from the buffer), then - besides the counts - the recipients
   are right too. *)
Theorem disciplined_clean : forall cbuf senders receivers sched,
  disciplined cbuf false (binit senders receivers) sched ->
  let s := brun cbuf good false (binit senders receivers) sched in bv s stolen = 0 /\ misd (bx s) = 0.
Proof.
  intros cbuf senders receivers sched HD.
  apply (disciplined_clean_from cbuf false sched (binit senders receivers)); try assumption.
  - right; reflexivity.
  - apply InvB_binit.
  - intros _. cbn. split; reflexivity.
  - split; reflexivity.
Qed.

(* the hypotheses are satisfiable with a real use of the buffer: one receiver, capacity 1; the Send returns with
   its value buffered, then the receiver takes it; a second round likewise *)
Definition sched_round : list qpick :=
  [QBase PU0; QBase PU1; QBase PU2; QBase PSendStart; QBase PSendLock; QBase PS; QBase PS; QPush;
   QBase PS; QBase PS; QBase PS; QBase PS; QPopS].
Example ex_disciplined :
  disciplined 1 false (binit 2 2) (sched_round ++ sched_round) /\
  let s := brun 1 good false (binit 2 2) (sched_round ++ sched_round) in
  bv s got = 2 /\ bv s retsum = 2 /\ bv s nret = 2 /\ bquiescentb 1 good false s = true.
Proof. vm_compute. repeat split; auto. Qed.
(* the misdelivery schedule of Proofs/CasterBufRefute.v is not disciplined: R2's receive happens while R1 waits *)

Print Assumptions safe_no_panic.
Print Assumptions safe_send_return.
Print Assumptions safe_conservation.
Print Assumptions nogiveup_send_return_exact.
Print Assumptions unbuffered_clean.
Print Assumptions brun_quiescent_all_returned.
Print Assumptions disciplined_clean.
