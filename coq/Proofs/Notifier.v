(* Proofs about Model/Notifier.v: the three parallel slices of PublishContext, with their index re-basing, implement
   "a set of pending subscriptions" for every order of deliveries and cancellations (C15). *)
From Coq Require Import List Arith ZArith Lia Bool ZifyBool Sorted Permutation.
From BB Require Import Model.Notifier.
Import ListNotations.
Arguments Nat.sub : simpl never. Arguments Nat.ltb : simpl never. Arguments Nat.leb : simpl never.
Arguments Nat.eqb : simpl never.

(* ============================================================================================================ *)
(* 1. List toolbox                                                                                               *)
(* ============================================================================================================ *)

Lemma remove_nth_length {A} : forall (l : list A) n, n < length l -> length (remove_nth n l) = length l - 1.
Proof.
  induction l as [|a l IH]; intros [|n] Hn; simpl in *; try lia.
  rewrite IH by lia. lia.
Qed.

Lemma nth_remove_nth {A} (d : A) : forall l j k,
  nth k (remove_nth j l) d = nth (if k <? j then k else S k) l d.
Proof.
  induction l as [|a l IH]; intros j k.
  - simpl. destruct (k <? j); destruct k; reflexivity.
  - destruct j as [|j].
    + simpl. destruct (Nat.ltb_spec k 0) as [Hk|Hk]; [lia|]. reflexivity.
    + destruct k as [|k].
      * simpl. destruct (Nat.ltb_spec 0 (S j)) as [Hk|Hk]; [reflexivity|lia].
      * simpl remove_nth. simpl nth at 1. rewrite IH.
        destruct (Nat.ltb_spec k j) as [H1|H1]; destruct (Nat.ltb_spec (S k) (S j)) as [H2|H2]; try lia; reflexivity.
Qed.

Lemma remove_nth_map {A B} (f : A -> B) : forall l i, remove_nth i (map f l) = map f (remove_nth i l).
Proof.
  induction l as [|a l IH]; intros [|i]; simpl; try reflexivity. now rewrite IH.
Qed.

Lemma remove_nth_In {A} : forall (l : list A) i x, In x (remove_nth i l) -> In x l.
Proof.
  induction l as [|a l IH]; intros [|i] x Hx; simpl in *; auto.
  destruct Hx as [Hx|Hx]; eauto.
Qed.

Lemma In_rm : forall x s l, In x (rm s l) <-> In x l /\ x <> s.
Proof.
  intros x s l. unfold rm. rewrite filter_In.
  destruct (Nat.eqb_spec x s) as [E|E]; simpl; intuition congruence.
Qed.

Lemma rm_notin : forall s l, ~ In s l -> rm s l = l.
Proof.
  intros s l. induction l as [|a l IH]; intros Hn; simpl; [reflexivity|].
  destruct (Nat.eqb_spec a s) as [E|E]; simpl.
  - subst. exfalso. apply Hn. now left.
  - f_equal. apply IH. intros Hin. apply Hn. now right.
Qed.

Lemma remove_nth_rm : forall l i x, NoDup l -> nth_error l i = Some x -> remove_nth i l = rm x l.
Proof.
  induction l as [|a l IH]; intros [|i] x Hnd Hn; simpl in *; try discriminate.
  - inversion Hn; subst. inversion Hnd as [|? ? Hni Hnd']; subst.
    rewrite Nat.eqb_refl. simpl. symmetry. now apply rm_notin.
  - inversion Hnd as [|? ? Hni Hnd']; subst.
    destruct (Nat.eqb_spec a x) as [E|E]; simpl.
    + subst. exfalso. apply Hni. eapply nth_error_In; eauto.
    + f_equal. now apply IH.
Qed.

Lemma mem_In : forall x l, mem x l = true <-> In x l.
Proof.
  intros x l. unfold mem. rewrite existsb_exists. split.
  - intros [y [Hy E]]. apply Nat.eqb_eq in E. now subst.
  - intros H. exists x. split; [assumption|apply Nat.eqb_refl].
Qed.

Lemma mem_nIn : forall x l, mem x l = false <-> ~ In x l.
Proof.
  intros x l. rewrite <- mem_In. destruct (mem x l); intuition congruence.
Qed.

Lemma index_of_Some : forall x l i, index_of x l = Some i -> nth_error l i = Some x.
Proof.
  intros x l. induction l as [|a l IH]; intros i H; simpl in *; [discriminate|].
  destruct (Nat.eqb_spec a x) as [E|E].
  - inversion H; subst. reflexivity.
  - destruct (index_of x l) as [k|]; simpl in H; [|discriminate].
    inversion H; subst. simpl. now apply IH.
Qed.

Lemma index_of_None : forall x l, index_of x l = None -> ~ In x l.
Proof.
  intros x l. induction l as [|a l IH]; intros H; simpl in *; [tauto|].
  destruct (Nat.eqb_spec a x) as [E|E]; [discriminate|].
  destruct (index_of x l) as [k|]; simpl in H; [discriminate|].
  intros [Hin|Hin]; [congruence|]. now apply IH.
Qed.

Lemma index_of_NoDup : forall x l i, NoDup l -> nth_error l i = Some x -> index_of x l = Some i.
Proof.
  intros x l. induction l as [|a l IH]; intros [|i] Hnd Hn; simpl in *; try discriminate.
  - inversion Hn; subst. now rewrite Nat.eqb_refl.
  - inversion Hnd as [|? ? Hni Hnd']; subst.
    destruct (Nat.eqb_spec a x) as [E|E].
    + subst. exfalso. apply Hni. eapply nth_error_In; eauto.
    + rewrite (IH i Hnd' Hn). reflexivity.
Qed.

Lemma nth_error_nth_d : forall (l : list nat) i x, nth_error l i = Some x -> nth i l 0 = x /\ i < length l.
Proof.
  intros l i x H. split.
  - now apply nth_error_nth.
  - apply nth_error_Some. congruence.
Qed.

Lemma nth_nth_error : forall (l : list nat) i, i < length l -> nth_error l i = Some (nth i l 0).
Proof. intros l i H. now apply nth_error_nth'. Qed.

Lemma NoDup_map_in {A B} (f : A -> B) : forall l,
  (forall x y, In x l -> In y l -> f x = f y -> x = y) -> NoDup l -> NoDup (map f l).
Proof.
  induction l as [|a l IH]; intros Hinj Hnd; simpl; [constructor|].
  inversion Hnd as [|? ? Hni Hnd']; subst. constructor.
  - intros Hin. apply in_map_iff in Hin. destruct Hin as [y [E Hy]].
    assert (y = a) by (apply Hinj; simpl; auto). subst. contradiction.
  - apply IH; [|assumption]. intros x y Hx Hy. apply Hinj; simpl; auto.
Qed.

(* ---- strictly increasing lists ---- *)

Lemma SSlt_NoDup : forall l, StronglySorted lt l -> NoDup l.
Proof.
  induction 1 as [|a l Hs IH Hf]; constructor; [|assumption].
  intros Hin. rewrite Forall_forall in Hf. specialize (Hf a Hin). lia.
Qed.

Lemma SSlt_snoc_inv : forall l x, StronglySorted lt (l ++ [x]) -> StronglySorted lt l /\ Forall (fun y => y < x) l.
Proof.
  induction l as [|a l IH]; intros x H; simpl in *.
  - split; constructor.
  - inversion H as [|? ? Hs Hf]; subst. apply IH in Hs. destruct Hs as [Hs Hlt].
    apply Forall_app in Hf. destruct Hf as [Hf1 Hf2]. inversion Hf2; subst.
    split; constructor; assumption.
Qed.

Lemma SSlt_snoc : forall l x, StronglySorted lt l -> Forall (fun y => y < x) l -> StronglySorted lt (l ++ [x]).
Proof.
  induction l as [|a l IH]; intros x Hs Hf; simpl.
  - constructor; constructor.
  - inversion Hs as [|? ? Hs' Hfa]; subst. inversion Hf as [|? ? Hax Hf']; subst.
    constructor; [now apply IH|]. apply Forall_app. split; [assumption|]. constructor; [assumption|constructor].
Qed.

Lemma SSlt_remove_nth : forall l i, StronglySorted lt l -> StronglySorted lt (remove_nth i l).
Proof.
  induction l as [|a l IH]; intros [|i] Hs; simpl; try assumption.
  - now inversion Hs.
  - inversion Hs as [|? ? Hs' Hf]; subst. constructor; [now apply IH|].
    rewrite Forall_forall in *. intros x Hx. apply Hf. eapply remove_nth_In; eauto.
Qed.

Lemma SSlt_map_mono : forall (f : nat -> nat) l,
  (forall a b, In a l -> In b l -> a < b -> f a < f b) -> StronglySorted lt l -> StronglySorted lt (map f l).
Proof.
  intros f. induction l as [|a l IH]; intros Hm Hs; simpl; [constructor|].
  inversion Hs as [|? ? Hs' Hf]; subst. constructor.
  - apply IH; [|assumption]. intros x y Hx Hy. apply Hm; simpl; auto.
  - rewrite Forall_forall in *. intros y Hy. apply in_map_iff in Hy. destruct Hy as [z [E Hz]]. subst.
    apply Hm; simpl; auto.
Qed.

(* ============================================================================================================ *)
(* 2. The re-basing loop                                                                                         *)
(* ============================================================================================================ *)

(* What the loop is meant to compute: every ref above the removed position moves down by one. *)
Definition dec (j x : nat) : nat := if j <? x then x - 1 else x.
Definition rebase_spec (j : nat) (r : list nat) : list nat := map (dec j) r.

(* The variant with `<` in the break test decrements a ref EQUAL to j as well. *)
Definition decf (fl : flags) (j x : nat) : nat :=
  if (if rebase_lt fl then j <=? x else j <? x) then x - 1 else x.

Lemma rebase_snoc : forall fl j l x, rebase_before_test fl = false ->
  rebase fl j (l ++ [x]) =
  if (if rebase_lt fl then x <? j else x <=? j) then l ++ [x] else rebase fl j l ++ [x - 1].
Proof.
  intros fl j l x Hb. unfold rebase. rewrite rev_app_distr. simpl. rewrite Hb.
  destruct (if rebase_lt fl then x <? j else x <=? j).
  - simpl. rewrite rev_involutive. reflexivity.
  - simpl. reflexivity.
Qed.

Lemma rebase_gen_ok : forall fl j r, rebase_before_test fl = false ->
  StronglySorted lt r -> rebase fl j r = map (decf fl j) r.
Proof.
  intros fl j r Hb. induction r as [|x l IH] using rev_ind; intros Hs; [reflexivity|].
  apply SSlt_snoc_inv in Hs. destruct Hs as [Hs Hf].
  rewrite rebase_snoc by assumption. rewrite map_app. simpl. unfold decf at 2.
  destruct (rebase_lt fl) eqn:Hlt.
  - destruct (Nat.ltb_spec x j) as [H1|H1]; destruct (Nat.leb_spec j x) as [H2|H2]; try lia.
    + f_equal. rewrite <- (map_id l) at 1. apply map_ext_in. intros y Hy.
      rewrite Forall_forall in Hf. specialize (Hf y Hy). unfold decf. rewrite Hlt.
      destruct (Nat.leb_spec j y); [lia|reflexivity].
    + rewrite IH by assumption. reflexivity.
  - destruct (Nat.leb_spec x j) as [H1|H1]; destruct (Nat.ltb_spec j x) as [H2|H2]; try lia.
    + f_equal. rewrite <- (map_id l) at 1. apply map_ext_in. intros y Hy.
      rewrite Forall_forall in Hf. specialize (Hf y Hy). unfold decf. rewrite Hlt.
      destruct (Nat.ltb_spec j y); [lia|reflexivity].
    + rewrite IH by assumption. reflexivity.
Qed.

(* A.7: the early `break` is correct BECAUSE the refs are strictly increasing. *)
Theorem rebase_ok : forall j r, StronglySorted lt r -> rebase good j r = rebase_spec j r.
Proof. intros j r Hs. now rewrite rebase_gen_ok. Qed.

(* Without sortedness the break is wrong: the hypothesis of rebase_ok is needed. *)
Example rebase_needs_sorted : rebase good 0 [2; 0; 3] <> rebase_spec 0 [2; 0; 3].
Proof. vm_compute. discriminate. Qed.

Lemma rebase_length : forall fl j r, rebase_before_test fl = false -> StronglySorted lt r ->
  length (rebase fl j r) = length r.
Proof. intros. rewrite rebase_gen_ok by assumption. apply map_length. Qed.

(* ============================================================================================================ *)
(* 3. The representation invariant                                                                               *)
(* ============================================================================================================ *)

Definition WF (c : cstate) : Prop :=
  StronglySorted lt (refs c) /\
  Forall (fun r => r < length (succ c)) (refs c) /\
  map (fun r => nth r (succ c) 0) (refs c) = fail c /\
  NoDup (succ c).

Lemma WF_lengths : forall c, WF c -> length (fail c) = length (refs c).
Proof. intros c (_ & _ & Hm & _). rewrite <- Hm. apply map_length. Qed.

Lemma WF_fail_nth : forall c i j, WF c -> nth_error (refs c) i = Some j ->
  nth_error (fail c) i = Some (nth j (succ c) 0) /\ j < length (succ c).
Proof.
  intros c i j (_ & Hf & Hm & _) Hn. split.
  - rewrite <- Hm. now apply (map_nth_error (fun r => nth r (succ c) 0)).
  - rewrite Forall_forall in Hf. apply Hf. eapply nth_error_In; eauto.
Qed.

Lemma WF_fail_incl : forall c, WF c -> incl (fail c) (succ c).
Proof.
  intros c (_ & Hf & Hm & _) x Hx. rewrite <- Hm in Hx. apply in_map_iff in Hx. destruct Hx as [r [E Hr]].
  subst. apply nth_In. rewrite Forall_forall in Hf. now apply Hf.
Qed.

Lemma WF_fail_NoDup : forall c, WF c -> NoDup (fail c).
Proof.
  intros c (Hs & Hf & Hm & Hnd). rewrite <- Hm. apply NoDup_map_in; [|now apply SSlt_NoDup].
  rewrite Forall_forall in Hf. intros x y Hx Hy E.
  apply (proj1 (NoDup_nth (succ c) 0) Hnd); auto.
Qed.

(* A guarded send's sid occurs in fail exactly at the position of its ref. *)
Lemma WF_unguarded_notin_fail : forall c j, WF c -> j < length (succ c) -> ~ In j (refs c) ->
  ~ In (nth j (succ c) 0) (fail c).
Proof.
  intros c j (Hs & Hf & Hm & Hnd) Hj Hni Hin. rewrite <- Hm in Hin. apply in_map_iff in Hin.
  destruct Hin as [r [E Hr]]. rewrite Forall_forall in Hf.
  assert (r = j) by (apply (proj1 (NoDup_nth (succ c) 0) Hnd); auto). subst. contradiction.
Qed.

(* ---- the core step: remove send j, re-base the refs R0 that do not point at j ---- *)

Lemma dec_lt : forall j a b, a <> j -> a < b -> dec j a < dec j b.
Proof.
  intros j a b Ha Hab. unfold dec.
  destruct (Nat.ltb_spec j a); destruct (Nat.ltb_spec j b); lia.
Qed.

Lemma core_WF : forall S R0 j,
  NoDup S -> j < length S -> StronglySorted lt R0 -> Forall (fun r => r < length S) R0 -> ~ In j R0 ->
  WF (mk (remove_nth j S) (map (fun r => nth r S 0) R0) (map (dec j) R0)).
Proof.
  intros S R0 j Hnd Hj Hs Hf Hni. rewrite Forall_forall in Hf. unfold WF. simpl. repeat split.
  - apply SSlt_map_mono; [|assumption]. intros a b Ha Hb Hab. apply dec_lt; [|assumption]. congruence.
  - rewrite Forall_forall. intros y Hy. apply in_map_iff in Hy. destruct Hy as [x [E Hx]]. subst.
    rewrite remove_nth_length by assumption. specialize (Hf x Hx).
    assert (x <> j) by congruence. unfold dec. destruct (Nat.ltb_spec j x); lia.
  - rewrite map_map. apply map_ext_in. intros x Hx. rewrite nth_remove_nth.
    assert (x <> j) by congruence. unfold dec.
    destruct (Nat.ltb_spec j x) as [H1|H1].
    + destruct (Nat.ltb_spec (x - 1) j) as [H2|H2]; [lia|]. f_equal. lia.
    + destruct (Nat.ltb_spec x j) as [H2|H2]; [reflexivity|lia].
  - assert (Hx : exists x, nth_error S j = Some x).
    { destruct (nth_error S j) eqn:E; [eauto|]. apply nth_error_None in E. lia. }
    destruct Hx as [x Hx]. rewrite (remove_nth_rm S j x Hnd Hx). unfold rm. now apply NoDup_filter.
Qed.

(* Flags for which the refinement holds: the code as written, and also the `<` variant of the break test
   (the only ref it treats differently is the one equal to successIndex, which is removed right after). *)
Definition benign (fl : flags) : Prop := rebase_before_test fl = false /\ no_ref_removal fl = false.

Lemma good_benign : benign good.
Proof. split; reflexivity. Qed.

Lemma decf_dec_off : forall fl j x, x <> j -> decf fl j x = dec j x.
Proof.
  intros fl j x Hx. unfold decf, dec. destruct (rebase_lt fl); [|reflexivity].
  destruct (Nat.leb_spec j x); destruct (Nat.ltb_spec j x); lia.
Qed.

(* Unguarded send j delivered. *)
Lemma finish_unguarded : forall fl c j d, benign fl -> WF c -> j < length (succ c) -> ~ In j (refs c) ->
  exists c', finish fl c j None d = ICont c' d /\ WF c' /\
             succ c' = remove_nth j (succ c) /\ fail c' = fail c.
Proof.
  intros fl c j d [Hb Hr] Hwf Hj Hni. unfold finish.
  destruct (Nat.ltb_spec j (length (succ c))) as [_|?]; [|lia].
  eexists. split; [reflexivity|]. simpl. split; [|split; reflexivity].
  destruct Hwf as (Hs & Hf & Hm & Hnd).
  rewrite rebase_gen_ok by assumption.
  rewrite (map_ext_in (decf fl j) (dec j)) by (intros x Hx; apply decf_dec_off; congruence).
  rewrite <- Hm. now apply core_WF.
Qed.

(* Send j removed together with the failure case i that guards it. *)
Lemma finish_guarded : forall fl c i j d, benign fl -> WF c -> nth_error (refs c) i = Some j ->
  exists c', finish fl c j (Some i) d = ICont c' d /\ WF c' /\
             succ c' = remove_nth j (succ c) /\ fail c' = remove_nth i (fail c) /\
             nth_error (fail c) i = nth_error (succ c) j /\ j < length (succ c).
Proof.
  intros fl c i j d [Hb Hr] Hwf Hn.
  destruct (WF_fail_nth c i j Hwf Hn) as [Hfi Hj].
  pose proof (WF_lengths c Hwf) as Hlen.
  destruct Hwf as (Hs & Hf & Hm & Hnd).
  assert (Hi : i < length (refs c)) by (apply nth_error_Some; congruence).
  unfold finish. destruct (Nat.ltb_spec j (length (succ c))) as [_|?]; [|lia].
  rewrite rebase_length by assumption.
  destruct (Nat.ltb_spec i (length (fail c))) as [_|?]; [|lia].
  destruct (Nat.ltb_spec i (length (refs c))) as [_|?]; [|lia].
  simpl. rewrite Hr.
  eexists. split; [reflexivity|]. simpl.
  split; [|split; [reflexivity|split; [reflexivity|split; [|assumption]]]].
  - rewrite rebase_gen_ok by assumption. rewrite remove_nth_map.
    assert (Hni : ~ In j (remove_nth i (refs c))).
    { rewrite (remove_nth_rm (refs c) i j (SSlt_NoDup _ Hs) Hn). rewrite In_rm. tauto. }
    rewrite (map_ext_in (decf fl j) (dec j)) by (intros x Hx; apply decf_dec_off; congruence).
    rewrite <- Hm. rewrite remove_nth_map. apply core_WF; try assumption.
    + now apply SSlt_remove_nth.
    + rewrite Forall_forall in *. intros x Hx. apply Hf. eapply remove_nth_In; eauto.
  - rewrite Hfi. symmetry. now apply nth_nth_error.
Qed.

(* ============================================================================================================ *)
(* 4. One iteration refines "remove one sid from the pending set"                                                *)
(* ============================================================================================================ *)

Definition in_range (pub_ctx : bool) (c : cstate) (f : fired) : Prop :=
  match f with
  | FExit => pub_ctx = true
  | FFail i => i < length (fail c)
  | FSucc i => i < length (succ c)
  end.

(* The sid an in-range choice is about. *)
Definition fired_sid (c : cstate) (f : fired) : option nat :=
  match f with
  | FExit => None
  | FFail i => nth_error (fail c) i
  | FSucc i => nth_error (succ c) i
  end.

Definition delivered_of (c : cstate) (f : fired) : option nat :=
  match f with FSucc i => nth_error (succ c) i | _ => None end.

Theorem lists_track_pending_gen : forall fl c f, benign fl -> WF c ->
  match f with
  | FExit => iter_gen fl c f = IReturn
  | FFail i =>
      i < length (fail c) ->
      exists s c', nth_error (fail c) i = Some s /\
                   iter_gen fl c f = ICont c' None /\ WF c' /\
                   succ c' = rm s (succ c) /\ fail c' = rm s (fail c)
  | FSucc j =>
      j < length (succ c) ->
      exists s c', nth_error (succ c) j = Some s /\
                   iter_gen fl c f = ICont c' (Some s) /\ WF c' /\
                   succ c' = rm s (succ c) /\ fail c' = rm s (fail c)
  end.
Proof.
  intros fl c f Hb Hwf. destruct f as [|i|j]; [reflexivity| |].
  - intros Hi. simpl. destruct (Nat.ltb_spec i (length (fail c))) as [_|?]; [|lia].
    rewrite (WF_lengths c Hwf) in Hi.
    destruct (nth_error (refs c) i) as [j|] eqn:Hn; [|apply nth_error_None in Hn; lia].
    destruct (finish_guarded fl c i j None Hb Hwf Hn) as (c' & He & Hwf' & Hs' & Hf' & Hsame & Hj).
    pose proof (nth_nth_error (succ c) j Hj) as Hsj.
    exists (nth j (succ c) 0), c'. rewrite Hsame. split; [assumption|]. split; [assumption|]. split; [assumption|].
    split.
    + rewrite Hs'. apply remove_nth_rm; [apply Hwf|assumption].
    + rewrite Hf'. apply remove_nth_rm; [now apply WF_fail_NoDup|congruence].
  - intros Hj. simpl. pose proof (nth_nth_error (succ c) j Hj) as Hsj. rewrite Hsj.
    exists (nth j (succ c) 0).
    destruct (index_of j (refs c)) as [i|] eqn:Hidx.
    + apply index_of_Some in Hidx.
      destruct (finish_guarded fl c i j (Some (nth j (succ c) 0)) Hb Hwf Hidx) as (c' & He & Hwf' & Hs' & Hf' & Hsame & _).
      exists c'. split; [reflexivity|]. split; [assumption|]. split; [assumption|]. split.
      * rewrite Hs'. apply remove_nth_rm; [apply Hwf|assumption].
      * rewrite Hf'. apply remove_nth_rm; [now apply WF_fail_NoDup|congruence].
    + apply index_of_None in Hidx.
      destruct (finish_unguarded fl c j (Some (nth j (succ c) 0)) Hb Hwf Hj Hidx) as (c' & He & Hwf' & Hs' & Hf').
      exists c'. split; [reflexivity|]. split; [assumption|]. split; [assumption|]. split.
      * rewrite Hs'. apply remove_nth_rm; [apply Hwf|assumption].
      * rewrite Hf'. symmetry. apply rm_notin. now apply WF_unguarded_notin_fail.
Qed.

(* The statement for the code as written, in one piece: every in-range select outcome keeps the invariant, the
   pending lists lose exactly the fired subscription's sid (for FFail i that is the sid at position i of fail, i.e.
   the subscription whose context was cancelled - not some neighbour), and only FSucc delivers. *)
Theorem lists_track_pending : forall pc c f, WF c -> in_range pc c f ->
  match f with
  | FExit => iter c f = IReturn
  | _ => exists s c', fired_sid c f = Some s /\ iter c f = ICont c' (delivered_of c f) /\ WF c' /\
                      succ c' = rm s (succ c) /\ fail c' = rm s (fail c) /\
                      (forall x, In x (succ c') <-> In x (succ c) /\ x <> s)
  end.
Proof.
  intros pc c f Hwf Hr. pose proof (lists_track_pending_gen good c f good_benign Hwf) as H.
  destruct f as [|i|j]; [exact H| |]; unfold in_range in Hr; destruct (H Hr) as (s & c' & Hs & Hi & Hwf' & Hsu & Hfa);
    exists s, c'; unfold fired_sid, delivered_of, iter; rewrite Hs; (split; [reflexivity|]);
    repeat (split; [assumption|]); intros x; rewrite Hsu; apply In_rm.
Qed.

Corollary iter_WF : forall pc c f c' d, WF c -> in_range pc c f -> iter c f = ICont c' d -> WF c'.
Proof.
  intros pc c f c' d Hwf Hr Hi. pose proof (lists_track_pending pc c f Hwf Hr) as H.
  destruct f; [unfold iter in Hi; simpl in Hi; discriminate| |];
    destruct H as (s & c'' & _ & Hi' & Hwf' & _); rewrite Hi in Hi'; inversion Hi'; subst; assumption.
Qed.

Corollary iter_never_bad : forall pc c f, WF c -> in_range pc c f -> iter c f <> IBad.
Proof.
  intros pc c f Hwf Hr. pose proof (lists_track_pending pc c f Hwf Hr) as H.
  destruct f; [rewrite H; discriminate| |]; destruct H as (s & c' & _ & Hi & _); rewrite Hi; discriminate.
Qed.

(* The single index returned by reflect.Select is decoded as the code does. *)
Lemma decode_encode : forall pc c f, in_range pc c f ->
  decode (if pc then 1 else 0) c (encode (if pc then 1 else 0) c f) = Some f.
Proof.
  intros pc c f Hr. unfold decode, encode. destruct f as [|i|i]; simpl in Hr.
  - subst. reflexivity.
  - destruct (Nat.ltb_spec (((if pc then 1 else 0) + i)) (if pc then 1 else 0)) as [H|H]; [destruct pc; lia|].
    replace ((if pc then 1 else 0) + i - (if pc then 1 else 0)) with i by lia.
    destruct (Nat.ltb_spec i (length (fail c))); [reflexivity|lia].
  - destruct (Nat.ltb_spec ((if pc then 1 else 0) + length (fail c) + i) (if pc then 1 else 0)) as [H|H]; [destruct pc; lia|].
    replace ((if pc then 1 else 0) + length (fail c) + i - (if pc then 1 else 0)) with (length (fail c) + i) by lia.
    destruct (Nat.ltb_spec (length (fail c) + i) (length (fail c))) as [H1|H1]; [lia|].
    replace (length (fail c) + i - length (fail c)) with i by lia.
    destruct (Nat.ltb_spec i (length (succ c))); [reflexivity|lia].
Qed.

(* ============================================================================================================ *)
(* 5. The construction loop establishes the invariant                                                            *)
(* ============================================================================================================ *)

Lemma build_step_succ : forall c s, succ (build_step c s) = succ c ++ (if eligible s then [sid s] else []).
Proof.
  intros c s. unfold build_step, eligible.
  destruct (has_ctx s), (cancelled0 s), (compat s); simpl; rewrite ?app_nil_r; reflexivity.
Qed.

Lemma build_step_fail : forall c s,
  fail (build_step c s) = fail c ++ (if eligible s && has_ctx s then [sid s] else []).
Proof.
  intros c s. unfold build_step, eligible.
  destruct (has_ctx s), (cancelled0 s), (compat s); simpl; rewrite ?app_nil_r; reflexivity.
Qed.

Lemma NoDup_snoc : forall (l : list nat) a, NoDup l -> ~ In a l -> NoDup (l ++ [a]).
Proof.
  intros l a Hnd Hni. apply (Permutation_NoDup (Permutation_cons_append l a)). now constructor.
Qed.

Lemma build_step_WF : forall c s, WF c -> ~ In (sid s) (succ c) -> WF (build_step c s).
Proof.
  intros c s Hwf Hni. pose proof Hwf as (Hs & Hf & Hm & Hnd). rewrite Forall_forall in Hf.
  unfold build_step.
  destruct (has_ctx s && cancelled0 s); [assumption|].
  destruct (negb (compat s)); [assumption|].
  destruct (has_ctx s); unfold WF; simpl; repeat split.
  - apply SSlt_snoc; [assumption|]. now apply Forall_forall.
  - apply Forall_app. split.
    + apply Forall_forall. intros x Hx. rewrite app_length. simpl. specialize (Hf x Hx). lia.
    + constructor; [|constructor]. rewrite app_length. simpl. lia.
  - rewrite map_app. simpl. rewrite nth_middle. f_equal. rewrite <- Hm. apply map_ext_in.
    intros x Hx. apply app_nth1. now apply Hf.
  - now apply NoDup_snoc.
  - assumption.
  - apply Forall_forall. intros x Hx. rewrite app_length. simpl. specialize (Hf x Hx). lia.
  - rewrite <- Hm. apply map_ext_in. intros x Hx. apply app_nth1. now apply Hf.
  - now apply NoDup_snoc.
Qed.

Lemma fold_build_succ : forall subs c,
  succ (fold_left build_step subs c) = succ c ++ map sid (filter eligible subs).
Proof.
  induction subs as [|a subs IH]; intros c; simpl; [now rewrite app_nil_r|].
  rewrite IH, build_step_succ. destruct (eligible a); simpl; [now rewrite <- app_assoc|now rewrite app_nil_r].
Qed.

Lemma fold_build_fail : forall subs c,
  fail (fold_left build_step subs c) = fail c ++ map sid (filter (fun x => eligible x && has_ctx x) subs).
Proof.
  induction subs as [|a subs IH]; intros c; simpl; [now rewrite app_nil_r|].
  rewrite IH, build_step_fail. destruct (eligible a && has_ctx a); simpl; [now rewrite <- app_assoc|now rewrite app_nil_r].
Qed.

Lemma fold_build_WF : forall subs c, WF c -> NoDup (succ c ++ map sid subs) -> WF (fold_left build_step subs c).
Proof.
  induction subs as [|a subs IH]; intros c Hwf Hnd; simpl in *; [assumption|].
  apply IH.
  - apply build_step_WF; [assumption|]. apply NoDup_remove_2 in Hnd. intros Hin. apply Hnd. apply in_or_app. now left.
  - rewrite build_step_succ. destruct (eligible a).
    + rewrite <- app_assoc. exact Hnd.
    + rewrite app_nil_r. now apply NoDup_remove_1 in Hnd.
Qed.

Lemma WF_empty : WF (mk [] [] []).
Proof. unfold WF. simpl. repeat split; constructor. Qed.

Theorem build_WF : forall subs, NoDup (map sid subs) -> WF (build subs).
Proof. intros subs Hnd. apply fold_build_WF; [apply WF_empty|exact Hnd]. Qed.

(* The slices start as the pending set, in map-iteration order. *)
Theorem build_succ : forall subs, succ (build subs) = pending0 subs.
Proof. intros subs. unfold build. now rewrite fold_build_succ. Qed.

Theorem build_fail : forall subs, fail (build subs) = map sid (filter (fun x => eligible x && has_ctx x) subs).
Proof. intros subs. unfold build. now rewrite fold_build_fail. Qed.

Lemma sid_inj : forall subs x y, NoDup (map sid subs) -> In x subs -> In y subs -> sid x = sid y -> x = y.
Proof.
  induction subs as [|a subs IH]; intros x y Hnd Hx Hy E; simpl in *; [contradiction|].
  inversion Hnd as [|? ? Hni Hnd']; subst.
  destruct Hx as [Hx|Hx]; destruct Hy as [Hy|Hy]; subst.
  - reflexivity.
  - exfalso. apply Hni. rewrite E. now apply in_map.
  - exfalso. apply Hni. rewrite <- E. now apply in_map.
  - now apply IH.
Qed.

Lemma In_pending0 : forall subs s, In s (pending0 subs) <-> exists x, In x subs /\ sid x = s /\ eligible x = true.
Proof.
  intros subs s. unfold pending0. rewrite in_map_iff. split.
  - intros [x [E Hx]]. apply filter_In in Hx. exists x. tauto.
  - intros [x [Hx [E He]]]. exists x. rewrite filter_In. tauto.
Qed.

Lemma guarded_true : forall subs s, guarded subs s = true <-> exists x, In x subs /\ sid x = s /\ has_ctx x = true.
Proof.
  intros subs s. unfold guarded. rewrite existsb_exists. split.
  - intros [x [Hx H]]. apply andb_true_iff in H. destruct H as [H1 H2]. apply Nat.eqb_eq in H1. eauto.
  - intros [x [Hx [E H]]]. exists x. split; [assumption|]. subst. now rewrite Nat.eqb_refl.
Qed.

Lemma build_fail_tracks : forall subs s, NoDup (map sid subs) ->
  (In s (fail (build subs)) <-> In s (succ (build subs)) /\ guarded subs s = true).
Proof.
  intros subs s Hnd. rewrite build_fail, build_succ, In_pending0, guarded_true, in_map_iff. split.
  - intros [x [E Hx]]. apply filter_In in Hx. destruct Hx as [Hx H]. apply andb_true_iff in H.
    destruct H as [H1 H2]. split; exists x; tauto.
  - intros [[x [Hx [E He]]] [y [Hy [E' Hc]]]].
    assert (x = y) by (apply (sid_inj subs); congruence). subst y.
    exists x. split; [assumption|]. apply filter_In. split; [assumption|]. now rewrite He, Hc.
Qed.

(* ============================================================================================================ *)
(* 6. The whole publish loop refines the specification                                                           *)
(* ============================================================================================================ *)

Lemma nil_or_not : forall P : list nat, P = [] \/ P <> [].
Proof. intros [|p P]; [left|right]; congruence. Qed.

Lemma run_loop_done : forall fl pc c evs, succ c = [] -> run_loop fl pc c evs = ([], true).
Proof. intros fl pc c evs H. destruct evs; simpl; rewrite H; reflexivity. Qed.

Lemma run_loop_blocked : forall fl pc c, succ c <> [] -> run_loop fl pc c [] = ([], false).
Proof. intros fl pc c H. simpl. destruct (succ c); [congruence|reflexivity]. Qed.

Lemma run_loop_cons : forall fl pc c e evs, succ c <> [] ->
  run_loop fl pc c (e :: evs) =
  match fire_of pc c e with
  | None => run_loop fl pc c evs
  | Some f =>
      match iter_gen fl c f with
      | IReturn => ([], true)
      | IBad => ([], false)
      | ICont c' d => let r := run_loop fl pc c' evs in (ocons d (fst r), snd r)
      end
  end.
Proof. intros fl pc c e evs H. cbn [run_loop]. destruct (succ c); [congruence|reflexivity]. Qed.

Lemma spec_loop_done : forall pc g evs, spec_loop pc g [] evs = ([], true).
Proof. intros pc g evs. destruct evs; reflexivity. Qed.

Lemma spec_loop_blocked : forall pc g P, P <> [] -> spec_loop pc g P [] = ([], false).
Proof. intros pc g P H. destruct P; [congruence|reflexivity]. Qed.

Lemma spec_loop_cons : forall pc g P e evs, P <> [] ->
  spec_loop pc g P (e :: evs) =
  match e with
  | EvReady s =>
      if mem s P then let r := spec_loop pc g (rm s P) evs in (s :: fst r, snd r) else spec_loop pc g P evs
  | EvCancel s => if mem s P && g s then spec_loop pc g (rm s P) evs else spec_loop pc g P evs
  | EvExit => if pc then ([], true) else spec_loop pc g P evs
  end.
Proof. intros pc g P e evs H. destruct P; [congruence|reflexivity]. Qed.

Lemma run_loop_refines : forall fl pc g evs c, benign fl -> WF c ->
  (forall s, In s (fail c) <-> In s (succ c) /\ g s = true) ->
  run_loop fl pc c evs = spec_loop pc g (succ c) evs.
Proof.
  intros fl pc g evs. induction evs as [|e evs IH]; intros c Hb Hwf Hrel.
  - destruct (nil_or_not (succ c)) as [Hn|Hn].
    + rewrite run_loop_done by assumption. rewrite Hn. reflexivity.
    + rewrite run_loop_blocked, spec_loop_blocked by assumption. reflexivity.
  - destruct (nil_or_not (succ c)) as [Hn|Hn].
    { rewrite run_loop_done by assumption. rewrite Hn. now rewrite spec_loop_done. }
    rewrite run_loop_cons, spec_loop_cons by assumption.
    destruct e as [s|s|]; simpl fire_of.
    + (* EvReady s *)
      destruct (index_of s (succ c)) as [j|] eqn:Hidx; simpl.
      * apply index_of_Some in Hidx. pose proof (proj2 (nth_error_nth_d _ _ _ Hidx)) as Hj.
        destruct (lists_track_pending_gen fl c (FSucc j) Hb Hwf Hj) as (s' & c' & Hs' & Hi & Hwf' & Hsu & Hfa).
        assert (s' = s) by congruence. subst s'.
        simpl in Hi. rewrite Hi.
        rewrite (proj2 (mem_In s (succ c))) by (eapply nth_error_In; eauto).
        rewrite (IH c' Hb Hwf'), Hsu; [reflexivity|].
        intros x. rewrite Hfa, Hsu, !In_rm, Hrel. tauto.
      * apply index_of_None in Hidx. rewrite (proj2 (mem_nIn s (succ c)) Hidx). now apply IH.
    + (* EvCancel s *)
      destruct (index_of s (fail c)) as [i|] eqn:Hidx; simpl.
      * apply index_of_Some in Hidx. pose proof (proj2 (nth_error_nth_d _ _ _ Hidx)) as Hi'.
        destruct (lists_track_pending_gen fl c (FFail i) Hb Hwf Hi') as (s' & c' & Hs' & Hi & Hwf' & Hsu & Hfa).
        assert (s' = s) by congruence. subst s'.
        simpl in Hi. rewrite Hi.
        assert (Hin : In s (fail c)) by (eapply nth_error_In; eauto).
        apply Hrel in Hin. destruct Hin as [Hin Hg].
        rewrite (proj2 (mem_In s (succ c)) Hin), Hg. simpl.
        rewrite (IH c' Hb Hwf'), Hsu; [now destruct (spec_loop pc g (rm s (succ c)) evs)|].
        intros x. rewrite Hfa, Hsu, !In_rm, Hrel. tauto.
      * apply index_of_None in Hidx.
        assert (Hc : mem s (succ c) && g s = false).
        { destruct (mem s (succ c)) eqn:Hm; [|reflexivity]. destruct (g s) eqn:Hg; [|reflexivity].
          exfalso. apply Hidx. apply Hrel. split; [now apply mem_In|assumption]. }
        rewrite Hc. now apply IH.
    + (* EvExit *)
      destruct pc; simpl; [reflexivity|]. now apply IH.
Qed.

(* Holds for the code as written and for the `<` variant of the break test. *)
Theorem run_refines_spec_gen : forall fl pc subs evs, benign fl -> NoDup (map sid subs) ->
  run_publish_gen fl pc subs evs = spec_publish pc subs evs.
Proof.
  intros fl pc subs evs Hb Hnd. unfold run_publish_gen, spec_publish.
  rewrite (run_loop_refines fl pc (guarded subs) evs (build subs) Hb (build_WF subs Hnd)).
  - now rewrite build_succ.
  - intros s. now apply build_fail_tracks.
Qed.

Theorem run_refines_spec : forall pc subs evs, NoDup (map sid subs) ->
  run_publish pc subs evs = spec_publish pc subs evs.
Proof. intros pc subs evs Hnd. apply run_refines_spec_gen; [apply good_benign|assumption]. Qed.

(* The specification really treats [pending] as a set: any permutation of it (any map-iteration order) gives the
   same deliveries and the same return. *)
Lemma mem_perm : forall x P Q, Permutation P Q -> mem x P = mem x Q.
Proof.
  intros x P Q H. destruct (mem x Q) eqn:E.
  - apply mem_In. apply mem_In in E. eapply Permutation_in; [apply Permutation_sym|]; eauto.
  - apply mem_nIn. apply mem_nIn in E. intros Hin. apply E. eapply Permutation_in; eauto.
Qed.

Lemma rm_perm : forall x P Q, Permutation P Q -> Permutation (rm x P) (rm x Q).
Proof.
  intros x P Q H. induction H as [|a P Q H IH|a b P|P Q R H1 IH1 H2 IH2]; simpl.
  - constructor.
  - destruct (negb (a =? x)); [now constructor|assumption].
  - destruct (negb (a =? x)), (negb (b =? x)); try apply Permutation_refl. apply perm_swap.
  - eapply Permutation_trans; eauto.
Qed.

Theorem spec_order_irrelevant : forall pc g evs P Q, Permutation P Q -> spec_loop pc g P evs = spec_loop pc g Q evs.
Proof.
  intros pc g evs. induction evs as [|e evs IH]; intros P Q H.
  - destruct (nil_or_not P) as [Hp|Hp].
    + subst. apply Permutation_nil in H. subst. reflexivity.
    + assert (Hq : Q <> []) by (intros E; subst; apply Permutation_sym, Permutation_nil in H; congruence).
      now rewrite !spec_loop_blocked.
  - destruct (nil_or_not P) as [Hp|Hp].
    + subst. apply Permutation_nil in H. subst. reflexivity.
    + assert (Hq : Q <> []) by (intros E; subst; apply Permutation_sym, Permutation_nil in H; congruence).
      rewrite !spec_loop_cons by assumption.
      destruct e as [s|s|]; rewrite ?(mem_perm s P Q H).
      * destruct (mem s Q); [|now apply IH]. now rewrite (IH (rm s P) (rm s Q) (rm_perm s P Q H)).
      * destruct (mem s Q && g s); apply IH; [now apply rm_perm|assumption].
      * destruct pc; [reflexivity|now apply IH].
Qed.

Corollary publish_iteration_order_irrelevant : forall pc subs subs' evs,
  NoDup (map sid subs) -> Permutation subs subs' -> run_publish pc subs evs = run_publish pc subs' evs.
Proof.
  intros pc subs subs' evs Hnd Hp.
  assert (Hnd' : NoDup (map sid subs')) by (eapply Permutation_NoDup; [apply Permutation_map; eassumption|assumption]).
  rewrite !run_refines_spec by assumption. unfold spec_publish.
  assert (Hg : forall s, guarded subs s = guarded subs' s).
  { intros s. destruct (guarded subs' s) eqn:E.
    - apply guarded_true. apply guarded_true in E. destruct E as [x [Hx H]]. exists x. split; [|assumption].
      eapply Permutation_in; [apply Permutation_sym|]; eauto.
    - destruct (guarded subs s) eqn:E'; [|reflexivity]. apply guarded_true in E'. destruct E' as [x [Hx H]].
      assert (guarded subs' s = true) by (apply guarded_true; exists x; split; [eapply Permutation_in; eauto|assumption]).
      congruence. }
  assert (Hpp : Permutation (pending0 subs) (pending0 subs')).
  { unfold pending0. apply Permutation_map. clear -Hp. induction Hp; simpl.
    - constructor.
    - destruct (eligible x); [now constructor|assumption].
    - destruct (eligible x), (eligible y); try apply Permutation_refl. apply perm_swap.
    - eapply Permutation_trans; eauto. }
  rewrite (spec_order_irrelevant pc (guarded subs) evs _ _ Hpp).
  generalize (pending0 subs'). clear -Hg. induction evs as [|e evs IH]; intros P.
  - destruct P; reflexivity.
  - destruct (nil_or_not P) as [Hp|Hp]; [subst; reflexivity|].
    rewrite !spec_loop_cons by assumption. destruct e as [s|s|]; rewrite ?Hg, ?IH; reflexivity.
Qed.

(* ============================================================================================================ *)
(* 7. Consequences, proved on the specification and transported                                                  *)
(* ============================================================================================================ *)

Lemma spec_delivered_in : forall pc g evs P x, In x (fst (spec_loop pc g P evs)) -> In x P.
Proof.
  intros pc g evs. induction evs as [|e evs IH]; intros P x Hx.
  - destruct P; simpl in Hx; contradiction.
  - destruct (nil_or_not P) as [Hp|Hp]; [subst; simpl in Hx; contradiction|].
    rewrite spec_loop_cons in Hx by assumption. destruct e as [s|s|].
    + destruct (mem s P) eqn:Hm; [|now apply IH]. simpl in Hx. destruct Hx as [Hx|Hx].
      * subst. now apply mem_In.
      * apply IH in Hx. apply In_rm in Hx. tauto.
    + destruct (mem s P && g s); [|now apply IH]. apply IH in Hx. apply In_rm in Hx. tauto.
    + destruct pc; [simpl in Hx; contradiction|now apply IH].
Qed.

Lemma NoDup_rm : forall s P, NoDup P -> NoDup (rm s P).
Proof. intros s P H. unfold rm. now apply NoDup_filter. Qed.

Lemma spec_exactly_once : forall pc g evs P, NoDup P -> NoDup (fst (spec_loop pc g P evs)).
Proof.
  intros pc g evs. induction evs as [|e evs IH]; intros P Hnd.
  - destruct P; simpl; constructor.
  - destruct (nil_or_not P) as [Hp|Hp]; [subst; simpl; constructor|].
    rewrite spec_loop_cons by assumption. destruct e as [s|s|].
    + destruct (mem s P); [|now apply IH]. simpl. constructor.
      * intros Hin. apply spec_delivered_in in Hin. apply In_rm in Hin. tauto.
      * apply IH. now apply NoDup_rm.
    + destruct (mem s P && g s); apply IH; [now apply NoDup_rm|assumption].
    + destruct pc; [simpl; constructor|now apply IH].
Qed.

(* Returned without the publish context firing: everyone pending was served or cancelled. *)
Lemma spec_returns_only_when_served : forall pc g evs P,
  snd (spec_loop pc g P evs) = true -> pc = false \/ ~ In EvExit evs ->
  forall x, In x P -> In x (fst (spec_loop pc g P evs)) \/ (In (EvCancel x) evs /\ g x = true).
Proof.
  intros pc g evs. induction evs as [|e evs IH]; intros P Hret Hex x Hx.
  - destruct P; [contradiction|simpl in Hret; discriminate].
  - destruct (nil_or_not P) as [Hp|Hp]; [subst; contradiction|].
    rewrite spec_loop_cons in * by assumption.
    assert (Hex' : pc = false \/ ~ In EvExit evs) by (destruct Hex as [?|Hex]; [now left|right; intros H; apply Hex; now right]).
    destruct e as [s|s|].
    + destruct (mem s P) eqn:Hm.
      * simpl in *. destruct (Nat.eq_dec x s) as [E|E]; [left; now left|].
        destruct (IH (rm s P) Hret Hex' x) as [H|[H1 H2]]; [apply In_rm; tauto|left; now right|right; tauto].
      * destruct (IH P Hret Hex' x Hx) as [H|[H1 H2]]; [now left|right; simpl; tauto].
    + destruct (mem s P && g s) eqn:Hc.
      * apply andb_true_iff in Hc. destruct Hc as [Hm Hg].
        destruct (Nat.eq_dec x s) as [E|E]; [subst; right; simpl; tauto|].
        destruct (IH (rm s P) Hret Hex' x) as [H|[H1 H2]]; [apply In_rm; tauto|now left|right; simpl; tauto].
      * destruct (IH P Hret Hex' x Hx) as [H|[H1 H2]]; [now left|right; simpl; tauto].
    + destruct pc.
      * destruct Hex as [Hex|Hex]; [discriminate|]. exfalso. apply Hex. now left.
      * destruct (IH P Hret Hex' x Hx) as [H|[H1 H2]]; [now left|right; simpl; tauto].
Qed.

(* ... and it does return once everyone pending has been served or cancelled (no event is lost). *)
Lemma spec_returns_when_served : forall pc g evs P,
  (forall x, In x P -> In (EvReady x) evs \/ (In (EvCancel x) evs /\ g x = true)) ->
  snd (spec_loop pc g P evs) = true.
Proof.
  intros pc g evs. induction evs as [|e evs IH]; intros P Hall.
  - destruct P as [|p P]; [reflexivity|]. exfalso. destruct (Hall p (or_introl eq_refl)) as [H|[H _]]; exact H.
  - destruct (nil_or_not P) as [Hp|Hp]; [subst; reflexivity|].
    rewrite spec_loop_cons by assumption. destruct e as [s|s|].
    + destruct (mem s P) eqn:Hm; simpl.
      * apply IH. intros x Hx. apply In_rm in Hx. destruct Hx as [Hx Hne].
        destruct (Hall x Hx) as [[H|H]|[[H|H] Hg]]; try congruence; tauto.
      * apply IH. intros x Hx. assert (Hne : x <> s) by (intros E; subst; apply mem_nIn in Hm; contradiction).
        destruct (Hall x Hx) as [[H|H]|[[H|H] Hg]]; try congruence; tauto.
    + destruct (mem s P && g s) eqn:Hc.
      * apply IH. intros x Hx. apply In_rm in Hx. destruct Hx as [Hx Hne].
        destruct (Hall x Hx) as [[H|H]|[[H|H] Hg]]; try congruence; tauto.
      * apply IH. intros x Hx.
        destruct (Hall x Hx) as [[H|H]|[[H|H] Hg]]; try congruence; try tauto.
        inversion H; subst. rewrite (proj2 (mem_In x P) Hx), Hg in Hc. discriminate.
    + destruct pc; [reflexivity|]. apply IH. intros x Hx.
      destruct (Hall x Hx) as [[H|H]|[[H|H] Hg]]; try congruence; tauto.
Qed.

Lemma eligible_spec : forall s, eligible s = true <-> compat s = true /\ (has_ctx s && cancelled0 s) = false.
Proof.
  intros s. unfold eligible. destruct (compat s), (has_ctx s && cancelled0 s); simpl; intuition congruence.
Qed.

(* --- transported to the slices as coded --- *)

(* No subscription receives the value twice from one publish. *)
Theorem exactly_once : forall pc subs evs, NoDup (map sid subs) -> NoDup (fst (run_publish pc subs evs)).
Proof.
  intros pc subs evs Hnd. rewrite run_refines_spec by assumption. apply spec_exactly_once.
  rewrite <- build_succ. apply build_WF. assumption.
Qed.

(* Whoever receives is a subscription of this key whose element type accepts the value and whose context was not
   already cancelled. *)
Theorem only_eligible_receive : forall pc subs evs x, NoDup (map sid subs) ->
  In x (fst (run_publish pc subs evs)) ->
  exists s, In s subs /\ sid s = x /\ compat s = true /\ (has_ctx s && cancelled0 s) = false.
Proof.
  intros pc subs evs x Hnd Hx. rewrite run_refines_spec in Hx by assumption.
  apply spec_delivered_in in Hx. apply In_pending0 in Hx. destruct Hx as [s [Hs [E He]]].
  apply eligible_spec in He. exists s. tauto.
Qed.

(* Nobody else receives: an incompatible or already-cancelled subscription gets nothing. *)
Theorem nobody_else_receives : forall pc subs evs s, NoDup (map sid subs) -> In s subs ->
  compat s = false \/ (has_ctx s = true /\ cancelled0 s = true) ->
  ~ In (sid s) (fst (run_publish pc subs evs)).
Proof.
  intros pc subs evs s Hnd Hs Hbad Hin.
  destruct (only_eligible_receive pc subs evs (sid s) Hnd Hin) as [s' [Hs' [E [Hc Hk]]]].
  assert (s' = s) by (apply (sid_inj subs); assumption). subst s'.
  destruct Hbad as [H|[H1 H2]]; [congruence|]. rewrite H1, H2 in Hk. discriminate.
Qed.

(* A sid that is not subscribed under this key at all (other keys, unsubscribed targets) gets nothing. *)
Theorem outsiders_receive_nothing : forall pc subs evs x, NoDup (map sid subs) -> ~ In x (map sid subs) ->
  ~ In x (fst (run_publish pc subs evs)).
Proof.
  intros pc subs evs x Hnd Hx Hin.
  destruct (only_eligible_receive pc subs evs x Hnd Hin) as [s [Hs [E _]]].
  apply Hx. rewrite <- E. now apply in_map.
Qed.

(* Publish returns only when each eligible subscription has received or had its context cancelled - unless the
   publish context was cancelled. *)
Theorem returns_only_when_served : forall pc subs evs s, NoDup (map sid subs) ->
  snd (run_publish pc subs evs) = true -> pc = false \/ ~ In EvExit evs ->
  In s subs -> compat s = true -> (has_ctx s && cancelled0 s) = false ->
  In (sid s) (fst (run_publish pc subs evs)) \/ (In (EvCancel (sid s)) evs /\ has_ctx s = true).
Proof.
  intros pc subs evs s Hnd Hret Hex Hs Hc Hk. rewrite run_refines_spec in * by assumption.
  assert (Hp : In (sid s) (pending0 subs)).
  { apply In_pending0. exists s. split; [assumption|]. split; [reflexivity|]. apply eligible_spec. tauto. }
  destruct (spec_returns_only_when_served pc (guarded subs) evs (pending0 subs) Hret Hex (sid s) Hp) as [H|[H1 H2]];
    [now left|right].
  split; [assumption|]. apply guarded_true in H2. destruct H2 as [y [Hy [E Hh]]].
  assert (y = s) by (apply (sid_inj subs); assumption). now subst.
Qed.

(* ... and it does return as soon as that is the case. *)
Theorem returns_when_served : forall pc subs evs, NoDup (map sid subs) ->
  (forall s, In s subs -> compat s = true -> (has_ctx s && cancelled0 s) = false ->
             In (EvReady (sid s)) evs \/ (In (EvCancel (sid s)) evs /\ has_ctx s = true)) ->
  snd (run_publish pc subs evs) = true.
Proof.
  intros pc subs evs Hnd Hall. rewrite run_refines_spec by assumption. apply spec_returns_when_served.
  intros x Hx. apply In_pending0 in Hx. destruct Hx as [s [Hs [E He]]]. apply eligible_spec in He.
  subst x. destruct (Hall s Hs (proj1 He) (proj2 He)) as [H|[H1 H2]]; [now left|right].
  split; [assumption|]. apply guarded_true. exists s. tauto.
Qed.

(* A cancelled publish context makes Publish return at once. *)
Theorem exit_returns : forall subs evs, snd (run_publish true subs (EvExit :: evs)) = true.
Proof.
  intros subs evs. unfold run_publish, run_publish_gen.
  destruct (nil_or_not (succ (build subs))) as [H|H].
  - now rewrite run_loop_done.
  - now rewrite run_loop_cons.
Qed.

(* ============================================================================================================ *)
(* 8. The mutants                                                                                                *)
(* ============================================================================================================ *)

Definition mut_lt : flags := {| rebase_lt := true; no_ref_removal := false; rebase_before_test := false |}.
Definition mut_noref : flags := {| rebase_lt := false; no_ref_removal := true; rebase_before_test := false |}.
Definition mut_before : flags := {| rebase_lt := false; no_ref_removal := false; rebase_before_test := true |}.

Definition S0 (i : nat) (h : bool) : sub := {| sid := i; has_ctx := h; cancelled0 := false; compat := true |}.

(* (b) failure case removed but not its ref: after sid 10's context fires, the stale ref makes the cancellation of
   12 remove the send of 11 - the wrong subscriber is dropped, 11 never receives, Publish stays blocked. *)
Theorem no_ref_removal_refuted : exists subs evs,
  NoDup (map sid subs) /\
  run_publish_gen mut_noref false subs evs = ([], false) /\ spec_publish false subs evs = ([11], true).
Proof.
  exists [S0 10 true; S0 11 false; S0 12 true], [EvCancel 10; EvCancel 12; EvReady 11].
  split; [|split; vm_compute; reflexivity].
  simpl. repeat constructor; simpl; intuition discriminate.
Qed.

(* (b) again: three plain deliveries run into an out-of-range failure index (a panic in Go). *)
Theorem no_ref_removal_refuted_panic : exists subs evs,
  NoDup (map sid subs) /\
  run_publish_gen mut_noref false subs evs = ([10; 11], false) /\ spec_publish false subs evs = ([10; 11; 12], true).
Proof.
  exists [S0 10 true; S0 11 true; S0 12 false], [EvReady 10; EvReady 11; EvReady 12].
  split; [|split; vm_compute; reflexivity].
  simpl. repeat constructor; simpl; intuition discriminate.
Qed.

(* (c) decrement before the test: delivering to the LAST send wrongly re-bases the ref of 11 onto the send of 10;
   cancelling 11 then drops 10 (which never receives) and the cancelled 11 is delivered to instead. *)
Theorem rebase_before_test_refuted : exists subs evs,
  NoDup (map sid subs) /\
  run_publish_gen mut_before false subs evs = ([12; 11], true) /\ spec_publish false subs evs = ([12; 10], true).
Proof.
  exists [S0 10 false; S0 11 true; S0 12 false], [EvReady 12; EvCancel 11; EvReady 10; EvReady 11].
  split; [|split; vm_compute; reflexivity].
  simpl. repeat constructor; simpl; intuition discriminate.
Qed.

(* (a) `<` for `<=` in the break test.  At the level of the loop it IS wrong (A.7: R = [j]) ... *)
Theorem rebase_lt_loop_refuted : exists j r, StronglySorted lt r /\ rebase mut_lt j r <> rebase_spec j r.
Proof.
  exists 1, [1]. split; [repeat constructor|]. vm_compute. discriminate.
Qed.

Theorem rebase_before_test_loop_refuted : exists j r, StronglySorted lt r /\ rebase mut_before j r <> rebase_spec j r.
Proof.
  exists 1, [1]. split; [repeat constructor|]. vm_compute. discriminate.
Qed.

(* ... but end to end it is an EQUIVALENT mutant: the only ref treated differently is the one equal to successIndex,
   and that ref is removed by l.213-214 right after the loop.  No test can kill it. *)
Theorem rebase_lt_benign : forall pc subs evs, NoDup (map sid subs) ->
  run_publish_gen mut_lt pc subs evs = spec_publish pc subs evs.
Proof. intros pc subs evs Hnd. apply run_refines_spec_gen; [split; reflexivity|assumption]. Qed.

(* ============================================================================================================ *)
(* 9. Registry: Subscribe / Unsubscribe                                                                          *)
(* ============================================================================================================ *)

Lemma lookup_remove_key_same : forall k r, lookup k (remove_key k r) = [].
Proof.
  intros k r. induction r as [|[k0 l0] r IH]; simpl; [reflexivity|].
  destruct (Nat.eqb_spec k0 k) as [E|E]; simpl; [assumption|].
  destruct (Nat.eqb_spec k0 k); [contradiction|assumption].
Qed.

Lemma lookup_remove_key_other : forall k k' r, k' <> k -> lookup k' (remove_key k r) = lookup k' r.
Proof.
  intros k k' r Hne. induction r as [|[k0 l0] r IH]; simpl; [reflexivity|].
  destruct (Nat.eqb_spec k0 k) as [E|E]; simpl.
  - destruct (Nat.eqb_spec k0 k'); [congruence|assumption].
  - destruct (Nat.eqb_spec k0 k'); [reflexivity|assumption].
Qed.

Lemma lookup_set_key_same : forall k l r, lookup k (set_key k l r) = l.
Proof. intros k l r. simpl. now rewrite Nat.eqb_refl. Qed.

Lemma lookup_set_key_other : forall k k' l r, k' <> k -> lookup k' (set_key k l r) = lookup k' r.
Proof.
  intros k k' l r Hne. simpl. destruct (Nat.eqb_spec k k'); [congruence|]. now apply lookup_remove_key_other.
Qed.

(* Duplicate Subscribe panics (None: the registry is untouched by construction). *)
Theorem subscribe_duplicate_panics : forall k t r, In t (lookup k r) -> subscribe k t r = None.
Proof. intros k t r H. unfold subscribe. now rewrite (proj2 (mem_In t (lookup k r)) H). Qed.

Theorem subscribe_ok : forall k t r, ~ In t (lookup k r) ->
  exists r', subscribe k t r = Some r' /\ lookup k r' = lookup k r ++ [t] /\
             forall k', k' <> k -> lookup k' r' = lookup k' r.
Proof.
  intros k t r H. unfold subscribe. rewrite (proj2 (mem_nIn t (lookup k r)) H).
  eexists. split; [reflexivity|]. split; [apply lookup_set_key_same|]. intros k' Hne. now apply lookup_set_key_other.
Qed.

(* Unmatched Unsubscribe panics. *)
Theorem unsubscribe_unmatched_panics : forall k t r, ~ In t (lookup k r) -> unsubscribe k t r = None.
Proof. intros k t r H. unfold unsubscribe. now rewrite (proj2 (mem_nIn t (lookup k r)) H). Qed.

(* A successful Unsubscribe removes exactly that target; other keys are untouched; deleting the key together with
   its last target (l.109-110) is invisible to lookups. *)
Theorem unsubscribe_ok : forall k t r r', unsubscribe k t r = Some r' ->
  In t (lookup k r) /\ lookup k r' = rm t (lookup k r) /\ forall k', k' <> k -> lookup k' r' = lookup k' r.
Proof.
  intros k t r r' H. unfold unsubscribe in H. destruct (mem t (lookup k r)) eqn:Hm; [|discriminate].
  split; [now apply mem_In|].
  destruct (rm t (lookup k r)) as [|a l] eqn:Hrm; inversion H; subst.
  - split; [apply lookup_remove_key_same|]. intros k' Hne. now apply lookup_remove_key_other.
  - split; [apply lookup_set_key_same|]. intros k' Hne. now apply lookup_set_key_other.
Qed.

Theorem unsubscribe_cleanup : forall k t r, In t (lookup k r) -> rm t (lookup k r) = [] ->
  unsubscribe k t r = Some (remove_key k r) /\
  forall k', lookup k' (remove_key k r) = lookup k' (set_key k [] r).
Proof.
  intros k t r Hin Hrm. unfold unsubscribe. rewrite (proj2 (mem_In t (lookup k r)) Hin), Hrm.
  split; [reflexivity|]. intros k'. destruct (Nat.eq_dec k' k) as [E|E].
  - subst. now rewrite lookup_remove_key_same, lookup_set_key_same.
  - rewrite lookup_set_key_other by assumption. now apply lookup_remove_key_other.
Qed.

Theorem unsubscribe_barrier_registry : forall k t r r', unsubscribe k t r = Some r' -> ~ In t (lookup k r').
Proof.
  intros k t r r' H. apply unsubscribe_ok in H. destruct H as (_ & Hl & _). rewrite Hl, In_rm. tauto.
Qed.

Theorem unsubscribe_twice_panics : forall k t r r', unsubscribe k t r = Some r' -> unsubscribe k t r' = None.
Proof. intros k t r r' H. apply unsubscribe_unmatched_panics. eapply unsubscribe_barrier_registry; eauto. Qed.

Theorem subscribe_twice_panics : forall k t r r', subscribe k t r = Some r' -> subscribe k t r' = None.
Proof.
  intros k t r r' H. apply subscribe_duplicate_panics. unfold subscribe in H.
  destruct (mem t (lookup k r)); [discriminate|]. inversion H; subst. rewrite lookup_set_key_same.
  apply in_or_app. right. now left.
Qed.

(* Registry invariant: under each key the targets are distinct (map keyed by valuePtr). *)
Definition reg_ok (r : registry) : Prop := forall k, NoDup (lookup k r).

Lemma reg_ok_empty : reg_ok [].
Proof. intros k. constructor. Qed.

Lemma subscribe_reg_ok : forall k t r r', reg_ok r -> subscribe k t r = Some r' -> reg_ok r'.
Proof.
  intros k t r r' Hok H k'. unfold subscribe in H. destruct (mem t (lookup k r)) eqn:Hm; [discriminate|].
  inversion H; subst. destruct (Nat.eq_dec k' k) as [E|E].
  - subst. rewrite lookup_set_key_same. apply NoDup_snoc; [apply Hok|now apply mem_nIn].
  - rewrite lookup_set_key_other by assumption. apply Hok.
Qed.

Lemma unsubscribe_reg_ok : forall k t r r', reg_ok r -> unsubscribe k t r = Some r' -> reg_ok r'.
Proof.
  intros k t r r' Hok H k'. apply unsubscribe_ok in H. destruct H as (_ & Hl & Ho).
  destruct (Nat.eq_dec k' k) as [E|E].
  - subst. rewrite Hl. apply NoDup_rm, Hok.
  - rewrite Ho by assumption. apply Hok.
Qed.

(* After Unsubscribe returns, a later Publish under that key (which sees exactly the registered targets, whatever
   their contexts / element types / iteration order) delivers nothing to the target. *)
Theorem unsubscribe_barrier : forall k t r r' pc subs evs,
  reg_ok r -> unsubscribe k t r = Some r' -> Permutation (map sid subs) (lookup k r') ->
  ~ In t (fst (run_publish pc subs evs)).
Proof.
  intros k t r r' pc subs evs Hok H Hp.
  assert (Hnd : NoDup (map sid subs)).
  { eapply Permutation_NoDup; [apply Permutation_sym; eassumption|]. eapply unsubscribe_reg_ok; eauto. }
  apply outsiders_receive_nothing; [assumption|]. intros Hin.
  apply (unsubscribe_barrier_registry k t r r' H). eapply Permutation_in; eauto.
Qed.

(* Subscriptions under other keys receive nothing: a Publish under k only sees lookup k. *)
Theorem other_keys_receive_nothing : forall k r pc subs evs x,
  reg_ok r -> Permutation (map sid subs) (lookup k r) -> ~ In x (lookup k r) ->
  ~ In x (fst (run_publish pc subs evs)).
Proof.
  intros k r pc subs evs x Hok Hp Hx.
  assert (Hnd : NoDup (map sid subs)) by (eapply Permutation_NoDup; [apply Permutation_sym; eassumption|apply Hok]).
  apply outsiders_receive_nothing; [assumption|]. intros Hin. apply Hx. eapply Permutation_in; eauto.
Qed.

(* ============================================================================================================ *)
(* 10. Non-vacuity: four subscribers, context-guarded ones in the middle, orders that hit the early `break`      *)
(* ============================================================================================================ *)

Definition subs4 : list sub := [S0 10 false; S0 11 true; S0 12 true; S0 13 false].

Example subs4_distinct : NoDup (map sid subs4).
Proof. simpl. repeat constructor; simpl; intuition discriminate. Qed.

Example build4 : build subs4 = mk [10; 11; 12; 13] [11; 12] [1; 2].
Proof. reflexivity. Qed.

Example build4_WF : WF (build subs4).
Proof. apply build_WF, subs4_distinct. Qed.

(* The last send goes first: the loop breaks at once (refs[1] = 2 <= 3), nothing is re-based. *)
Example break_immediately : iter (build subs4) (FSucc 3) = ICont (mk [10; 11; 12] [11; 12] [1; 2]) (Some 13).
Proof. reflexivity. Qed.

(* The first send goes first: no break, every ref moves down. *)
Example no_break : iter (build subs4) (FSucc 0) = ICont (mk [11; 12; 13] [11; 12] [0; 1]) (Some 10).
Proof. reflexivity. Qed.

(* A guarded send in the middle is delivered: refs[1] is decremented, then the loop breaks at refs[0] = 1 <= 1,
   and failure case 0 goes together with its ref. *)
Example break_in_the_middle : iter (build subs4) (FSucc 1) = ICont (mk [10; 12; 13] [12] [1]) (Some 11).
Proof. reflexivity. Qed.

(* The context of 12 fires: successIndex = refs[1] = 2, the loop breaks at refs[1] itself. *)
Example cancel_in_the_middle : iter (build subs4) (FFail 1) = ICont (mk [10; 11; 13] [11] [1]) None.
Proof. reflexivity. Qed.

(* Skipped subscriptions (already cancelled, incompatible) leave no trace. *)
Example build_skips :
  build [S0 10 false; {| sid := 11; has_ctx := true; cancelled0 := true; compat := true |};
         {| sid := 12; has_ctx := false; cancelled0 := false; compat := false |}; S0 13 true]
  = mk [10; 13] [13] [1].
Proof. reflexivity. Qed.

Example run4 :
  run_publish true subs4 [EvReady 12; EvReady 99; EvCancel 10; EvCancel 11; EvReady 11; EvReady 13; EvReady 10; EvExit]
  = ([12; 13; 10], true).
Proof. reflexivity. Qed.

Example run4_exit : run_publish true subs4 [EvReady 11; EvExit; EvReady 10] = ([11], true).
Proof. reflexivity. Qed.

Example run4_blocked : run_publish false subs4 [EvReady 11; EvExit; EvReady 10; EvCancel 12] = ([11; 10], false).
Proof. reflexivity. Qed.

(* Exhaustive cross-check on subs4: every event sequence of length <= 4 over the 7 relevant events.  The code as
   written and the `<` mutant agree with the specification everywhere; the other two mutants are caught. *)
Definition alphabet4 : list ev := [EvReady 10; EvReady 11; EvReady 12; EvReady 13; EvCancel 11; EvCancel 12; EvExit].

Fixpoint seqs (n : nat) : list (list ev) :=
  match n with
  | 0 => [[]]
  | S n' => [] :: flat_map (fun e => map (cons e) (seqs n')) alphabet4
  end.

Definition res_eqb (a b : list nat * bool) : bool :=
  (if list_eq_dec Nat.eq_dec (fst a) (fst b) then true else false) && Bool.eqb (snd a) (snd b).

Definition disagreements (fl : flags) (n : nat) : nat :=
  length (filter (fun evs => negb (res_eqb (run_publish_gen fl true subs4 evs) (spec_publish true subs4 evs))) (seqs n)).

Example sweep4 :
  length (seqs 4) = 2801 /\
  disagreements good 4 = 0 /\ disagreements mut_lt 4 = 0 /\
  disagreements mut_noref 4 <> 0 /\ disagreements mut_before 4 <> 0.
Proof. vm_compute. repeat split; discriminate. Qed.

(* The hypothesis of the refinement theorem is needed: with a duplicated sid the slices and the set differ. *)
Example distinct_sids_needed :
  run_publish false [S0 10 false; S0 10 false] [EvReady 10] <> spec_publish false [S0 10 false; S0 10 false] [EvReady 10].
Proof. vm_compute. discriminate. Qed.

Example registry_demo :
  exists r1 r2 r3 r4,
    subscribe 1 10 [] = Some r1 /\ subscribe 1 11 r1 = Some r2 /\ subscribe 2 10 r2 = Some r3 /\
    subscribe 1 10 r3 = None /\ unsubscribe 3 10 r3 = None /\ unsubscribe 1 12 r3 = None /\
    unsubscribe 2 10 r3 = Some r4 /\ lookup 1 r4 = [10; 11] /\ lookup 2 r4 = [] /\ r4 = [(1, [10; 11])].
Proof. repeat eexists. Qed.

(* ============================================================================================================ *)
(* 11. Registry with contexts: a rejected duplicate changes nothing, not even the registered context               *)
(* ============================================================================================================ *)

Lemma ctx_of_drop_same : forall k t tab, ctx_of k t (drop_ctx k t tab) = CtxNone.
Proof.
  intros k t tab. induction tab as [|[[k' t'] c] tab IH]; [reflexivity|].
  unfold drop_ctx in *. cbn [filter fst snd].
  destruct ((k' =? k) && (t' =? t)) eqn:E; cbn [negb]; [exact IH|].
  cbn [ctx_of]. rewrite E. exact IH.
Qed.

Lemma ctx_of_drop_other : forall k t k' t' tab, k' <> k \/ t' <> t ->
  ctx_of k' t' (drop_ctx k t tab) = ctx_of k' t' tab.
Proof.
  intros k t k' t' tab Hne. induction tab as [|[[k0 t0] c] tab IH]; [reflexivity|].
  unfold drop_ctx in *. cbn [filter fst snd].
  destruct ((k0 =? k) && (t0 =? t)) eqn:E; cbn [negb].
  - cbn [ctx_of]. apply andb_true_iff in E. destruct E as [E1 E2].
    apply Nat.eqb_eq in E1. apply Nat.eqb_eq in E2. subst k0 t0.
    assert ((k =? k') && (t =? t') = false) as ->.
    { apply andb_false_iff. destruct Hne as [H|H]; [left|right]; apply Nat.eqb_neq; congruence. }
    exact IH.
  - cbn [ctx_of]. rewrite IH. reflexivity.
Qed.

Theorem subscribe_ctx_duplicate_panics : forall c k t cr, In t (lookup k (fst cr)) -> subscribe_ctx c k t cr = None.
Proof. intros c k t cr H. unfold subscribe_ctx. now rewrite (subscribe_duplicate_panics k t (fst cr) H). Qed.

Theorem subscribe_ctx_ok : forall c k t cr, ~ In t (lookup k (fst cr)) ->
  exists cr', subscribe_ctx c k t cr = Some cr' /\
    lookup k (fst cr') = lookup k (fst cr) ++ [t] /\
    (forall k', k' <> k -> lookup k' (fst cr') = lookup k' (fst cr)) /\
    ctx_of k t (snd cr') = c /\
    (forall k' t', k' <> k \/ t' <> t -> ctx_of k' t' (snd cr') = ctx_of k' t' (snd cr)).
Proof.
  intros c k t cr H. destruct (subscribe_ok k t (fst cr) H) as [r' [Hs [Hl Ho]]].
  unfold subscribe_ctx. rewrite Hs. eexists. split; [reflexivity|]. cbn [fst snd]. repeat split.
  - exact Hl.
  - exact Ho.
  - cbn [ctx_of]. now rewrite !Nat.eqb_refl.
  - intros k' t' Hne. cbn [ctx_of].
    assert ((k =? k') && (t =? t') = false) as ->.
    { apply andb_false_iff. destruct Hne as [Hn|Hn]; [left|right]; apply Nat.eqb_neq; congruence. }
    now apply ctx_of_drop_other.
Qed.

(* the state after a SubscribeContext call that may panic *)
Definition after_subscribe (c : sctx) (k t : nat) (cr : cregistry) : cregistry :=
  match subscribe_ctx c k t cr with Some cr' => cr' | None => cr end.

(* A duplicate Subscribe panics without changing the registry: what a later Publish finds under ANY key - targets
   and the context each was registered with - is what it would have found before, whatever context the rejected call
   carried. *)
Theorem rejected_duplicate_changes_nothing : forall c k t cr k',
  In t (lookup k (fst cr)) -> subs_of k' (after_subscribe c k t cr) = subs_of k' cr.
Proof. intros c k t cr k' H. unfold after_subscribe. now rewrite subscribe_ctx_duplicate_panics. Qed.

Lemma map_sid_subs_of : forall k cr, map sid (subs_of k cr) = lookup k (fst cr).
Proof.
  intros k cr. unfold subs_of. rewrite map_map. rewrite <- (map_id (lookup k (fst cr))) at 2.
  apply map_ext. intros t. now destruct (ctx_of k t (snd cr)).
Qed.

(* a subscription registered with an already cancelled context receives nothing from a later publish *)
Theorem publish_ready_skips_cancelled : forall k cr t, reg_ok (fst cr) ->
  In t (lookup k (fst cr)) -> ctx_of k t (snd cr) = CtxCancelled -> ~ In t (fst (publish_ready k cr)).
Proof.
  intros k cr t Hok Hin Hc. unfold publish_ready.
  set (s := {| sid := t; has_ctx := true; cancelled0 := true; compat := true |}).
  change t with (sid s). apply nobody_else_receives.
  - rewrite map_sid_subs_of. apply Hok.
  - unfold subs_of. apply in_map_iff. exists t. split; [now rewrite Hc | exact Hin].
  - right. split; reflexivity.
Qed.

Example cregistry_demo :
  exists a b,
    subscribe_ctx CtxNone 1 10 ([], []) = Some a /\ subscribe_ctx CtxCancelled 1 11 a = Some b /\
    subscribe_ctx CtxCancelled 1 10 b = None /\ after_subscribe CtxCancelled 1 10 b = b /\
    fst (publish_ready 1 b) = [10] /\ snd (publish_ready 1 b) = true.
Proof. repeat eexists. Qed.

(* ============================================================================================================ *)

Print Assumptions rebase_ok.
Print Assumptions build_WF.
Print Assumptions iter_WF.
Print Assumptions lists_track_pending.
Print Assumptions run_refines_spec.
Print Assumptions publish_iteration_order_irrelevant.
Print Assumptions exactly_once.
Print Assumptions only_eligible_receive.
Print Assumptions nobody_else_receives.
Print Assumptions returns_only_when_served.
Print Assumptions returns_when_served.
Print Assumptions no_ref_removal_refuted.
Print Assumptions rebase_before_test_refuted.
Print Assumptions rebase_lt_loop_refuted.
Print Assumptions rebase_lt_benign.
Print Assumptions subscribe_duplicate_panics.
Print Assumptions unsubscribe_unmatched_panics.
Print Assumptions unsubscribe_ok.
Print Assumptions unsubscribe_cleanup.
Print Assumptions unsubscribe_barrier.
Print Assumptions other_keys_receive_nothing.
Print Assumptions rejected_duplicate_changes_nothing.
Print Assumptions publish_ready_skips_cancelled.
