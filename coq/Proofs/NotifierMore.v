(* More consequences of Proofs/Notifier.v for C15:
     1. per-subscriber LIVENESS: an eligible subscription that becomes ready before it is cancelled and before the publish
        context ends is delivered to;
     2. the "returns only when ..." clause stated over the prefix of events the call actually consumed before returning
        (the minimal prefix), not over the whole event sequence;
     3. a registration whose context is already cancelled receives nothing, for EVERY event sequence (not only the
        all-ready one of [publish_ready]).
   Everything is proved on the set-based specification and transported by run_refines_spec. *)
From Coq Require Import List Arith Lia Bool.
From BB Require Import Model.Notifier Proofs.Notifier.
Import ListNotations.
Arguments Nat.sub : simpl never. Arguments Nat.ltb : simpl never. Arguments Nat.leb : simpl never.
Arguments Nat.eqb : simpl never.

(* ============================================================================================================ *)
(* 1. Liveness                                                                                                   *)
(* ============================================================================================================ *)

Lemma spec_delivers_ready : forall pc g pre post x P,
  In x P -> ~ In (EvCancel x) pre -> ~ In (EvReady x) pre -> (pc = false \/ ~ In EvExit pre) ->
  In x (fst (spec_loop pc g P (pre ++ EvReady x :: post))).
Proof.
  intros pc g pre post x. induction pre as [|e pre IH]; intros P Hx Hnc Hnr Hex.
  - assert (Hp : P <> []) by (intros E; subst; contradiction).
    cbn [app]. rewrite spec_loop_cons by assumption.
    rewrite (proj2 (mem_In x P) Hx). cbn [fst]. now left.
  - assert (Hp : P <> []) by (intros E; subst; contradiction).
    assert (Hnc' : ~ In (EvCancel x) pre) by (intros H; apply Hnc; now right).
    assert (Hnr' : ~ In (EvReady x) pre) by (intros H; apply Hnr; now right).
    assert (Hex' : pc = false \/ ~ In EvExit pre)
      by (destruct Hex as [?|Hex]; [now left|right; intros H; apply Hex; now right]).
    cbn [app]. rewrite spec_loop_cons by assumption. destruct e as [s|s|].
    + assert (Hne : x <> s) by (intros E; subst; apply Hnr; now left).
      destruct (mem s P).
      * cbn [fst]. right. apply IH; try assumption. apply In_rm. tauto.
      * now apply IH.
    + assert (Hne : x <> s) by (intros E; subst; apply Hnc; now left).
      destruct (mem s P && g s).
      * apply IH; try assumption. apply In_rm. tauto.
      * now apply IH.
    + destruct pc.
      * exfalso. destruct Hex as [Hex|Hex]; [discriminate|]. apply Hex. now left.
      * now apply IH.
Qed.

(* An eligible subscription (element type accepts the value, context not already cancelled) whose target becomes
   ready at some point, with neither its own cancellation nor an earlier readiness nor the end of the publish context
   before that point, IS delivered to - whatever the other subscriptions do and whatever comes later. *)
Theorem eligible_ready_is_delivered : forall pc subs pre post s, NoDup (map sid subs) ->
  In s subs -> eligible s = true ->
  ~ In (EvCancel (sid s)) pre -> ~ In (EvReady (sid s)) pre -> (pc = false \/ ~ In EvExit pre) ->
  In (sid s) (fst (run_publish pc subs (pre ++ EvReady (sid s) :: post))).
Proof.
  intros pc subs pre post s Hnd Hs He Hnc Hnr Hex. rewrite run_refines_spec by assumption.
  apply spec_delivers_ready; try assumption. apply In_pending0. exists s. tauto.
Qed.

(* the hypotheses are satisfiable, and the delivery is not the trivial first one *)
Example eligible_ready_is_delivered_ex :
  In 12 (fst (run_publish true subs4 ([EvReady 13; EvCancel 11; EvReady 99] ++ EvReady 12 :: [EvExit]))).
Proof.
  apply (eligible_ready_is_delivered true subs4 [EvReady 13; EvCancel 11; EvReady 99] [EvExit] (S0 12 true)).
  - apply subs4_distinct.
  - cbn. tauto.
  - reflexivity.
  - cbn. intuition discriminate.
  - cbn. intuition discriminate.
  - right. cbn. intuition discriminate.
Qed.

(* each hypothesis is needed *)
Example liveness_needs_no_earlier_cancel : ~ In 12 (fst (run_publish false subs4 ([EvCancel 12] ++ EvReady 12 :: []))).
Proof. vm_compute. tauto. Qed.
Example liveness_needs_no_earlier_exit : ~ In 12 (fst (run_publish true subs4 ([EvExit] ++ EvReady 12 :: []))).
Proof. vm_compute. tauto. Qed.

(* ============================================================================================================ *)
(* 2. "returns only when ...", over the events consumed before the return                                        *)
(* ============================================================================================================ *)

Lemma spec_return_prefix : forall pc g evs P, snd (spec_loop pc g P evs) = true ->
  exists pre post, evs = pre ++ post /\
    spec_loop pc g P pre = spec_loop pc g P evs /\
    (forall pre' post', pre = pre' ++ post' -> post' <> [] -> snd (spec_loop pc g P pre') = false) /\
    ((pc = true /\ In EvExit pre) \/
     forall x, In x P -> In x (fst (spec_loop pc g P pre)) \/ (In (EvCancel x) pre /\ g x = true)).
Proof.
  intros pc g evs. induction evs as [|e evs IH]; intros P Hret.
  - destruct (nil_or_not P) as [Hp|Hp]; [|rewrite spec_loop_blocked in Hret by assumption; discriminate].
    subst P. exists [], []. split; [reflexivity|]. split; [reflexivity|]. split.
    + intros pre' post' E Hne. destruct pre', post'; try discriminate. congruence.
    + right. intros x [].
  - destruct (nil_or_not P) as [Hp|Hp].
    { subst P. exists [], (e :: evs). split; [reflexivity|]. split; [now rewrite !spec_loop_done|]. split.
      - intros pre' post' E Hne. destruct pre', post'; try discriminate. congruence.
      - right. intros x []. }
    (* the generic "one event consumed, continue from P'" step *)
    assert (Hgo : forall P' (d : list nat),
      (forall l, spec_loop pc g P (e :: l) = (d ++ fst (spec_loop pc g P' l), snd (spec_loop pc g P' l))) ->
      (forall x, In x P -> In x P' \/ In x d \/ (e = EvCancel x /\ g x = true)) ->
      snd (spec_loop pc g P' evs) = true ->
      exists pre post, e :: evs = pre ++ post /\
        spec_loop pc g P pre = spec_loop pc g P (e :: evs) /\
        (forall pre' post', pre = pre' ++ post' -> post' <> [] -> snd (spec_loop pc g P pre') = false) /\
        ((pc = true /\ In EvExit pre) \/
         forall x, In x P -> In x (fst (spec_loop pc g P pre)) \/ (In (EvCancel x) pre /\ g x = true))).
    { intros P' d Hcons Hcover Hret'.
      destruct (IH P' Hret') as (pre & post & E & Hsame & Hmin & Hserved).
      exists (e :: pre), post. split; [cbn; now rewrite E|]. split; [now rewrite !Hcons, Hsame|]. split.
      - intros pre' post' E' Hne. destruct pre' as [|e' pre'].
        + now rewrite spec_loop_blocked.
        + cbn in E'. inversion E'; subst e'. rewrite Hcons. cbn [snd]. eapply Hmin; eauto.
      - destruct Hserved as [[Hpc Hin]|Hserved]; [left; split; [assumption|now right]|right].
        intros x Hx. rewrite Hcons. cbn [fst].
        destruct (Hcover x Hx) as [Hx'|[Hd|[He Hg]]].
        + destruct (Hserved x Hx') as [H|[H1 H2]]; [left; apply in_or_app; now right|right; split; [now right|assumption]].
        + left. apply in_or_app. now left.
        + right. split; [left; now symmetry|assumption]. }
    rewrite spec_loop_cons in Hret by assumption.
    destruct e as [s|s|].
    + destruct (mem s P) eqn:Hm.
      * apply (Hgo (rm s P) [s]); [| |exact Hret].
        -- intros l. rewrite spec_loop_cons by assumption. now rewrite Hm.
        -- intros x Hx. destruct (Nat.eq_dec x s) as [E|E]; [right; left; left; congruence|left; apply In_rm; tauto].
      * apply (Hgo P []); [| |exact Hret].
        -- intros l. rewrite spec_loop_cons by assumption. rewrite Hm. now destruct (spec_loop pc g P l).
        -- intros x Hx. now left.
    + destruct (mem s P && g s) eqn:Hc.
      * apply (Hgo (rm s P) []); [| |exact Hret].
        -- intros l. rewrite spec_loop_cons by assumption. rewrite Hc. now destruct (spec_loop pc g (rm s P) l).
        -- intros x Hx. apply andb_true_iff in Hc. destruct Hc as [_ Hg].
           destruct (Nat.eq_dec x s) as [E|E]; [right; right; subst; tauto|left; apply In_rm; tauto].
      * apply (Hgo P []); [| |exact Hret].
        -- intros l. rewrite spec_loop_cons by assumption. rewrite Hc. now destruct (spec_loop pc g P l).
        -- intros x Hx. now left.
    + destruct pc.
      * exists [EvExit], evs. split; [reflexivity|]. split; [now rewrite !spec_loop_cons by assumption|]. split.
        -- intros pre' post' E Hne. destruct pre' as [|e' pre']; [now rewrite spec_loop_blocked|].
           cbn in E. inversion E as [[E1 E2]]. destruct pre', post'; try discriminate. congruence.
        -- left. split; [reflexivity|now left].
      * apply (Hgo P []); [| |exact Hret].
        -- intros l. rewrite spec_loop_cons by assumption. now destruct (spec_loop false g P l).
        -- intros x Hx. now left.
Qed.

(* PublishContext returns ONLY when - by the moment of the return - each eligible subscription has received the value
   or had its (own, registered) context cancelled, or the publish context was cancelled.  [pre] is the prefix of events
   the call consumed: the run over [pre] alone is the whole run (same deliveries, returned), no shorter prefix has
   returned, and the disjunction speaks about [pre] only.  (Events after the return are not looked at.) *)
Theorem returns_only_when_served_prefix : forall pc subs evs, NoDup (map sid subs) ->
  snd (run_publish pc subs evs) = true ->
  exists pre post, evs = pre ++ post /\
    run_publish pc subs pre = run_publish pc subs evs /\
    (forall pre' post', pre = pre' ++ post' -> post' <> [] -> snd (run_publish pc subs pre') = false) /\
    ((pc = true /\ In EvExit pre) \/
     forall s, In s subs -> compat s = true -> (has_ctx s && cancelled0 s) = false ->
       In (sid s) (fst (run_publish pc subs pre)) \/ (In (EvCancel (sid s)) pre /\ has_ctx s = true)).
Proof.
  intros pc subs evs Hnd Hret. rewrite run_refines_spec in Hret by assumption.
  destruct (spec_return_prefix pc (guarded subs) evs (pending0 subs) Hret) as (pre & post & E & Hsame & Hmin & Hserved).
  exists pre, post. split; [exact E|]. rewrite !run_refines_spec by assumption.
  split; [exact Hsame|]. split.
  - intros pre' post' E' Hne. rewrite run_refines_spec by assumption. eapply Hmin; eauto.
  - destruct Hserved as [H|Hserved]; [now left|right]. intros s Hs Hc Hk.
    assert (Hp : In (sid s) (pending0 subs)).
    { apply In_pending0. exists s. split; [assumption|]. split; [reflexivity|]. apply eligible_spec. tauto. }
    destruct (Hserved (sid s) Hp) as [H|[H1 H2]]; [now left|right].
    split; [assumption|]. apply guarded_true in H2. destruct H2 as [y [Hy [Ey Hh]]].
    assert (y = s) by (apply (sid_inj subs); assumption). now subst.
Qed.

(* the interesting case occurs: the return happens strictly inside the event sequence, and the later EvCancel 10 (which
   the old formulation's `In (EvCancel (sid s)) evs` would accept as an excuse) is not part of the consumed prefix *)
Example returns_prefix_ex :
  let evs := [EvReady 10; EvCancel 11; EvReady 12; EvReady 13; EvCancel 12; EvReady 11] in
  run_publish false subs4 evs = ([10; 12; 13], true) /\
  run_publish false subs4 (firstn 4 evs) = run_publish false subs4 evs /\
  snd (run_publish false subs4 (firstn 3 evs)) = false.
Proof. vm_compute. repeat split; reflexivity. Qed.

(* ============================================================================================================ *)
(* 3. A registration with an already cancelled context receives nothing, for every event sequence                *)
(* ============================================================================================================ *)

Theorem cancelled_registration_receives_nothing : forall k cr t pc evs, reg_ok (fst cr) ->
  In t (lookup k (fst cr)) -> ctx_of k t (snd cr) = CtxCancelled ->
  ~ In t (fst (run_publish pc (subs_of k cr) evs)).
Proof.
  intros k cr t pc evs Hok Hin Hc.
  set (s := {| sid := t; has_ctx := true; cancelled0 := true; compat := true |}).
  change t with (sid s). apply nobody_else_receives.
  - rewrite map_sid_subs_of. apply Hok.
  - unfold subs_of. apply in_map_iff. exists t. split; [now rewrite Hc | exact Hin].
  - right. split; reflexivity.
Qed.

(* ... and the others registered under the key, with a live or no context, do receive when they become ready *)
Theorem live_registration_is_delivered : forall k cr t pc pre post, reg_ok (fst cr) ->
  In t (lookup k (fst cr)) -> ctx_of k t (snd cr) <> CtxCancelled ->
  ~ In (EvCancel t) pre -> ~ In (EvReady t) pre -> (pc = false \/ ~ In EvExit pre) ->
  In t (fst (run_publish pc (subs_of k cr) (pre ++ EvReady t :: post))).
Proof.
  intros k cr t pc pre post Hok Hin Hc Hnc Hnr Hex.
  assert (Hs : exists s, In s (subs_of k cr) /\ sid s = t /\ eligible s = true).
  { unfold subs_of. eexists. split; [apply in_map_iff; exists t; split; [reflexivity|exact Hin]|].
    destruct (ctx_of k t (snd cr)); try congruence; split; reflexivity. }
  destruct Hs as (s & Hs & E & He). subst t.
  apply eligible_ready_is_delivered; try assumption. rewrite map_sid_subs_of. apply Hok.
Qed.

Example cancelled_registration_ex :
  exists a b, subscribe_ctx CtxLive 1 10 ([], []) = Some a /\ subscribe_ctx CtxCancelled 1 11 a = Some b /\
    reg_ok (fst b) /\ ctx_of 1 11 (snd b) = CtxCancelled /\
    run_publish true (subs_of 1 b) [EvReady 11; EvCancel 11; EvReady 10; EvReady 11] = ([10], true).
Proof.
  repeat eexists. intros k. destruct k as [|[|k]]; cbn; repeat constructor; cbn; intuition discriminate.
Qed.

Print Assumptions eligible_ready_is_delivered.
Print Assumptions returns_only_when_served_prefix.
Print Assumptions cancelled_registration_receives_nothing.
Print Assumptions live_registration_is_delivered.
