(* ChanPubSub.sanityCheckSubscribersDelta AS WRITTEN IN THE CURRENT SOURCE computes the model function, for every input.

   coq/Gen/ImplPureSanity.v is printed by harness/cmd/gotr (-set sanity) from /repo's chanpubsub.go on every run of the C07
   check (a term of the embedding Model/GoFrag2.v: fixed-width integers with explicit wraps, panics, effect markers);
   this file is re-checked against it each time.  A change of the function that panics on other inputs, with another
   check's message, without marking the instance broken first (or marks it broken without panicking) makes a theorem
   below fail; a change that leaves the fragment makes the translator fail.  The script does not follow the syntax of the
   body: it runs the interpreter, normalises the int32 arithmetic (wraps of wraps, wraps under + - *, widening
   conversions), abstracts the old value and splits on whatever comparisons the run meets, deciding those that follow
   from earlier ones by linear arithmetic - re-ordered disjuncts, flipped comparisons, temporaries and `int32(a - b)` for
   `int32(a) - int32(b)` were tried and still check.  [sanity_src_fires_iff] does not depend on the ORDER of the three
   checks, [sanity_src_eq_model] does (which panic is reported when two checks would fire). *)
From Coq Require Import List ZArith Bool String Lia.
From BB.Model Require Import GoFrag GoFrag2 PubSubSanity PureSpec.
From BB.Proofs Require Import GoFrag2.
From BB.Gen Require Import ImplPureSanity.
Import ListNotations.
Local Open Scope string_scope.
Local Open Scope Z_scope.

(* the embedding's int32 is the model's *)
Lemma wrap_to_int32 z : wrap_to TInt32 z = wrap32 z.
Proof. reflexivity. Qed.

Ltac sanity_run s d :=
  rewrite <- ?wrap_to_int32;
  go_eval; autorewrite with gowrap;
  generalize (wrap_to TInt32 (s - d)); intros old;
  repeat (go_cmp_step; go_eval);
  reflexivity.

(* for every pair of arguments: the run of the translated source is what the model says - which check fires (by its
   message), x.markBroken() exactly once before a panic and never otherwise *)
Theorem sanity_src_eq_model : forall subscribers delta,
  run2 [] sanityCheckSubscribersDelta_def [VInt subscribers; VInt delta]
  = sanity_expected (sanity_check subscribers delta).
Proof.
  intros s d. unfold sanity_check. sanity_run s d.
Qed.

(* the same without regard to WHICH check fires *)
Theorem sanity_src_fires_iff : forall subscribers delta,
  fires_of (run2 [] sanityCheckSubscribersDelta_def [VInt subscribers; VInt delta])
  = Some (sanity_fires subscribers delta).
Proof.
  intros s d. unfold sanity_fires, sanity_check. sanity_run s d.
Qed.

(* non-vacuity, by running the translated source: an int32 wrap (min_int32 - 1 = max_int32) reported as overflow; the two
   negative-value panics; no panic; arguments that do not fit an int32 (delta = 2^32 converts to 0: "overflow") *)
Example sanity_src_examples_run :
  let run := fun s d => run2 [] sanityCheckSubscribersDelta_def [VInt s; VInt d] in
  let broken := log_broken in
  run (-2147483648) 1 = Panicked msg_overflow broken /\
  run 2147483647 (-1) = Panicked msg_overflow broken /\
  run (-1) 0 = Panicked msg_negative broken /\
  run 0 1 = Panicked msg_negative_old broken /\
  run 5 1 = Done [] /\
  run 0 (-1) = Done [] /\
  run 7 4294967296 = Panicked msg_overflow broken.
Proof. vm_compute. repeat split; reflexivity. Qed.

(* and the model on the same arguments *)
Example sanity_model_examples :
  sanity_check (-2147483648) 1 = 1 /\ sanity_check 2147483647 (-1) = 1 /\ sanity_check (-1) 0 = 2 /\ sanity_check 0 1 = 3 /\
  sanity_check 5 1 = 0 /\ sanity_check 0 (-1) = 0 /\ sanity_check 7 4294967296 = 1.
Proof. vm_compute. repeat split; reflexivity. Qed.
