(* Proofs about the tagged-subscriber extension (Model/PubSubTag.v): the identity clauses of C06.
   The base of a tagged run is a run of the counter abstraction, so Proofs/PubSubAbs.Inv holds of it; on top of it the
   tagged invariant [TInv] gives: the tagged subscription's receipts are consecutive rounds of the global order (no
   duplicate, no gap), it receives a round only if the Send counted it, never a round counted before it subscribed, and
   a subscription that was counted and is still standing when Send is past delivery has received that round. *)
From Coq Require Import List Arith Lia Bool ZifyBool.
From BB.Model Require Import PubSubAbs PubSubTag.
From BB.Proofs Require Import PubSubAbs.
Import ListNotations.
Arguments Nat.sub : simpl never. Arguments Nat.ltb : simpl never. Arguments Nat.leb : simpl never.
Arguments Nat.eqb : simpl never. Arguments Nat.mul : simpl never. Arguments Nat.add : simpl never.

Definition is_thread (x : var) : bool :=
  match x with
  | u0 | u1 | u2 | b0o | b0n | b1 | n1o | n1n | n2ko | n2kn | n3k | n2fo | n2fn | n4o | n4n | n5 | fin => true
  | _ => false
  end.

(* newest-first list of consecutive numbers *)
Fixpoint desc (l : list nat) : Prop :=
  match l with
  | a :: ((b :: _) as rest) => a = S b /\ desc rest
  | _ => True
  end.

Definition TInv (t : tst) : Prop :=
  is_thread (tp t) = true /\
  1 <= v (base t) (tp t) /\
  desc (tlog t) /\
  Forall (fun n => tsub t < n <= round t) (tlog t) /\
  tsub t <= round t /\
  match tp t with
  | u0 | u1 | u2 => towed t = false /\ tlog t = []
  | b0n => if towed t then hd_error (tlog t) = Some (round t) else tlog t = []
  | b0o => towed t = true /\ tsub t < round t /\ (tlog t = [] \/ hd_error (tlog t) = Some (round t - 1))
  | b1 => towed t = true /\ hd_error (tlog t) = Some (round t)
  | _ => True
  end.

(* ------------------------------------------------------------------------------------------------------- *)
(* The base of a tagged step is a step of the counter abstraction                                            *)

Lemma tstep_base : forall t q t', tstep t q = Some t' -> step (base t) (pick_of q) = Some (base t').
Proof.
  intros t q t' H. unfold tstep, tstep_gen in H. unfold step. destruct q as [p|p]; cbn [pick_of].
  - destruct (step_gen good_flags (base t) p) as [b'|]; [|discriminate H].
    destruct (src p) as [a|].
    + destruct (pos _); [|discriminate H]. injection H as <-. reflexivity.
    + destruct (is_count _ _); injection H as <-; reflexivity.
  - destruct (src p) as [a|]; [|discriminate H].
    destruct (var_beq (tp t) a); [|discriminate H].
    destruct (step_gen good_flags (base t) p) as [b'|]; [|discriminate H]. injection H as <-. reflexivity.
Qed.

Ltac brk_hyp H :=
  repeat match type of H with
         | (if ?b then _ else _) = _ => let E := fresh "E" in destruct b eqn:E; try discriminate H
         end.
Ltac red_set := cbn [set var_beq sp v mk].
(* case-split the sender pc only when the step function looks at it *)
Ltac case_c H c :=
  lazymatch type of H with
  | (if _ then _ else _) = _ => idtac
  | _ => destruct c; try discriminate H
  end.

(* a sender step other than the count does not touch any thread counter *)
Lemma sender_keeps_threads : forall c f p b' x,
  src p = None -> is_count (mk c f) p = false -> step (mk c f) p = Some b' -> is_thread x = true -> v b' x = f x.
Proof.
  intros c f p b' x Hsrc Hcnt Hs Hx. unfold step, step_gen in Hs. cbn [sp v mk] in Hs. unfold is_count in Hcnt. cbn [sp v mk] in Hcnt.
  destruct p; try discriminate Hsrc; destruct c; try discriminate Hs; brk_hyp Hs; try discriminate Hcnt;
    injection Hs as <-; destruct x; try discriminate Hx; reflexivity.
Qed.

(* the count relabels: the counter at the relabelled program point is at least the old one *)
Lemma count_keeps_thread : forall c f p b' x,
  is_count (mk c f) p = true -> step (mk c f) p = Some b' -> is_thread x = true ->
  f x <= v b' (relabel x) /\ sp b' = S5 /\ c = S4 /\ is_thread (relabel x) = true.
Proof.
  intros c f p b' x Hcnt Hs Hx. unfold step, step_gen in Hs. cbn [sp v mk] in Hs. unfold is_count in Hcnt. cbn [sp v mk] in Hcnt.
  destruct p; try discriminate Hcnt; destruct c; try discriminate Hcnt.
  destruct (f subs =? 0) eqn:E; [discriminate Hcnt|].
  injection Hs as <-. destruct x; try discriminate Hx; cbn [relabel is_thread]; red_set; repeat split; lia.
Qed.

(* an anonymous subscriber step leaves the tagged subscriber counted where it is *)
Lemma anon_keeps_count : forall c f p b' a x,
  step (mk c f) p = Some b' -> src p = Some a ->
  pos (f a - (if var_beq x a then 1 else 0)) = true -> 1 <= f x -> is_thread x = true -> 1 <= v b' x.
Proof.
  intros c f p b' a x Hs Ha Hpos Hx Ht. unfold step, step_gen in Hs. cbn [sp v mk fl_wlock fl_route good_flags] in Hs.
  unfold pos in *.
  destruct p; try discriminate Ha; injection Ha as <-;
    case_c Hs c; brk_hyp Hs; injection Hs as <-;
    destruct x; try discriminate Ht; cbn [var_beq] in Hpos; red_set; lia.
Qed.

(* the tagged subscriber's own step puts it where [dst] says *)
Lemma tag_moves : forall c f p b' a,
  step (mk c f) p = Some b' -> src p = Some a ->
  1 <= v b' (dst good_flags f p) /\ is_thread (dst good_flags f p) = true /\ sp b' = c.
Proof.
  intros c f p b' a Hs Ha. unfold step, step_gen in Hs. cbn [sp v mk fl_wlock fl_route good_flags] in Hs.
  unfold pos in *. unfold dst. cbn [fl_route good_flags].
  destruct p; try discriminate Ha;
    case_c Hs c; brk_hyp Hs; injection Hs as <-; red_set; repeat split; lia.
Qed.

(* ------------------------------------------------------------------------------------------------------- *)
(* Preservation of the tagged invariant                                                                      *)

Lemma Forall_round_S : forall ts rd lg,
  Forall (fun n => ts < n <= rd) lg -> Forall (fun n => ts < n <= S rd) lg.
Proof. intros ts rd lg H. eapply Forall_impl; [|exact H]. cbn. intros a Ha. lia. Qed.

Lemma TInv_init : forall senders others, TInv (tinit senders others).
Proof.
  intros a b. unfold TInv, tinit, init. cbn. repeat split; try lia. constructor.
Qed.

Lemma TInv_step : forall t q t', Inv (base t) -> TInv t -> tstep t q = Some t' -> TInv t'.
Proof.
  intros [[c f] x rd ow ts lg] q t' HI (T1 & T2 & T3 & T4 & T5 & T6) Hq.
  cbn [base tp round towed tsub tlog v sp] in *.
  unfold tstep, tstep_gen in Hq. cbn [base tp round towed tsub tlog] in Hq.
  change {| sp := c; v := f |} with (mk c f) in *.
  destruct q as [p|p].
  - (* an anonymous thread, or the sender *)
    destruct (step_gen good_flags (mk c f) p) as [b'|] eqn:Hb; [|discriminate Hq]. fold (step (mk c f) p) in Hb.
    destruct (src p) as [a|] eqn:Ha.
    + destruct (pos (v (mk c f) a - (if var_beq x a then 1 else 0))) eqn:Hpos; [|discriminate Hq].
      injection Hq as <-. cbn [v mk] in Hpos.
      unfold TInv. cbn [base tp round towed tsub tlog].
      repeat split; try assumption.
      eapply anon_keeps_count; eassumption.
    + destruct (is_count (mk c f) p) eqn:Hc; injection Hq as <-; unfold TInv; cbn [base tp round towed tsub tlog].
      * (* the count: round + 1, everybody subscribed becomes owed *)
        destruct (count_keeps_thread c f p b' x Hc Hb T1) as (Hge & _ & -> & Hth).
        destruct HI as (HC & HL & HP). cbn [sp v mk] in HC, HL, HP. unfold common, lock_inv, phase_inv, idle in *.
        split; [exact Hth|]. split; [lia|]. split; [exact T3|]. split; [apply Forall_round_S, T4|]. split; [lia|].
        destruct x; try discriminate T1; cbn [relabel relabels]; try exact I; try (exfalso; lia);
          try (destruct T6 as (_ & ->); split; reflexivity).
        (* b0n -> b0o *)
        destruct ow.
        { split; [reflexivity|]. split; [lia|]. right. rewrite T6. f_equal. lia. }
        { split; [reflexivity|]. split; [lia|]. left. exact T6. }
      * rewrite (sender_keeps_threads c f p b' x Ha Hc Hb T1). repeat split; assumption.
  - (* the tagged subscriber itself *)
    destruct (src p) as [a|] eqn:Ha; [|discriminate Hq].
    destruct (var_beq x a) eqn:Hx; [|discriminate Hq].
    destruct (step_gen good_flags (mk c f) p) as [b'|] eqn:Hb; [|discriminate Hq]. fold (step (mk c f) p) in Hb.
    injection Hq as <-. cbn [v mk].
    destruct (tag_moves c f p b' a Hb Ha) as (Hd1 & Hd2 & _).
    destruct HI as (HC & HL & HP). cbn [sp v mk] in HC, HL, HP.
    unfold TInv. cbn [base tp round towed tsub tlog].
    split; [exact Hd2|]. split; [exact Hd1|].
    unfold step, step_gen in Hb. cbn [sp v mk fl_wlock fl_route good_flags] in Hb. unfold pos in Hb.
    destruct p; try discriminate Ha; injection Ha as <-; destruct x; try discriminate Hx; cbn [is_recv dst];
      case_c Hb c; brk_hyp Hb; clear Hb;
      unfold common, lock_inv, phase_inv, idle in *;
      repeat match goal with |- context [if ?b then _ else _] => destruct b end;
      try (repeat split; first [assumption | exact I | lia]).
    (* PU0, PU1, PU2: not counted by the running round, nothing received; PWait: back to idle, having received the round *)
    all: try (destruct T6 as (Hw & ->); repeat split; first [assumption | lia | constructor]).
    + (* PRecvO: a receipt *)
      destruct T6 as (-> & Hlt & Hhd).
      split; [|split; [constructor; [lia | exact T4]|repeat split; lia]].
      destruct lg as [|b rest]; [exact I|]. destruct Hhd as [Hhd|Hhd]; [discriminate Hhd|].
      cbn in Hhd. injection Hhd as ->. cbn [desc]. split; [lia | exact T3].
Qed.

(* ------------------------------------------------------------------------------------------------------- *)
(* Runs                                                                                                      *)

Lemma tagged_inv_from : forall sched t, Inv (base t) -> TInv t -> Inv (base (trun t sched)) /\ TInv (trun t sched).
Proof.
  induction sched as [|q rest IH]; intros t HI HT; [split; assumption|].
  unfold trun in *. cbn [trun_gen]. fold (tstep t q).
  destruct (tstep t q) as [t'|] eqn:Hq; [|apply IH; assumption].
  apply IH; [eapply Inv_step; [exact HI | eapply tstep_base; exact Hq] | eapply TInv_step; eassumption].
Qed.

Theorem tagged_inv : forall senders others sched,
  let t := trun (tinit senders others) sched in Inv (base t) /\ TInv t.
Proof.
  intros a b sched t. apply tagged_inv_from; [apply Inv_init | apply TInv_init].
Qed.

(* the base of a tagged run is a run of the counter abstraction: every theorem of Proofs/PubSubAbs.v about reachable
   states (count, pong accounting, deadlock freedom, ...) holds of it *)
Theorem tagged_base_is_abstract_run : forall sched t,
  exists sched', base (trun t sched) = run (base t) sched'.
Proof.
  induction sched as [|q rest IH]; intros t; [exists []; reflexivity|].
  unfold trun in *. cbn [trun_gen]. fold (tstep t q).
  destruct (tstep t q) as [t'|] eqn:Hq.
  - destruct (IH t') as [sc Hsc]. exists (pick_of q :: sc). unfold run. cbn [run_gen]. fold (step (base t) (pick_of q)).
    rewrite (tstep_base t q t' Hq). exact Hsc.
  - apply IH.
Qed.

(* ... and conversely the tagging loses no behaviour: whenever the counter abstraction can step, the same pick is enabled
   for an anonymous thread or for the tagged one *)
Lemma step_src_pos : forall c f p b' a, step (mk c f) p = Some b' -> src p = Some a -> 1 <= f a.
Proof.
  intros c f p b' a Hs Ha. unfold step, step_gen in Hs. cbn [sp v mk fl_wlock fl_route good_flags] in Hs. unfold pos in Hs.
  destruct p; try discriminate Ha; injection Ha as <-; case_c Hs c; brk_hyp Hs; lia.
Qed.

Theorem tagging_is_complete : forall t p b', step (base t) p = Some b' ->
  exists q t', pick_of q = p /\ tstep t q = Some t' /\ base t' = b'.
Proof.
  intros [[c f] x rd ow ts lg] p b' Hs. cbn [base] in Hs. change {| sp := c; v := f |} with (mk c f) in *.
  unfold tstep, tstep_gen. cbn [base tp round towed tsub tlog]. change {| sp := c; v := f |} with (mk c f).
  destruct (src p) as [a|] eqn:Ha.
  - pose proof (step_src_pos c f p b' a Hs Ha) as Hpos.
    destruct (var_beq x a) eqn:Hx.
    + destruct (pos (f a - 1)) eqn:Hp.
      * exists (Anon p). eexists. split; [reflexivity|]. unfold step in Hs. rewrite Hs, Ha, Hx. cbn [v mk]. rewrite Hp.
        split; reflexivity.
      * exists (Tag p). eexists. split; [reflexivity|]. unfold step in Hs. rewrite Hs, Ha, Hx. split; reflexivity.
    + exists (Anon p). eexists. split; [reflexivity|]. unfold step in Hs. rewrite Hs, Ha, Hx. cbn [v mk].
      replace (pos (f a - 0)) with true by (unfold pos; lia). split; reflexivity.
  - exists (Anon p). unfold step in Hs. rewrite Hs, Ha. destruct (is_count (mk c f) p); eexists; (split; [reflexivity|]); split; reflexivity.
Qed.

(* ------------------------------------------------------------------------------------------------------- *)
(* The identity clauses                                                                                      *)

Lemma desc_rev_seq : forall l, desc l -> exists a, rev l = seq a (length l).
Proof.
  induction l as [|x [|y rest] IH]; intros H.
  - exists 0. reflexivity.
  - exists x. reflexivity.
  - destruct H as (-> & H). destruct (IH H) as [a Ha]. exists a.
    change (rev (S y :: y :: rest)) with (rev (y :: rest) ++ [S y]). rewrite Ha.
    change (length (S y :: y :: rest)) with (S (length (y :: rest))). rewrite seq_S. f_equal. f_equal.
    (* the last element of seq a n is y *)
    assert (Hl : last (rev (y :: rest)) 0 = y).
    { cbn [rev]. rewrite last_last. reflexivity. }
    rewrite Ha in Hl. cbn [length] in *. rewrite seq_S, last_last in Hl. lia.
Qed.

(* The tagged subscription's receipts, oldest first, are CONSECUTIVE rounds of the global (sendMu) order: no round twice, no
   gap, increasing. *)
Theorem receipts_are_contiguous_run : forall senders others sched,
  let t := trun (tinit senders others) sched in
  exists a, rev (tlog t) = seq a (length (tlog t)).
Proof.
  intros a b sched t. destruct (tagged_inv a b sched) as (_ & (_ & _ & Hd & _)). apply desc_rev_seq, Hd.
Qed.

Theorem receipts_no_duplicate : forall senders others sched,
  NoDup (tlog (trun (tinit senders others) sched)).
Proof.
  intros a b sched. destruct (receipts_are_contiguous_run a b sched) as [x Hx].
  pose proof (seq_NoDup (length (tlog (trun (tinit a b) sched))) x) as H.
  rewrite <- Hx in H. apply NoDup_rev in H. rewrite rev_involutive in H. exact H.
Qed.

(* It never receives a round that was counted before its own subscription was made (a fortiori none whose Send had returned
   by then), nor one that does not exist yet. *)
Theorem receipts_not_stale : forall senders others sched,
  let t := trun (tinit senders others) sched in
  Forall (fun n => tsub t < n <= round t) (tlog t).
Proof. intros a b sched t. destruct (tagged_inv a b sched) as (_ & (_ & _ & _ & H & _)). exact H. Qed.

(* Every receipt is a receipt of the RUNNING round, taken while the subscription is one of those counted by that Send. *)
Theorem receipt_only_when_counted : forall senders others sched p t',
  let t := trun (tinit senders others) sched in
  tstep t (Tag p) = Some t' -> is_recv p = true ->
  towed t = true /\ tp t = b0o /\ sp (base t) = S6 /\ tlog t' = round t :: tlog t.
Proof.
  intros a b sched p t' t Hq Hr. destruct (tagged_inv a b sched) as (HI & (T1 & T2 & _ & _ & _ & T6)). fold t in HI, T1, T2, T6.
  destruct t as [[c f] x rd ow ts lg]. cbn [base tp round towed tsub tlog v sp] in *.
  unfold tstep, tstep_gen in Hq. cbn [base tp round towed tsub tlog] in Hq.
  destruct HI as (HC & HL & HP). cbn [sp v] in HC, HL, HP.
  destruct p; try discriminate Hr; cbn [src] in Hq; destruct x; try discriminate Hq; cbn [var_beq] in Hq.
  - (* PRecvO *) unfold step_gen in Hq. cbn [sp v] in Hq. destruct c; try discriminate Hq.
    destruct (pos (f k) && pos (f b0o)); [|discriminate Hq]. injection Hq as <-. cbn [tlog is_recv].
    destruct T6 as (-> & _). repeat split; reflexivity.
  - (* PRecvN: never enabled *) exfalso. unfold step_gen in Hq. cbn [sp v] in Hq. destruct c; try discriminate Hq.
    unfold phase_inv in HP. lia.
Qed.

(* Standing subscriptions are included: if the tagged subscription was counted by the round (it was established when Send
   read `subscribers`) and it is still subscribed, Add(-1) not invoked, when that Send is past delivery (about to unlock,
   to publish the pong count, or waiting for the pongs), then it HAS received that round. *)
Theorem standing_included : forall senders others sched,
  let t := trun (tinit senders others) sched in
  (sp (base t) = S8 \/ sp (base t) = S9 \/ sp (base t) = S10) ->
  towed t = true -> standing (tp t) = true ->
  hd_error (tlog t) = Some (round t).
Proof.
  intros a b sched t Hc Hw Hs. destruct (tagged_inv a b sched) as (HI & (T1 & T2 & _ & _ & _ & T6)). fold t in HI, T1, T2, T6.
  destruct t as [[c f] x rd ow ts lg]. cbn [base tp round towed tsub tlog v sp] in *. subst ow.
  destruct HI as (HC & HL & HP). cbn [sp v] in HC, HL, HP.
  destruct x; try discriminate Hs.
  - (* b0o: impossible past delivery *) exfalso. unfold phase_inv, idle in HP. destruct Hc as [-> | [-> | ->]]; lia.
  - exact T6.
  - apply T6.
Qed.

(* ... and during the whole delivery a counted, still subscribed subscription is either waiting for its copy or has it and
   is inside Wait; it is never idle-and-skipped. *)
Theorem counted_during_delivery : forall senders others sched,
  let t := trun (tinit senders others) sched in
  (sp (base t) = S5 \/ sp (base t) = S6 \/ sp (base t) = S7) -> standing (tp t) = true ->
  towed t = true /\ (tp t = b0o \/ (tp t = b1 /\ hd_error (tlog t) = Some (round t))).
Proof.
  intros a b sched t Hc Hs. destruct (tagged_inv a b sched) as (HI & (T1 & T2 & _ & _ & _ & T6)). fold t in HI, T1, T2, T6.
  destruct t as [[c f] x rd ow ts lg]. cbn [base tp round towed tsub tlog v sp] in *.
  destruct HI as (HC & HL & HP). cbn [sp v] in HC, HL, HP.
  destruct x; try discriminate Hs.
  - destruct T6 as (-> & _). split; [reflexivity | left; reflexivity].
  - exfalso. unfold phase_inv in HP. destruct Hc as [-> | [-> | ->]]; lia.
  - destruct T6 as (-> & H). split; [reflexivity | right; split; [reflexivity | exact H]].
Qed.

(* ------------------------------------------------------------------------------------------------------- *)
(* Mutation sensitivity and non-vacuity                                                                      *)

(* Without the write lock a late joiner takes the copy of a counted, standing subscription: Send is about to return 1 (S9)
   although the tagged subscription, which it counted and which is still idle and subscribed, has received nothing. *)
Definition tsched_steal : list tpick :=
  [Tag PU0; Tag PU1; Tag PU2; Anon PSendStart; Anon PSendLock; Anon PS; Anon PS; Anon PS; Anon PS;
   Anon PU0; Anon PU1; Anon PU2; Anon PRecvN; Anon PS; Anon PS; Anon PS].

Theorem standing_included_without_wlock_refuted : exists sched,
  let t := trun_gen no_wlock_flags (tinit 1 1) sched in
  sp (base t) = S9 /\ v (base t) sent = 1 /\ towed t = true /\ standing (tp t) = true /\ tlog t = [].
Proof. exists tsched_steal. vm_compute. repeat split. Qed.

(* The tagged subscriber joins, two Sends (the second by a different call) each count it and an anonymous subscriber that
   joined before the second; it receives rounds 1 and 2 and leaves; a third Send no longer reaches it. *)
Definition tsched_demo : list tpick :=
  [Tag PU0; Tag PU1; Tag PU2;
   Anon PSendStart; Anon PSendLock; Anon PS; Anon PS; Anon PS; Anon PS; Tag PRecvO; Anon PS; Anon PS; Anon PS; Anon PS;
   Tag PWait; Anon PS;
   Anon PU0; Anon PU1; Anon PU2;
   Anon PSendStart; Anon PSendLock; Anon PS; Anon PS; Anon PS; Anon PS; Anon PRecvO; Tag PRecvO; Anon PS; Anon PS; Anon PS; Anon PS].

Example tagged_demo :
  let t := trun (tinit 3 1) tsched_demo in
  sp (base t) = S10 /\ v (base t) sent = 2 /\ round t = 2 /\ tlog t = [2; 1] /\ tp t = b1 /\ towed t = true /\ tsub t = 0.
Proof. vm_compute. repeat split. Qed.

Example tagged_demo_leaves :
  let t := trun (tinit 3 1) (tsched_demo ++ [Tag PWait; Anon PWait; Anon PS; Tag PUnsubN; Tag PN2KN; Tag PN3K;
                                              Anon PSendStart; Anon PSendLock; Anon PS; Anon PS; Anon PS; Anon PS;
                                              Anon PRecvO; Anon PS; Anon PS; Anon PS]) in
  sp (base t) = S9 /\ v (base t) sent = 1 /\ round t = 3 /\ tlog t = [2; 1] /\ tp t = fin /\ towed t = false.
Proof. vm_compute. repeat split. Qed.

(* a late joiner: subscribes during the acknowledgement phase of round 1, is not counted by it, receives round 2 first *)
Example tagged_late_joiner :
  let t := trun (tinit 2 1)
      [Anon PU0; Anon PU1; Anon PU2; Anon PSendStart; Anon PSendLock; Anon PS; Anon PS; Anon PS; Anon PS; Anon PRecvO;
       Anon PS; Anon PS; Anon PS; Anon PS; Tag PU0; Tag PU1; Tag PU2; Anon PWait; Anon PS;
       Anon PSendStart; Anon PSendLock; Anon PS; Anon PS; Anon PS; Anon PS; Tag PRecvO] in
  tlog t = [2] /\ tsub t = 1 /\ round t = 2 /\ towed t = true.
Proof. vm_compute. repeat split. Qed.

Print Assumptions tagged_inv.
Print Assumptions tagged_base_is_abstract_run.
Print Assumptions tagging_is_complete.
Print Assumptions receipts_are_contiguous_run.
Print Assumptions receipts_no_duplicate.
Print Assumptions receipts_not_stale.
Print Assumptions receipt_only_when_counted.
Print Assumptions standing_included.
Print Assumptions counted_during_delivery.
Print Assumptions standing_included_without_wlock_refuted.
