(* Proofs about the tagged-subscriber extension (Model/PubSubTag.v): the identity clauses of C06.
   The base of a tagged run is a run of the counter abstraction, so Proofs/PubSubAbs.Inv holds of it; on top of it the
   tagged invariant [TInv] gives: the tagged subscription's receipts are consecutive rounds of the global order (no
   duplicate, no gap), it receives a round only if the Send counted it, never a round counted before it subscribed, and
   a subscription that was counted and is still standing when Send is past delivery has received that round. *)
From Coq Require Import List Arith Lia Bool ZifyBool.
From BB.Model Require Import PubSubAbs PubSubTag.
From BB.Proofs Require Import PubSubAbs.
Import ListNotations.
Arguments Nat.sub : simpl never. Arguments Nat.ltb : simpl never. Arguments Nat.leb : simpl never.
Arguments Nat.eqb : simpl never. Arguments Nat.mul : simpl never. Arguments Nat.add : simpl never.

Definition is_thread (x : var) : bool :=
  match x with
  | u0 | u1 | u2 | b0o | b0n | b1 | n1o | n1n | n2ko | n2kn | n3k | n2fo | n2fn | n4o | n4n | n5 | fin => true
  | _ => false
  end.

(* newest-first list of consecutive numbers *)
Fixpoint desc (l : list nat) : Prop :=
  match l with
  | a :: ((b :: _) as rest) => a = S b /\ desc rest
  | _ => True
  end.

Definition TInv (t : tst) : Prop :=
  is_thread (tp t) = true /\
  1 <= v (base t) (tp t) /\
  desc (tlog t) /\
  Forall (fun n => tsub t < n <= round t) (tlog t) /\
  tsub t <= round t /\
  match tp t with
  | u0 | u1 | u2 => towed t = false /\ tlog t = []
  | b0n => if towed t then hd_error (tlog t) = Some (round t) else tlog t = []
  | b0o => towed t = true /\ tsub t < round t /\ (tlog t = [] \/ hd_error (tlog t) = Some (round t - 1))
  | b1 => towed t = true /\ hd_error (tlog t) = Some (round t)
  | _ => True
  end.

(* ------------------------------------------------------------------------------------------------------- *)
(* The base of a tagged step is a step of the counter abstraction                                            *)

Lemma tstep_base : forall t q t', tstep t q = Some t' -> step (base t) (pick_of q) = Some (base t').
Proof.
  intros t q t' H. unfold tstep, tstep_gen in H. unfold step. destruct q as [p|p]; cbn [pick_of].
  - destruct (step_gen good_flags (base t) p) as [b'|]; [|discriminate H].
    destruct (src p) as [a|].
    + destruct (pos _); [|discriminate H]. injection H as <-. reflexivity.
    + destruct (is_count _ _); injection H as <-; reflexivity.
  - destruct (src p) as [a|]; [|discriminate H].
    destruct (var_beq (tp t) a); [|discriminate H].
    destruct (step_gen good_flags (base t) p) as [b'|]; [|discriminate H]. injection H as <-. reflexivity.
Qed.

Ltac brk_hyp H :=
  repeat match type of H with
         | (if ?b then _ else _) = _ => let E := fresh "E" in destruct b eqn:E; try discriminate H
         end.
Ltac red_set := cbn [set var_beq sp v mk].

(* a sender step other than the count does not touch any thread counter *)
Lemma sender_keeps_threads : forall c f p b' x,
  src p = None -> is_count (mk c f) p = false -> step (mk c f) p = Some b' -> is_thread x = true -> v b' x = f x.
Proof.
  intros c f p b' x Hsrc Hcnt Hs Hx. unfold step, step_gen in Hs. cbn [sp v mk] in Hs. unfold is_count in Hcnt. cbn [sp v mk] in Hcnt.
  destruct p; try discriminate Hsrc; destruct c; try discriminate Hs; brk_hyp Hs; try discriminate Hcnt;
    injection Hs as <-; destruct x; try discriminate Hx; reflexivity.
Qed.

(* the count relabels: the counter at the relabelled program point is at least the old one *)
Lemma count_keeps_thread : forall c f p b' x,
  is_count (mk c f) p = true -> step (mk c f) p = Some b' -> is_thread x = true ->
  f x <= v b' (relabel x) /\ sp b' = S5 /\ c = S4 /\ is_thread (relabel x) = true.
Proof.
  intros c f p b' x Hcnt Hs Hx. unfold step, step_gen in Hs. cbn [sp v mk] in Hs. unfold is_count in Hcnt. cbn [sp v mk] in Hcnt.
  destruct p; try discriminate Hcnt; destruct c; try discriminate Hcnt.
  destruct (f subs =? 0) eqn:E; [discriminate Hcnt|].
  injection Hs as <-. destruct x; try discriminate Hx; cbn [relabel is_thread]; red_set; repeat split; lia.
Qed.

(* an anonymous subscriber step leaves the tagged subscriber counted where it is *)
Lemma anon_keeps_count : forall c f p b' a x,
  step (mk c f) p = Some b' -> src p = Some a ->
  pos (f a - (if var_beq x a then 1 else 0)) = true -> 1 <= f x -> is_thread x = true -> 1 <= v b' x.
Proof.
  intros c f p b' a x Hs Ha Hpos Hx Ht. unfold step, step_gen in Hs. cbn [sp v mk fl_wlock fl_route good_flags] in Hs.
  unfold pos in *.
  destruct p; try discriminate Ha; injection Ha as <-;
    try (destruct c; try discriminate Hs); brk_hyp Hs; injection Hs as <-;
    destruct x; try discriminate Ht; cbn [var_beq] in Hpos; red_set; lia.
Qed.

(* the tagged subscriber's own step puts it where [dst] says *)
Lemma tag_moves : forall c f p b' a,
  step (mk c f) p = Some b' -> src p = Some a ->
  1 <= v b' (dst good_flags f p) /\ is_thread (dst good_flags f p) = true /\ sp b' = c.
Proof.
  intros c f p b' a Hs Ha. unfold step, step_gen in Hs. cbn [sp v mk fl_wlock fl_route good_flags] in Hs.
  unfold pos in *. unfold dst. cbn [fl_route good_flags].
  destruct p; try discriminate Ha;
    try (destruct c; try discriminate Hs); brk_hyp Hs; injection Hs as <-; red_set; repeat split; lia.
Qed.
