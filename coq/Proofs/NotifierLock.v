(* Proofs about Model/NotifierLock.v: what the RWMutex discipline of notifier.go gives, for EVERY schedule of
   Subscribe / Unsubscribe / context cancellations / any number of concurrent PublishContext calls:
     (a) the snapshot of every publish in flight is what the registry holds under its key, throughout the flight
         ("a subscription that exists for that key throughout the call");
     (b) when Unsubscribe(k,t) returns no publish is in flight, and no publish that begins later delivers to t under k:
         every delivery to t under k belongs to a publish that had already ended;
     (c) a Subscribe that returned before a publish begins is in that publish's snapshot;
   and the refutation for the variant without the write-lock exclusion. *)
From Coq Require Import List Arith Lia Bool.
From BB Require Import Model.Notifier Model.NotifierLock Proofs.Notifier.
Import ListNotations.
Arguments Nat.sub : simpl never. Arguments Nat.ltb : simpl never. Arguments Nat.leb : simpl never.

(* ============================================================================================================ *)
(* 1. Toolbox                                                                                                    *)
(* ============================================================================================================ *)

Lemma nth_error_upd_nth {A} (g : A -> A) : forall l n i,
  nth_error (upd_nth n g l) i = if i =? n then option_map g (nth_error l i) else nth_error l i.
Proof.
  induction l as [|x l IH]; intros n i.
  - cbn [upd_nth]. destruct i; cbn [nth_error option_map]; destruct (_ =? _); reflexivity.
  - destruct n as [|n], i as [|i]; cbn [upd_nth nth_error]; try reflexivity. rewrite IH. reflexivity.
Qed.

Lemma In_upd_nth {A} (g : A -> A) : forall l n y, In y (upd_nth n g l) -> In y l \/ exists x, In x l /\ y = g x.
Proof.
  induction l as [|x l IH]; intros n y Hy; cbn [upd_nth] in Hy; [contradiction|].
  destruct n as [|n]; cbn [In] in Hy.
  - destruct Hy as [Hy|Hy]; [right; exists x; split; [now left|now symmetry]|left; now right].
  - destruct Hy as [Hy|Hy]; [left; now left|]. destruct (IH n y Hy) as [H|(z & Hz & E)]; [left; now right|].
    right. exists z. split; [now right|assumption].
Qed.

Lemma length_upd_nth {A} (g : A -> A) : forall l n, length (upd_nth n g l) = length l.
Proof. induction l as [|x l IH]; intros [|n]; cbn; auto. Qed.

Lemma run_sched_app : forall lk a b st,
  run_sched lk st (a ++ b) = match run_sched lk st a with Some st' => run_sched lk st' b | None => None end.
Proof.
  intros lk a b. induction a as [|l a IH]; intros st; cbn [app run_sched]; [reflexivity|].
  destruct (step lk st l); [apply IH|reflexivity].
Qed.

Lemma no_reader_spec : forall st, no_reader st = true -> forall f, In f (flights st) -> f_ended f = true.
Proof. intros st H. unfold no_reader in H. rewrite forallb_forall in H. exact H. Qed.

(* ---- contexts ---- *)

Lemma ctx_of_cancel : forall k t k' t' tab,
  ctx_of k' t' (cancel_ctx k t tab) =
  if (k' =? k) && (t' =? t) then match ctx_of k' t' tab with CtxLive => CtxCancelled | c => c end
  else ctx_of k' t' tab.
Proof.
  intros k t k' t' tab. induction tab as [|[[k0 t0] c0] tab IH]; [now destruct ((k' =? k) && (t' =? t))|].
  unfold cancel_ctx in *. cbn [map fst snd].
  destruct ((k0 =? k) && (t0 =? t)) eqn:E1; cbn [ctx_of]; destruct ((k0 =? k') && (t0 =? t')) eqn:E2.
  - apply andb_true_iff in E1. destruct E1 as [A1 A2]. apply Nat.eqb_eq in A1. apply Nat.eqb_eq in A2.
    apply andb_true_iff in E2. destruct E2 as [B1 B2]. apply Nat.eqb_eq in B1. apply Nat.eqb_eq in B2. subst.
    now rewrite !Nat.eqb_refl.
  - exact IH.
  - apply andb_true_iff in E2. destruct E2 as [B1 B2]. apply Nat.eqb_eq in B1. apply Nat.eqb_eq in B2. subst.
    now rewrite E1.
  - exact IH.
Qed.

(* the context states of tab are those of tab0, except that live contexts may have been cancelled since *)
Definition ctx_le (tab0 tab : ctxtab) : Prop :=
  forall k t, ctx_of k t tab = ctx_of k t tab0 \/ (ctx_of k t tab0 = CtxLive /\ ctx_of k t tab = CtxCancelled).

Lemma ctx_le_refl : forall tab, ctx_le tab tab.
Proof. intros tab k t. now left. Qed.

Lemma ctx_le_cancel : forall k t tab0 tab, ctx_le tab0 tab -> ctx_le tab0 (cancel_ctx k t tab).
Proof.
  intros k t tab0 tab H k' t'. rewrite ctx_of_cancel. destruct ((k' =? k) && (t' =? t)); [|apply H].
  destruct (H k' t') as [E|[E1 E2]]; destruct (ctx_of k' t' tab) eqn:Et; destruct (ctx_of k' t' tab0) eqn:E0;
    try discriminate; intuition congruence.
Qed.

(* ---- registry ---- *)

Lemma lookup_subscribe_ctx : forall c k' t' cr cr' k, subscribe_ctx c k' t' cr = Some cr' ->
  lookup k (fst cr') = if k =? k' then lookup k (fst cr) ++ [t'] else lookup k (fst cr).
Proof.
  intros c k' t' cr cr' k H. unfold subscribe_ctx, subscribe in H.
  destruct (mem t' (lookup k' (fst cr))); [discriminate|]. inversion H; subst cr'; clear H. cbn [fst].
  destruct (Nat.eqb_spec k k') as [E|E]; [subst; apply lookup_set_key_same|now apply lookup_set_key_other].
Qed.

Lemma lookup_unsubscribe_ctx : forall k' t' cr cr' k, unsubscribe_ctx k' t' cr = Some cr' ->
  lookup k (fst cr') = if k =? k' then rm t' (lookup k (fst cr)) else lookup k (fst cr).
Proof.
  intros k' t' cr cr' k H. unfold unsubscribe_ctx in H.
  destruct (unsubscribe k' t' (fst cr)) as [r'|] eqn:E; [|discriminate]. inversion H; subst cr'; clear H. cbn [fst].
  apply unsubscribe_ok in E. destruct E as (_ & Hl & Ho).
  destruct (Nat.eqb_spec k k') as [E|E]; [subst; exact Hl|now apply Ho].
Qed.

(* the registry an Unsubscribe(k,t) leaves behind - normal return or panic - does not hold t under k *)
Lemma after_unsubscribe_notin : forall k t cr,
  ~ In t (lookup k (fst (match unsubscribe_ctx k t cr with Some r => r | None => cr end))).
Proof.
  intros k t cr. unfold unsubscribe_ctx. destruct (unsubscribe k t (fst cr)) as [r'|] eqn:E; cbn [fst].
  - eapply unsubscribe_barrier_registry; eauto.
  - unfold unsubscribe in E. destruct (mem t (lookup k (fst cr))) eqn:Hm; [|now apply mem_nIn].
    destruct (rm t (lookup k (fst cr))); discriminate.
Qed.

(* the registry a Subscribe(k,t) leaves behind - normal return or duplicate panic - holds t under k *)
Lemma after_subscribe_in : forall c k t cr,
  In t (lookup k (fst (match subscribe_ctx c k t cr with Some r => r | None => cr end))).
Proof.
  intros c k t cr. destruct (subscribe_ctx c k t cr) as [cr'|] eqn:E.
  - rewrite (lookup_subscribe_ctx c k t cr cr' k E), Nat.eqb_refl. apply in_or_app. right. now left.
  - unfold subscribe_ctx, subscribe in E. destruct (mem t (lookup k (fst cr))) eqn:Hm; [now apply mem_In|discriminate].
Qed.

(* ============================================================================================================ *)
(* 2. The invariant                                                                                              *)
(* ============================================================================================================ *)

(* R relates the context table a snapshot was taken from to the current one *)
Definition Inv (R : ctxtab -> ctxtab -> Prop) (st : lstate) : Prop :=
  reg_ok (fst (reg st)) /\
  (forall f, In f (flights st) -> NoDup (map sid (f_snap f))) /\
  (forall f, In f (flights st) -> f_ended f = false ->
     exists tab0, f_snap f = subs_of (f_key f) (fst (reg st), tab0) /\ R tab0 (snd (reg st))).

Lemma Inv_init : forall R, Inv R linit.
Proof. intros R. split; [apply reg_ok_empty|]. split; intros f []. Qed.

Lemma step_Inv : forall (R : ctxtab -> ctxtab -> Prop) (okl : label -> bool),
  (forall tab, R tab tab) ->
  (forall k t tab0 tab, okl (LCtxCancel k t) = true -> R tab0 tab -> R tab0 (cancel_ctx k t tab)) ->
  forall st l st', okl l = true -> Inv R st -> step true st l = Some st' -> Inv R st'.
Proof.
  intros R okl Hrefl Hcan st l st' Hok (Hreg & Hnd & Hsnap) Hs.
  destruct l as [c k t|k t|k t|pc k|i e|i]; cbn [step negb orb] in Hs.
  - destruct (no_reader st) eqn:Hnr; [|discriminate]. inversion Hs; subst st'; clear Hs. cbn [reg flights].
    split; [|split; [exact Hnd|]].
    + unfold subscribe_ctx. destruct (subscribe k t (fst (reg st))) as [r'|] eqn:E; cbn [fst];
        [eapply subscribe_reg_ok; eauto|assumption].
    + intros f Hf He. rewrite (no_reader_spec st Hnr f Hf) in He. discriminate.
  - destruct (no_reader st) eqn:Hnr; [|discriminate]. inversion Hs; subst st'; clear Hs. cbn [reg flights].
    split; [|split; [exact Hnd|]].
    + unfold unsubscribe_ctx. destruct (unsubscribe k t (fst (reg st))) as [r'|] eqn:E; cbn [fst];
        [eapply unsubscribe_reg_ok; eauto|assumption].
    + intros f Hf He. rewrite (no_reader_spec st Hnr f Hf) in He. discriminate.
  - inversion Hs; subst st'; clear Hs. cbn [reg flights fst snd].
    split; [exact Hreg|split; [exact Hnd|]]. intros f Hf He.
    destruct (Hsnap f Hf He) as (tab0 & E & HR). exists tab0. split; [exact E|now apply Hcan].
  - inversion Hs; subst st'; clear Hs. cbn [reg flights]. split; [exact Hreg|]. split.
    + intros f Hf. apply in_app_or in Hf. destruct Hf as [Hf|[<-|[]]]; [auto|].
      cbn [f_new f_snap]. rewrite map_sid_subs_of. apply Hreg.
    + intros f Hf He. apply in_app_or in Hf. destruct Hf as [Hf|[<-|[]]]; [auto|].
      exists (snd (reg st)). cbn [f_new f_snap f_key]. split; [now destruct (reg st)|apply Hrefl].
  - destruct (nth_error (flights st) i) as [f0|] eqn:En; [|discriminate].
    destruct (f_ended f0 || f_returned f0); [discriminate|]. inversion Hs; subst st'; clear Hs. cbn [reg flights].
    split; [exact Hreg|]. split.
    + intros f Hf. apply In_upd_nth in Hf. destruct Hf as [Hf|(x & Hx & ->)]; [auto|]. cbn [f_push f_snap]. auto.
    + intros f Hf He. apply In_upd_nth in Hf. destruct Hf as [Hf|(x & Hx & ->)]; [auto|].
      cbn [f_push f_snap f_key f_ended] in *. auto.
  - destruct (nth_error (flights st) i) as [f0|] eqn:En; [|discriminate].
    destruct (negb (f_ended f0) && f_returned f0); [|discriminate]. inversion Hs; subst st'; clear Hs. cbn [reg flights].
    split; [exact Hreg|]. split.
    + intros f Hf. apply In_upd_nth in Hf. destruct Hf as [Hf|(x & Hx & ->)]; [auto|]. cbn [f_end f_snap]. auto.
    + intros f Hf He. apply In_upd_nth in Hf. destruct Hf as [Hf|(x & Hx & ->)]; [auto|].
      cbn [f_end f_ended] in He. discriminate.
Qed.

Lemma run_Inv : forall (R : ctxtab -> ctxtab -> Prop) (okl : label -> bool),
  (forall tab, R tab tab) ->
  (forall k t tab0 tab, okl (LCtxCancel k t) = true -> R tab0 tab -> R tab0 (cancel_ctx k t tab)) ->
  forall sched st st', forallb okl sched = true -> Inv R st -> run_sched true st sched = Some st' -> Inv R st'.
Proof.
  intros R okl Hrefl Hcan sched. induction sched as [|l sched IH]; intros st st' Hok HI Hr; cbn [run_sched] in Hr.
  - inversion Hr; subst. exact HI.
  - cbn [forallb] in Hok. apply andb_true_iff in Hok. destruct Hok as [Hl Hok].
    destruct (step true st l) as [st1|] eqn:Es; [|discriminate].
    apply (IH st1 st' Hok); [|exact Hr]. eapply step_Inv; eauto.
Qed.

Lemma forallb_true : forall (sched : list label), forallb (fun _ => true) sched = true.
Proof. induction sched; cbn; auto. Qed.

Lemma reach_Inv : forall sched st st', Inv ctx_le st -> run_sched true st sched = Some st' -> Inv ctx_le st'.
Proof.
  intros sched st st' HI Hr.
  apply (run_Inv ctx_le (fun _ => true) ctx_le_refl (fun k t a b _ H => ctx_le_cancel k t a b H) sched st st');
    [apply forallb_true|exact HI|exact Hr].
Qed.

(* ============================================================================================================ *)
(* 3. (a) the snapshot is the registry's, throughout the flight                                                  *)
(* ============================================================================================================ *)

(* For every schedule and every publish in flight at its end: the targets in the snapshot are exactly the targets the
   registry holds under the key NOW (no Subscribe / Unsubscribe got in between), they are distinct, and the snapshot is
   [subs_of] of the current registry with the context states of an earlier moment (live contexts may have been
   cancelled since the scan: the flight learns that through EvCancel). *)
Theorem snapshot_throughout : forall sched st, run_sched true linit sched = Some st ->
  forall f, In f (flights st) -> f_ended f = false ->
    map sid (f_snap f) = lookup (f_key f) (fst (reg st)) /\
    NoDup (map sid (f_snap f)) /\
    exists tab0, f_snap f = subs_of (f_key f) (fst (reg st), tab0) /\ ctx_le tab0 (snd (reg st)).
Proof.
  intros sched st Hr f Hf He.
  destruct (reach_Inv sched linit st (Inv_init _) Hr) as (Hreg & Hnd & Hsnap).
  destruct (Hsnap f Hf He) as (tab0 & E & HR).
  split; [rewrite E; apply (map_sid_subs_of (f_key f) (fst (reg st), tab0))|].
  split; [now apply Hnd|]. exists tab0. now split.
Qed.

(* entry by entry: who is in the snapshot, with which context *)
Corollary snapshot_entries : forall sched st, run_sched true linit sched = Some st ->
  forall f, In f (flights st) -> f_ended f = false ->
  forall s, In s (f_snap f) ->
    In (sid s) (lookup (f_key f) (fst (reg st))) /\ compat s = true /\
    (has_ctx s = false <-> ctx_of (f_key f) (sid s) (snd (reg st)) = CtxNone) /\
    (cancelled0 s = true -> ctx_of (f_key f) (sid s) (snd (reg st)) = CtxCancelled).
Proof.
  intros sched st Hr f Hf He s Hs.
  destruct (snapshot_throughout sched st Hr f Hf He) as (_ & _ & tab0 & E & HR).
  rewrite E in Hs. unfold subs_of in Hs. cbn [fst snd] in Hs. apply in_map_iff in Hs. destruct Hs as (t & Es & Ht).
  specialize (HR (f_key f) t).
  destruct (ctx_of (f_key f) t tab0) eqn:E0; subst s; cbn [sid compat has_ctx cancelled0];
    (split; [exact Ht|]); (split; [reflexivity|]);
    destruct HR as [HR|[HR1 HR2]]; try discriminate; rewrite ?HR, ?HR2; split; try tauto; try discriminate;
    try (split; intros; discriminate); intros; try reflexivity; try discriminate.
Qed.

(* without context cancellations in the schedule the snapshot IS subs_of of the current registry *)
Theorem snapshot_exact : forall sched st, forallb (fun l => negb (is_ctx_cancel l)) sched = true ->
  run_sched true linit sched = Some st ->
  forall f, In f (flights st) -> f_ended f = false -> f_snap f = subs_of (f_key f) (reg st).
Proof.
  intros sched st Hok Hr f Hf He.
  assert (HI : Inv eq st).
  { apply (run_Inv eq (fun l => negb (is_ctx_cancel l)) (fun tab => eq_refl)) with (sched := sched) (st := linit);
      [|exact Hok|apply Inv_init|exact Hr].
    intros k t a b Hc. cbn in Hc. discriminate. }
  destruct HI as (_ & _ & Hsnap). destruct (Hsnap f Hf He) as (tab0 & E & ->). rewrite E. now destruct (reg st).
Qed.

(* ============================================================================================================ *)
(* 4. Ended flights never change; flights only get appended                                                      *)
(* ============================================================================================================ *)

Lemma step_keeps_ended : forall lk st l st' i f, step lk st l = Some st' ->
  nth_error (flights st) i = Some f -> f_ended f = true -> nth_error (flights st') i = Some f.
Proof.
  intros lk st l st' i f Hs Hn He.
  destruct l as [c k t|k t|k t|pc k|n e|n]; cbn [step] in Hs.
  - destruct (negb lk || no_reader st); [|discriminate]. inversion Hs; subst st'. exact Hn.
  - destruct (negb lk || no_reader st); [|discriminate]. inversion Hs; subst st'. exact Hn.
  - inversion Hs; subst st'. exact Hn.
  - inversion Hs; subst st'. cbn [flights]. rewrite nth_error_app1; [exact Hn|]. apply nth_error_Some. congruence.
  - destruct (nth_error (flights st) n) as [f0|] eqn:En; [|discriminate].
    destruct (f_ended f0 || f_returned f0) eqn:Eb; [discriminate|]. inversion Hs; subst st'. cbn [flights].
    rewrite nth_error_upd_nth. destruct (Nat.eqb_spec i n) as [E|E]; [|exact Hn].
    subst. rewrite En in Hn. inversion Hn; subst. rewrite He in Eb. discriminate.
  - destruct (nth_error (flights st) n) as [f0|] eqn:En; [|discriminate].
    destruct (negb (f_ended f0) && f_returned f0) eqn:Eb; [|discriminate]. inversion Hs; subst st'. cbn [flights].
    rewrite nth_error_upd_nth. destruct (Nat.eqb_spec i n) as [E|E]; [|exact Hn].
    subst. rewrite En in Hn. inversion Hn; subst. rewrite He in Eb. discriminate.
Qed.

Lemma run_keeps_ended : forall lk sched st st' i f, run_sched lk st sched = Some st' ->
  nth_error (flights st) i = Some f -> f_ended f = true -> nth_error (flights st') i = Some f.
Proof.
  intros lk sched. induction sched as [|l sched IH]; intros st st' i f Hr Hn He; cbn [run_sched] in Hr.
  - inversion Hr; subst. exact Hn.
  - destruct (step lk st l) as [st1|] eqn:Es; [|discriminate].
    apply (IH st1 st' i f Hr); [|exact He]. eapply step_keeps_ended; eauto.
Qed.

(* ============================================================================================================ *)
(* 5. (b) the Unsubscribe barrier                                                                                *)
(* ============================================================================================================ *)

(* from a moment at which t is not registered under k, as long as nobody re-subscribes it: flights with index >= n1
   (those that begin later) under key k do not have t in their snapshot *)
Definition J (k t n1 : nat) (st : lstate) : Prop :=
  n1 <= length (flights st) /\
  ~ In t (lookup k (fst (reg st))) /\
  forall i f, nth_error (flights st) i = Some f -> n1 <= i -> f_key f = k -> ~ In t (map sid (f_snap f)).

Lemma step_J : forall lk k t n1 st l st', (forall c, l <> LSubscribe c k t) ->
  J k t n1 st -> step lk st l = Some st' -> J k t n1 st'.
Proof.
  intros lk k t n1 st l st' Hl (Hlen & Hreg & Hfl) Hs.
  destruct l as [c k' t'|k' t'|k' t'|pc k'|n e|n]; cbn [step] in Hs.
  - destruct (negb lk || no_reader st); [|discriminate]. inversion Hs; subst st'; clear Hs. unfold J. cbn [reg flights].
    split; [exact Hlen|split; [|exact Hfl]].
    destruct (subscribe_ctx c k' t' (reg st)) as [cr'|] eqn:E; [|exact Hreg].
    rewrite (lookup_subscribe_ctx c k' t' (reg st) cr' k E).
    destruct (Nat.eqb_spec k k') as [Ek|Ek]; [|exact Hreg]. subst k'.
    intros Hin. apply in_app_or in Hin. destruct Hin as [Hin|[Hin|[]]]; [now apply Hreg|].
    subst t'. now apply (Hl c).
  - destruct (negb lk || no_reader st); [|discriminate]. inversion Hs; subst st'; clear Hs. unfold J. cbn [reg flights].
    split; [exact Hlen|split; [|exact Hfl]].
    destruct (unsubscribe_ctx k' t' (reg st)) as [cr'|] eqn:E; [|exact Hreg].
    rewrite (lookup_unsubscribe_ctx k' t' (reg st) cr' k E).
    destruct (Nat.eqb_spec k k') as [Ek|Ek]; [|exact Hreg]. rewrite In_rm. tauto.
  - inversion Hs; subst st'; clear Hs. unfold J. cbn [reg flights fst]. now repeat split.
  - inversion Hs; subst st'; clear Hs. unfold J. cbn [reg flights]. split; [rewrite app_length; lia|split; [exact Hreg|]].
    intros i f Hn Hi Hk.
    destruct (Nat.lt_ge_cases i (length (flights st))) as [Hlt|Hge].
    + rewrite nth_error_app1 in Hn by assumption. eauto.
    + rewrite nth_error_app2 in Hn by assumption.
      destruct (i - length (flights st)) as [|j]; cbn [nth_error] in Hn; [|destruct j; discriminate].
      inversion Hn; subst f. cbn [f_new f_snap f_key] in *. subst k'. rewrite map_sid_subs_of. exact Hreg.
  - destruct (nth_error (flights st) n) as [f0|] eqn:En; [|discriminate].
    destruct (f_ended f0 || f_returned f0); [discriminate|]. inversion Hs; subst st'; clear Hs. unfold J. cbn [reg flights].
    split; [now rewrite length_upd_nth|split; [exact Hreg|]].
    intros i f Hn Hi Hk. rewrite nth_error_upd_nth in Hn. destruct (i =? n); [|eauto].
    destruct (nth_error (flights st) i) as [x|] eqn:Ex; [|discriminate]. cbn [option_map] in Hn.
    inversion Hn; subst f. cbn [f_push f_snap f_key] in *. eauto.
  - destruct (nth_error (flights st) n) as [f0|] eqn:En; [|discriminate].
    destruct (negb (f_ended f0) && f_returned f0); [|discriminate]. inversion Hs; subst st'; clear Hs. unfold J. cbn [reg flights].
    split; [now rewrite length_upd_nth|split; [exact Hreg|]].
    intros i f Hn Hi Hk. rewrite nth_error_upd_nth in Hn. destruct (i =? n); [|eauto].
    destruct (nth_error (flights st) i) as [x|] eqn:Ex; [|discriminate]. cbn [option_map] in Hn.
    inversion Hn; subst f. cbn [f_end f_snap f_key] in *. eauto.
Qed.

Lemma run_J : forall lk k t n1 sched st st', (forall c, ~ In (LSubscribe c k t) sched) ->
  J k t n1 st -> run_sched lk st sched = Some st' -> J k t n1 st'.
Proof.
  intros lk k t n1 sched. induction sched as [|l sched IH]; intros st st' Hno HJ Hr; cbn [run_sched] in Hr.
  - inversion Hr; subst. exact HJ.
  - destruct (step lk st l) as [st1|] eqn:Es; [|discriminate].
    apply (IH st1 st'); [intros c H; apply (Hno c); now right| |exact Hr].
    eapply step_J; [|exact HJ|exact Es]. intros c E. apply (Hno c). left. now symmetry.
Qed.

(* For every schedule [pre] ending with Unsubscribe(k,t) (returning normally or panicking) and every continuation
   [post] that does not subscribe (k,t) again:
     - at the moment Unsubscribe returns, no publish is in flight, and t is not registered under k;
     - the publishes that existed at that moment stay exactly as they were (they have ended: they deliver nothing more);
     - every publish under k that has delivered to t by the end of [post] is one of those: no publish that BEGINS after
       Unsubscribe returned delivers to t. *)
Theorem unsubscribe_barrier_sched : forall pre post k t st1 st,
  run_sched true linit (pre ++ [LUnsubscribe k t]) = Some st1 ->
  run_sched true st1 post = Some st ->
  (forall c, ~ In (LSubscribe c k t) post) ->
  no_reader st1 = true /\ ~ In t (lookup k (fst (reg st1))) /\
  (forall i f, nth_error (flights st1) i = Some f -> nth_error (flights st) i = Some f) /\
  (forall i f, nth_error (flights st) i = Some f -> f_key f = k -> In t (f_delivered f) ->
     nth_error (flights st1) i = Some f).
Proof.
  intros pre post k t st1 st H1 H2 Hno.
  pose proof (reach_Inv _ _ _ (Inv_init _) H1) as HI1.
  pose proof (reach_Inv _ _ _ HI1 H2) as (_ & Hnd & _).
  rewrite run_sched_app in H1. destruct (run_sched true linit pre) as [st0|] eqn:E0; [|discriminate].
  cbn [run_sched step negb orb] in H1. destruct (no_reader st0) eqn:Hnr; [|discriminate].
  inversion H1; subst st1; clear H1.
  assert (Hnr1 : no_reader {| reg := match unsubscribe_ctx k t (reg st0) with Some r => r | None => reg st0 end;
                              flights := flights st0 |} = true) by exact Hnr.
  set (st1 := {| reg := match unsubscribe_ctx k t (reg st0) with Some r => r | None => reg st0 end;
                 flights := flights st0 |}) in *.
  assert (Hreg1 : ~ In t (lookup k (fst (reg st1)))) by apply after_unsubscribe_notin.
  assert (Hkeep : forall i f, nth_error (flights st1) i = Some f -> nth_error (flights st) i = Some f).
  { intros i f Hn. eapply run_keeps_ended; eauto. apply (no_reader_spec st1 Hnr1). eapply nth_error_In; eauto. }
  split; [exact Hnr1|]. split; [exact Hreg1|]. split; [exact Hkeep|].
  intros i f Hn Hk Hdel.
  destruct (Nat.lt_ge_cases i (length (flights st1))) as [Hlt|Hge].
  - destruct (nth_error (flights st1) i) as [f1|] eqn:E1; [|apply nth_error_None in E1; lia].
    rewrite (Hkeep i f1 E1) in Hn. congruence.
  - exfalso.
    assert (HJ : J k t (length (flights st1)) st).
    { apply (run_J true k t (length (flights st1)) post st1 st Hno); [|exact H2].
      split; [lia|split; [exact Hreg1|]]. intros j g Hg Hj _. apply nth_error_None in Hj. congruence. }
    destruct HJ as (_ & _ & Hfl).
    assert (Hf : In f (flights st)) by (eapply nth_error_In; eauto).
    revert Hdel. apply outsiders_receive_nothing; [now apply Hnd|]. eapply Hfl; eauto.
Qed.

(* ============================================================================================================ *)
(* 6. (c) a Subscribe that returned is seen by every publish that begins later                                   *)
(* ============================================================================================================ *)

Lemma step_keeps_registered : forall lk k t st l st', l <> LUnsubscribe k t ->
  In t (lookup k (fst (reg st))) -> step lk st l = Some st' -> In t (lookup k (fst (reg st'))).
Proof.
  intros lk k t st l st' Hl Hin Hs.
  destruct l as [c k' t'|k' t'|k' t'|pc k'|n e|n]; cbn [step] in Hs.
  - destruct (negb lk || no_reader st); [|discriminate]. inversion Hs; subst st'; clear Hs. cbn [reg].
    destruct (subscribe_ctx c k' t' (reg st)) as [cr'|] eqn:E; [|exact Hin].
    rewrite (lookup_subscribe_ctx c k' t' (reg st) cr' k E).
    destruct (k =? k'); [apply in_or_app; now left|exact Hin].
  - destruct (negb lk || no_reader st); [|discriminate]. inversion Hs; subst st'; clear Hs. cbn [reg].
    destruct (unsubscribe_ctx k' t' (reg st)) as [cr'|] eqn:E; [|exact Hin].
    rewrite (lookup_unsubscribe_ctx k' t' (reg st) cr' k E).
    destruct (Nat.eqb_spec k k') as [Ek|Ek]; [|exact Hin]. subst k'. apply In_rm. split; [exact Hin|].
    intros Et. subst t'. now apply Hl.
  - inversion Hs; subst st'. exact Hin.
  - inversion Hs; subst st'. exact Hin.
  - destruct (nth_error (flights st) n) as [f0|]; [|discriminate].
    destruct (f_ended f0 || f_returned f0); [discriminate|]. inversion Hs; subst st'. exact Hin.
  - destruct (nth_error (flights st) n) as [f0|]; [|discriminate].
    destruct (negb (f_ended f0) && f_returned f0); [|discriminate]. inversion Hs; subst st'. exact Hin.
Qed.

Lemma run_keeps_registered : forall lk k t sched st st', ~ In (LUnsubscribe k t) sched ->
  In t (lookup k (fst (reg st))) -> run_sched lk st sched = Some st' -> In t (lookup k (fst (reg st'))).
Proof.
  intros lk k t sched. induction sched as [|l sched IH]; intros st st' Hno Hin Hr; cbn [run_sched] in Hr.
  - inversion Hr; subst. exact Hin.
  - destruct (step lk st l) as [st1|] eqn:Es; [|discriminate].
    apply (IH st1 st'); [intros H; apply Hno; now right| |exact Hr].
    eapply step_keeps_registered; [|exact Hin|exact Es]. intros E. apply Hno. left. now symmetry.
Qed.

(* For every schedule in which Subscribe(k,t) has returned (normally, or panicking because (k,t) was registered
   already), then anything but an Unsubscribe(k,t) happens, then a publish under k begins: that publish is the newest
   flight, it has consumed nothing yet, and t is in its snapshot. *)
Theorem subscribe_seen_by_later_publish : forall pre mid c k t pc st,
  run_sched true linit (pre ++ LSubscribe c k t :: mid ++ [LPubBegin pc k]) = Some st ->
  ~ In (LUnsubscribe k t) mid ->
  exists fs f, flights st = fs ++ [f] /\ f_key f = k /\ f_pc f = pc /\ f_hist f = [] /\ f_ended f = false /\
               In t (map sid (f_snap f)) /\ map sid (f_snap f) = lookup k (fst (reg st)).
Proof.
  intros pre mid c k t pc st Hr Hno.
  rewrite run_sched_app in Hr. destruct (run_sched true linit pre) as [st0|]; [|discriminate].
  cbn [run_sched] in Hr. destruct (step true st0 (LSubscribe c k t)) as [st1|] eqn:E1; [|discriminate].
  rewrite run_sched_app in Hr. destruct (run_sched true st1 mid) as [st2|] eqn:E2; [|discriminate].
  cbn [run_sched step] in Hr. inversion Hr; subst st; clear Hr.
  exists (flights st2), (f_new pc k (reg st2)). cbn [flights reg f_new f_key f_pc f_hist f_ended f_snap].
  repeat (split; [reflexivity|]). rewrite map_sid_subs_of. split; [|reflexivity].
  apply (run_keeps_registered true k t mid st1 st2 Hno); [|exact E2].
  cbn [step negb orb] in E1. destruct (no_reader st0); [|discriminate]. inversion E1; subst st1. cbn [reg].
  apply after_subscribe_in.
Qed.

(* ============================================================================================================ *)
(* 7. Without the write-lock exclusion                                                                           *)
(* ============================================================================================================ *)

(* Same machine, Subscribe / Unsubscribe enabled while a publish is in flight: Unsubscribe(1,10) returns while a
   publish under key 1 is in flight, whose snapshot still holds 10 - it no longer matches the registry - and that
   publish then delivers to 10 AFTER Unsubscribe has returned.  With the lock the schedule is not enabled. *)
Definition get_st (o : option lstate) : lstate := match o with Some s => s | None => linit end.
Definition unl_sched : list label := [LSubscribe CtxNone 1 10; LPubBegin false 1].
Definition unl_st1 : lstate := Eval vm_compute in get_st (run_sched false linit (unl_sched ++ [LUnsubscribe 1 10])).
Definition unl_st2 : lstate := Eval vm_compute in get_st (step false unl_st1 (LPubStep 0 (EvReady 10))).

Theorem unlocked_refuted : exists sched e st1 st2,
  run_sched false linit (sched ++ [LUnsubscribe 1 10]) = Some st1 /\
  step false st1 (LPubStep 0 e) = Some st2 /\
  map f_ended (flights st1) = [false] /\
  map (fun f => map sid (f_snap f)) (flights st1) = [[10]] /\ lookup 1 (fst (reg st1)) = [] /\
  map f_delivered (flights st1) = [[]] /\ map f_delivered (flights st2) = [[10]] /\
  run_sched true linit (sched ++ [LUnsubscribe 1 10]) = None.
Proof. exists unl_sched, (EvReady 10), unl_st1, unl_st2. vm_compute. repeat split; reflexivity. Qed.

(* ============================================================================================================ *)
(* 8. Non-vacuity: two concurrent publishes, a cancellation in between, the barrier, a later publish              *)
(* ============================================================================================================ *)

Definition demo_pre : list label :=
  [LSubscribe CtxNone 1 10; LSubscribe CtxLive 1 11; LSubscribe CtxNone 2 10;
   LPubBegin false 1; LPubBegin true 1; LPubStep 0 (EvReady 11); LCtxCancel 1 11; LPubStep 1 (EvCancel 11);
   LPubStep 0 (EvReady 10); LPubStep 1 (EvReady 10); LPubEnd 1; LPubEnd 0].
Definition demo_post : list label :=
  [LPubBegin false 1; LPubBegin false 2; LPubStep 3 (EvReady 10); LPubEnd 3].
Definition demo_st1 : lstate := Eval vm_compute in get_st (run_sched true linit (demo_pre ++ [LUnsubscribe 1 10])).
Definition demo_st : lstate := Eval vm_compute in get_st (run_sched true demo_st1 demo_post).

Example lock_demo :
  run_sched true linit (demo_pre ++ [LUnsubscribe 1 10]) = Some demo_st1 /\
  run_sched true demo_st1 demo_post = Some demo_st /\
  (forall c, ~ In (LSubscribe c 1 10) demo_post) /\
  map f_delivered (flights demo_st1) = [[11; 10]; [10]] /\
  map f_delivered (flights demo_st) = [[11; 10]; [10]; []; [10]] /\    (* key 2 still delivers to 10, key 1 does not *)
  map f_ended (flights demo_st) = [true; true; false; true] /\
  map (fun f => map sid (f_snap f)) (flights demo_st) = [[10; 11]; [10; 11]; [11]; [10]] /\
  map (fun f => map cancelled0 (f_snap f)) (flights demo_st) = [[false; false]; [false; false]; [true]; [false]].
Proof.
  split; [vm_compute; reflexivity|]. split; [vm_compute; reflexivity|].
  split; [intros c H; cbn in H; intuition discriminate|]. vm_compute. repeat split; reflexivity.
Qed.

(* a writer is blocked while a publish is in flight *)
Example writer_blocked :
  run_sched true linit [LSubscribe CtxNone 1 10; LPubBegin false 1; LUnsubscribe 1 10] = None /\
  run_sched true linit [LSubscribe CtxNone 1 10; LPubBegin false 1; LSubscribe CtxNone 1 11] = None /\
  run_sched true linit [LSubscribe CtxNone 1 10; LPubBegin false 1; LPubEnd 0] = None /\
  exists st, run_sched true linit [LSubscribe CtxNone 1 10; LPubBegin false 1; LPubStep 0 (EvReady 10); LPubEnd 0;
                                   LUnsubscribe 1 10] = Some st.
Proof. repeat split; try reflexivity. eexists. reflexivity. Qed.

Example subscribe_seen_ex :
  exists st, run_sched true linit ([LSubscribe CtxNone 1 10] ++ LSubscribe CtxLive 1 11 ::
                                   [LUnsubscribe 1 10; LCtxCancel 1 11] ++ [LPubBegin true 1]) = Some st.
Proof. eexists. reflexivity. Qed.

Print Assumptions snapshot_throughout.
Print Assumptions snapshot_entries.
Print Assumptions snapshot_exact.
Print Assumptions unsubscribe_barrier_sched.
Print Assumptions subscribe_seen_by_later_publish.
Print Assumptions unlocked_refuted.
