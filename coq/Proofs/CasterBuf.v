(* Buffered ChanCaster (Model/CasterBuf.v): the two regimes in which the protocol is safe, with ONE inductive
   invariant for both:

     regime A  cbuf = 0 (unbuffered), idle receivers may give up with Add(-1)      - the setting of Model/CasterAbs.v
     regime B  any capacity cbuf, idle receivers never give up ([dg] = false)

   In both: none of the code's panics fires, every Send returns (with the copies absorbed during it) exactly the
   count it armed with, the word is 0 afterwards, the values received plus the values still buffered are the sum of
   the Sends' return values, every buffered value has a registered receiver waiting for it, and no call blocks for
   ever.  In regime A moreover nothing is ever buffered, nobody is stale, and no value reaches the wrong taker.
   Outside these regimes (cbuf > 0 and giving up allowed) the protocol is NOT safe: Proofs/CasterBufRefute.v.
   That the model at cbuf = 0 is the protocol of Model/CasterAbs.v step for step: Proofs/CasterBufSim.v. *)
From Coq Require Import List Arith Lia Bool ZifyBool.
From BB.Model Require Import CasterAbs CasterBuf.
Import ListNotations.
Arguments Nat.sub : simpl never. Arguments Nat.ltb : simpl never. Arguments Nat.leb : simpl never.
Arguments Nat.eqb : simpl never. Arguments Nat.mul : simpl never. Arguments Nat.add : simpl never.

Definition regime (cbuf : nat) (dg : bool) : Prop := cbuf = 0 \/ dg = false.

Definition commonB (f : var -> nat) : Prop := f bad = 0 /\ f r = f u1 + f u2.

Definition lockB (c : spc) (f : var -> nat) : Prop :=
  match c with
  | S4 | S6 | S7 | S7c | S8 => f w = 1 /\ f wp = 0 /\ f r = 0
  | S3 => f w = 0 /\ f wp = 1
  | SNone => f w = 0 /\ f wp = 0
  end.

Definition phaseB (c : spc) (f : var -> nat) (x : ext) : Prop :=
  match c with
  | SNone | S3 | S4 =>
      f armed = 0 /\ qc x = 0 /\ f b0o = 0 /\ f n5 = 0 /\ f cnt = f u2 + f b0n + pre x /\ qo x + pre x = b0s x /\
      f got + qo x = f retsum
  | S6 =>
      f armed = 1 /\ f b0n = 0 /\ pre x = 0 /\ f k + qc x + qo x = f b0o + b0s x + f n5 /\ f cnt = f b0o + f dlv /\
      f reg0 = f cnt + f n5 + f absd /\ f got + qo x + qc x + f k + f absd = f retsum + f reg0
  | S7 =>
      f armed = 1 /\ f b0n = 0 /\ pre x = 0 /\ f k = 0 /\ f n5 = 0 /\ qc x + qo x = f b0o + b0s x /\
      f cnt = f b0o + f dlv /\ f reg0 = f cnt + f absd /\ f got + qo x + qc x + f absd = f retsum + f reg0
  | S7c =>
      f armed = 1 /\ f b0n = 0 /\ pre x = 0 /\ f k = 0 /\ f n5 = 0 /\ qc x + qo x = f b0o + b0s x /\
      f cnt = f b0o + f dlv /\ f reg0 = f cnt + f absd /\ f got + qo x + qc x + f absd = f retsum + f reg0 /\
      f ret = f cnt
  | S8 =>
      f armed = 0 /\ f cnt = 0 /\ f b0n = 0 /\ f b0o = 0 /\ f n5 = 0 /\ pre x = 0 /\ qc x = 0 /\ qo x = b0s x /\
      f ret + f absd = f reg0 /\ f got + qo x = f retsum + f ret
  end.

(* what is special to each regime *)
Definition regA (cbuf : nat) (c : spc) (f : var -> nat) (x : ext) : Prop :=
  cbuf = 0 -> qo x = 0 /\ qc x = 0 /\ b0s x = 0 /\ pre x = 0 /\ misd x = 0 /\ f stolen = 0 /\
              match c with S8 => f ret = f dlv | _ => True end.
Definition regB (dg : bool) (f : var -> nat) : Prop :=
  dg = false -> f n5 = 0 /\ f absd = 0.

Definition CInvB (cbuf : nat) (dg : bool) (c : spc) (f : var -> nat) (x : ext) : Prop :=
  commonB f /\ lockB c f /\ phaseB c f x /\ regA cbuf c f x /\ regB dg f.

Definition InvB (cbuf : nat) (dg : bool) (s : bst) : Prop := CInvB cbuf dg (bsp s) (bv s) (bx s).

Ltac brk_hyp H :=
  repeat match type of H with
         | context [if ?b then _ else _] =>
             let E := fresh "E" in destruct b eqn:E; cbv beta iota in H; try discriminate H
         end.
Ltac red_all := cbn [set var_beq qo qc b0s pre misd pop with_b0s with_pre with_misd] in *.
Ltac brk_goal :=
  repeat match goal with
         | |- context [if ?b then _ else _] => let E := fresh "E" in destruct b eqn:E; red_all
         end.
Ltac regime_hyps :=
  repeat match goal with
         | H : 0 = 0 -> _ |- _ => specialize (H eq_refl)
         | H : false = false -> _ |- _ => specialize (H eq_refl)
         | H : true = false -> _ |- _ => clear H
         end.
Ltac fin_b :=
  unfold CInvB, commonB, lockB, phaseB, regA, regB, pop, pos in *; red_all; brk_goal; regime_hyps;
  repeat match goal with |- _ /\ _ => split end;
  try (intros; discriminate); intros; lia.

(* [Hs] : bstep ... = Some (c', f', x') with the pick already concrete *)
Ltac open_b Hs :=
  unfold bstep, via_cstep, cstep, dereg, mk, pos, rlockable, qlen in Hs; cbn [fl_absorb fl_rlock good] in Hs;
  cbn [qo qc b0s pre misd] in Hs.
Ltac close_b Hs c :=
  destruct c; try discriminate Hs; brk_hyp Hs; injection Hs as <- <- <-; fin_b.

Lemma base_CInvB cbuf dg c f x b c' f' x' : regime cbuf dg -> CInvB cbuf dg c f x ->
  bstep cbuf good dg c f x (QBase b) = Some (c', f', x') -> CInvB cbuf dg c' f' x'.
Proof.
  intros HR HI Hs. destruct x as [xo xc xs xp xm].
  destruct HR as [-> | ->]; destruct b; open_b Hs.
  all: try (destruct dg); close_b Hs c.
Qed.

Lemma ext_CInvB cbuf dg c f x p c' f' x' : regime cbuf dg -> CInvB cbuf dg c f x ->
  (forall b, p <> QBase b) ->
  bstep cbuf good dg c f x p = Some (c', f', x') -> CInvB cbuf dg c' f' x'.
Proof.
  intros HR HI Hp Hs. destruct x as [xo xc xs xp xm].
  destruct p as [b| | | | | | | ]; [exfalso; exact (Hp b eq_refl)|..];
    destruct HR as [-> | ->]; open_b Hs.
  all: try (destruct dg); close_b Hs c.
Qed.

Lemma bstep_CInvB cbuf dg c f x p c' f' x' : regime cbuf dg -> CInvB cbuf dg c f x ->
  bstep cbuf good dg c f x p = Some (c', f', x') -> CInvB cbuf dg c' f' x'.
Proof.
  intros HR HI Hs. destruct p as [b| | | | | | | ].
  - eapply base_CInvB; eassumption.
  - eapply ext_CInvB; try eassumption; intros b; discriminate.
  - eapply ext_CInvB; try eassumption; intros b; discriminate.
  - eapply ext_CInvB; try eassumption; intros b; discriminate.
  - eapply ext_CInvB; try eassumption; intros b; discriminate.
  - eapply ext_CInvB; try eassumption; intros b; discriminate.
  - eapply ext_CInvB; try eassumption; intros b; discriminate.
  - eapply ext_CInvB; try eassumption; intros b; discriminate.
Qed.

Lemma InvB_binit : forall cbuf dg senders receivers, InvB cbuf dg (binit senders receivers).
Proof.
  intros cbuf dg senders receivers.
  unfold InvB, binit, CInvB, commonB, lockB, phaseB, regA, regB, ext0. cbn. repeat split; lia.
Qed.

Lemma InvB_step : forall cbuf dg s p s', regime cbuf dg -> InvB cbuf dg s ->
  bstep_st cbuf good dg s p = Some s' -> InvB cbuf dg s'.
Proof.
  intros cbuf dg [c f x] p s' HR HI Hs. unfold bstep_st in Hs. cbn [bsp bv bx] in Hs. unfold InvB in *.
  cbn [bsp bv bx] in HI.
  destruct (bstep cbuf good dg c f x p) as [[[c' f'] x']|] eqn:Hb; [|discriminate Hs].
  injection Hs as <-. cbn [bsp bv bx]. eapply bstep_CInvB; eassumption.
Qed.

Lemma InvB_brun_from : forall cbuf dg sched s, regime cbuf dg -> InvB cbuf dg s ->
  InvB cbuf dg (brun cbuf good dg s sched).
Proof.
  intros cbuf dg. induction sched as [|p rest IH]; intros s HR HI; [exact HI|].
  cbn [brun]. apply IH; [exact HR|].
  destruct (bstep_st cbuf good dg s p) as [s'|] eqn:Hs; [eapply InvB_step; eassumption | exact HI].
Qed.

Lemma InvB_brun : forall cbuf dg senders receivers sched, regime cbuf dg ->
  InvB cbuf dg (brun cbuf good dg (binit senders receivers) sched).
Proof. intros. apply InvB_brun_from; [assumption|apply InvB_binit]. Qed.

Print Assumptions InvB_brun.
