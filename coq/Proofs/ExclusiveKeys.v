(* Further proofs about the Exclusive counter abstraction: (A) one key — an ExecStart happens only when the previous
   work function has RETURNED; every call is followed by an ExecStart; (B) two keys — the frame property of the product
   model Model/ExclusiveKeys.v. *)
From Coq Require Import List Arith Lia Bool ZifyBool.
From BB.Model Require Import ExclusiveAbs ExclusiveKeys.
From BB.Proofs Require Import ExclusiveAbs.
Import ListNotations.
Arguments Nat.sub : simpl never. Arguments Nat.ltb : simpl never. Arguments Nat.leb : simpl never.
Arguments Nat.eqb : simpl never. Arguments Nat.mul : simpl never.

(* ========================================================================================================== *)
(* A. One key                                                                                                 *)

(* no work function is between its start and its return: the runner pc is RNone or RSleep -- in particular NOT
   RWorkRes (resolved, not yet returned) and NOT RDone (returned, successor not yet released) *)
Definition idle (r : rpc) : bool := match r with RNone | RSleep => true | _ => false end.

(* calls that have been made and still owe an ExecStart: not yet attached, or attached to the map item *)
Definition pend (f : var -> nat) : nat := f c2mc + f c2ms + f c2sc + f c2ss + f mcount.

(* before the first ExecStart every issued call is still pending (attaches are all counted by the one item) *)
Definition J (f : var -> nat) : Prop := f started = 0 -> f issuedc + f issueds = pend f.

Lemma cstep_facts r f b e r' f' :
  Invc r f -> cstep good r f b = Some (e, r', f') ->
  f started <= f' started /\
  (f' started = S (f started) \/ f' started = f started) /\
  (f' started = S (f started) -> f execa = 0 /\ idle r = true) /\
  (pend f >= 1 -> f' started = f started -> pend f' >= 1) /\
  (match b with PCall _ => pend f' >= 1 | PAttach _ _ => pend f >= 1 | _ => True end) /\
  (J f -> J f').
Proof.
  intros HI HS.
  destruct b as [k|k|k sl|k sl| | | | |k]; try destruct k; try destruct sl; destruct r;
    open_cstep HS; split_ifs HS; try discriminate HS;
    injection HS as <- <- <-;
    unfold Invc, phase, J, pend in *; cbn [set var_beq isSleep owes idle] in *; cbv beta iota;
    (split; [|split; [|split; [|split; [|split]]]]); try exact I; intros; lia.
Qed.

Lemma J_init a b : J (v (init a b)).
Proof. unfold J, pend, init; cbn [v]. lia. Qed.

(* C09, step form: the step that starts an execution leaves a state in which the previous work function has returned *)
Theorem exec_start_after_return : forall a b sched p s',
  let s := run (init a b) sched in
  step s p = Some s' -> v s' started <> v s started ->
  v s' started = S (v s started) /\ v s execa = 0 /\ idle (rp s) = true.
Proof.
  intros a b sched p s' s HS HN. pose proof (Inv_run a b sched) as HI. fold s in HI.
  apply step_proj in HS. destruct HS as [e HS].
  pose proof (cstep_facts _ _ _ _ _ _ HI HS) as HF. lia.
Qed.

Lemma started_mono_run s sched : Inv s -> v s started <= v (run s sched) started.
Proof.
  revert s. induction sched as [|p rest IH]; intros s HI; [cbn; lia|].
  unfold run in *. cbn [run_gen]. fold step. destruct (step s p) as [s'|] eqn:HS; [|apply IH; exact HI].
  pose proof (Inv_step _ _ _ HI HS) as HI'. specialize (IH s' HI').
  apply step_proj in HS. destruct HS as [e HS]. pose proof (cstep_facts _ _ _ _ _ _ HI HS) as HF. lia.
Qed.

Lemma pending_discharged s sched :
  Inv s -> pend (v s) >= 1 -> terminalb (run s sched) = true -> v s started < v (run s sched) started.
Proof.
  revert s. induction sched as [|p rest IH]; intros s HI HP HT.
  - exfalso. unfold run in HT. cbn [run_gen] in HT. pose proof (proj1 (terminalb_spec s) HT) as HN.
    pose proof (terminal_all_answered_no_residue s HI HN) as HR. unfold pend in HP. unfold in_flight in HR. lia.
  - unfold run in *. cbn [run_gen] in *. fold step in *. destruct (step s p) as [s'|] eqn:HS; [|apply IH; assumption].
    pose proof (Inv_step _ _ _ HI HS) as HI'.
    apply step_proj in HS. destruct HS as [e HS]. pose proof (cstep_facts _ _ _ _ _ _ HI HS) as HF.
    destruct HF as (_ & [HF1|HF1] & _ & HF3 & _).
    + pose proof (started_mono_run s' rest HI') as HM. unfold run in HM. lia.
    + specialize (IH s' HI' (HF3 HP HF1) HT). lia.
Qed.

(* C10: every call -- of either style, so in particular every Start/StartAfter, escaping or not -- is followed by an
   ExecStart that happens after the call's first step, on every continuation that runs to completion ... *)
Theorem call_followed_by_exec : forall a b sched1 k p s' sched2,
  let s := run (init a b) sched1 in
  untag p = PCall k -> step s p = Some s' -> terminalb (run s' sched2) = true ->
  v s started < v (run s' sched2) started.
Proof.
  intros a b sched1 k p s' sched2 s HU HS HT. pose proof (Inv_run a b sched1) as HI. fold s in HI.
  pose proof (Inv_step _ _ _ HI HS) as HI'.
  apply step_proj in HS. destruct HS as [e HS]. rewrite HU in HS.
  pose proof (cstep_facts _ _ _ _ _ _ HI HS) as HF. cbv beta iota in HF.
  pose proof (pending_discharged s' sched2 HI' (proj1 (proj2 (proj2 (proj2 (proj2 HF))))) HT). lia.
Qed.

(* ... likewise after its attach (the step in which a start-style call may take the escape hatch) ... *)
Theorem attach_followed_by_exec : forall a b sched1 k sl p s' sched2,
  let s := run (init a b) sched1 in
  untag p = PAttach k sl -> step s p = Some s' -> terminalb (run s' sched2) = true ->
  v s started < v (run s' sched2) started.
Proof.
  intros a b sched1 k sl p s' sched2 s HU HS HT. pose proof (Inv_run a b sched1) as HI. fold s in HI.
  pose proof (Inv_step _ _ _ HI HS) as HI'.
  apply step_proj in HS. destruct HS as [e HS]. rewrite HU in HS.
  pose proof (cstep_facts _ _ _ _ _ _ HI HS) as HF. cbv beta iota in HF.
  destruct HF as (_ & [HF1|HF1] & _ & HF3 & HF4 & _).
  - pose proof (started_mono_run s' sched2 HI'). lia.
  - pose proof (pending_discharged s' sched2 HI' (HF3 HF4 HF1) HT). lia.
Qed.

Lemma forallb_false_ex (A : Type) (g : A -> bool) (l : list A) : forallb g l = false -> exists x, g x = false.
Proof.
  induction l as [|x rest IH]; cbn [forallb]; [discriminate|]. intros H.
  destruct (g x) eqn:Hx; [apply IH; exact H|exists x; exact Hx].
Qed.

(* ... and every run can be continued to completion (and every maximal run is finite: step_terminates) *)
Theorem terminal_reachable : forall s, exists sched, terminalb (run s sched) = true.
Proof.
  intros s. induction s as [s IH] using (well_founded_induction step_terminates).
  destruct (terminalb s) eqn:HT; [exists []; exact HT|].
  assert (HE : exists p s', step s p = Some s').
  { unfold terminalb, terminalb_gen in HT. fold step in HT.
    destruct (forallb_false_ex _ _ _ HT) as (p & HP). exists p.
    destruct (step s p) as [s'|]; [exists s'; reflexivity|discriminate HP]. }
  destruct HE as (p & s' & HS). destruct (IH s' (ex_intro _ p HS)) as [sched Hs].
  exists (p :: sched). unfold run in *. cbn [run_gen]. fold step. rewrite HS. exact Hs.
Qed.

(* counting form: a finished run that made any call contains at least one execution *)
Lemma J_run s sched : Inv s -> J (v s) -> J (v (run s sched)).
Proof.
  revert s. induction sched as [|p rest IH]; intros s HI HJ; [exact HJ|].
  unfold run in *. cbn [run_gen]. fold step. destruct (step s p) as [s'|] eqn:HS; [|apply IH; assumption].
  pose proof (Inv_step _ _ _ HI HS) as HI'. apply IH; [exact HI'|].
  apply step_proj in HS. destruct HS as [e HS]. pose proof (cstep_facts _ _ _ _ _ _ HI HS) as HF. tauto.
Qed.

Theorem terminal_calls_imply_exec : forall a b sched,
  let s := run (init a b) sched in
  terminalb s = true -> v s issuedc + v s issueds >= 1 -> v s started >= 1.
Proof.
  intros a b sched s HT HC. pose proof (Inv_run a b sched) as HI. fold s in HI.
  pose proof (J_run (init a b) sched (Inv_init a b) (J_init a b)) as HJ. fold s in HJ.
  pose proof (terminal_all_answered_no_residue s HI (proj1 (terminalb_spec s) HT)) as HR.
  unfold J, pend in HJ. unfold in_flight in HR. lia.
Qed.

(* ========================================================================================================== *)
(* B. Two keys                                                                                                *)

Lemma run2_proj : forall sched s, run2 s sched = (run (fst s) (proj K1 sched), run (snd s) (proj K2 sched)).
Proof.
  induction sched as [|[k p] rest IH]; intros [s1 s2]; [reflexivity|].
  cbn [run2]. unfold step2, proj. cbn [fst snd comp filter].
  destruct k; cbn [key_eqb map comp fst snd]; unfold run; cbn [run_gen]; fold step.
  - destruct (step s1 p) as [x|]; cbn [put fst snd]; rewrite IH; reflexivity.
  - destruct (step s2 p) as [x|]; cbn [put fst snd]; rewrite IH; reflexivity.
Qed.

(* each key of the product behaves exactly as the one-key model run on its own picks *)
Theorem keys_independent : forall a1 b1 a2 b2 sched,
  let s := run2 (init2 a1 b1 a2 b2) sched in
  fst s = run (init a1 b1) (proj K1 sched) /\ snd s = run (init a2 b2) (proj K2 sched).
Proof. intros a1 b1 a2 b2 sched s. unfold s. rewrite run2_proj. split; reflexivity. Qed.

(* whatever the other key does or fails to do (for instance a work function that never resolves or returns: no
   PResolve/PReturn pick of that key is ever scheduled), it changes neither the enabledness nor the effect of a pick
   of this key *)
Theorem other_key_never_interferes : forall (k : key) (s : st2) (sched : list pick2) (p : pick),
  (forall q, In q sched -> fst q <> k) ->
  comp k (run2 s sched) = comp k s /\
  step2 (run2 s sched) (k, p) =
    match step (comp k s) p with Some x => Some (put k x (run2 s sched)) | None => None end.
Proof.
  intros k s sched p HN.
  assert (HC : comp k (run2 s sched) = comp k s).
  { rewrite run2_proj. assert (HP : proj k sched = []).
    { unfold proj. induction sched as [|q rest IH]; [reflexivity|]. cbn [filter].
      assert (Hq : key_eqb (fst q) k = false).
      { specialize (HN q (or_introl eq_refl)). destruct (fst q), k; try reflexivity; exfalso; apply HN; reflexivity. }
      rewrite Hq. apply IH. intros q' Hin. apply HN. right. exact Hin. }
    destruct k; cbn [comp fst snd]; rewrite HP; reflexivity. }
  split; [exact HC|]. unfold step2. cbn [fst snd]. rewrite HC. reflexivity.
Qed.

Corollary keys_invariant : forall a1 b1 a2 b2 sched,
  let s := run2 (init2 a1 b1 a2 b2) sched in
  Inv (fst s) /\ Inv (snd s) /\ v (fst s) overlap = 0 /\ v (snd s) overlap = 0.
Proof.
  intros a1 b1 a2 b2 sched s. destruct (keys_independent a1 b1 a2 b2 sched) as [H1 H2]. fold s in H1, H2.
  rewrite H1, H2.
  pose proof (Inv_run a1 b1 (proj K1 sched)) as I1. pose proof (Inv_run a2 b2 (proj K2 sched)) as I2.
  split; [exact I1|]. split; [exact I2|]. unfold Inv, Invc in I1, I2. lia.
Qed.

(* key K1's work function is held for ever in RWork; meanwhile a call on K2 is made, executed and answered *)
Example held_key_does_not_delay_other_key :
  let s := run2 (init2 1 0 1 0)
             [(K1, PB (PCall KC)); (K1, PB (PAttach KC false));
              (K2, PB (PCall KC)); (K2, PB (PAttach KC false)); (K2, PB PResolve); (K2, PB PReturn); (K2, PB PG3)] in
  rp (fst s) = RWork /\ v (fst s) answered = 0 /\
  terminalb (snd s) = true /\ v (snd s) answered = 1 /\ v (snd s) started = 1.
Proof. vm_compute. auto 10. Qed.

Example call_followed_hyps_satisfiable :
  let s := run (init 1 1) [PB (PCall KC); PB (PAttach KC true)] in
  let s' := run s [PB (PCall KS)] in
  let t := run s' [PB (PAttach KS false); PB PSleepDone; PB PResolve; PB PReturn; PB PG3] in
  v s' issueds = 1 /\ terminalb t = true /\ v t escaped = 1 /\ v s started = 0 /\ v t started = 1.
Proof. vm_compute. auto 10. Qed.

Print Assumptions exec_start_after_return.
Print Assumptions call_followed_by_exec.
Print Assumptions attach_followed_by_exec.
Print Assumptions terminal_reachable.
Print Assumptions terminal_calls_imply_exec.
Print Assumptions keys_independent.
Print Assumptions other_key_never_interferes.
Print Assumptions keys_invariant.
