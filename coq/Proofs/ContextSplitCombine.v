(* CombineContext in the split model (Model/ContextSplit.v): every C16 CombineContext theorem re-proved for
   scombine_step, plus progress and "quiescence is reached". *)
From Coq Require Import List Arith Bool Lia.
From BB.Model Require Import Context ContextSplit.
From BB.Proofs Require Import Context ContextSplit.
Import ListNotations.

Arguments Nat.sub : simpl never.
Arguments Nat.eqb : simpl never.
Arguments Nat.ltb : simpl never.
Arguments Nat.leb : simpl never.

(* the node's ancestor list starts with the node itself *)
Definition selfhd (ns : list node) (p : nat) : Prop := hd_error (anc_of ns p) = Some p.
Definition HdP (primary : option nat) (ns : list node) : Prop := forall p, primary = Some p -> selfhd ns p.

(* the result node R is a child of P (the atomic model's Rdef without "P cancelled => R cancelled") *)
Definition SRdef (nenv : nat) (ns : list node) (P R : nat) : Prop :=
  R < length ns /\ nenv <= R /\ P < R /\ anc_of ns R = R :: anc_of ns P /\ vals_of ns R = vals_of ns P.

Lemma selfhd_mark1 ns n p : selfhd (updf ns n mark1) p <-> selfhd ns p.
Proof. unfold selfhd. rewrite anc_of_mark1. tauto. Qed.

Lemma HdP_mark1 primary ns n : HdP primary (updf ns n mark1) <-> HdP primary ns.
Proof.
  unfold HdP. split; intros H p Hp.
  - apply (proj1 (selfhd_mark1 ns n p)). auto.
  - apply (proj2 (selfhd_mark1 ns n p)). auto.
Qed.

Lemma HdP_snoc primary nenv ns y :
  (forall p, primary = Some p -> p < nenv) -> nenv <= length ns -> HdP primary (ns ++ [y]) -> HdP primary ns.
Proof.
  intros Hw Hl H p Hp. specialize (H p Hp). unfold selfhd in *. rewrite anc_of_snoc_old in H; [exact H|]. specialize (Hw p Hp). lia.
Qed.

Lemma Pdef_mark1 primary nenv ns P n :
  n <> nenv \/ primary <> None -> Pdef primary nenv ns P -> Pdef primary nenv (updf ns n mark1) P.
Proof.
  intros Hn [Hl H]. split; [rewrite length_updf; exact Hl|]. destruct primary as [p|]; [exact H|].
  destruct H as (HP & Hlt & Ha & Hk & Hv). rewrite length_updf, anc_of_mark1, vals_of_mark1.
  repeat (split; [assumption|]). split; [|exact Hv].
  rewrite is_canc_mark1_other; [exact Hk|]. destruct Hn as [Hn|Hn]; congruence.
Qed.

Lemma SRdef_mark1 nenv ns P R n : SRdef nenv ns P R -> SRdef nenv (updf ns n mark1) P R.
Proof.
  intros (A & B & C & D & E). unfold SRdef. rewrite length_updf, !anc_of_mark1, !vals_of_mark1. auto.
Qed.

Lemma Pdef_selfhd primary nenv ns P : Pdef primary nenv ns P -> HdP primary ns -> selfhd ns P.
Proof.
  intros [_ H] Hh. destruct primary as [p|].
  - destruct H as [-> _]. apply Hh. reflexivity.
  - destruct H as (-> & _ & Ha & _). unfold selfhd. rewrite Ha. reflexivity.
Qed.

Lemma SRdef_par nenv ns P R : SRdef nenv ns P R -> selfhd ns P -> par_of ns R = Some P.
Proof.
  intros (_ & _ & _ & Ha & _) Hh. unfold par_of. rewrite Ha. unfold selfhd in Hh.
  destruct (anc_of ns P) as [|q t]; [discriminate|]. cbn in Hh. congruence.
Qed.

(* WithCancel(P) *)
Lemma SRdef_child primary nenv ns P : Pdef primary nenv ns P -> SRdef nenv (nodes (w_child (init_world ns) P)) P (length ns).
Proof.
  intros HP. pose proof (Pdef_lt _ _ _ _ HP) as Hlt. destruct HP as [Hl _].
  cbn [w_child w_addnode init_world nodes]. unfold SRdef.
  rewrite app_length, anc_of_snoc_new, vals_of_snoc_new. cbn [length anc vals].
  rewrite anc_of_snoc_old, vals_of_snoc_old by exact Hlt.
  repeat (split; [first [lia|reflexivity]|]). reflexivity.
Qed.

Definition SNInv (primary : option nat) (others : list (option nat)) (nenv : nat) (s : bst) : Prop :=
  let ns := nodes (bw s) in
  let K := HdP primary ns -> is_canc ns (bR s) = true -> src primary others ns in
  match bpcv s with
  | BStart => length ns = nenv
  | BCheck i n => Pdef primary nenv ns (bP s) /\ (n = 0 -> forall j o, j < i -> nth_error others j <> Some (Some o))
  | BEarlyNew => Pdef primary nenv ns (bP s) /\ src primary others ns
  | BNew => Pdef primary nenv ns (bP s)
  | BRetP r => (exists p, primary = Some p /\ r = p /\ is_canc ns r = true) \/
               (r = bP s /\ Pdef primary nenv ns (bP s) /\ forall o, ~ In (Some o) others)
  | BEarlyCancel => Pdef primary nenv ns (bP s) /\ SRdef nenv ns (bP s) (bR s) /\ src primary others ns
  | BRetE r => r = bR s /\ Pdef primary nenv ns (bP s) /\ SRdef nenv ns (bP s) (bR s) /\ src primary others ns /\
               is_canc ns r = true
  | BReg _ | BStop => Pdef primary nenv ns (bP s) /\ SRdef nenv ns (bP s) (bR s) /\ K
  | BRetN r => r = bR s /\ Pdef primary nenv ns (bP s) /\ SRdef nenv ns (bP s) (bR s) /\ K
  end.

Definition SCInv primary others nenv (s : bst) : Prop :=
  SWInv (bw s) /\ SNInv primary others nenv s /\ GInv others s /\ RC others s.

Lemma SNInv_R primary others nenv s :
  SNInv primary others nenv s -> phaseR (bpcv s) = true ->
  Pdef primary nenv (nodes (bw s)) (bP s) /\ SRdef nenv (nodes (bw s)) (bP s) (bR s).
Proof.
  intros HN Hph. unfold SNInv in HN. destruct (bpcv s); try discriminate; intuition.
Qed.

(* marking one node: not the Background node, and the result node only with a reason *)
Lemma SNInv_mark primary others nenv s n :
  SNInv primary others nenv s ->
  (n <> nenv \/ primary <> None) ->
  (n = bR s -> phaseR (bpcv s) = true -> HdP primary (nodes (bw s)) -> src primary others (nodes (bw s))) ->
  SNInv primary others nenv (bset s (s_mark (bw s) n) (bpcv s)).
Proof.
  intros HN Hn HR. unfold SNInv in *. cbn [bset bw bpcv bP bR]. rewrite nodes_s_mark.
  set (ns := nodes (bw s)) in *. set (ns' := updf ns n mark1).
  assert (Hm : mono ns ns') by apply mono_mark1.
  assert (HPc : forall P, Pdef primary nenv ns P -> Pdef primary nenv ns' P) by (intros P; apply Pdef_mark1; exact Hn).
  assert (HRc : forall P R, SRdef nenv ns P R -> SRdef nenv ns' P R) by (intros P R; apply SRdef_mark1).
  assert (HK : phaseR (bpcv s) = true -> (HdP primary ns -> is_canc ns (bR s) = true -> src primary others ns) ->
               HdP primary ns' -> is_canc ns' (bR s) = true -> src primary others ns').
  { intros Hph HK Hh Hk. apply HdP_mark1 in Hh. apply is_canc_mark1_inv in Hk. eapply src_mono; [exact Hm|].
    destruct Hk as [Hk|[Hk _]]; [apply HK; assumption|]. apply HR; auto. }
  destruct (bpcv s) eqn:Epc; cbn [phaseR] in *.
  - unfold ns'. rewrite length_updf. exact HN.
  - destruct HN as [HP Hz]. auto.
  - destruct HN as [HP Hs]. split; [auto|eapply src_mono; eauto].
  - destruct HN as (HP & HRd & Hs). split; [auto|]. split; [auto|eapply src_mono; eauto].
  - auto.
  - destruct HN as (HP & HRd & HK0). auto.
  - destruct HN as (HP & HRd & HK0). auto.
  - destruct HN as [(p & Hp & -> & Hk)|(-> & HP & Hno)].
    + left. exists p. auto.
    + right. auto.
  - destruct HN as (-> & HP & HRd & Hs & Hk). split; [reflexivity|]. split; [auto|].
    split; [auto|]. split; [eapply src_mono; eauto|apply Hm; exact Hk].
  - destruct HN as (-> & HP & HRd & HK0). auto.
Qed.

Lemma RC_nodes others s w' :
  regs w' = regs (bw s) -> mono (nodes (bw s)) (nodes w') -> RC others s -> RC others (bset s w' (bpcv s)).
Proof.
  intros Hr Hm HR k x Hx. cbn [bset bw] in Hx. rewrite Hr in Hx. unfold RC1. cbn [bset bw bR bstops bpcv]. rewrite Hr.
  destruct (HR k x Hx) as [(A & B & C & D & E)|HB]; [left|right; exact HB].
  repeat (split; [assumption|]). intros Hd. apply Hm. apply E. exact Hd.
Qed.

Lemma GInv_same others s w' : regs w' = regs (bw s) -> GInv others s -> GInv others (bset s w' (bpcv s)).
Proof. intros Hr HG. unfold GInv in *. cbn [bset bw bpcv bR bstops]. rewrite Hr. exact HG. Qed.

Lemma scinv_mark primary others nenv s n :
  SCInv primary others nenv s ->
  (n <> nenv \/ primary <> None) ->
  (n = bR s -> phaseR (bpcv s) = true -> HdP primary (nodes (bw s)) -> src primary others (nodes (bw s))) ->
  SCInv primary others nenv (bset s (s_mark (bw s) n) (bpcv s)).
Proof.
  intros (HW & HN & HG & HR) Hn Hs. split; [|split; [|split]].
  - cbn [bset bw]. apply SWInv_mark. exact HW.
  - apply SNInv_mark; assumption.
  - apply GInv_same; [reflexivity|exact HG].
  - apply RC_nodes; [reflexivity|apply mono_mark1|exact HR].
Qed.

Lemma SNInv_nodes_eq primary others nenv s w' :
  nodes w' = nodes (bw s) -> SNInv primary others nenv s -> SNInv primary others nenv (bset s w' (bpcv s)).
Proof. intros Hn HN. unfold SNInv in *. cbn [bset bw bpcv bP bR]. rewrite Hn. exact HN. Qed.

Lemma scinv_setrst primary others nenv s r st' :
  st' <> Pending -> SCInv primary others nenv s -> SWInv (w_setrst (bw s) r st') ->
  (forall x, nth_error (regs (bw s)) r = Some x ->
             RC1 others (bset s (w_setrst (bw s) r st') (bpcv s)) r (set_rst x st')) ->
  SCInv primary others nenv (bset s (w_setrst (bw s) r st') (bpcv s)).
Proof.
  intros Hst (HW & HN & HG & HR) HW' Hr. split; [exact HW'|]. split; [apply SNInv_nodes_eq; [reflexivity|exact HN]|].
  split; [apply GInv_static; [cbn [w_setrst w_setregs regs]; apply length_updf|intros k x; apply setrst_static|exact HG]|].
  intros k x' Hx'. cbn [bset bw] in Hx'. apply regs_setrst_nth in Hx'. destruct Hx' as (x & Hx & [[-> ->]|[Hne ->]]).
  - apply Hr. exact Hx.
  - assert (Hpend : forall j y', nth_error (regs (w_setrst (bw s) r st')) j = Some y' -> rst y' = Pending ->
                    nth_error (regs (bw s)) j = Some y').
    { intros j y' Hy' Hp. apply regs_setrst_nth in Hy'. destruct Hy' as (y & Hy & [[-> ->]|[_ ->]]); [|exact Hy].
      cbn [set_rst rst] in Hp. congruence. }
    unfold RC1. cbn [bset bw bR bstops bpcv w_setrst w_setregs nodes].
    destruct (HR k x Hx) as [HC|(Hf & Hn & Hk & Hret & Hns & Hrun & Hdone)]; [left; exact HC|right].
    repeat (split; [assumption|]). split.
    + intros f Hf'. destruct (Hrun f Hf') as (rest & -> & Hall). exists rest. split; [reflexivity|].
      intros j y' Hy' Hp. eapply Hall; [apply (Hpend j y' Hy' Hp)|exact Hp].
    + intros Hd j y' Hy' Hp. eapply Hdone; [exact Hd|apply (Hpend j y' Hy' Hp)|exact Hp].
Qed.

Lemma scinv_hook primary others nenv s r w' :
  SCInv primary others nenv s -> s_hook (bw s) r = Some w' -> SCInv primary others nenv (bset s w' (bpcv s)).
Proof.
  intros HI Hh. pose proof HI as (HW & HN & HG & HR).
  pose proof (SWInv_hook _ _ _ HW Hh) as HW'.
  apply s_hook_inv in Hh. destruct Hh as (x & Hx & Hc).
  pose proof (GInv_regs_nonempty _ _ _ _ HG Hx) as Hph.
  destruct (SNInv_R _ _ _ _ HN Hph) as [HP HRd].
  destruct (HW r x Hx) as (_ & Hfired).
  destruct (HR r x Hx) as [(Hf & Hin & Hk & Hrun & Hfin)|(Hf & Hn & Hk & Hret & Hns & Hrun & Hdone)].
  - (* a hook on one of the others: cancel R (marks R alone) *)
    destruct Hc as [(a & Ea & ->)|[(c & r0 & a & Ea & _)|[(c & r0 & a & Ea & _)|[(Ea & _)|(r0 & rs & Ea & _)]]]];
      try (specialize (Hrun _ Ea); discriminate).
    pose proof (Hrun _ Ea) as Ha. inversion Ha; subst a; clear Ha. cbn [s_act] in *.
    assert (Hsrc : src primary others (nodes (bw s))).
    { right. exists (rnode x). split; [exact Hin|]. apply Hfired. left. eauto. }
    assert (Hne : bR s <> nenv \/ primary <> None).
    { destruct primary as [p|]; [right; discriminate|left]. destruct HP as (_ & HPe & _). destruct HRd as (_ & _ & Hlt & _). lia. }
    pose proof (scinv_mark primary others nenv s (bR s) HI Hne (fun _ _ _ => Hsrc)) as HI1.
    set (s1 := bset s (s_mark (bw s) (bR s)) (bpcv s)) in *.
    change (SCInv primary others nenv (bset s1 (w_setrst (bw s1) r Done) (bpcv s1))).
    apply scinv_setrst; [discriminate|exact HI1|exact HW'|].
    intros x1 Hx1. unfold s1 in Hx1. cbn [bset bw] in Hx1. rewrite regs_s_mark in Hx1.
    assert (x1 = x) by congruence. subst x1.
    left. cbn [set_rst rfn rnode rst bset bw bR bstops s1 w_setrst w_setregs nodes s_mark].
    repeat (split; [assumption|]). split; [intros; discriminate|]. intros _.
    destruct HRd as (Hlt & _). apply is_canc_mark1_self. exact Hlt.
  - (* the deregistration hook *)
    assert (Hkr : is_canc (nodes (bw s)) (bR s) = true).
    { rewrite <- Hn. apply Hfired. destruct Hc as [(a & Ea & _)|[(c & r0 & a & Ea & _)|[(c & r0 & a & Ea & _)|[(Ea & _)|(r0 & rs & Ea & _)]]]]; left; eauto. }
    destruct Hc as [(a & Ea & ->)|[(c & r0 & a & Ea & _)|[(c & r0 & a & Ea & _)|[(Ea & ->)|(r0 & rs & Ea & ->)]]]];
      try (destruct (Hrun _ Ea) as (rest & Hrest & _); discriminate).
    + (* nothing left to stop *)
      destruct (Hrun _ Ea) as (rest & Hrest & Hall). inversion Hrest; subst rest; clear Hrest.
      apply scinv_setrst; [discriminate|exact HI|exact HW'|].
      intros x0 Hx0. assert (x0 = x) by congruence. subst x0. right.
      cbn [set_rst rfn rnode rst bset bw bR bstops bpcv].
      repeat (split; [assumption|]). split; [discriminate|]. split; [intros; discriminate|].
      intros _ j y' Hy' Hp. apply regs_setrst_nth in Hy'. destruct Hy' as (y & Hy & [[-> ->]|[_ ->]]).
      * cbn in Hp. discriminate.
      * apply (Hall j y Hy Hp).
    + (* stop r0 *)
      destruct (Hrun _ Ea) as (rest & Hrest & Hall). inversion Hrest; subst rest; clear Hrest.
      assert (H1 : exists w1, w1 = fst (w_stop (bw s) r0) /\ SCInv primary others nenv (bset s w1 (bpcv s)) /\
                   nth_error (regs w1) r = Some x /\
                   (forall j y, nth_error (regs w1) j = Some y -> rst y = Pending -> In j rs)).
      { unfold w_stop. destruct (is_pending (bw s) r0) eqn:Ep; cbn [fst].
        - apply is_pending_spec in Ep. destruct Ep as (x0 & Hx0 & Hp0).
          assert (Hne : r0 <> r) by (intros ->; congruence).
          exists (w_setrst (bw s) r0 Stopped). split; [reflexivity|]. split; [|split].
          + apply scinv_setrst; [discriminate|exact HI|apply SWInv_setrst; [exact HW|auto]|].
            intros x0' Hx0'. assert (x0' = x0) by congruence. subst x0'.
            destruct (HR r0 x0 Hx0) as [(Hf0 & Hin0 & Hk0 & Hrun0 & Hfin0)|(_ & _ & Hk0 & _)]; [|exfalso; apply Hne; congruence].
            left. cbn [set_rst rfn rnode rst bset bw bR bstops w_setrst w_setregs nodes].
            repeat (split; [assumption|]). split; [intros; discriminate|]. intros _. exact Hkr.
          + rewrite (setrst_fwd _ r0 Stopped r x Hx). destruct (Nat.eqb_spec r r0); [congruence|reflexivity].
          + intros j y Hy Hp. apply regs_setrst_nth in Hy. destruct Hy as (y0 & Hy0 & [[-> ->]|[Hj ->]]).
            * cbn in Hp. discriminate.
            * destruct (Hall j y0 Hy0 Hp) as [->|Hin']; [congruence|exact Hin'].
        - exists (bw s). split; [reflexivity|]. split; [|split].
          + destruct s; exact HI.
          + exact Hx.
          + intros j y Hy Hp. destruct (Hall j y Hy Hp) as [->|Hin']; [|exact Hin'].
            exfalso. assert (is_pending (bw s) j = true) by (apply is_pending_spec; eauto). congruence. }
      destruct H1 as (w1 & Ew1 & HI1 & Hx1 & Hall1). rewrite <- Ew1 in *.
      set (s1 := bset s w1 (bpcv s)) in *.
      change (SCInv primary others nenv (bset s1 (w_setrst (bw s1) r (Run (FStopAll rs))) (bpcv s1))).
      apply scinv_setrst; [discriminate|exact HI1|exact HW'|].
      intros x0 Hx0. unfold s1 in Hx0. cbn [bset bw] in Hx0. assert (x0 = x) by congruence. subst x0. right.
      cbn [set_rst rfn rnode rst bset bw bR bstops bpcv s1].
      repeat (split; [assumption|]). split; [discriminate|]. split; [|intros; discriminate].
      intros f Hf'. inversion Hf'; subst f. exists rs. split; [reflexivity|].
      intros j y' Hy' Hp. apply regs_setrst_nth in Hy'. destruct Hy' as (y & Hy & [[-> ->]|[_ ->]]).
      * cbn in Hp. discriminate.
      * apply (Hall1 j y Hy Hp).
Qed.

Lemma bset_id s : bset s (bw s) (bpcv s) = s.
Proof. destruct s; reflexivity. Qed.

(* a registration wins its once: Pending -> Run *)
Lemma scinv_fire primary others nenv s r x :
  SCInv primary others nenv s -> nth_error (regs (bw s)) r = Some x -> rst x = Pending ->
  is_canc (nodes (bw s)) (rnode x) = true ->
  SCInv primary others nenv (bset s (w_setrst (bw s) r (Run (rfn x))) (bpcv s)).
Proof.
  intros HI Hx Hp Hk. pose proof HI as (HW & HN & HG & HR).
  apply scinv_setrst; [discriminate|exact HI|apply SWInv_setrst; [exact HW|intros y Hy; right; right; congruence]|].
  intros x0 Hx0. assert (x0 = x) by congruence. subst x0.
  unfold RC1. cbn [set_rst rfn rnode rst bset bw bR bstops bpcv w_setrst w_setregs nodes].
  destruct (HR r x Hx) as [(Hf & Hin & Hkk & Hrun & Hfin)|(Hf & Hn & Hkk & Hret & Hns & Hrun & Hdone)]; [left|right].
  - repeat (split; [assumption|]). split; [intros f Hf'; congruence|intros [H|H]; discriminate].
  - repeat (split; [assumption|]). split; [discriminate|]. split; [|intros; discriminate].
    intros f Hf'. inversion Hf'; subst f; clear Hf'. exists (bstops s). split; [exact Hf|].
    intros j y' Hy' Hyp. change (nth_error (regs (w_setrst (bw s) r (Run (rfn x)))) j = Some y') in Hy'.
    apply regs_setrst_nth in Hy'. destruct Hy' as (y & Hy & [[-> ->]|[Hj ->]]); [cbn in Hyp; discriminate|].
    destruct (HR j y Hy) as [(_ & _ & Hjk & _)|(_ & _ & Hjk & _)]; [exact Hjk|]. exfalso. apply Hj. congruence.
Qed.

Lemma scinv_sys primary others nenv s l w' :
  SCInv primary others nenv s -> s_sys nenv (bw s) l = Some w' -> SCInv primary others nenv (bset s w' (bpcv s)).
Proof.
  intros HI Hs. pose proof HI as (HW & HN & HG & HR). apply s_sys_inv in Hs.
  destruct Hs as [r Hh|n Hn ->|c p Hc Hp Hk ->|r x Hx Hp Hk ->].
  - eapply scinv_hook; eauto.
  - apply scinv_mark; [exact HI|left; lia|].
    intros -> Hph _. destruct (SNInv_R _ _ _ _ HN Hph) as [_ (_ & Hge & _)]. lia.
  - apply scinv_mark; [exact HI| |].
    + destruct primary as [q|]; [right; discriminate|left]. intros ->.
      unfold SNInv in HN. pose proof (par_of_lt _ _ _ Hp) as Hlt.
      assert (HPd : phaseR (bpcv s) = true \/ bpcv s = BStart \/ Pdef None nenv (nodes (bw s)) (bP s) \/ exists r, bpcv s = BRetP r).
      { destruct (bpcv s); cbn; intuition eauto. }
      assert (HP : Pdef None nenv (nodes (bw s)) (bP s) \/ length (nodes (bw s)) = nenv).
      { destruct HPd as [Hph|[E|[HP|(r & E)]]].
        - left. apply (SNInv_R _ _ _ _ HN Hph).
        - right. rewrite E in HN. exact HN.
        - left. exact HP.
        - rewrite E in HN. destruct HN as [(q & Hq & _)|(_ & HP & _)]; [discriminate|left; exact HP]. }
      destruct HP as [(_ & _ & _ & Ha & _)|Hl]; [|lia]. unfold par_of in Hp. rewrite Ha in Hp. discriminate.
    + intros -> Hph Hh. destruct (SNInv_R _ _ _ _ HN Hph) as [HP HRd].
      pose proof (SRdef_par _ _ _ _ HRd (Pdef_selfhd _ _ _ _ HP Hh)) as Hpar. assert (p = bP s) by congruence. subst p.
      destruct HP as [_ HP]. destruct primary as [q|].
      * destruct HP as [HPq _]. left. exists q. split; [reflexivity|]. rewrite <- HPq. exact Hk.
      * destruct HP as (HPq & _ & _ & Hk' & _). rewrite HPq in Hk. congruence.
  - eapply scinv_fire; eauto.
Qed.

Lemma scinv_main primary others nenv s s' :
  wfc primary others nenv -> SCInv primary others nenv s ->
  scombine_main true primary others s = Some s' -> SCInv primary others nenv s'.
Proof.
  intros [Hwp Hwo] HI Hm. pose proof HI as (HW & HN & HG & HR).
  destruct s as [w pc P R stops]. unfold scombine_main, combine_main in Hm. cbn [bw bpcv bP bR bstops] in *.
  unfold SNInv, GInv in HN, HG. cbn [bw bpcv bP bR bstops] in HN, HG.
  destruct pc as [|i n| | | |i| |r|r|r]; try discriminate.
  - (* BStart *)
    destruct HG as [Hnil Hst]. destruct primary as [p|].
    + destruct (is_canc (nodes w) p) eqn:Ek; inversion Hm; subst s'; clear Hm.
      * split; [exact HW|]. split; [left; exists p; auto|]. split; [exact Hnil|apply RC_nil; exact Hnil].
      * split; [exact HW|]. split; [|split; [split; [exact Hnil|reflexivity]|apply RC_nil; exact Hnil]].
        unfold SNInv. cbn [bw bpcv bP]. split; [|intros _ j o Hj; lia]. split; [lia|]. split; [reflexivity|apply Hwp; reflexivity].
    + inversion Hm; subst s'; clear Hm. split; [apply SWInv_addnode; exact HW|].
      split; [|split; [split; [exact Hnil|reflexivity]|apply RC_nil; exact Hnil]].
      unfold SNInv. cbn [bw bpcv bP w_detached w_addnode nodes]. split; [|intros _ j o Hj; lia].
      unfold Pdef. rewrite app_length. cbn [length]. rewrite <- HN.
      rewrite anc_of_snoc_new, is_canc_snoc_new, vals_of_snoc_new. cbn. repeat (split; [first [lia|reflexivity]|]). reflexivity.
  - (* BCheck *)
    destruct HN as [HP Hz]. destruct HG as [Hnil Hst].
    assert (HRC : forall pc', RC others {| bw := w; bpcv := pc'; bP := P; bR := R; bstops := stops |})
      by (intros; apply RC_nil; exact Hnil).
    destruct (nth_error others i) as [[o|]|] eqn:Eo.
    + destruct (is_canc (nodes w) o) eqn:Ek; inversion Hm; subst s'; clear Hm; (split; [exact HW|]); (split; [|split; [split; assumption|apply HRC]]).
      * unfold SNInv. cbn. split; [exact HP|]. right. exists o. split; [eapply nth_error_In; eauto|exact Ek].
      * unfold SNInv. cbn. split; [exact HP|]. intros; discriminate.
    + inversion Hm; subst s'; clear Hm. split; [exact HW|]. split; [|split; [split; assumption|apply HRC]].
      unfold SNInv. cbn. split; [exact HP|]. intros Hn0 j o Hj. destruct (Nat.eq_dec j i) as [->|Hne]; [congruence|apply Hz; [exact Hn0|lia]].
    + destruct (Nat.eqb_spec n 0) as [->|Hn0]; inversion Hm; subst s'; clear Hm; (split; [exact HW|]).
      * split; [|split; [exact Hnil|apply HRC]]. unfold SNInv. cbn. right. split; [reflexivity|]. split; [exact HP|].
        intros o Hin. apply In_nth_error in Hin. destruct Hin as [j Hj]. apply nth_error_None in Eo.
        apply (Hz eq_refl j o); [apply nth_error_lt in Hj; lia|exact Hj].
      * split; [|split; [split; assumption|apply HRC]]. exact HP.
  - (* BEarlyNew *)
    destruct HN as [HP Hs]. destruct HG as [Hnil Hst]. inversion Hm; subst s'; clear Hm.
    split; [apply SWInv_addnode; exact HW|]. split; [|split; [exact Hnil|apply RC_nil; exact Hnil]].
    unfold SNInv. cbn [bw bpcv bP bR w_child w_addnode nodes].
    split; [apply Pdef_snoc; exact HP|]. split; [exact (SRdef_child primary nenv (nodes w) P HP)|].
    eapply src_mono; [apply mono_snoc|exact Hs].
  - (* BEarlyCancel *)
    destruct HN as (HP & HRd & Hs). inversion Hm; subst s'; clear Hm.
    assert (Hne : R <> nenv \/ primary <> None).
    { destruct primary as [p|]; [right; discriminate|left]. destruct HP as (_ & HPe & _). destruct HRd as (_ & _ & Hlt & _). lia. }
    pose proof (scinv_mark primary others nenv _ R HI Hne (fun _ _ _ => Hs)) as (HW1 & HN1 & HG1 & HR1).
    cbn [bset bw bpcv bP bR bstops] in *. unfold SNInv, GInv in HN1, HG1. cbn [bw bpcv bP bR bstops] in HN1, HG1.
    destruct HN1 as (HP1 & HRd1 & Hs1).
    split; [exact HW1|]. split; [|split; [exact HG1|apply RC_nil; exact HG1]].
    unfold SNInv. cbn [bw bpcv bP bR]. repeat (split; [first [reflexivity|assumption]|]).
    destruct HRd as (Hlt & _). apply is_canc_mark1_self. exact Hlt.
  - (* BNew *)
    rename HN into HP. destruct HG as [Hnil Hst]. inversion Hm; subst s'; clear Hm.
    split; [apply SWInv_addnode; exact HW|]. split; [|split; [|apply RC_nil; exact Hnil]].
    + unfold SNInv. cbn [bw bpcv bP bR w_child w_addnode nodes].
      split; [apply Pdef_snoc; exact HP|]. split; [exact (SRdef_child primary nenv (nodes w) P HP)|].
      rewrite is_canc_snoc_new. cbn [canc]. intros _ Hk. destruct HP as [_ HP]. destruct primary as [p|].
      * destruct HP as [-> Hp]. left. exists p. split; [reflexivity|]. apply is_canc_snoc_mono. exact Hk.
      * destruct HP as (-> & _ & _ & Hk' & _). congruence.
    + unfold GInv. cbn [bw bpcv bR bstops w_child w_addnode regs]. rewrite Hnil, Hst. split; [reflexivity|]. intros j o Hj. lia.
  - (* BReg *)
    destruct HN as (HP & HRd & HK). destruct HG as [Hlen Hcov].
    assert (Hallc : forall k x, nth_error (regs w) k = Some x ->
              rfn x = FAct (ACancel R) /\ In (Some (rnode x)) others /\ In k stops /\
              (forall f, rst x = Run f -> f = FAct (ACancel R)) /\ (rst x = Done \/ rst x = Stopped -> is_canc (nodes w) R = true)).
    { intros k x Hx. destruct (HR k x Hx) as [HC|(_ & _ & _ & Hret & _)]; [exact HC|discriminate]. }
    destruct (nth_error others i) as [[o|]|] eqn:Eo; inversion Hm; subst s'; clear Hm; unfold bset; cbn [bw bpcv bP bR bstops].
    + (* register on o *)
      assert (Hin : In (Some o) others) by (eapply nth_error_In; eauto).
      split; [apply SWInv_afterfunc; [exact HW|destruct HP as [Hl _]; specialize (Hwo o Hin); lia]|].
      split; [unfold SNInv; cbn [bw bpcv bP bR w_afterfunc nodes]; auto|]. split.
      * unfold GInv. cbn [bw bpcv bR bstops w_afterfunc regs]. rewrite !app_length. cbn [length]. split; [lia|].
        intros j o' Hj Ho'. destruct (Nat.eq_dec j i) as [->|Hne].
        -- exists (length (regs w)). eexists. split; [apply nth_error_snoc_new|]. cbn. split; [reflexivity|congruence].
        -- destruct (Hcov j o' ltac:(lia) Ho') as (k & x & Hx & Hf & Hn). exists k, x.
           split; [rewrite nth_error_snoc_old; [exact Hx|eapply nth_error_lt; eauto]|auto].
      * intros k x Hx. cbn [bw w_afterfunc regs] in Hx. apply nth_error_snoc_inv in Hx. left.
        cbn [bw bR bstops w_afterfunc nodes]. destruct Hx as [[_ Hx]|[-> ->]].
        -- destruct (Hallc k x Hx) as (Hf & Hi & Hk & Hrun & Hfin). repeat (split; [first [assumption|apply in_or_app; left; assumption]|]). exact Hfin.
        -- cbn [rfn rnode rst]. split; [reflexivity|]. split; [exact Hin|]. split; [apply in_or_app; right; left; reflexivity|].
           destruct (is_canc (nodes w) o); split; try (intros f Hf; congruence); intros [Hf|Hf]; discriminate.
    + (* nil other *)
      split; [exact HW|]. split; [unfold SNInv; cbn; auto|]. split.
      * unfold GInv. cbn [bw bpcv bR bstops]. split; [exact Hlen|]. intros j o Hj Ho.
        destruct (Nat.eq_dec j i) as [->|Hne]; [congruence|apply (Hcov j o); [lia|exact Ho]].
      * intros k x Hx. left. apply (Hallc k x Hx).
    + (* end of loop *)
      split; [exact HW|]. split; [unfold SNInv; cbn; auto|]. split.
      * unfold GInv. cbn [bw bpcv bR bstops]. split; [exact Hlen|]. intros j o Hj Ho.
        apply nth_error_None in Eo. apply (Hcov j o); [apply nth_error_lt in Ho; lia|exact Ho].
      * intros k x Hx. left. apply (Hallc k x Hx).
  - (* BStop *)
    destruct HN as (HP & HRd & HK). destruct HG as [Hlen Hcov].
    assert (Hallc : forall k x, nth_error (regs w) k = Some x ->
              rfn x = FAct (ACancel R) /\ In (Some (rnode x)) others /\ In k stops /\
              (forall f, rst x = Run f -> f = FAct (ACancel R)) /\ (rst x = Done \/ rst x = Stopped -> is_canc (nodes w) R = true)).
    { intros k x Hx. destruct (HR k x Hx) as [HC|(_ & _ & _ & Hret & _)]; [exact HC|discriminate]. }
    inversion Hm; subst s'; clear Hm. unfold bset; cbn [bw bpcv bP bR bstops].
    split; [apply SWInv_afterfunc; [exact HW|destruct HRd as [Hlt _]; exact Hlt]|].
    split; [unfold SNInv; cbn [bw bpcv bP bR w_afterfunc nodes]; auto|]. split.
    + unfold GInv. cbn [bw bpcv bR bstops w_afterfunc regs]. rewrite app_length. cbn [length]. split; [lia|]. split.
      * intros j o Hj Ho. destruct (Hcov j o Hj Ho) as (k & x & Hx & Hf & Hn). exists k, x.
        split; [rewrite nth_error_snoc_old; [exact Hx|eapply nth_error_lt; eauto]|auto].
      * eexists. split; [rewrite <- Hlen; apply nth_error_snoc_new|]. cbn. auto.
    + intros k x Hx. cbn [bw w_afterfunc regs] in Hx. apply nth_error_snoc_inv in Hx.
      destruct Hx as [[_ Hx]|[-> ->]].
      * left. apply (Hallc k x Hx).
      * right. cbn [rfn rnode rst bw bR bstops bpcv is_retN w_afterfunc regs nodes].
        split; [reflexivity|]. split; [reflexivity|]. split; [exact Hlen|]. split; [reflexivity|].
        destruct (is_canc (nodes w) R) eqn:Ek.
        -- split; [discriminate|]. split; [|intros; discriminate]. intros f Hf. inversion Hf; subst f. exists stops. split; [reflexivity|].
           intros j y Hy Hp. apply nth_error_snoc_inv in Hy. destruct Hy as [[_ Hy]|[_ ->]].
           ++ apply (Hallc j y Hy).
           ++ cbn in Hp. discriminate.
        -- split; [discriminate|]. split; intros; discriminate.
Qed.

Lemma scombine_step_inv primary others nenv s l s' :
  wfc primary others nenv -> SCInv primary others nenv s ->
  scombine_step true primary others nenv s l = Some s' -> SCInv primary others nenv s'.
Proof.
  intros Hwf HI Hs. destruct l as [|r|n| | |c|r]; cbn [scombine_step] in Hs; try discriminate;
    try (destruct (s_sys nenv (bw s) _) as [w'|] eqn:E; [|discriminate]; inversion Hs; subst s'; eapply scinv_sys; eauto).
  eapply scinv_main; eauto.
Qed.

Lemma scombine_reach primary others ns sched :
  wfc primary others (length ns) ->
  SCInv primary others (length ns) (grun (scombine_step true primary others (length ns)) (combine_init ns) sched).
Proof.
  intros Hwf. apply grun_inv with (P := SCInv primary others (length ns)).
  - intros s l s'. apply scombine_step_inv. exact Hwf.
  - split; [apply SWInv_init|]. split; [reflexivity|]. split; [split; reflexivity|apply RC_nil; reflexivity].
Qed.

(* ----- the nodes only evolve: values and ancestor lists of the inputs are fixed ----- *)
Lemma scombine_sevol regstop primary others nenv s l s' :
  scombine_step regstop primary others nenv s l = Some s' -> sevol (nodes (bw s)) (nodes (bw s')).
Proof.
  intros Hs. destruct l as [|r|n| | |c|r]; cbn [scombine_step] in Hs; try discriminate;
    try (destruct (s_sys nenv (bw s) _) as [w'|] eqn:E; [|discriminate]; inversion Hs; subst s'; cbn [bset bw];
         eapply s_sys_sevol; eauto).
  unfold scombine_main, combine_main in Hs. destruct (bpcv s) as [|i n| | | |i| |r|r|r]; try discriminate.
  - destruct primary as [p|]; [destruct (is_canc (nodes (bw s)) p)|]; inversion Hs; subst s'; cbn; [left; reflexivity|left; reflexivity|right; right; eauto].
  - destruct (nth_error others i) as [[o|]|]; [destruct (is_canc (nodes (bw s)) o)| |destruct (n =? 0)]; inversion Hs; subst s'; left; reflexivity.
  - inversion Hs; subst s'. right; right. cbn. eauto.
  - inversion Hs; subst s'. right; left. cbn. eauto.
  - inversion Hs; subst s'. right; right. cbn. eauto.
  - destruct (nth_error others i) as [[o|]|]; inversion Hs; subst s'; left; reflexivity.
  - inversion Hs; subst s'. left. destruct regstop; reflexivity.
Qed.

Definition AInv (ns ns' : list node) : Prop :=
  length ns <= length ns' /\ forall x, x < length ns -> vals_of ns' x = vals_of ns x /\ anc_of ns' x = anc_of ns x.

Lemma AInv_sevol ns ns1 ns2 : AInv ns ns1 -> sevol ns1 ns2 -> AInv ns ns2.
Proof.
  intros [Hl Hv] He. apply sevol_static in He. destruct He as [Hl2 Hs]. split; [lia|].
  intros x Hx. destruct (Hv x Hx) as [A B]. destruct (Hs x ltac:(lia)) as [C D]. split; congruence.
Qed.

Lemma scombine_ainv regstop primary others nenv ns sched :
  AInv ns (nodes (bw (grun (scombine_step regstop primary others nenv) (combine_init ns) sched))).
Proof.
  apply grun_inv with (P := fun s => AInv ns (nodes (bw s))).
  - intros s l s' HV Hs. eapply AInv_sevol; [exact HV|eapply scombine_sevol; eauto].
  - split; [cbn; lia|auto].
Qed.

Lemma HdP_ainv primary ns ns' :
  (forall p, primary = Some p -> p < length ns) -> AInv ns ns' -> HdP primary ns -> HdP primary ns'.
Proof.
  intros Hw [_ HA] Hh p Hp. unfold selfhd. destruct (HA p (Hw p Hp)) as [_ ->]. apply Hh. exact Hp.
Qed.

(* only if: whenever the returned context is cancelled, the primary or some non-nil other is *)
Theorem scombine_cancelled_only_if primary others ns sched :
  wfc primary others (length ns) -> HdP primary ns ->
  let s := grun (scombine_step true primary others (length ns)) (combine_init ns) sched in
  forall r, combine_ret s = Some r -> is_canc (nodes (bw s)) r = true -> src primary others (nodes (bw s)).
Proof.
  intros Hwf Hh s r Hr Hk. destruct (scombine_reach primary others ns sched Hwf) as (HW & HN & HG & HR). fold s in HW, HN, HG, HR.
  assert (Hh' : HdP primary (nodes (bw s))).
  { eapply HdP_ainv; [apply (proj1 Hwf)|apply scombine_ainv|exact Hh]. }
  unfold combine_ret in Hr. unfold SNInv in HN. destruct (bpcv s); try discriminate; inversion Hr; subst r0; clear Hr.
  - destruct HN as [(p & Hp & -> & Hkp)|(-> & [_ HP] & _)].
    + left. eauto.
    + destruct primary as [p|].
      * destruct HP as [HP _]. left. exists p. split; [reflexivity|]. rewrite <- HP. exact Hk.
      * destruct HP as (HP & _ & _ & Hk' & _). rewrite HP in Hk. congruence.
  - destruct HN as (_ & _ & _ & Hs & _). exact Hs.
  - destruct HN as (-> & _ & _ & HK). apply HK; assumption.
Qed.

(* once every goroutine has run, every once is decided and propagation is complete: cancelled exactly when the primary
   or some non-nil other is *)
Theorem scombine_quiescent_iff primary others ns sched :
  wfc primary others (length ns) -> HdP primary ns ->
  let s := grun (scombine_step true primary others (length ns)) (combine_init ns) sched in
  scombine_quiescent s = true ->
  exists r, combine_ret s = Some r /\ (is_canc (nodes (bw s)) r = true <-> src primary others (nodes (bw s))).
Proof.
  intros Hwf Hh s Hq. pose proof (scombine_cancelled_only_if primary others ns sched Hwf Hh) as Honly. fold s in Honly. cbv zeta in Honly.
  destruct (scombine_reach primary others ns sched Hwf) as (HW & HN & HG & HR). fold s in HW, HN, HG, HR.
  assert (Hh' : HdP primary (nodes (bw s))).
  { eapply HdP_ainv; [apply (proj1 Hwf)|apply scombine_ainv|exact Hh]. }
  unfold scombine_quiescent in Hq. unfold combine_ret in *. unfold SNInv in HN. unfold GInv in HG.
  destruct (bpcv s) eqn:Epc; try discriminate; exists r; (split; [reflexivity|]); (split; [apply Honly; reflexivity|]);
    apply settled_spec in Hq; destruct Hq as (Hnr & Hnf & Hnp).
  - intros Hs. destruct HN as [(p & Hp & -> & Hkp)|(-> & [_ HP] & Hno)]; [exact Hkp|].
    destruct Hs as [(p & Hp & Hk)|(o & Ho & _)]; [|exfalso; eapply Hno; eauto].
    rewrite Hp in HP. destruct HP as [-> _]. exact Hk.
  - intros _. destruct HN as (_ & _ & _ & _ & Hk). exact Hk.
  - intros Hs. destruct HN as (-> & HP & HRd & _).
    destruct Hs as [(p & Hp & Hk)|(o & Ho & Hk)].
    + (* the primary is cancelled and propagation is complete *)
      pose proof (SRdef_par _ _ _ _ HRd (Pdef_selfhd _ _ _ _ HP Hh')) as Hpar.
      apply (no_prop_spec _ Hnp _ _ Hpar). destruct HP as [_ HP]. rewrite Hp in HP. destruct HP as [-> _]. exact Hk.
    + (* the registration on o is decided *)
      destruct HG as (_ & Hcov & _). apply In_nth_error in Ho. destruct Ho as [j Hj].
      destruct (Hcov j o (nth_error_lt _ _ _ Hj) Hj) as (k & x & Hx & Hf & Hn).
      pose proof (no_fire_spec _ Hnf k x Hx) as Hpend. rewrite Hn in Hpend.
      pose proof (proj1 (no_running_spec (bw s)) Hnr k x Hx) as Hq2.
      destruct (HR k x Hx) as [(_ & _ & _ & _ & Hfin)|(Hf' & _)]; [|congruence].
      apply Hfin. destruct (rst x) eqn:Er; auto.
      * specialize (Hpend eq_refl). congruence.
      * exfalso. eapply (Hq2 f). reflexivity.
Qed.

(* no leak *)
Theorem scombine_no_leak primary others ns sched :
  wfc primary others (length ns) ->
  let s := grun (scombine_step true primary others (length ns)) (combine_init ns) sched in
  scombine_quiescent s = true ->
  forall r, combine_ret s = Some r -> is_canc (nodes (bw s)) r = true ->
  forall k x, nth_error (regs (bw s)) k = Some x -> rst x = Stopped \/ rst x = Done.
Proof.
  intros Hwf s Hq r Hr Hk k x Hx.
  destruct (scombine_reach primary others ns sched Hwf) as (HW & HN & HG & HR). fold s in HW, HN, HG, HR.
  unfold scombine_quiescent in Hq. unfold combine_ret in *. unfold SNInv in HN. unfold GInv in HG.
  destruct (bpcv s) eqn:Epc; try discriminate; inversion Hr; subst r0; clear Hr;
    try (rewrite HG in Hx; destruct k; discriminate).
  apply settled_spec in Hq. destruct Hq as (Hq & Hnf & _).
  destruct HN as (-> & _). destruct HG as (_ & _ & q & Hq' & Hqf & Hqn).
  pose proof (proj1 (no_running_spec (bw s)) Hq) as Hnr.
  assert (Hnp : forall j y, nth_error (regs (bw s)) j = Some y -> rst y <> Pending).
  { pose proof (no_fire_spec _ Hnf _ q Hq') as Hpend. rewrite Hqn in Hpend.
    destruct (HR _ q Hq') as [(Hf' & _)|(_ & _ & _ & _ & Hns & _ & Hdone)]; [congruence|].
    apply Hdone. destruct (rst q) eqn:Er; auto.
    - specialize (Hpend eq_refl). congruence.
    - congruence.
    - exfalso. eapply (Hnr _ q Hq' f). exact Er. }
  destruct (rst x) eqn:Er; auto.
  - exfalso. exact (Hnp k x Hx Er).
  - exfalso. exact (Hnr k x Hx f Er).
Qed.

(* values *)
Theorem scombine_values primary others ns sched :
  wfc primary others (length ns) ->
  let s := grun (scombine_step true primary others (length ns)) (combine_init ns) sched in
  forall r, combine_ret s = Some r ->
  vals_of (nodes (bw s)) r = match primary with Some p => vals_of ns p | None => [] end.
Proof.
  intros Hwf s r Hr. destruct (scombine_reach primary others ns sched Hwf) as (HW & HN & HG & HR). fold s in HW, HN, HG, HR.
  destruct (scombine_ainv true primary others (length ns) ns sched) as [_ HA]. fold s in HA.
  assert (HV : forall x, x < length ns -> vals_of (nodes (bw s)) x = vals_of ns x) by (intros x Hx; apply HA; exact Hx).
  assert (HPv : Pdef primary (length ns) (nodes (bw s)) (bP s) ->
                vals_of (nodes (bw s)) (bP s) = match primary with Some p => vals_of ns p | None => [] end).
  { intros [_ HP]. destruct primary as [p|].
    - destruct HP as [-> Hp]. apply HV. exact Hp.
    - destruct HP as (-> & _ & _ & _ & Hv). exact Hv. }
  unfold combine_ret in Hr. unfold SNInv in HN. destruct (bpcv s); try discriminate; inversion Hr; subst r0; clear Hr.
  - destruct HN as [(p & Hp & -> & Hkp)|(-> & HP & _)]; [|apply HPv; exact HP].
    rewrite Hp. apply HV. destruct Hwf as [Hwp _]. apply Hwp. exact Hp.
  - destruct HN as (-> & HP & HRd & _). destruct HRd as (_ & _ & _ & _ & Hv). rewrite Hv. apply HPv. exact HP.
  - destruct HN as (-> & HP & HRd & _). destruct HRd as (_ & _ & _ & _ & Hv). rewrite Hv. apply HPv. exact HP.
Qed.

(* already cancelled *)
Lemma spreA_step regstop p others nenv s l s' :
  PreA p s -> scombine_step regstop (Some p) others nenv s l = Some s' -> PreA p s'.
Proof.
  intros [Hk Hpc] Hs. pose proof (sevol_mono _ _ (scombine_sevol _ _ _ _ _ _ _ Hs)) as Hm.
  split; [apply Hm; exact Hk|].
  destruct l as [|r|n| | |c|r]; cbn [scombine_step] in Hs; try discriminate;
    try (destruct (s_sys nenv (bw s) _) as [w'|] eqn:E; [|discriminate]; inversion Hs; subst s'; cbn [bset bpcv bw] in *;
         destruct Hpc as [Hpc|(r0 & Hpc & Hkr)]; [left; exact Hpc|right; exists r0; split; [exact Hpc|apply Hm; exact Hkr]]).
  destruct Hpc as [Hpc|(r & Hpc & Hkr)]; unfold scombine_main, combine_main in Hs; rewrite Hpc in Hs; [|discriminate].
  rewrite Hk in Hs. inversion Hs; subst s'. right. exists p. cbn. auto.
Qed.

Lemma spreB_step regstop primary others nenv k o s l s' :
  nth_error others k = Some (Some o) ->
  PreB k o s -> scombine_step regstop primary others nenv s l = Some s' -> PreB k o s'.
Proof.
  intros Hko [Hk Hpc] Hs. pose proof (sevol_mono _ _ (scombine_sevol _ _ _ _ _ _ _ Hs)) as Hm.
  split; [apply Hm; exact Hk|].
  destruct l as [|r|n| | |c|r]; cbn [scombine_step] in Hs; try discriminate;
    try (destruct (s_sys nenv (bw s) _) as [w'|] eqn:E; [|discriminate]; inversion Hs; subst s'; cbn [bset bpcv bw] in *;
         destruct (bpcv s); auto).
  unfold scombine_main, combine_main in Hs. destruct (bpcv s) as [|i n| | | |i| |r|r|r]; try contradiction; try discriminate.
  - destruct primary as [p|]; [destruct (is_canc (nodes (bw s)) p) eqn:Ep|]; inversion Hs; subst s'; cbn; [exact Ep|lia|lia].
  - destruct (nth_error others i) as [[o'|]|] eqn:Eo.
    + destruct (is_canc (nodes (bw s)) o') eqn:Eo'; inversion Hs; subst s'; cbn; [exact I|].
      destruct (Nat.eq_dec i k) as [->|Hne]; [|lia]. congruence.
    + inversion Hs; subst s'; cbn. destruct (Nat.eq_dec i k) as [->|Hne]; [congruence|lia].
    + apply nth_error_None in Eo. apply nth_error_lt in Hko. lia.
  - inversion Hs; subst s'. exact I.
  - inversion Hs; subst s'. exact I.
Qed.

Theorem scombine_already_cancelled primary others ns sched :
  wfc primary others (length ns) ->
  src primary others ns ->
  let s := grun (scombine_step true primary others (length ns)) (combine_init ns) sched in
  forall r, combine_ret s = Some r -> is_canc (nodes (bw s)) r = true.
Proof.
  intros Hwf Hsrc s r Hr.
  destruct (scombine_reach primary others ns sched Hwf) as (_ & HN & _ & _). fold s in HN.
  destruct Hsrc as [(p & -> & Hk)|(o & Ho & Hk)].
  - assert (HA : PreA p s).
    { apply grun_inv with (P := PreA p); [intros s0 l s1; apply spreA_step|]. split; [exact Hk|left; reflexivity]. }
    destruct HA as [_ [Hpc|(r0 & Hpc & Hkr)]]; unfold combine_ret in Hr; rewrite Hpc in Hr; [discriminate|]. congruence.
  - apply In_nth_error in Ho. destruct Ho as [k Hko].
    assert (HB : PreB k o s).
    { apply grun_inv with (P := PreB k o); [intros s0 l s1; apply spreB_step; exact Hko|]. split; [exact Hk|exact I]. }
    destruct HB as [_ HB]. unfold combine_ret in Hr. unfold SNInv in HN.
    destruct (bpcv s); try discriminate; try contradiction; inversion Hr; subst r0.
    + exact HB.
    + destruct HN as (_ & _ & _ & _ & Hkr). exact Hkr.
Qed.

Theorem scombine_nostop_refuted :
  exists ns sched,
    let s := grun (scombine_step false (Some 0) [Some 1] 2) (combine_init ns) sched in
    scombine_quiescent s = true /\ combine_ret s = Some 2 /\ is_canc (nodes (bw s)) 2 = true /\
    exists x, nth_error (regs (bw s)) 0 = Some x /\ rst x = Pending.
Proof.
  exists (build_env [ {| eparent := None; ekv := None |}; {| eparent := None; ekv := None |} ] []).
  exists [SMain; SMain; SMain; SMain; SMain; SMain; SMain; SCancel 0; SPropg 2]. vm_compute.
  repeat split; eauto.
Qed.

Example HdP_example : HdP (Some 0) (build_env [ {| eparent := None; ekv := None |}; {| eparent := Some 0; ekv := None |} ] []).
Proof. intros p H. inversion H; subst p. reflexivity. Qed.

(* the primary is observed cancelled while the result is still live (propagation pending; e.g. a non-std primary whose
   cancellation reaches the child through the propagation goroutine): not quiescent; after propagation, cancelled, and the
   deregistration hook stops the registration on the other context although that context is live *)
Example scombine_parent_before_child :
  let ns := build_env [ {| eparent := None; ekv := None |}; {| eparent := None; ekv := None |} ] [] in
  let step := scombine_step true (Some 0) [Some 1] 2 in
  let s1 := grun step (combine_init ns) [SMain; SMain; SMain; SMain; SMain; SMain; SMain; SCancel 0] in
  let s2 := scombine_settle true (Some 0) [Some 1] 2 50 s1 in
  combine_ret s1 = Some 2 /\ is_canc (nodes (bw s1)) 0 = true /\ is_canc (nodes (bw s1)) 2 = false /\
  scombine_quiescent s1 = false /\
  scombine_quiescent s2 = true /\ is_canc (nodes (bw s2)) 2 = true /\ map rst (regs (bw s2)) = [Stopped; Done].
Proof. vm_compute. repeat split; reflexivity. Qed.

(* stop() wins on an already cancelled other: the other context is cancelled but its registration has not fired when
   the deregistration hook stops it: the result was cancelled through the primary *)
Example scombine_stop_wins_on_cancelled_other :
  let ns := build_env [ {| eparent := None; ekv := None |}; {| eparent := None; ekv := None |} ] [] in
  let step := scombine_step true (Some 0) [Some 1] 2 in
  let s := grun step (combine_init ns) [SMain; SMain; SMain; SMain; SMain; SMain; SMain; SCancel 0; SCancel 1; SPropg 2; SFire 1;
                                        SHook 1; SHook 1] in
  scombine_quiescent s = true /\ is_canc (nodes (bw s)) 1 = true /\ is_canc (nodes (bw s)) 2 = true /\
  map rst (regs (bw s)) = [Stopped; Done].
Proof. vm_compute. repeat split; reflexivity. Qed.

Example scombine_cancel_during_construction :
  let ns := build_env [ {| eparent := None; ekv := None |}; {| eparent := None; ekv := None |} ] [] in
  let step := scombine_step true (Some 0) [Some 1] 2 in
  let s := scombine_settle true (Some 0) [Some 1] 2 50 (grun step (combine_init ns) [SMain; SMain; SMain; SCancel 1]) in
  scombine_quiescent s = true /\ combine_ret s = Some 2 /\ is_canc (nodes (bw s)) 2 = true.
Proof. vm_compute. repeat split; reflexivity. Qed.

(* ----- progress and quiescence ----- *)
Definition scombine_mu (L : nat) (s : bst) : nat * nat := (combine_rem L (bpcv s), smu (bw s)).

Theorem scombine_progress regstop primary others nenv s l s' :
  scombine_step regstop primary others nenv s l = Some s' ->
  match l with SCancel _ | SUser => lexle (scombine_mu (length others) s') (scombine_mu (length others) s)
             | _ => lexlt (scombine_mu (length others) s') (scombine_mu (length others) s) end.
Proof.
  intros Hs.
  assert (Hsys : forall w', s_sys nenv (bw s) l = Some w' -> s' = bset s w' (bpcv s) ->
                 match l with SCancel _ | SUser => lexle (scombine_mu (length others) s') (scombine_mu (length others) s)
                            | _ => lexlt (scombine_mu (length others) s') (scombine_mu (length others) s) end).
  { intros w' H ->. pose proof (smu_sys _ _ _ _ H) as Hm. unfold scombine_mu. cbn [bset bw bpcv].
    destruct l; try discriminate; right; cbn [fst snd]; (split; [reflexivity|exact Hm]). }
  destruct l as [|r|n| | |c|r]; cbn [scombine_step] in Hs; try discriminate;
    try (destruct (s_sys nenv (bw s) _) as [w'|] eqn:E; [|discriminate]; inversion Hs; subst s'; apply (Hsys w' eq_refl eq_refl)).
  clear Hsys. left. unfold scombine_main, combine_main in Hs. unfold scombine_mu. cbn [fst].
  destruct (bpcv s) as [|i n| | | |i| |r|r|r] eqn:E; try discriminate.
  + destruct primary as [p|]; [destruct (is_canc (nodes (bw s)) p)|]; inversion Hs; subst s'; cbn [bset bpcv combine_rem]; lia.
  + destruct (nth_error others i) as [[o|]|] eqn:Eo.
    * apply nth_error_lt in Eo. destruct (is_canc (nodes (bw s)) o); inversion Hs; subst s'; cbn [bset bpcv combine_rem]; lia.
    * apply nth_error_lt in Eo. inversion Hs; subst s'; cbn [bset bpcv combine_rem]; lia.
    * destruct (n =? 0); inversion Hs; subst s'; cbn [bset bpcv combine_rem]; lia.
  + inversion Hs; subst s'; cbn [bpcv combine_rem]; lia.
  + inversion Hs; subst s'; cbn [bset bpcv combine_rem]; lia.
  + inversion Hs; subst s'; cbn [bpcv combine_rem]; lia.
  + destruct (nth_error others i) as [[o|]|] eqn:Eo; [apply nth_error_lt in Eo|apply nth_error_lt in Eo|];
      inversion Hs; subst s'; cbn [bset bpcv combine_rem]; lia.
  + inversion Hs; subst s'; cbn [bset bpcv combine_rem]; lia.
Qed.

(* CombineContext's own code never blocks: from every state (reachable or not) a non-quiescent state has an enabled
   internal step *)
Lemma scombine_enabled regstop primary others nenv s :
  scombine_quiescent s = false ->
  exists l, In l (s_internal (bw s)) /\ scombine_step regstop primary others nenv s l <> None.
Proof.
  intros Hq.
  assert (Hmain : combine_ret s = None -> scombine_step regstop primary others nenv s SMain <> None).
  { cbn [scombine_step]. unfold combine_ret, scombine_main, combine_main. destruct (bpcv s) as [|i n| | | |i| |r|r|r]; try discriminate.
    - intros _. destruct primary as [p|]; [destruct (is_canc (nodes (bw s)) p)|]; discriminate.
    - intros _. destruct (nth_error others i) as [[o|]|]; [destruct (is_canc (nodes (bw s)) o)| |destruct (n =? 0)]; discriminate.
    - intros _. destruct (nth_error others i) as [[o|]|]; discriminate. }
  assert (Hsys : settled (bw s) = false -> exists l, In l (s_internal (bw s)) /\ scombine_step regstop primary others nenv s l <> None).
  { intros Hs. destruct (unsettled_enabled nenv (bw s) Hs) as (l & Hin & Hl & Hm & Hw). exists l. split; [exact Hin|].
    destruct l; cbn [scombine_step]; try congruence; try (cbn [s_sys] in Hl; congruence);
      destruct (s_sys nenv (bw s) _); congruence. }
  unfold scombine_quiescent in Hq. unfold combine_ret in Hmain.
  destruct (bpcv s); try (apply Hsys; exact Hq); exists SMain; (split; [left; reflexivity|apply Hmain; reflexivity]).
Qed.

Theorem scombine_quiescence_reached regstop primary others nenv s :
  exists fuel, scombine_quiescent (scombine_settle regstop primary others nenv fuel s) = true.
Proof.
  unfold scombine_settle.
  apply (settle_reaches (scombine_step regstop primary others nenv) (fun s => s_internal (bw s)) (scombine_mu (length others))
                        (fun _ => True) scombine_quiescent); auto.
  - intros s0 l s' Hin Hs. pose proof (scombine_progress _ _ _ _ _ _ _ Hs) as H. apply in_internal_is_internal in Hin.
    destruct l; try exact H; discriminate.
  - intros s0 _ Hq. apply scombine_enabled. exact Hq.
Qed.

Theorem scombine_quiescent_stuck regstop primary others nenv s l :
  scombine_quiescent s = true -> is_internal l = true -> scombine_step regstop primary others nenv s l = None.
Proof.
  intros Hq Hl. unfold scombine_quiescent in Hq.
  assert (Hs : settled (bw s) = true) by (destruct (bpcv s); try discriminate; exact Hq).
  pose proof (settled_stuck nenv (bw s) l Hs) as H.
  destruct l; try discriminate; cbn [scombine_step]; try reflexivity; try (rewrite H; reflexivity).
  unfold scombine_main, combine_main. destruct (bpcv s); try discriminate; reflexivity.
Qed.
