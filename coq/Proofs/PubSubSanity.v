(* sanityCheckSubscribersDelta detects exactly the int32 wrap-arounds and the negative counts
   (Model/PubSubSanity.v). *)
From Coq Require Import ZArith Lia Bool ZifyBool.
From BB.Model Require Import PubSubSanity.
Open Scope Z_scope.
Ltac Zify.zify_post_hook ::= Z.div_mod_to_equations.

Lemma wrap32_range : forall z, min_int32 <= wrap32 z <= max_int32.
Proof. intros z. unfold wrap32, min_int32, max_int32. lia. Qed.

Lemma wrap32_id : forall z, min_int32 <= z <= max_int32 -> wrap32 z = z.
Proof. intros z. unfold wrap32, min_int32, max_int32. lia. Qed.

(* the old value recomputed by the check is the true old value, whatever wrapped *)
Lemma sanity_recovers_old : forall old delta,
  min_int32 <= old <= max_int32 -> - max_int32 <= delta <= max_int32 ->
  wrap32 (wrap32 (add_subscribers old delta) - wrap32 delta) = old.
Proof. intros old delta. unfold add_subscribers, wrap32, min_int32, max_int32. lia. Qed.

(* For every int32 value of the counter and every admissible delta, applied with the atomic int32 addition as the code
   does: a check fires IFF the true sum leaves the int32 range, or the old or the new count is negative. *)
Theorem sanity_detects_wrap : forall old delta,
  min_int32 <= old <= max_int32 -> - max_int32 <= delta <= max_int32 ->
  (sanity_check (add_subscribers old delta) delta <> 0 <->
   (old + delta < min_int32 \/ max_int32 < old + delta \/ old < 0 \/ old + delta < 0)).
Proof.
  intros old delta Ho Hd. unfold sanity_check.
  rewrite (sanity_recovers_old old delta Ho Hd).
  unfold add_subscribers, wrap32, min_int32, max_int32 in *.
  repeat match goal with |- context [if ?b then _ else _] => destruct b eqn:? end; lia.
Qed.

(* which check: a wrap is always reported by the first (overflow/underflow) check *)
Theorem sanity_wrap_is_overflow_class : forall old delta,
  min_int32 <= old <= max_int32 -> - max_int32 <= delta <= max_int32 ->
  (sanity_check (add_subscribers old delta) delta = 1 <->
   (old + delta < min_int32 \/ max_int32 < old + delta)).
Proof.
  intros old delta Ho Hd. unfold sanity_check.
  rewrite (sanity_recovers_old old delta Ho Hd).
  unfold add_subscribers, wrap32, min_int32, max_int32 in *.
  repeat match goal with |- context [if ?b then _ else _] => destruct b eqn:? end; lia.
Qed.

(* contract-following use never trips it *)
Corollary sanity_silent_in_range : forall old delta,
  0 <= old <= max_int32 -> 0 <= old + delta <= max_int32 -> - max_int32 <= delta <= max_int32 ->
  sanity_check (add_subscribers old delta) delta = 0.
Proof.
  intros old delta H0 H1 Hd.
  destruct (Z.eq_dec (sanity_check (add_subscribers old delta) delta) 0) as [E|E]; [exact E|].
  apply sanity_detects_wrap in E; unfold min_int32, max_int32 in *; lia.
Qed.

Lemma sanity_fires_spec : forall s d, sanity_fires s d = true <-> sanity_check s d <> 0.
Proof. intros s d. unfold sanity_fires. lia. Qed.

(* non-vacuity: each class occurs *)
Example sanity_ex_overflow : sanity_check (add_subscribers max_int32 1) 1 = 1.
Proof. vm_compute. reflexivity. Qed.
Example sanity_ex_underflow : sanity_check (add_subscribers min_int32 (-1)) (-1) = 1.
Proof. vm_compute. reflexivity. Qed.
Example sanity_ex_negative_new : sanity_check (add_subscribers 0 (-1)) (-1) = 2.
Proof. vm_compute. reflexivity. Qed.
Example sanity_ex_negative_old : sanity_check (add_subscribers (-1) 2) 2 = 3.
Proof. vm_compute. reflexivity. Qed.
Example sanity_ex_ok : sanity_check (add_subscribers 5 (-5)) (-5) = 0 /\ sanity_check (add_subscribers 0 max_int32) max_int32 = 0.
Proof. vm_compute. auto. Qed.

Print Assumptions sanity_detects_wrap.
Print Assumptions sanity_wrap_is_overflow_class.
Print Assumptions sanity_silent_in_range.
