(* Proofs about Model/ExclusiveKeysN.v: for EVERY number of keys, each key of the product behaves exactly as the
   one-key model run on its own picks (frame property), so C09 (no overlap per key) holds on every key and no key can
   delay another.  The two-key model Model/ExclusiveKeys.v is the instance with two components. *)
From Coq Require Import List Arith Lia Bool.
From BB.Model Require Import ExclusiveAbs ExclusiveKeys ExclusiveKeysN.
From BB.Proofs Require Import ExclusiveAbs.
Import ListNotations.
Arguments Nat.eqb : simpl never.

Lemma nth_putN_same s k x : k < length s -> nth_error (putN k x s) k = Some x.
Proof.
  revert k. induction s as [|y rest IH]; intros k H; [cbn in H; lia|].
  destruct k as [|j]; [reflexivity|]. cbn [putN nth_error]. apply IH. cbn in H. lia.
Qed.

Lemma nth_putN_other s k j x : k <> j -> nth_error (putN k x s) j = nth_error s j.
Proof.
  revert k j. induction s as [|y rest IH]; intros k j H; [destruct k; reflexivity|].
  destruct k as [|k']; destruct j as [|j']; cbn [putN nth_error]; try reflexivity; [exfalso; apply H; reflexivity|].
  apply IH. intros E. apply H. rewrite E. reflexivity.
Qed.

Lemma length_putN s k x : length (putN k x s) = length s.
Proof. revert k. induction s as [|y rest IH]; intros [|j]; cbn [putN length]; try reflexivity. rewrite IH. reflexivity. Qed.

(* one step of the product, seen from key k *)
Lemma stepN_nth s p s' k :
  stepN s p = Some s' ->
  nth_error s' k = if fst p =? k
                   then match nth_error s k with Some c => step c (snd p) | None => None end
                   else nth_error s k.
Proof.
  unfold stepN. destruct (nth_error s (fst p)) as [c|] eqn:Hc; [|discriminate].
  destruct (step c (snd p)) as [x|] eqn:Hs; [|discriminate]. intros H. injection H as <-.
  destruct (Nat.eqb_spec (fst p) k) as [<-|HN].
  - rewrite Hc, Hs. apply nth_putN_same. apply nth_error_Some. congruence.
  - apply nth_putN_other. exact HN.
Qed.

Lemma runN_nth : forall sched s k,
  nth_error (runN s sched) k = option_map (fun c => run c (projN k sched)) (nth_error s k).
Proof.
  induction sched as [|p rest IH]; intros s k.
  - cbn [runN projN filter map]. destruct (nth_error s k); reflexivity.
  - cbn [runN]. unfold projN. cbn [filter].
    destruct (stepN s p) as [s'|] eqn:HS.
    + rewrite IH, (stepN_nth _ _ _ k HS).
      destruct (Nat.eqb_spec (fst p) k) as [E|HN]; [|reflexivity].
      cbn [map]. destruct (nth_error s k) as [c|] eqn:Hc; [|exfalso].
      * unfold stepN in HS. rewrite E, Hc in HS. destruct (step c (snd p)) as [x|] eqn:Hs; [|discriminate HS].
        cbn [option_map]. unfold run. cbn [run_gen]. fold step. rewrite Hs. reflexivity.
      * unfold stepN in HS. rewrite E, Hc in HS. discriminate HS.
    + rewrite IH. destruct (Nat.eqb_spec (fst p) k) as [E|HN]; [|reflexivity].
      cbn [map]. destruct (nth_error s k) as [c|] eqn:Hc; [|reflexivity].
      cbn [option_map]. unfold run. cbn [run_gen]. fold step.
      unfold stepN in HS. rewrite E, Hc in HS. destruct (step c (snd p)); [discriminate HS|reflexivity].
Qed.

(* each key of the product behaves exactly as the one-key model run on its own picks, for every number of keys *)
Theorem keysN_independent : forall cfg sched k,
  nth_error (runN (initN cfg) sched) k
  = option_map (fun ab => run (init (fst ab) (snd ab)) (projN k sched)) (nth_error cfg k).
Proof.
  intros cfg sched k. rewrite runN_nth. unfold initN. rewrite nth_error_map. destruct (nth_error cfg k); reflexivity.
Qed.

Lemma projN_none k sched : (forall q, In q sched -> fst q <> k) -> projN k sched = [].
Proof.
  unfold projN. induction sched as [|q rest IH]; intros H; [reflexivity|]. cbn [filter].
  destruct (Nat.eqb_spec (fst q) k) as [E|_]; [exfalso; exact (H q (or_introl eq_refl) E)|].
  apply IH. intros q' Hin. apply H. right. exact Hin.
Qed.

(* whatever the OTHER keys do or fail to do, neither the state of key k nor the enabledness or effect of any of its
   picks changes *)
Theorem other_keys_never_interfere : forall (k : nat) (s : stN) (sched : list pickN) (p : pick),
  (forall q, In q sched -> fst q <> k) ->
  nth_error (runN s sched) k = nth_error s k /\
  stepN (runN s sched) (k, p) =
    match nth_error s k with
    | Some c => match step c p with Some x => Some (putN k x (runN s sched)) | None => None end
    | None => None
    end.
Proof.
  intros k s sched p HN.
  assert (HC : nth_error (runN s sched) k = nth_error s k).
  { rewrite runN_nth, (projN_none _ _ HN). destruct (nth_error s k); reflexivity. }
  split; [exact HC|]. unfold stepN. cbn [fst snd]. rewrite HC. reflexivity.
Qed.

(* C09 on every key of every product *)
Corollary keysN_invariant : forall cfg sched k c,
  nth_error (runN (initN cfg) sched) k = Some c -> Inv c /\ v c overlap = 0 /\ v c started <= v c issuedc + v c issueds.
Proof.
  intros cfg sched k c H. rewrite keysN_independent in H. destruct (nth_error cfg k) as [[a b]|]; [|discriminate H].
  cbn [option_map fst snd] in H. injection H as <-.
  pose proof (Inv_run a b (projN k sched)) as HI. split; [exact HI|].
  pose proof (no_overlap_execs_le_calls a b (projN k sched)) as H. cbv zeta in H. exact H.
Qed.

Lemma runN_length s sched : length (runN s sched) = length s.
Proof.
  revert s. induction sched as [|p rest IH]; intros s; [reflexivity|]. cbn [runN].
  destruct (stepN s p) as [s'|] eqn:HS; [|apply IH]. rewrite IH. unfold stepN in HS.
  destruct (nth_error s (fst p)); [|discriminate HS]. destruct (step s0 (snd p)); [|discriminate HS].
  injection HS as <-. apply length_putN.
Qed.

(* the two-key model is the instance with two components *)
Definition idx (k : key) : nat := match k with K1 => 0 | K2 => 1 end.
Definition pair_list (s : st2) : stN := fst s :: snd s :: nil.

Lemma step2_stepN s p : option_map pair_list (step2 s p) = stepN (pair_list s) (idx (fst p), snd p).
Proof.
  destruct s as [s1 s2]. destruct p as [[|] q]; unfold step2, stepN, pair_list; cbn [fst snd comp idx nth_error].
  - destruct (step s1 q); reflexivity.
  - destruct (step s2 q); reflexivity.
Qed.

Theorem keys2_is_keysN : forall sched s,
  runN (pair_list s) (map (fun p => (idx (fst p), snd p)) sched) = pair_list (run2 s sched).
Proof.
  induction sched as [|p rest IH]; intros s; [reflexivity|]. cbn [map runN run2].
  rewrite <- step2_stepN. destruct (step2 s p) as [s'|]; cbn [option_map]; apply IH.
Qed.

(* three keys: key 0's work function is held for ever in RWork, key 1 is never used, a call on key 2 is made, executed
   and answered *)
Example held_key_does_not_delay_third_key :
  let s := runN (initN ((1, 0) :: (0, 0) :: (1, 0) :: nil))
             ((0, PB (PCall KC)) :: (0, PB (PAttach KC false)) ::
              (2, PB (PCall KC)) :: (2, PB (PAttach KC false)) :: (2, PB PResolve) :: (2, PB PReturn) :: (2, PB PG3) :: nil) in
  option_map rp (nth_error s 0) = Some RWork /\
  option_map terminalb (nth_error s 2) = Some true /\ option_map (fun c => v c answered) (nth_error s 2) = Some 1.
Proof. vm_compute. auto. Qed.

Print Assumptions keysN_independent.
Print Assumptions other_keys_never_interfere.
Print Assumptions keysN_invariant.
Print Assumptions keys2_is_keysN.
