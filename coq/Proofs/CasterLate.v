(* Late registration (Model/CasterAbs.v), stated over REACHABLE states (run (init ..) sched) instead of over states
   satisfying Inv, and completed by the positive half:

     late_blocked_run, late_gets_nothing_run, late_stable_run
        the three statements of Proofs/CasterAbs.v (rlock_blocked, uncounted_gets_nothing,
        late_registration_stable) on runs; the last one from the moment the Send ANNOUNCES itself on the mutex (S3),
        not only from the moment it holds it
     late_whole_send
        a receiver that is before RLock while a Send is announced stays there, having received nothing, for as long
        as the Send has not unlocked - along any continuation of the schedule
     registered_is_counted
        an idle registered receiver keeps the count >= 1: no Send called meanwhile returns 0 on the fast path
     late_served
        a receiver that is registered and idle is SERVED by a later Send: if any Send completes (unlocks) afterwards,
        then by that time the receiver has received exactly one value, or has deregistered (and received none);
        if it never deregisters: it has received exactly one value
     ex_late_then_served  the whole story on one schedule. *)
From Coq Require Import List Arith Lia Bool ZifyBool.
From BB.Model Require Import CasterAbs.
From BB.Proofs Require Import CasterAbs.
Import ListNotations.
Arguments Nat.sub : simpl never. Arguments Nat.ltb : simpl never. Arguments Nat.leb : simpl never.
Arguments Nat.eqb : simpl never. Arguments Nat.mul : simpl never. Arguments Nat.add : simpl never.

(* ---------------------------------------------------------------------------------------------------------- *)
(* the negative half on runs                                                                                   *)

Theorem late_blocked_run : forall senders receivers sched,
  let s := run (init senders receivers) sched in
  sp s <> SNone -> step s (PB PU0) = None /\ step s (PT TU0) = None.
Proof. intros senders receivers sched s. apply rlock_blocked, Inv_run. Qed.

Theorem late_gets_nothing_run : forall senders receivers sched,
  let s := run (init senders receivers) sched in
  counted (sp s) = true ->
  v s b0n = 0 /\ step s (PB PRecvN) = None /\
  (tow (tg s) = false ->
     trs (tg s) = 0 /\ tas (tg s) = 0 /\
     (tpc (tg s) = TA0 \/ tpc (tg s) = TGot \/ tpc (tg s) = TFin) /\ step s (PT TRecv) = None).
Proof. intros senders receivers sched s. apply uncounted_gets_nothing, Inv_run. Qed.

(* one step, from the announcement (S3) on *)
Lemma stable_step : forall s p s', Inv s -> sp s <> SNone -> tpc (tg s) = TA0 ->
  step s p = Some s' -> tpc (tg s') = TA0.
Proof.
  intros s p s' HI Hin HA Hs.
  destruct (rlock_blocked s HI Hin) as (_ & HT0).
  destruct s as [c f [tp tw xs xa xr xb]]. cbn [sp v tg tpc] in *. subst tp.
  unfold step, step_gen, lift in Hs. cbn [sp v tg] in Hs.
  destruct p as [b|t'].
  - destruct (guard _ f b); [|discriminate Hs].
    destruct (cstep good c f b) as [[[e c'] f']|]; [|discriminate Hs]. injection Hs as <-.
    cbn [tg]. destruct e; reflexivity.
  - destruct t'; try discriminate Hs.
    unfold step, step_gen, lift in HT0. cbn [sp v tg tag_pre tpc] in HT0, Hs.
    rewrite HT0 in Hs. discriminate Hs.
Qed.

Theorem late_stable_run : forall senders receivers sched p s',
  let s := run (init senders receivers) sched in
  sp s <> SNone -> tpc (tg s) = TA0 -> step s p = Some s' -> tpc (tg s') = TA0.
Proof. intros senders receivers sched p s' s. apply stable_step, Inv_run. Qed.

Lemma run_cons : forall s p rest,
  run s (p :: rest) = run (match step s p with Some s' => s' | None => s end) rest.
Proof. reflexivity. Qed.

Lemma whole_send_from : forall sched2 s1, Inv s1 -> tpc (tg s1) = TA0 ->
  (forall j, sp (run s1 (firstn j sched2)) <> SNone) ->
  tpc (tg (run s1 sched2)) = TA0.
Proof.
  induction sched2 as [|p rest IH]; intros s1 HI HA HL; [exact HA|].
  rewrite run_cons.
  pose proof (HL 0) as H0. cbn [firstn] in H0. change (run s1 []) with s1 in H0.
  destruct (step s1 p) as [s'|] eqn:Hs.
  - apply IH.
    + eapply Inv_step; eassumption.
    + eapply stable_step; eassumption.
    + intros j. specialize (HL (S j)). cbn [firstn] in HL. rewrite run_cons, Hs in HL. exact HL.
  - apply IH; try assumption.
    intros j. specialize (HL (S j)). cbn [firstn] in HL. rewrite run_cons, Hs in HL. exact HL.
Qed.

(* [sched1] leads to a state in which a Send is announced or running and the tagged receiver is still before RLock
   (it has called Add(+1) or not yet - the model does not distinguish); as long as the continuation [sched2] does
   not get that Send to unlock, the receiver is still before RLock and has received and absorbed nothing. *)
Theorem late_whole_send : forall senders receivers sched1 sched2,
  let s1 := run (init senders receivers) sched1 in
  tpc (tg s1) = TA0 ->
  (forall j, sp (run s1 (firstn j sched2)) <> SNone) ->
  let s2 := run s1 sched2 in
  tpc (tg s2) = TA0 /\ trcv (tg s2) = 0 /\ tabs (tg s2) = 0 /\
  step s2 (PT TU0) = None.
Proof.
  intros senders receivers sched1 sched2 s1 HA HL s2.
  assert (HI1 : Inv s1) by apply Inv_run.
  assert (HI2 : Inv s2) by (apply Inv_run_from; exact HI1).
  assert (HT : tpc (tg s2) = TA0) by (apply whole_send_from; assumption).
  split; [exact HT|].
  pose proof HI2 as (_ & _ & HTot & _). unfold tot_inv in HTot. rewrite HT in HTot.
  split; [lia|]. split; [lia|].
  apply rlock_blocked; [exact HI2|].
  specialize (HL (length sched2)). rewrite firstn_all in HL. exact HL.
Qed.

(* ---------------------------------------------------------------------------------------------------------- *)
(* the positive half                                                                                           *)

(* an idle registered receiver is in the count; no Send is at or past its final load *)
Lemma registered_is_counted_inv : forall s, Inv s -> tpc (tg s) = TB0 ->
  1 <= v s cnt /\ (sp s = SNone \/ sp s = S3 \/ sp s = S4 \/ sp s = S6).
Proof.
  intros [c f [tp tw xs xa xr xb]] [(HCm & HL & HP) (HLoc & HTot & HPh)] E. cbn [sp v tg tpc] in *. subst tp.
  unfold common, lock_inv, phase_inv, loc_inv, tphase in *. cbn [tpc tow trs tas] in *.
  destruct c; destruct tw; try discriminate HPh; try lia; split; try lia; auto.
Qed.

Theorem registered_is_counted : forall senders receivers sched,
  let s := run (init senders receivers) sched in
  tpc (tg s) = TB0 ->
  1 <= v s cnt /\
  (forall s', step s (PB PSendStart) = Some s' -> v s' nzero = v s nzero /\ v s' sq = S (v s sq)).
Proof.
  intros senders receivers sched s E.
  destruct (registered_is_counted_inv s (Inv_run _ _ _) E) as [Hc _]. split; [exact Hc|].
  intros s' Hs. destruct s as [c f t]. cbn [sp v tg] in *.
  unfold step, step_gen, lift in Hs. cbn [sp v tg] in Hs.
  destruct (guard t f PSendStart); [|discriminate Hs].
  unfold cstep, mk, pos in Hs.
  destruct (negb (f nsend =? 0)); [|discriminate Hs].
  replace ((f cnt =? 0) && (f armed =? 0)) with false in Hs by lia.
  injection Hs as <-. cbn [v set var_beq]. split; reflexivity.
Qed.

Ltac brk_hyp H :=
  repeat match type of H with
         | (if ?b then _ else _) = _ => let E := fresh "E" in destruct b eqn:E; try discriminate H
         end.

(* the number of completed Sends moves only when a Send unlocks *)
Lemma cstep_nret : forall c f b e c' f', cstep good c f b = Some (e, c', f') ->
  f' nret = f nret \/ (b = PS /\ c = S8 /\ f' nret = S (f nret)).
Proof.
  intros c f b e c' f' Hs. unfold cstep, dereg, mk, pos, rlockable in Hs. cbn [fl_absorb fl_rlock good] in Hs.
  destruct b; destruct c; try discriminate Hs; brk_hyp Hs; injection Hs as <- <- <-; cbn [set var_beq]; auto.
Qed.

Lemma tag_eff_tpc : forall e t, tpc (tag_eff e t) = tpc t.
Proof. intros e t. destruct e; reflexivity. Qed.

Definition registered_or_done (p : tagpc) : Prop := p = TB0 \/ p = TN5 \/ p = TGot \/ p = TFin.
Definition waiting (p : tagpc) : Prop := p = TB0 \/ p = TN5.

(* from the moment the receiver is registered and idle: while it still waits (idle, or inside an absorbing Add(-1))
   no Send has unlocked since *)
Definition Served (n0 : nat) (s : st) : Prop :=
  registered_or_done (tpc (tg s)) /\ n0 <= v s nret /\ (waiting (tpc (tg s)) -> v s nret = n0).

Lemma Served_step : forall n0 s p s', Inv s -> Served n0 s -> step s p = Some s' -> Served n0 s'.
Proof.
  intros n0 [c f t] p s' HI (HR & Hle & HW) Hs.
  unfold step, step_gen, lift in Hs. cbn [sp v tg] in *.
  destruct p as [b|tp].
  - destruct (guard t f b); [|discriminate Hs].
    destruct (cstep good c f b) as [[[e c'] f']|] eqn:Hc; [|discriminate Hs]. injection Hs as <-.
    unfold Served. cbn [sp v tg]. rewrite tag_eff_tpc.
    destruct (cstep_nret _ _ _ _ _ _ Hc) as [En | (-> & -> & En)].
    + rewrite En. repeat split; assumption.
    + (* the unlock: nobody the Send counted is still waiting *)
      split; [exact HR|]. split; [lia|]. intros HWt. exfalso.
      destruct HI as [(HCm & HL & HP) (HLoc & HTot & HPh)]. cbn [sp v tg] in *.
      unfold phase_inv, loc_inv in *. destruct HWt as [E|E]; rewrite E in HLoc; [destruct (tow t)|]; lia.
  - destruct (tag_pre good f tp t) as [t1|] eqn:Hp; [|discriminate Hs].
    destruct (cstep good c f (base_of t tp)) as [[[e c'] f']|] eqn:Hc; [|discriminate Hs]. injection Hs as <-.
    unfold Served. cbn [sp v tg]. rewrite tag_eff_tpc.
    assert (En : f' nret = f nret).
    { destruct (cstep_nret _ _ _ _ _ _ Hc) as [En | (Eb & _)]; [exact En|].
      exfalso. unfold base_of in Eb. destruct tp; try destruct (tow t); discriminate Eb. }
    rewrite En.
    unfold tag_pre in Hp. unfold registered_or_done, waiting in *.
    destruct tp; destruct (tpc t) eqn:Et; try discriminate Hp;
      try (destruct HR as [HR|[HR|[HR|HR]]]; discriminate HR);
      cbn [fl_absorb fl_rlock good] in Hp.
    + (* TRecv *) injection Hp as <-. cbn [tpc]. split; [auto|]. split; [lia|].
      intros [E|E]; discriminate E.
    + (* TDereg *) injection Hp as <-. cbn [tpc with_tpc]. split; [destruct (f armed =? 0); auto|].
      split; [lia|]. intros _. apply HW. auto.
    + (* TAbsorb *) injection Hp as <-. cbn [tpc]. split; [auto|]. split; [lia|].
      intros [E|E]; discriminate E.
Qed.

Lemma Served_run : forall n0 sched s, Inv s -> Served n0 s -> Served n0 (run s sched).
Proof.
  intros n0. induction sched as [|p rest IH]; intros s HI HS; [exact HS|].
  rewrite run_cons. destruct (step s p) as [s'|] eqn:Hs; [|apply IH; assumption].
  apply IH; [eapply Inv_step; eassumption | eapply Served_step; eassumption].
Qed.

(* The positive half.  [sched1] leads to a state in which the tagged receiver is registered and idle (for instance
   after having been kept out by an earlier Send).  If, along any continuation, some Send completes - unlocks,
   i.e. [nret] grows - then by that time the receiver has been served: it has received exactly one value, or it has
   deregistered (and then received none; whether its Add(-1) absorbed a copy is C08_exact_delivery). *)
Theorem late_served : forall senders receivers sched1 sched2,
  let s1 := run (init senders receivers) sched1 in
  let s2 := run s1 sched2 in
  tpc (tg s1) = TB0 -> v s1 nret < v s2 nret ->
  (tpc (tg s2) = TGot /\ trcv (tg s2) = 1 /\ tabs (tg s2) = 0) \/
  (tpc (tg s2) = TFin /\ trcv (tg s2) = 0).
Proof.
  intros senders receivers sched1 sched2 s1 s2 E Hlt.
  assert (HI1 : Inv s1) by apply Inv_run.
  assert (HS1 : Served (v s1 nret) s1).
  { unfold Served, registered_or_done. rewrite E. repeat split; auto. }
  pose proof (Served_run _ sched2 s1 HI1 HS1) as (HR & _ & HW). fold s2 in HR, HW.
  assert (HI2 : Inv s2) by (apply Inv_run_from; exact HI1).
  destruct HI2 as [_ (_ & HTot & _)]. unfold tot_inv in HTot. unfold waiting in HW.
  destruct HR as [HR|[HR|[HR|HR]]]; rewrite HR in HTot.
  - exfalso. specialize (HW (or_introl HR)). lia.
  - exfalso. specialize (HW (or_intror HR)). lia.
  - left. repeat split; try assumption; lia.
  - right. split; [assumption|lia].
Qed.

(* a receiver that does not give up: the continuation contains no deregistration by it *)
Definition OnlyReceives (s : st) : Prop := tpc (tg s) = TB0 \/ tpc (tg s) = TGot.

Lemma OnlyReceives_step : forall s p s', OnlyReceives s -> p <> PT TDereg -> step s p = Some s' -> OnlyReceives s'.
Proof.
  intros [c f t] p s' HO Hp Hs. unfold step, step_gen, lift in Hs. cbn [sp v tg] in *. unfold OnlyReceives in *.
  cbn [tg] in *.
  destruct p as [b|tp].
  - destruct (guard t f b); [|discriminate Hs].
    destruct (cstep good c f b) as [[[e c'] f']|]; [|discriminate Hs]. injection Hs as <-.
    cbn [tg]. rewrite tag_eff_tpc. exact HO.
  - destruct (tag_pre good f tp t) as [t1|] eqn:Hq; [|discriminate Hs].
    destruct (cstep good c f (base_of t tp)) as [[[e c'] f']|]; [|discriminate Hs]. injection Hs as <-.
    cbn [tg]. rewrite tag_eff_tpc. unfold tag_pre in Hq.
    destruct tp; destruct (tpc t) eqn:Et; try discriminate Hq; try (destruct HO as [HO|HO]; discriminate HO).
    + injection Hq as <-. cbn [tpc]. auto.
    + exfalso. apply Hp. reflexivity.
Qed.

Theorem late_served_no_giveup : forall senders receivers sched1 sched2,
  let s1 := run (init senders receivers) sched1 in
  let s2 := run s1 sched2 in
  tpc (tg s1) = TB0 -> ~ In (PT TDereg) sched2 -> v s1 nret < v s2 nret ->
  tpc (tg s2) = TGot /\ trcv (tg s2) = 1 /\ tabs (tg s2) = 0.
Proof.
  intros senders receivers sched1 sched2 s1 s2 E Hn Hlt.
  destruct (late_served senders receivers sched1 sched2 E Hlt) as [H|[HF _]]; [exact H|]. exfalso.
  assert (HO : OnlyReceives s2).
  { unfold s2. assert (H1 : OnlyReceives s1) by (left; exact E). clear E Hlt HF. revert H1 Hn.
    generalize s1. clear s1 s2. induction sched2 as [|p rest IH]; intros s H1 Hn; [exact H1|].
    rewrite run_cons. destruct (step s p) as [s'|] eqn:Hs.
    - apply IH; [|intros Hin; apply Hn; right; exact Hin].
      eapply OnlyReceives_step; try eassumption. intros ->. apply Hn. left. reflexivity.
    - apply IH; [exact H1|intros Hin; apply Hn; right; exact Hin]. }
  unfold OnlyReceives in HO. subst s2 s1. rewrite HF in HO. destruct HO as [HO|HO]; discriminate HO.
Qed.

(* the whole story on one schedule (2 Sends, 1 anonymous receiver + the tagged one): the tagged receiver calls
   Add(+1) while Send#1 is announced/armed and is kept out; Send#1 returns 1 (the anonymous receiver); the tagged
   receiver registers; Send#2 counts it, it receives exactly one value; Send#2 returns 1 *)
Definition sched_second_send : list pick :=
  [PB PS; PT TU0; PT TU1; PT TU2; PB PSendStart; PB PSendLock; PB PS; PB PS; PT TRecv; PB PS; PB PS; PB PS].
Example ex_late_then_served :
  let s1 := run (init 2 1) sched_late in
  let s2 := run s1 [PB PS; PT TU0; PT TU1; PT TU2] in
  let s3 := run s2 (tl (tl (tl (tl sched_second_send)))) in
  (sp s1 = S8 /\ tpc (tg s1) = TA0 /\ trs (tg s1) = 0 /\ v s1 ret = 1) /\
  (sp s2 = SNone /\ tpc (tg s2) = TB0 /\ v s2 nret = 1 /\ v s2 cnt = 1) /\
  (sp s3 = S8 /\ tow (tg s3) = true /\ tpc (tg s3) = TGot /\ trs (tg s3) = 1 /\ trcv (tg s3) = 1 /\ v s3 ret = 1) /\
  let s4 := run s3 [PB PS] in v s4 nret = 2 /\ v s4 retsum = 2 /\ v s4 got = 2 /\ terminalb s4 = true.
Proof. vm_compute. repeat split. Qed.

Print Assumptions late_blocked_run.
Print Assumptions late_gets_nothing_run.
Print Assumptions late_stable_run.
Print Assumptions late_whole_send.
Print Assumptions registered_is_counted.
Print Assumptions late_served.
Print Assumptions late_served_no_giveup.
