(* Specification theorems for the cleaner functions, for every size and every offset list. *)
From Coq Require Import List ZArith Bool Lia.
From BB.Model Require Import Cleaner.
Import ListNotations.
Open Scope Z_scope.

Lemma min_nonneg_le_acc offs : forall acc, min_nonneg offs acc <= acc.
Proof.
  induction offs as [|o rest IH]; intros acc; cbn [min_nonneg]; [lia|].
  destruct (0 <=? o); [specialize (IH (Z.min acc o))|specialize (IH acc)]; lia.
Qed.

Lemma min_nonneg_le_each offs : forall acc, Forall (fun o => 0 <= o -> min_nonneg offs acc <= o) offs.
Proof.
  induction offs as [|o rest IH]; intros acc; constructor.
  - intros Ho. cbn [min_nonneg]. destruct (0 <=? o) eqn:E; [|lia].
    pose proof (min_nonneg_le_acc rest (Z.min acc o)). lia.
  - cbn [min_nonneg]. destruct (0 <=? o); apply IH.
Qed.

Lemma min_nonneg_ge offs : forall acc, 0 <= acc -> 0 <= min_nonneg offs acc.
Proof.
  induction offs as [|o rest IH]; intros acc Ha; cbn [min_nonneg]; [lia|].
  destruct (0 <=? o) eqn:E; apply IH; lia.
Qed.

(* The loop computes: 0 as soon as a zero offset is met; otherwise the minimum of the start value and the
   positive offsets, provided one was active. *)
Lemma default_loop_spec offs : forall lowest active,
  0 <= lowest ->
  default_loop offs lowest active =
    if active || any_nonneg offs then min_nonneg offs lowest else 0.
Proof.
  induction offs as [|o rest IH]; intros lowest active Hl; cbn [default_loop any_nonneg existsb min_nonneg].
  - rewrite orb_false_r. reflexivity.
  - destruct (o =? 0) eqn:E0.
    + apply Z.eqb_eq in E0; subst o. cbn [Z.leb Z.compare orb]. rewrite orb_true_r.
      pose proof (min_nonneg_le_acc rest (Z.min lowest 0)).
      pose proof (min_nonneg_ge rest (Z.min lowest 0)). lia.
    + apply Z.eqb_neq in E0. destruct (o <? 0) eqn:E1.
      * apply Z.ltb_lt in E1. replace (0 <=? o) with false by (symmetry; apply Z.leb_gt; lia).
        cbn [orb]. apply IH; lia.
      * apply Z.ltb_ge in E1. replace (0 <=? o) with true by (symmetry; apply Z.leb_le; lia).
        cbn [orb]. rewrite orb_true_r. rewrite IH by (destruct (o <? lowest); lia).
        cbn [orb]. f_equal. destruct (o <? lowest) eqn:E2; [apply Z.ltb_lt in E2|apply Z.ltb_ge in E2]; lia.
Qed.

Theorem default_cleaner_is_spec size offsets :
  0 <= size -> default_cleaner size offsets = default_spec size offsets.
Proof. intros Hs. unfold default_cleaner, default_spec. rewrite default_loop_spec by assumption. reflexivity. Qed.

(* What the Buffer relies on: the result is within [0,size], never above a non-negative (i.e. live, not lagging)
   consumer offset, 0 when no consumer is active, and exactly the least active offset (capped by size) otherwise. *)
Theorem default_cleaner_spec size offsets :
  0 <= size ->
  let r := default_cleaner size offsets in
  0 <= r <= size /\
  Forall (fun o => 0 <= o -> r <= o) offsets /\
  (Forall (fun o => o < 0) offsets -> r = 0) /\
  (Exists (fun o => 0 <= o) offsets ->
     (r = size \/ In r offsets) /\ Forall (fun o => 0 <= o -> r <= o) offsets).
Proof.
  intros Hs r. subst r. rewrite default_cleaner_is_spec by assumption. unfold default_spec.
  destruct (any_nonneg offsets) eqn:Ea.
  - split; [pose proof (min_nonneg_le_acc offsets size); pose proof (min_nonneg_ge offsets size); lia|].
    split; [apply min_nonneg_le_each|]. split.
    + intros Hall. exfalso. unfold any_nonneg in Ea. apply existsb_exists in Ea. destruct Ea as (o & Hin & Ho).
      rewrite Forall_forall in Hall. specialize (Hall o Hin). apply Z.leb_le in Ho. lia.
    + intros _. split; [|apply min_nonneg_le_each].
      clear Ea Hs. generalize size as acc. induction offsets as [|o rest IH]; intros acc; cbn [min_nonneg]; [auto|].
      destruct (0 <=? o).
      * destruct (IH (Z.min acc o)) as [E|Hin]; [|right; right; exact Hin].
        destruct (Z.min_spec acc o) as [[_ Em]|[_ Em]]; rewrite E, Em; [left; reflexivity|right; left; reflexivity].
      * destruct (IH acc) as [E|Hin]; [left; exact E|right; right; exact Hin].
  - split; [lia|]. split.
    + rewrite Forall_forall. intros o Hin Ho. exfalso.
      assert (any_nonneg offsets = true); [|congruence].
      unfold any_nonneg. apply existsb_exists. exists o. split; [assumption|apply Z.leb_le; assumption].
    + split; [reflexivity|]. intros Hex. exfalso. apply Exists_exists in Hex. destruct Hex as (o & Hin & Ho).
      assert (any_nonneg offsets = true); [|congruence].
      unfold any_nonneg. apply existsb_exists. exists o. split; [assumption|apply Z.leb_le; assumption].
Qed.

Theorem fixed_cleaner_spec max target size offsets :
  0 <= size ->
  (size > max -> fixed_cleaner max target size offsets = size - target) /\
  (size <= max -> fixed_cleaner max target size offsets = default_cleaner size offsets).
Proof.
  intros Hs. unfold fixed_cleaner. split; intros H.
  - replace (size >? max) with true by (symmetry; apply Z.gtb_lt; lia). reflexivity.
  - replace (size >? max) with false by (symmetry; rewrite Z.gtb_ltb; apply Z.ltb_ge; lia). reflexivity.
Qed.

Theorem clamp_shift_spec len shift :
  0 <= len ->
  let r := clamp_shift len shift in
  0 <= r <= len /\ (0 <= shift <= len -> r = shift) /\ (shift < 0 -> r = 0) /\ (shift > len -> r = len).
Proof.
  intros Hl r. subst r. unfold clamp_shift.
  destruct (shift >? len) eqn:E1; [apply Z.gtb_lt in E1|rewrite Z.gtb_ltb in E1; apply Z.ltb_ge in E1].
  - destruct (len <=? 0) eqn:E2; [apply Z.leb_le in E2|apply Z.leb_gt in E2]; lia.
  - destruct (shift <=? 0) eqn:E2; [apply Z.leb_le in E2|apply Z.leb_gt in E2]; lia.
Qed.

(* After a forced trim the retained size is the target (when 0 <= target <= size), so at most max when target <= max. *)
Theorem fixed_trim_size max target size offsets :
  0 <= target -> target <= max -> 0 <= size -> size > max ->
  size - clamp_shift size (fixed_cleaner max target size offsets) = target.
Proof.
  intros Ht Htm Hs Hgt. destruct (fixed_cleaner_spec max target size offsets Hs) as [H1 _].
  rewrite (H1 Hgt). destruct (clamp_shift_spec size (size - target) Hs) as (_ & H2 & _). rewrite H2; lia.
Qed.

Example default_cleaner_examples :
  default_cleaner 5 [3; -1; 7; 4] = 3 /\ default_cleaner 5 [-2; -1] = 0 /\ default_cleaner 5 [] = 0 /\
  default_cleaner 5 [9; 8] = 5 /\ default_cleaner 5 [2; 0; 1] = 0 /\ default_cleaner 0 [4] = 0 /\
  fixed_cleaner 4 2 7 [0; 9] = 5 /\ fixed_cleaner 4 2 4 [3; 9] = 3 /\ clamp_shift 3 9 = 3 /\ clamp_shift 3 (-2) = 0.
Proof. vm_compute. repeat split; reflexivity. Qed.
