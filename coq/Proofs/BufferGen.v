(* The arithmetic kernel of bigbuff.Buffer AS WRITTEN IN THE CURRENT SOURCE computes the hand-written model, for every
   state and every argument.

   coq/Gen/ImplBuffer.v is printed by harness/cmd/gotr (-set buffer) from /repo's buffer.go (methods) and the struct
   declaration of Buffer on every run of the C01 and C03 checks (terms of the embedding Model/GoFrag3.v: the receiver's
   fields as a record state, map lookup/store, slice indexing and re-slicing, multi-value returns, error tags, logged
   effects, an oracle cleaner, loops with fuel); this file is re-checked against it each time.

   Two layers.  (1) [*_src_eq_spec]: on EVERY source-level state [mkstore closed consumers offset buffer] (any map, any
   integers - also negative offsets - any slice) and every argument, the run of the translated method is the closed form of
   Model/BufferSrc.v ([get_spec], [commit_spec], [offsets_spec], [cleanup_spec]).  (2) [*_src_eq_model]: on the image
   [abs s] of any state of Model/Buffer.v, that closed form is the model's own function (Proofs/BufferSrc.v):
       get(c, consumer.offset)      = Buffer.get_attempt s c            (for a consumer whose own context is live)
       commit(c, consumer.offset)   = the consumers update and result of Buffer.step s (OCommit c)   (consumer.offset <> 0)
       consumerOffsets()            = Buffer.rel_offsets s, up to the order in which Go iterates over the map
       cleanupLogic()               = Buffer.clean_with f s, for every cleaner f that does not depend on the order of its
                                      offsets (every cleaner of the model is one: Proofs.BufferSrc.cleaner_of_perm)
   A change of the methods that computes something else (`relative <= 0`, `relative > len`, `offset -= cOffset`, the clamp
   dropped, `b.offset += l`, the nil-ing loop running one further) makes a theorem below fail; a change that leaves the
   fragment makes the translator fail.  The scripts do not follow the syntax of the bodies: they run the interpreter, split
   on the map lookup and on the comparisons the run meets (deciding those that follow from earlier ones by linear
   arithmetic) and compare results up to linear arithmetic; the loops are located in the flattened statement list, their
   variables read off the loop itself (temporaries, `relative := cOffset + offset - b.offset`, swapped guards,
   `shift > l` written as `l < shift`, a while-style loop were tried and still check). *)
From Coq Require Import List ZArith Bool String Lia Permutation.
From BB.Model Require Import GoFrag GoFrag3 Cleaner Buffer BufferSrc.
From BB.Proofs Require Import GoFrag3 BufferSrc.
From BB.Gen Require Import ImplBuffer.
Import ListNotations.
Local Open Scope string_scope.
Local Open Scope Z_scope.

Ltac nth_split :=
  match goal with
  | |- context [nth_error ?l ?n] =>
      let NE := fresh "NE" in
      destruct (nth_error l n) eqn:NE;
      [ assert (n < List.length l)%nat by (apply nth_error_Some; rewrite NE; discriminate)
      | apply nth_error_None in NE ]
  end.

(* congruence down to the integers, which are compared by linear arithmetic *)
Ltac deep_eq :=
  lazymatch goal with
  | |- @eq Z _ _ => lia
  | |- @eq nat _ _ => lia
  | |- _ => first [ reflexivity | progress f_equal; deep_eq ]
  end.

(* two records / result lists that agree up to linear arithmetic *)
Ltac rec_eq :=
  unfold set_ints, set_slices, set_maps, mkstore;
  cbn [s_flags s_ints s_slices s_maps aset String.eqb Ascii.eqb Bool.eqb app];
  deep_eq.

(* two lookups at positions that are equal by linear arithmetic: make them the same term *)
Ltac nth_unify :=
  match goal with
  | |- context [nth_error ?l ?a] =>
      match goal with
      | |- context [nth_error l ?b] => lazymatch a with b => fail | _ => replace b with a by lia end
      end
  end.

Ltac src_close :=
  first [ reflexivity | exfalso; lia | rec_eq
        | try nth_unify; nth_split; go3_eval; first [ reflexivity | exfalso; lia ] ].

(* ---- get, commit: straight-line ---- *)

(* for EVERY source-level state and every pair of arguments (any key, any integer): the run of the translated get leaves the
   state alone, has no effect, and returns the three values of the closed form *)
Theorem get_src_eq_spec : forall oe me perm fuel closed m off buf c delta,
  run3 oe me perm fuel get_def (mkstore closed m off buf) [WKey c; W (VInt delta)]
  = Returned3 (mkstore closed m off buf) (get_spec closed m off buf c delta) [].
Proof.
  intros. unfold get_spec. destruct closed; destruct (mget c m) as [co|] eqn:MG; go3_eval; rewrite ?MG; go3_eval;
    repeat (go3_cmp_step; go3_eval); src_close.
Qed.

(* the same for commit: the new state (one map entry replaced), the returned error, the effects in order *)
Theorem commit_src_eq_spec : forall oe me perm fuel closed m off buf c delta,
  run3 oe me perm fuel commit_def (mkstore closed m off buf) [WKey c; W (VInt delta)]
  = commit_spec closed m off buf c delta.
Proof.
  intros. unfold commit_spec. destruct (mget c m) as [co|] eqn:MG; go3_eval; rewrite ?MG; go3_eval;
    repeat (go3_cmp_step; go3_eval); src_close.
Qed.

(* ---- consumerOffsets ---- *)
Fixpoint split_rangemap (l : list stmt3) : option (list stmt3 * (string * string * stmt3) * list stmt3) :=
  match l with
  | [] => None
  | TRangeMap x f b :: post => Some ([], (x, f, b), post)
  | s :: l' => match split_rangemap l' with Some (pre, r, post) => Some (s :: pre, r, post) | None => None end
  end.

Fixpoint last_assigned (l : list stmt3) : string :=
  match l with
  | [] => ""
  | TAssign x _ :: l' => match l' with [] => x | _ => last_assigned l' end
  | _ :: l' => last_assigned l'
  end.

Definition co_flat := Eval cbv in flat3 (body3 consumerOffsets_def).
Definition co_split := Eval cbv in split_rangemap co_flat.
Definition co_pre := Eval cbv in match co_split with Some (pre, _, _) => pre | None => [] end.
Definition co_x := Eval cbv in match co_split with Some (_, (x, _, _), _) => x | None => "" end.
Definition co_f := Eval cbv in match co_split with Some (_, (_, f, _), _) => f | None => "" end.
Definition co_B := Eval cbv in match co_split with Some (_, (_, _, b), _) => b | None => TSkip end.
Definition co_post := Eval cbv in match co_split with Some (_, _, post) => post | None => [] end.
Definition co_acc := Eval cbv in last_assigned (flat3 co_B).

Lemma co_shape : co_flat = (co_pre ++ TRangeMap co_x co_f co_B :: co_post)%list.
Proof. reflexivity. Qed.

Ltac go3_eval_l :=
  cbn -[Z.eqb Z.ltb Z.leb Z.gtb Z.geb Z.add Z.sub Z.mul Z.opp Z.of_nat Z.to_nat nth_error skipn List.length mget mset lset
        for_loop rangemap_loop pure_call].

Lemma co_loop oe me perm fuel closed m off buf : forall order e acc log dfs,
  lookup3 co_acc e = Some (W (VList acc)) ->
  match rangemap_loop oe me perm fuel co_x co_B order (mkstore closed m off buf) e log dfs with
  | N3 st' e' log' dfs' => exec_list3 oe me perm fuel co_post st' e' log' dfs'
  | r => r
  end = R3 (mkstore closed m off buf) [W (VList (acc ++ offsets_spec order off))] log dfs.
Proof.
  induction order as [|[k v] order IH]; intros e acc log dfs Ha; unfold co_acc in Ha.
  - cbn [rangemap_loop]. go3_eval_l. rewrite ?Ha. go3_eval_l. rewrite app_nil_r. reflexivity.
  - cbn [rangemap_loop]. unfold co_x, co_B. go3_eval_l. rewrite ?Ha. go3_eval_l.
    erewrite IH; [| go3_eval_l; reflexivity ].
    cbn [offsets_spec map snd]. rewrite <- app_assoc. reflexivity.
Qed.

Theorem consumerOffsets_src_eq_spec : forall oe me perm fuel closed m off buf,
  run3 oe me perm fuel consumerOffsets_def (mkstore closed m off buf) []
  = Returned3 (mkstore closed m off buf) [W (VList (offsets_spec (perm m) off))] [].
Proof.
  intros. unfold run3. cbn [bind_params3 params3 consumerOffsets_def].
  rewrite exec_flat3. change (flat3 (body3 consumerOffsets_def)) with co_flat. rewrite co_shape, exec_list3_app.
  match goal with |- context [exec_list3 ?a ?b ?c ?d co_pre ?st ?e ?l ?df] =>
    let r := eval cbn -[Z.eqb Z.ltb Z.leb Z.gtb Z.geb Z.add Z.sub Z.mul Z.opp Z.of_nat Z.to_nat nth_error skipn List.length mget mset lset
        for_loop rangemap_loop pure_call] in (exec_list3 a b c d co_pre st e l df) in
    change (exec_list3 a b c d co_pre st e l df) with r end.
  repeat (go3_cmp_step; go3_eval).
  cbv beta iota.
  rewrite exec_list3_cons, exec3_rangemap. go3_eval.
  erewrite co_loop by (go3_eval_l; reflexivity). reflexivity.
Qed.

(* ---- cleanupLogic ---- *)
Fixpoint split_for (l : list stmt3) : option (list stmt3 * (expr3 * stmt3 * stmt3) * list stmt3) :=
  match l with
  | [] => None
  | TFor c p b :: post => Some ([], (c, p, b), post)
  | s :: l' => match split_for l' with Some (pre, r, post) => Some (s :: pre, r, post) | None => None end
  end.

(* the counter and the bound of a loop condition `x < n` / `n > x` *)
Definition cond_vars (c : expr3) : string * string :=
  match c with
  | ZBin BLt (ZVar x) (ZVar n) => (x, n)
  | ZBin BGt (ZVar n) (ZVar x) => (x, n)
  | _ => ("", "")
  end.

Definition cl_flat := Eval cbv in flat3 (body3 cleanupLogic_def).
Definition cl_split := Eval cbv in split_for cl_flat.
Definition cl_pre := Eval cbv in match cl_split with Some (pre, _, _) => pre | None => [] end.
Definition cl_c := Eval cbv in match cl_split with Some (_, (c, _, _), _) => c | None => ZBool false end.
Definition cl_p := Eval cbv in match cl_split with Some (_, (_, p, _), _) => p | None => TSkip end.
Definition cl_b := Eval cbv in match cl_split with Some (_, (_, _, b), _) => b | None => TSkip end.
Definition cl_rest := Eval cbv in match cl_split with Some (_, _, post) => post | None => [] end.
Definition cl_x := Eval cbv in fst (cond_vars cl_c).
Definition cl_n := Eval cbv in snd (cond_vars cl_c).

Lemma cl_shape : cl_flat = (cl_pre ++ TFor cl_c cl_p cl_b :: cl_rest)%list.
Proof. reflexivity. Qed.

Ltac sym3 H1 H2 := repeat (go3_eval_l; rewrite ?H1, ?H2; try go3_cmp_step).

Lemma cl_loop oe me perm fuel closed m off : forall k j x n buf e log dfs,
  lookup3 cl_x e = Some (W (VInt x)) -> lookup3 cl_n e = Some (W (VInt n)) ->
  0 <= x <= n -> n <= Z.of_nat (List.length buf) -> Z.to_nat (n - x) = k -> (k < j)%nat ->
  match for_loop oe me perm fuel cl_c cl_p cl_b j (mkstore closed m off buf) e log dfs with
  | N3 st' e' log' dfs' => exec_list3 oe me perm fuel cl_rest st' e' log' dfs'
  | r => r
  end = R3 (mkstore closed m (off + n) (skipn (Z.to_nat n) buf)) [W (VBool true)] (log ++ [log_broadcast]) dfs.
Proof.
  induction k as [|k IH]; intros j x n buf e log dfs Hx Hn Hxn Hlen Hk Hj; unfold cl_x, cl_n in Hx, Hn;
    (destruct j as [|j]; [lia|]); cbn [for_loop]; unfold cl_c, cl_p, cl_b.
  - sym3 Hx Hn. src_close.
  - sym3 Hx Hn.
    match goal with |- context [@lset ?A ?i ?v ?l] =>
      destruct (@lset A i v l) as [buf'|] eqn:E;
      [ | exfalso; destruct (@lset_some A v i l ltac:(lia)) as [? E']; congruence ] end.
    sym3 Hx Hn.
    match goal with |- context [for_loop _ _ _ _ _ _ _ _ ?st _ _ _] => change st with (mkstore closed m off buf') end.
    erewrite (IH j (x + 1) n buf'); try (unfold cl_x, cl_n; go3_eval_l; rewrite ?Hx, ?Hn; reflexivity); try lia.
    + rewrite (lset_skipn _ _ _ _ (Z.to_nat n) E) by lia. reflexivity.
    + rewrite (lset_length _ _ _ _ E). lia.
Qed.

Definition buffer_menv (perm : list (nat * Z) -> list (nat * Z)) (fuel : nat) : menv :=
  [("consumerOffsets", pure_call [] [] perm fuel consumerOffsets_def)].

Lemma consumerOffsets_pure perm fuel closed m off buf :
  pure_call [] [] perm fuel consumerOffsets_def (mkstore closed m off buf) []
  = Some (W (VList (offsets_spec (perm m) off))).
Proof.
  unfold pure_call. rewrite consumerOffsets_src_eq_spec. reflexivity.
Qed.

Theorem cleanup_src_eq_spec : forall f perm fuel closed m off buf,
  (List.length buf < fuel)%nat ->
  run3 (cleaner_oenv f) (buffer_menv perm fuel) perm fuel cleanupLogic_def (mkstore closed m off buf) []
  = cleanup_spec f (perm m) closed m off buf.
Proof.
  intros f perm fuel closed m off buf Hfuel. unfold run3, cleanup_spec, clamp_shift.
  cbn [bind_params3 params3 cleanupLogic_def].
  rewrite exec_flat3. change (flat3 (body3 cleanupLogic_def)) with cl_flat. rewrite cl_shape, exec_list3_app.
  match goal with |- context [exec_list3 ?a ?b ?c ?d cl_pre ?st ?e ?l ?df] =>
    let r := eval cbn -[Z.eqb Z.ltb Z.leb Z.gtb Z.geb Z.add Z.sub Z.mul Z.opp Z.of_nat Z.to_nat nth_error skipn List.length mget mset lset
        for_loop rangemap_loop pure_call] in (exec_list3 a b c d cl_pre st e l df) in
    change (exec_list3 a b c d cl_pre st e l df) with r end.
  rewrite consumerOffsets_pure. go3_eval.
  generalize (f (Z.of_nat (List.length buf)) (offsets_spec (perm m) off)). intros r.
  repeat (go3_cmp_step; go3_eval).
  all: first
    [ src_close
    | rewrite exec_list3_cons, exec3_for;
      erewrite cl_loop; [ reflexivity | reflexivity | reflexivity | lia | lia | reflexivity | lia ] ].
Qed.


(* ================================================================================================================
   against the hand-written model
   ================================================================================================================ *)

(* Buffer.get, called as consumer.Get calls it (second argument = the consumer's reads since its last commit, the
   consumer's own context live), on the source-level image of ANY model state: the state is left alone, there is no
   effect, and (value, ok, error) are the model's get_attempt - a value with true, (nil, false, nil) where the model says
   the Get parks, (nil, false, err) where it says error, err being the context's error, the first or the second error
   constructor of the method according to which check the model fails.  [c] may be an id that was never handed out. *)
Theorem get_src_eq_model : forall oe me perm fuel s c delta,
  (forall k, getc s c = Some k -> ccancel k = false /\ delta = Z.of_nat (cdelta k)) ->
  run3 oe me perm fuel get_def (abs s) [WKey c; W (VInt delta)] = Returned3 (abs s) (get_expected s c) [].
Proof.
  intros oe me perm fuel s c delta Hk. unfold abs. rewrite get_src_eq_spec, (get_spec_abs s c delta Hk). reflexivity.
Qed.

(* Buffer.commit, called as consumer.Commit calls it (second argument = the consumer's reads since its last commit, which
   consumer.Commit has checked to be non-zero): the new source-level state is the image of the model's state after
   OCommit (only Buffer.consumers[c] changes: + delta), the returned error is nil exactly when the model says ROk, and the
   effects are Lock, [Broadcast iff ROk], Unlock (deferred) *)
Theorem commit_src_eq_model : forall oe me perm fuel s c delta,
  (forall k, getc s c = Some k -> cdelta k <> 0%nat /\ delta = Z.of_nat (cdelta k)) ->
  run3 oe me perm fuel commit_def (abs s) [WKey c; W (VInt delta)]
  = Returned3 (abs (fst (step s (OCommit c)))) (commit_expected (snd (step s (OCommit c))))
              (commit_log (snd (step s (OCommit c)))).
Proof.
  intros oe me perm fuel s c delta Hk. unfold abs at 1. rewrite commit_src_eq_spec. apply commit_spec_abs, Hk.
Qed.

(* Buffer.consumerOffsets: no effect, no state change, and the returned []int is the model's rel_offsets up to the order
   in which the map is iterated ... *)
Theorem consumerOffsets_src_eq_model : forall oe me perm fuel s,
  (forall l, Permutation (perm l) l) ->
  exists offsets,
    run3 oe me perm fuel consumerOffsets_def (abs s) [] = Returned3 (abs s) [W (VList offsets)] [] /\
    Permutation offsets (rel_offsets s).
Proof.
  intros oe me perm fuel s HP. exists (offsets_spec (perm (cmap s)) (Z.of_nat (base s))). split.
  - unfold abs. apply consumerOffsets_src_eq_spec.
  - rewrite <- offsets_cmap. apply offsets_spec_perm, HP.
Qed.

(* ... and exactly rel_offsets when the map happens to be iterated in the order of the consumer ids *)
Theorem consumerOffsets_src_eq_model_id : forall oe me fuel s,
  run3 oe me (fun l => l) fuel consumerOffsets_def (abs s) [] = Returned3 (abs s) [W (VList (rel_offsets s))] [].
Proof.
  intros oe me fuel s. unfold abs. rewrite consumerOffsets_src_eq_spec, offsets_cmap. reflexivity.
Qed.

(* Buffer.cleanupLogic with the cleaner f as the oracle b.cleaner.Cleaner and the translated consumerOffsets as the method
   it calls, for EVERY order in which Go may iterate over the map and every loop bound above the buffer's length: the new
   source-level state is the image of the model's clean_with f s (Buffer.offset advanced by the clamped shift, the buffer
   re-sliced; the nil-ed prefix is gone), the result says whether the base moved, and there is one Broadcast iff it did.
   f must not depend on the order of its offsets. *)
Theorem cleanup_src_eq_model : forall f perm fuel s,
  perm_invariant f -> (forall l, Permutation (perm l) l) -> (size s < fuel)%nat ->
  run3 (cleaner_oenv f) (buffer_menv perm fuel) perm fuel cleanupLogic_def (abs s) []
  = Returned3 (abs (clean_with f s)) [W (VBool (cleanup_moved f s))] (cleanup_log (cleanup_moved f s)).
Proof.
  intros f perm fuel s PI HP Hfuel. unfold abs at 1. rewrite cleanup_src_eq_spec by (rewrite buffer_length; exact Hfuel).
  apply cleanup_spec_abs; [exact PI|apply HP].
Qed.

(* the cleaners of the model (DefaultCleaner, FixedBufferCleaner, the over- and under-asking custom ones) qualify *)
Corollary cleanup_src_eq_model_cfg : forall k perm fuel s,
  (forall l, Permutation (perm l) l) -> (size s < fuel)%nat ->
  run3 (cleaner_oenv (cleaner_of k)) (buffer_menv perm fuel) perm fuel cleanupLogic_def (abs s) []
  = Returned3 (abs (clean_with (cleaner_of k) s)) [W (VBool (cleanup_moved (cleaner_of k) s))]
              (cleanup_log (cleanup_moved (cleaner_of k) s)).
Proof. intros k perm fuel s. apply cleanup_src_eq_model, cleaner_of_perm. Qed.

(* ---- non-vacuity, by running the translated source ---- *)

(* a state reached by the model: three values put, two consumers, consumer 0 committed one value and read another,
   the default cleaner ran (base 1) *)
Definition ex_state : st :=
  fst (erun (init CDefault)
         [EOp (OPut [10; 20; 30]); EOp ONew; EOp ONew; EOp (OGet 0); EOp (OCommit 0); EOp (OGet 0);
          EOp (OGet 1); EOp (OCommit 1); EClean]).

(* consumer 1 rewound below the base by hand: a "past" state *)
Definition ex_past : st := set_base ex_state 2 false.

Example get_src_examples :
  let run := fun s c d => run3 [] [] (fun l => l) 0 get_def (abs s) [WKey c; W (VInt d)] in
  base ex_state = 1%nat /\
  (* a value: consumer 0 has committed 1 and read 1: position 2 *)
  run ex_state 0%nat 1 = Returned3 (abs ex_state) [WElem (Some 30); W (VBool true); WErr ErrNil] [] /\
  (* pending: one further *)
  run ex_state 0%nat 2 = Returned3 (abs ex_state) [WElem None; W (VBool false); WErr ErrNil] [] /\
  (* past: base 2, consumer 1 at 1 *)
  run ex_past 1%nat 0 = Returned3 (abs ex_past) [WElem None; W (VBool false); WErr err_get_past] [] /\
  (* unknown consumer *)
  run ex_state 7%nat 0 = Returned3 (abs ex_state) [WElem None; W (VBool false); WErr err_get_unknown] [] /\
  (* and the model on the same states *)
  get_expected ex_state 0 = [WElem (Some 30); W (VBool true); WErr ErrNil] /\
  get_expected ex_past 1 = [WElem None; W (VBool false); WErr err_get_past].
Proof. vm_compute. repeat split; reflexivity. Qed.

Example commit_src_examples :
  let run := fun s c d => run3 [] [] (fun l => l) 0 commit_def (abs s) [WKey c; W (VInt d)] in
  run ex_state 0%nat 1 = Returned3 (abs (fst (step ex_state (OCommit 0)))) [WErr ErrNil] [log_lock; log_broadcast; log_unlock] /\
  cmap ex_state = [(0%nat, 1); (1%nat, 1)] /\ cmap (fst (step ex_state (OCommit 0))) = [(0%nat, 2); (1%nat, 1)] /\
  run ex_state 7%nat 1 = Returned3 (abs ex_state) [WErr err_commit_unknown] [log_lock; log_unlock].
Proof. vm_compute. repeat split; reflexivity. Qed.

(* the clamp: a cleaner asking for more than there is (CAll: size + 5) shifts everything; one asking for a negative
   number (CNone) shifts nothing; the default cleaner shifts up to the slowest consumer *)
Example cleanup_src_examples :
  let s := fst (erun (init CDefault) [EOp (OPut [10; 20; 30]); EOp ONew; EOp (OGet 0); EOp (OGet 0); EOp (OCommit 0)]) in
  let run := fun k => run3 (cleaner_oenv (cleaner_of k)) (buffer_menv (fun l => l) 4) (fun l => l) 4 cleanupLogic_def (abs s) [] in
  run CAll = Returned3 (mkstore false [(0%nat, 2)] 3 []) [W (VBool true)] [log_broadcast] /\
  run CNone = Returned3 (abs s) [W (VBool false)] [] /\
  run CDefault = Returned3 (mkstore false [(0%nat, 2)] 2 [Some 30]) [W (VBool true)] [log_broadcast] /\
  (* a loop bound that is too small is reported as such, never as a result *)
  run3 (cleaner_oenv (cleaner_of CAll)) (buffer_menv (fun l => l) 3) (fun l => l) 3 cleanupLogic_def (abs s) [] = OutOfFuel /\
  rel_offsets s = [2] /\ size s = 3%nat.
Proof. vm_compute. repeat split; reflexivity. Qed.

(* reversing the iteration order of a two-consumer map: consumerOffsets returns the reversed list, cleanupLogic the same
   state (the default cleaner shifts to the slower consumer either way) *)
Example order_examples :
  let s := fst (erun (init CDefault) [EOp (OPut [10; 20; 30]); EOp ONew; EOp ONew; EOp (OGet 0); EOp (OGet 0); EOp (OCommit 0);
                                      EOp (OGet 1); EOp (OCommit 1)]) in
  run3 [] [] (@rev _) 0 consumerOffsets_def (abs s) [] = Returned3 (abs s) [W (VList [1; 2])] [] /\
  rel_offsets s = [2; 1] /\
  run3 (cleaner_oenv default_cleaner) (buffer_menv (@rev _) 9) (@rev _) 9 cleanupLogic_def (abs s) []
  = Returned3 (mkstore false [(0%nat, 2); (1%nat, 1)] 1 [Some 20; Some 30]) [W (VBool true)] [log_broadcast] /\
  run3 (cleaner_oenv default_cleaner) (buffer_menv (fun l => l) 9) (fun l => l) 9 cleanupLogic_def (abs s) []
  = Returned3 (mkstore false [(0%nat, 2); (1%nat, 1)] 1 [Some 20; Some 30]) [W (VBool true)] [log_broadcast].
Proof. vm_compute. repeat split; reflexivity. Qed.

Print Assumptions get_src_eq_model.
Print Assumptions commit_src_eq_model.
Print Assumptions consumerOffsets_src_eq_model.
Print Assumptions cleanup_src_eq_model.
