(* Proofs/ShutdownProto.v — the shutdown / parked-Get protocol of Model/ShutdownProto.v, by a reflective sweep of the
   REACHABLE states.

   Method.  The product of the thread-local controls is far too large to enumerate (the style of Proofs/WaitCond.v),
   so the set of reachable states is computed instead: [bfs] explores from a list of initial configurations, storing
   states in a trie ([PositiveMap]) keyed by the program counters, buckets compared by [ctl_beq].  Nothing about [bfs]
   is trusted or proved: its result [m] is CHECKED — every seed is a member, and for every member every successor
   under every pick is a member ([edge_ok]) — and membership is only used through [memb_sound] ([ctl_beq] true means
   equal) and [all_states_ok] (a traversal of the trie covers every member).  The same pass checks the measure on every
   edge and [state_ok] on every state.  One [vm_compute] per family of configurations ([sweep]); everything else is
   symbolic (Section Sweep, Section Clauses), so further families need only their own one-line [sweep … = true].

   Main results, for the code as written ([faithful]) and every state reachable under any schedule from an initial
   configuration with at most two of the optional calls Get / Diff / Put / consumer.Close (Buffer.Close, the watcher,
   the Commit/Rollback caller and the canceller always present) — [reachable_upto 2], 448,221 states:
     shutdown_completes2          quiescent, Buffer.Close called -> returned, b.done closed, consumer completely closed,
                                  every goroutine of Get gone, locks free, every call returned, nothing uncommitted
     consumer_close_completes2    c.ctx cancelled -> consumer completely closed; explicit Close returned unless queued
                                  behind a legitimately parked Get
     parked_get_wakes2            quiescent, Get called, value / cancelled ctx / closed buffer -> Get returned
     blocked_get_is_legitimate2   a Get still blocked at quiescence: nothing to wake it; who may wait behind it
     get_result_meaning2, done_channels_meaning2, lock_order_respected2      safety in every reachable state
     every_step_decreases_mu2, every_schedule_bounded2, reaches_terminal2    termination
   Refutations, on the same [step] with one flag changed
     watcher_needs_lock_refuted, watcher_needs_lock_close_hangs_refuted, recheck_ctx_refuted,
     diff_lock_order_refuted, diff_lock_order_pending_writer_refuted, delete_must_broadcast_refuted
   and  consumer_close_queues_behind_parked_get  (the proviso of C12 is real in the code as written).

   The enumerations, [ctl_beq] with its soundness proof and [key] are generated from the field table (scratch/gen.py in
   the author's workspace); they are plain Coq. *)

From Coq Require Import List Arith NArith Lia Bool ZifyBool PArith FMapPositive.
Import ListNotations.
From BB Require Import Model.ShutdownProto.

Arguments Nat.sub : simpl never. Arguments Nat.ltb : simpl never. Arguments Nat.leb : simpl never.
Arguments Nat.eqb : simpl never.

Module PM := PositiveMap.

Scheme Equality for bown.
Scheme Equality for cown.
Scheme Equality for bcpc.
Scheme Equality for cwpc.
Scheme Equality for ccpc.
Scheme Equality for oncest.
Scheme Equality for clpc.
Scheme Equality for gpc.
Scheme Equality for gapc.
Scheme Equality for gwpc.
Scheme Equality for afst.
Scheme Equality for dpc.
Scheme Equality for crpc.
Scheme Equality for ppc.
Scheme Equality for res.

Definition ctl_beq (a b : ctl) : bool :=
  if bown_beq (bw a) (bw b) then
  if Nat.eqb (br a) (br b) then
  if Bool.eqb (gr a) (gr b) then
  if Bool.eqb (dr a) (dr b) then
  if cown_beq (cm a) (cm b) then
  if Bool.eqb (ucanc a) (ucanc b) then
  if Bool.eqb (bdone a) (bdone b) then
  if Bool.eqb (cdone a) (cdone b) then
  if Bool.eqb (outfull a) (outfull b) then
  if res_beq (gres a) (gres b) then
  if res_beq (ares a) (ares b) then
  if Bool.eqb (gafter a) (gafter b) then
  if res_beq (ccres a) (ccres b) then
  if Nat.eqb (ng a) (ng b) then
  if Nat.eqb (nd a) (nd b) then
  if Nat.eqb (np a) (np b) then
  if Nat.eqb (ncc a) (ncc b) then
  if bcpc_beq (bc a) (bc b) then
  if cwpc_beq (cw a) (cw b) then
  if ccpc_beq (cc a) (cc b) then
  if oncest_beq (conce a) (conce b) then
  if clpc_beq (cl a) (cl b) then
  if gpc_beq (gt a) (gt b) then
  if gapc_beq (ga a) (ga b) then
  if gwpc_beq (gw a) (gw b) then
  if afst_beq (af a) (af b) then
  if dpc_beq (df a) (df b) then
  if crpc_beq (cr a) (cr b) then
  if Bool.eqb (crk a) (crk b) then
  if ppc_beq (pt a) (pt b) then
  if Bool.eqb (qBC a) (qBC b) then
  if Bool.eqb (qGA a) (qGA b) then
  if Bool.eqb (qCl a) (qCl b) then
  if Bool.eqb (bcan a) (bcan b) then
  if Bool.eqb (ccan a) (ccan b) then
  if Bool.eqb (ucan a) (ucan b) then
  if Bool.eqb (gdef a) (gdef b) then
  if Bool.eqb (xc a) (xc b) then
  if Bool.eqb (wdef a) (wdef b) then
  if Bool.eqb (reg a) (reg b) then
  if Bool.eqb (off a) (off b) then
  if Bool.eqb (avail a) (avail b) then
  true else false else false else false else false else false else false else false else false else false else false else false else false else false else false else false else false else false else false else false else false else false else false else false else false else false else false else false else false else false else false else false else false else false else false else false else false else false else false else false else false else false else false.

Lemma ctl_beq_eq : forall a b, ctl_beq a b = true -> a = b.
Proof.
  intros a b H. unfold ctl_beq in H.
  destruct (bown_beq (bw a) (bw b)) eqn:H13; [|discriminate H].
  destruct (Nat.eqb (br a) (br b)) eqn:H14; [|discriminate H].
  destruct (Bool.eqb (gr a) (gr b)) eqn:H15; [|discriminate H].
  destruct (Bool.eqb (dr a) (dr b)) eqn:H16; [|discriminate H].
  destruct (cown_beq (cm a) (cm b)) eqn:H17; [|discriminate H].
  destruct (Bool.eqb (ucanc a) (ucanc b)) eqn:H24; [|discriminate H].
  destruct (Bool.eqb (bdone a) (bdone b)) eqn:H31; [|discriminate H].
  destruct (Bool.eqb (cdone a) (cdone b)) eqn:H32; [|discriminate H].
  destruct (Bool.eqb (outfull a) (outfull b)) eqn:H33; [|discriminate H].
  destruct (res_beq (gres a) (gres b)) eqn:H34; [|discriminate H].
  destruct (res_beq (ares a) (ares b)) eqn:H35; [|discriminate H].
  destruct (Bool.eqb (gafter a) (gafter b)) eqn:H36; [|discriminate H].
  destruct (res_beq (ccres a) (ccres b)) eqn:H37; [|discriminate H].
  destruct (Nat.eqb (ng a) (ng b)) eqn:H38; [|discriminate H].
  destruct (Nat.eqb (nd a) (nd b)) eqn:H39; [|discriminate H].
  destruct (Nat.eqb (np a) (np b)) eqn:H40; [|discriminate H].
  destruct (Nat.eqb (ncc a) (ncc b)) eqn:H41; [|discriminate H].
  destruct (bcpc_beq (bc a) (bc b)) eqn:H0; [|discriminate H].
  destruct (cwpc_beq (cw a) (cw b)) eqn:H1; [|discriminate H].
  destruct (ccpc_beq (cc a) (cc b)) eqn:H2; [|discriminate H].
  destruct (oncest_beq (conce a) (conce b)) eqn:H3; [|discriminate H].
  destruct (clpc_beq (cl a) (cl b)) eqn:H4; [|discriminate H].
  destruct (gpc_beq (gt a) (gt b)) eqn:H5; [|discriminate H].
  destruct (gapc_beq (ga a) (ga b)) eqn:H6; [|discriminate H].
  destruct (gwpc_beq (gw a) (gw b)) eqn:H7; [|discriminate H].
  destruct (afst_beq (af a) (af b)) eqn:H8; [|discriminate H].
  destruct (dpc_beq (df a) (df b)) eqn:H9; [|discriminate H].
  destruct (crpc_beq (cr a) (cr b)) eqn:H10; [|discriminate H].
  destruct (Bool.eqb (crk a) (crk b)) eqn:H11; [|discriminate H].
  destruct (ppc_beq (pt a) (pt b)) eqn:H12; [|discriminate H].
  destruct (Bool.eqb (qBC a) (qBC b)) eqn:H18; [|discriminate H].
  destruct (Bool.eqb (qGA a) (qGA b)) eqn:H19; [|discriminate H].
  destruct (Bool.eqb (qCl a) (qCl b)) eqn:H20; [|discriminate H].
  destruct (Bool.eqb (bcan a) (bcan b)) eqn:H21; [|discriminate H].
  destruct (Bool.eqb (ccan a) (ccan b)) eqn:H22; [|discriminate H].
  destruct (Bool.eqb (ucan a) (ucan b)) eqn:H23; [|discriminate H].
  destruct (Bool.eqb (gdef a) (gdef b)) eqn:H25; [|discriminate H].
  destruct (Bool.eqb (xc a) (xc b)) eqn:H26; [|discriminate H].
  destruct (Bool.eqb (wdef a) (wdef b)) eqn:H27; [|discriminate H].
  destruct (Bool.eqb (reg a) (reg b)) eqn:H28; [|discriminate H].
  destruct (Bool.eqb (off a) (off b)) eqn:H29; [|discriminate H].
  destruct (Bool.eqb (avail a) (avail b)) eqn:H30; [|discriminate H].
  destruct a as [x0 x1 x2 x3 x4 x5 x6 x7 x8 x9 x10 x11 x12 x13 x14 x15 x16 x17 x18 x19 x20 x21 x22 x23 x24 x25 x26 x27 x28 x29 x30 x31 x32 x33 x34 x35 x36 x37 x38 x39 x40 x41].
  destruct b as [y0 y1 y2 y3 y4 y5 y6 y7 y8 y9 y10 y11 y12 y13 y14 y15 y16 y17 y18 y19 y20 y21 y22 y23 y24 y25 y26 y27 y28 y29 y30 y31 y32 y33 y34 y35 y36 y37 y38 y39 y40 y41].
  cbn [bc cw cc conce cl gt ga gw af df cr crk pt bw br gr dr cm qBC qGA qCl bcan ccan ucan ucanc gdef xc wdef reg off avail bdone cdone outfull gres ares gafter ccres ng nd np ncc] in *.
  apply internal_bcpc_dec_bl in H0.
  apply internal_cwpc_dec_bl in H1.
  apply internal_ccpc_dec_bl in H2.
  apply internal_oncest_dec_bl in H3.
  apply internal_clpc_dec_bl in H4.
  apply internal_gpc_dec_bl in H5.
  apply internal_gapc_dec_bl in H6.
  apply internal_gwpc_dec_bl in H7.
  apply internal_afst_dec_bl in H8.
  apply internal_dpc_dec_bl in H9.
  apply internal_crpc_dec_bl in H10.
  apply Bool.eqb_prop in H11.
  apply internal_ppc_dec_bl in H12.
  apply internal_bown_dec_bl in H13.
  apply Nat.eqb_eq in H14.
  apply Bool.eqb_prop in H15.
  apply Bool.eqb_prop in H16.
  apply internal_cown_dec_bl in H17.
  apply Bool.eqb_prop in H18.
  apply Bool.eqb_prop in H19.
  apply Bool.eqb_prop in H20.
  apply Bool.eqb_prop in H21.
  apply Bool.eqb_prop in H22.
  apply Bool.eqb_prop in H23.
  apply Bool.eqb_prop in H24.
  apply Bool.eqb_prop in H25.
  apply Bool.eqb_prop in H26.
  apply Bool.eqb_prop in H27.
  apply Bool.eqb_prop in H28.
  apply Bool.eqb_prop in H29.
  apply Bool.eqb_prop in H30.
  apply Bool.eqb_prop in H31.
  apply Bool.eqb_prop in H32.
  apply Bool.eqb_prop in H33.
  apply internal_res_dec_bl in H34.
  apply internal_res_dec_bl in H35.
  apply Bool.eqb_prop in H36.
  apply internal_res_dec_bl in H37.
  apply Nat.eqb_eq in H38.
  apply Nat.eqb_eq in H39.
  apply Nat.eqb_eq in H40.
  apply Nat.eqb_eq in H41.
  subst. reflexivity.
Qed.

Definition bcpc_bits (x : bcpc) (k : positive) : positive :=
  match x with
  | BCIdle => xO (xO (xO (xO k)))
  | BCAnn => xO (xO (xO (xI k)))
  | BCAcq => xO (xO (xI (xO k)))
  | BCCancel => xO (xO (xI (xI k)))
  | BCEnq => xO (xI (xO (xO k)))
  | BCWUnlock => xO (xI (xO (xI k)))
  | BCParked => xO (xI (xI (xO k)))
  | BCReAnn => xO (xI (xI (xI k)))
  | BCReAcq => xI (xO (xO (xO k)))
  | BCCloseDone => xI (xO (xO (xI k)))
  | BCUnlock => xI (xO (xI (xO k)))
  | BCRet => xI (xO (xI (xI k)))
  end.
Definition cwpc_bits (x : cwpc) (k : positive) : positive :=
  match x with
  | CWWait => xO (xO k)
  | CWDo => xO (xI k)
  | CWBody => xI (xO k)
  | CWExit => xI (xI k)
  end.
Definition ccpc_bits (x : ccpc) (k : positive) : positive :=
  match x with
  | CCIdle => xO (xO k)
  | CCDo => xO (xI k)
  | CCBody => xI (xO k)
  | CCRet => xI (xI k)
  end.
Definition oncest_bits (x : oncest) (k : positive) : positive :=
  match x with
  | ONone => xO (xO k)
  | ORunW => xO (xI k)
  | ORunC => xI (xO k)
  | ODone => xI (xI k)
  end.
Definition clpc_bits (x : clpc) (k : positive) : positive :=
  match x with
  | ClOff => xO (xO (xO (xO k)))
  | ClLockC => xO (xO (xO (xI k)))
  | ClCancel => xO (xO (xI (xO k)))
  | ClEnq => xO (xO (xI (xI k)))
  | ClWUnlock => xO (xI (xO (xO k)))
  | ClParked => xO (xI (xO (xI k)))
  | ClRelock => xO (xI (xI (xO k)))
  | ClDelAnn => xO (xI (xI (xI k)))
  | ClDelAcq => xI (xO (xO (xO k)))
  | ClDel => xI (xO (xO (xI k)))
  | ClDelUnlock => xI (xO (xI (xO k)))
  | ClCloseDone => xI (xO (xI (xI k)))
  | ClUnlockC => xI (xI (xO (xO k)))
  | ClEnd => xI (xI (xO (xI k)))
  end.
Definition gpc_bits (x : gpc) (k : positive) : positive :=
  match x with
  | GIdle => xO (xO (xO (xO k)))
  | GLockC => xO (xO (xO (xI k)))
  | GChkC => xO (xO (xI (xO k)))
  | GRLock => xO (xO (xI (xI k)))
  | GSync => xO (xI (xO (xO k)))
  | GRUnE => xO (xI (xO (xI k)))
  | GRUnV => xO (xI (xI (xO k)))
  | GRUnA => xO (xI (xI (xI k)))
  | GRecv => xI (xO (xO (xO k)))
  | GIncr => xI (xO (xO (xI k)))
  | GDefer => xI (xO (xI (xO k)))
  | GUnlockC => xI (xO (xI (xI k)))
  | GRet => xI (xI (xO (xO k)))
  end.
Definition gapc_bits (x : gapc) (k : positive) : positive :=
  match x with
  | GANone => xO (xO (xO (xO k)))
  | GAAnn => xO (xO (xO (xI k)))
  | GAAcq => xO (xO (xI (xO k)))
  | GAComb => xO (xO (xI (xI k)))
  | WStart => xO (xI (xO (xO k)))
  | WFn => xO (xI (xO (xI k)))
  | WEnq => xO (xI (xI (xO k)))
  | WUnlock => xO (xI (xI (xI k)))
  | WParked => xI (xO (xO (xO k)))
  | WReAnn => xI (xO (xO (xI k)))
  | WReAcq => xI (xO (xI (xO k)))
  | WRet => xI (xO (xI (xI k)))
  | GASend => xI (xI (xO (xO k)))
  | GAUnlock => xI (xI (xO (xI k)))
  | GAExit => xI (xI (xI (xO k)))
  end.
Definition gwpc_bits (x : gwpc) (k : positive) : positive :=
  match x with
  | TNone => xO (xO (xO k))
  | TWait => xO (xO (xI k))
  | TAnn => xO (xI (xO k))
  | TAcq => xO (xI (xI k))
  | TBcast => xI (xO (xO k))
  | TUnlock => xI (xO (xI k))
  | TExit => xI (xI (xO k))
  end.
Definition afst_bits (x : afst) (k : positive) : positive :=
  match x with
  | AFNone => xO (xO k)
  | AFPending => xO (xI k)
  | AFDone => xI (xO k)
  | AFStopped => xI (xI k)
  end.
Definition dpc_bits (x : dpc) (k : positive) : positive :=
  match x with
  | DIdle => xO (xO (xO k))
  | DLockC => xO (xO (xI k))
  | DRLock => xO (xI (xO k))
  | DRUnlock => xO (xI (xI k))
  | DUnlockC => xI (xO (xO k))
  end.
Definition crpc_bits (x : crpc) (k : positive) : positive :=
  match x with
  | CRIdle => xO (xO (xO (xO k)))
  | CRLockC => xO (xO (xO (xI k)))
  | CRAnn => xO (xO (xI (xO k)))
  | CRAcq => xO (xO (xI (xI k)))
  | CRCommit => xO (xI (xO (xO k)))
  | CRBUnlock => xO (xI (xO (xI k)))
  | CRBUnlockE => xO (xI (xI (xO k)))
  | CRReset => xO (xI (xI (xI k)))
  | CRUnlockC => xI (xO (xO (xO k)))
  end.
Definition ppc_bits (x : ppc) (k : positive) : positive :=
  match x with
  | PIdle => xO (xO (xO k))
  | PAnn => xO (xO (xI k))
  | PAcq => xO (xI (xO k))
  | PBody => xO (xI (xI k))
  | PUnlock => xI (xO (xO k))
  end.

Definition bool_bits (x : bool) (k : positive) : positive := if x then xI k else xO k.
(* Trie key: the program counters.  (Soundness does not depend on the key being injective.) *)
Definition key (c : ctl) : positive := bool_bits (ucan c) (bool_bits (avail c) (bool_bits (off c) (bool_bits (bcan c) (bool_bits (ccan c) (bool_bits (qBC c) (bool_bits (qGA c) (bool_bits (qCl c) (bool_bits (gdef c) (bool_bits (xc c) (bool_bits (wdef c) (bool_bits (reg c) (bool_bits (crk c) (bcpc_bits (bc c) (cwpc_bits (cw c) (ccpc_bits (cc c) (clpc_bits (cl c) (gpc_bits (gt c) (gapc_bits (ga c) (gwpc_bits (gw c) (afst_bits (af c) (dpc_bits (df c) (crpc_bits (cr c) (ppc_bits (pt c) (oncest_bits (conce c) (xH))))))))))))))))))))))))).

(* ------------------------------------------------------------------------------------------------------------ *)
(* Sets of states: a trie on [key] with buckets compared by [ctl_beq].                                          *)

Definition sset := PM.t (list ctl).

Definition memb (s : ctl) (m : sset) : bool :=
  match PM.find (key s) m with Some l => existsb (ctl_beq s) l | None => false end.

Definition insert (s : ctl) (m : sset) : sset :=
  match PM.find (key s) m with Some l => PM.add (key s) (s :: l) m | None => PM.add (key s) [s] m end.

Fixpoint expand1 (v : variant) (s : ctl) (picks : list pick) (acc : list ctl * sset) : list ctl * sset :=
  match picks with
  | [] => acc
  | pk :: r =>
      match step v s pk with
      | None => expand1 v s r acc
      | Some s' => if memb s' (snd acc) then expand1 v s r acc
                   else expand1 v s r (s' :: fst acc, insert s' (snd acc))
      end
  end.

Fixpoint expand (v : variant) (frontier : list ctl) (acc : list ctl * sset) : list ctl * sset :=
  match frontier with
  | [] => acc
  | s :: r => expand v r (expand1 v s all_pick acc)
  end.

Fixpoint bfs (v : variant) (fuel : nat) (frontier : list ctl) (m : sset) : option sset :=
  match frontier with
  | [] => Some m
  | _ => match fuel with
         | 0 => None
         | S f => let acc := expand v frontier ([], m) in bfs v f (fst acc) (snd acc)
         end
  end.

(* [P] holds of every member: a direct traversal of the trie. *)
Fixpoint all_states (P : ctl -> bool) (m : sset) : bool :=
  match m with
  | PM.Leaf _ => true
  | PM.Node l o r =>
      (match o with Some b => forallb P b | None => true end) && all_states P l && all_states P r
  end.

Definition closed_under (v : variant) (m : sset) : bool :=
  all_states (fun s => forallb (fun pk => match step v s pk with None => true | Some s' => memb s' m end) all_pick) m.

Definition card (m : sset) : N := PM.fold (fun _ l n => N.add n (N.of_nat (length l))) m 0%N.

(* The set operations are only trusted through these two lemmas: membership yields a state EQUAL to the one asked
   for ([ctl_beq_eq]), and a check over [PM.elements] covers every member. *)
Lemma memb_sound : forall s m, memb s m = true -> exists l, PM.find (key s) m = Some l /\ In s l.
Proof.
  unfold memb; intros s m H. destruct (PM.find (key s) m) as [l|]; [|discriminate H].
  exists l; split; [reflexivity|]. apply existsb_exists in H. destruct H as [x [Hin Hbeq]].
  apply ctl_beq_eq in Hbeq. subst x; exact Hin.
Qed.

Lemma all_states_find : forall P m, all_states P m = true ->
  forall k l, PM.find k m = Some l -> forallb P l = true.
Proof.
  intros P m. induction m as [|l IHl o r IHr]; intros H k b Hf.
  - destruct k; discriminate Hf.
  - cbn [all_states] in H. apply andb_true_iff in H. destruct H as [H Hr].
    apply andb_true_iff in H. destruct H as [Ho Hl].
    destruct k as [k|k|]; cbn [PM.find] in Hf.
    + exact (IHr Hr k b Hf).
    + exact (IHl Hl k b Hf).
    + subst o. exact Ho.
Qed.

Lemma all_states_ok : forall P m, all_states P m = true -> forall s, memb s m = true -> P s = true.
Proof.
  intros P m H s Hs. apply memb_sound in Hs. destruct Hs as [l [Hf Hin]].
  pose proof (all_states_find P m H _ _ Hf) as Hl. rewrite forallb_forall in Hl. exact (Hl _ Hin).
Qed.

Lemma all_pick_complete : forall pk, In pk all_pick.
Proof. intros [| | | | | | | | |[|]| |]; cbn; tauto. Qed.

(* ------------------------------------------------------------------------------------------------------------ *)
(* The sweep.                                                                                                   *)

(* every successor is in the set and has a smaller measure *)
Definition edge_ok (v : variant) (m : sset) (s : ctl) : bool :=
  let ms := mu s in
  forallb (fun pk => match step v s pk with
                     | None => true
                     | Some s' => memb s' m && N.ltb (mu s') ms
                     end) all_pick.

(* what is claimed of every reachable state of the code as written *)
Definition state_ok (v : variant) (s : ctl) : bool :=
  locks_consistent s && results_consistent s && negb (takes_c_under_b s)
  && (negb (quiescent v s) || quiet_goal s).

Definition fuel : nat := 400.

Definition reach (v : variant) (sd : list ctl) : option sset := bfs v fuel sd (fold_right insert (PM.empty _) sd).

Definition check_set (sd : list ctl) (m : sset) : bool :=
  forallb (fun s => memb s m) sd
  && all_states (fun s => edge_ok faithful m s && state_ok faithful s) m.

Definition sweep (sd : list ctl) : bool :=
  match reach faithful sd with
  | None => false
  | Some m => check_set sd m
  end.

Lemma sweep_inv : forall sd, sweep sd = true -> exists m, check_set sd m = true.
Proof.
  intros sd. unfold sweep. generalize (reach faithful sd).
  intros [m|] H; [exists m; exact H|discriminate H].
Qed.

Lemma run_app : forall v a b s, run v s (a ++ b) = run v (run v s a) b.
Proof.
  intros v a. induction a as [|pk r IH]; intros b s; cbn [run app]; [reflexivity|].
  destruct (step v s pk); apply IH.
Qed.

Lemma is_terminal_quiescent : forall v s, is_terminal v s = true -> quiescent v s = true.
Proof.
  intros v s H. unfold is_terminal in H. unfold quiescent. rewrite forallb_forall in *.
  intros pk Hin. rewrite (H pk Hin). reflexivity.
Qed.

Section Sweep.
  Variable sd : list ctl.
  Hypothesis Hsweep : sweep sd = true.

  Lemma sweep_set : exists m,
    (forall s, In s sd -> memb s m = true) /\
    (forall s, memb s m = true -> edge_ok faithful m s = true /\ state_ok faithful s = true).
  Proof.
    destruct (sweep_inv sd Hsweep) as [m Hc]. unfold check_set in Hc.
    apply andb_true_iff in Hc. destruct Hc as [Hseeds Hall].
    exists m. split.
    - intros s Hin. rewrite forallb_forall in Hseeds. exact (Hseeds s Hin).
    - intros s Hs. pose proof (all_states_ok _ m Hall s Hs) as H. cbv beta in H.
      apply andb_true_iff in H. exact H.
  Qed.

  Lemma edge_step : forall m s pk s', edge_ok faithful m s = true -> step faithful s pk = Some s' ->
    memb s' m = true /\ (mu s' < mu s)%N.
  Proof.
    intros m s pk s' He Hstep. unfold edge_ok in He. cbv zeta in He. rewrite forallb_forall in He.
    specialize (He pk (all_pick_complete pk)). cbv beta in He. rewrite Hstep in He.
    apply andb_true_iff in He. destruct He as [Hm Hlt]. apply N.ltb_lt in Hlt. split; assumption.
  Qed.

  Lemma run_in : forall m,
    (forall s, memb s m = true -> edge_ok faithful m s = true /\ state_ok faithful s = true) ->
    forall sched s, memb s m = true -> memb (run faithful s sched) m = true.
  Proof.
    intros m Hm sched. induction sched as [|pk r IH]; intros s Hs; cbn [run]; [exact Hs|].
    destruct (step faithful s pk) as [s'|] eqn:Hstep; [|exact (IH s Hs)].
    apply IH. destruct (Hm s Hs) as [He _]. exact (proj1 (edge_step m s pk s' He Hstep)).
  Qed.

  (* Every state on every schedule from every seed satisfies [state_ok]. *)
  Theorem reachable_ok : forall s0 sched, In s0 sd -> state_ok faithful (run faithful s0 sched) = true.
  Proof.
    intros s0 sched Hin. destruct sweep_set as [m [Hseeds Hm]].
    exact (proj2 (Hm _ (run_in m Hm sched s0 (Hseeds s0 Hin)))).
  Qed.

  (* Every step from such a state decreases the measure. *)
  Theorem reachable_mu : forall s0 sched pk s', In s0 sd ->
    step faithful (run faithful s0 sched) pk = Some s' -> (mu s' < mu (run faithful s0 sched))%N.
  Proof.
    intros s0 sched pk s' Hin Hstep. destruct sweep_set as [m [Hseeds Hm]].
    pose proof (run_in m Hm sched s0 (Hseeds s0 Hin)) as Hr.
    exact (proj2 (edge_step m _ pk s' (proj1 (Hm _ Hr)) Hstep)).
  Qed.

  Lemma moves_bounded_in : forall m,
    (forall s, memb s m = true -> edge_ok faithful m s = true /\ state_ok faithful s = true) ->
    forall sched s, memb s m = true -> moves faithful s sched <= N.to_nat (mu s).
  Proof.
    intros m Hm sched. induction sched as [|pk r IH]; intros s Hs; cbn [moves]; [lia|].
    destruct (step faithful s pk) as [s'|] eqn:Hstep; [|exact (IH s Hs)].
    destruct (edge_step m s pk s' (proj1 (Hm s Hs)) Hstep) as [Hs' Hlt].
    specialize (IH s' Hs'). lia.
  Qed.

  (* Every continuation of every reachable state makes at most [mu] moves. *)
  Theorem moves_bounded : forall s0 pre sched, In s0 sd ->
    moves faithful (run faithful s0 pre) sched <= N.to_nat (mu (run faithful s0 pre)).
  Proof.
    intros s0 pre sched Hin. destruct sweep_set as [m [Hseeds Hm]].
    exact (moves_bounded_in m Hm sched _ (run_in m Hm pre s0 (Hseeds s0 Hin))).
  Qed.

  Lemma not_terminal_enabled : forall v s, is_terminal v s = false -> exists pk s', step v s pk = Some s'.
  Proof.
    intros v s H. unfold is_terminal in H.
    destruct (forallb (fun pk => negb (enabled v s pk)) all_pick) eqn:E; [discriminate H|].
    clear H. induction all_pick as [|pk r IH]; [discriminate E|].
    cbn [forallb] in E. apply andb_false_iff in E. destruct E as [E|E].
    - unfold enabled in E. destruct (step v s pk) as [s'|] eqn:Hs; [exists pk, s'; exact Hs|discriminate E].
    - exact (IH E).
  Qed.

  Lemma reaches_terminal_in : forall m,
    (forall s, memb s m = true -> edge_ok faithful m s = true /\ state_ok faithful s = true) ->
    forall k s, memb s m = true -> N.to_nat (mu s) <= k -> exists post, is_terminal faithful (run faithful s post) = true.
  Proof.
    intros m Hm k. induction k as [|k IH]; intros s Hs Hk.
    - destruct (is_terminal faithful s) eqn:Ht; [exists []; exact Ht|].
      apply not_terminal_enabled in Ht. destruct Ht as [pk [s' Hstep]].
      destruct (edge_step m s pk s' (proj1 (Hm s Hs)) Hstep) as [_ Hlt]. lia.
    - destruct (is_terminal faithful s) eqn:Ht; [exists []; exact Ht|].
      apply not_terminal_enabled in Ht. destruct Ht as [pk [s' Hstep]].
      destruct (edge_step m s pk s' (proj1 (Hm s Hs)) Hstep) as [Hs' Hlt].
      destruct (IH s' Hs') as [post Hpost]; [lia|].
      exists (pk :: post). cbn [run]. rewrite Hstep. exact Hpost.
  Qed.

  (* Every schedule prefix can be extended to a terminal state (and, by [moves_bounded], cannot avoid one for ever). *)
  Theorem terminates : forall s0 pre, In s0 sd ->
    exists post, is_terminal faithful (run faithful s0 (pre ++ post)) = true.
  Proof.
    intros s0 pre Hin. destruct sweep_set as [m [Hseeds Hm]].
    destruct (reaches_terminal_in m Hm _ _ (run_in m Hm pre s0 (Hseeds s0 Hin)) (le_n _)) as [post H].
    exists post. rewrite run_app. exact H.
  Qed.
End Sweep.

(* ------------------------------------------------------------------------------------------------------------ *)
(* The configurations swept in this file.                                                                       *)

Definition bools : list bool := [true; false].
Definition upto1 : list nat := [0; 1].

Definition all_inits : list ctl :=
  flat_map (fun o => flat_map (fun a => flat_map (fun u => flat_map (fun g => flat_map (fun d => flat_map (fun p =>
    map (fun c => init o a u g d p c) upto1) upto1) upto1) upto1) bools) bools) bools.

(* A family of initial configurations: an open buffer with one open, registered consumer; [off0] uncommitted reads
   or none; [avail0] a value waiting or none; [uc] a canceller of Get's context or none; at most one call each of
   Get, Diff, Put and consumer.Close — restricted by [adm].  (Buffer.Close, the consumer's watcher and the
   Commit/Rollback caller are always there.) *)
Definition seeds (adm : ctl -> bool) : list ctl := filter adm all_inits.

Definition admissible (adm : ctl -> bool) (off0 avail0 uc : bool) (ng0 nd0 np0 ncc0 : nat) : Prop :=
  ng0 <= 1 /\ nd0 <= 1 /\ np0 <= 1 /\ ncc0 <= 1 /\ adm (init off0 avail0 uc ng0 nd0 np0 ncc0) = true.

Lemma seeds_complete : forall adm off0 avail0 uc ng0 nd0 np0 ncc0,
  admissible adm off0 avail0 uc ng0 nd0 np0 ncc0 -> In (init off0 avail0 uc ng0 nd0 np0 ncc0) (seeds adm).
Proof.
  intros adm off0 avail0 uc ng0 nd0 np0 ncc0 [Hg [Hd [Hp [Hc Hk]]]].
  unfold seeds. apply filter_In. split; [|exact Hk].
  unfold all_inits.
  apply in_flat_map. exists off0. split; [destruct off0; cbn; tauto|].
  apply in_flat_map. exists avail0. split; [destruct avail0; cbn; tauto|].
  apply in_flat_map. exists uc. split; [destruct uc; cbn; tauto|].
  apply in_flat_map. exists ng0. split; [cbn; lia|].
  apply in_flat_map. exists nd0. split; [cbn; lia|].
  apply in_flat_map. exists np0. split; [cbn; lia|].
  apply in_map_iff. exists ncc0. split; [reflexivity|cbn; lia].
Qed.

Definition budget (c : ctl) : nat := ng c + nd c + np c + ncc c.

Lemma budget_init : forall off0 avail0 uc ng0 nd0 np0 ncc0,
  budget (init off0 avail0 uc ng0 nd0 np0 ncc0) = ng0 + nd0 + np0 + ncc0.
Proof. reflexivity. Qed.

(* ------------------------------------------------------------------------------------------------------------ *)
(* What the sweep means, clause by clause.                                                                      *)

Lemma implb'_elim : forall a b, implb' a b = true -> a = true -> b = true.
Proof. intros [|] b H Ha; [exact H|discriminate Ha]. Qed.

Lemma or_elim : forall a b, negb a || b = true -> a = true -> b = true.
Proof. intros [|] b H Ha; [exact H|discriminate Ha]. Qed.

(* break boolean conjunctions and fire boolean implications whose premise is a hypothesis *)
Ltac break :=
  repeat match goal with
  | H : _ && _ = true |- _ => apply andb_true_iff in H; destruct H
  | H : implb' ?a _ = true, H1 : ?a = true |- _ => apply (fun h => implb'_elim _ _ h H1) in H
  | H : implb' true _ = true |- _ => apply (fun h => implb'_elim _ _ h eq_refl) in H
  | H : negb ?a || _ = true, H1 : ?a = true |- _ => apply (fun h => or_elim _ _ h H1) in H
  | H : negb true || _ = true |- _ => apply (fun h => or_elim _ _ h eq_refl) in H
  | H : negb ?a = true |- _ => apply negb_true_iff in H
  | H : ?a = true, H1 : ?a = false |- _ => rewrite H in H1; discriminate H1
  | H : true = false |- _ => discriminate H
  | H : false = true |- _ => discriminate H
  end.

(* the boolean goal is a hypothesis, or is refuted by one *)
Ltac fin :=
  match goal with
  | |- ?x = true => assumption
  | |- ?x = false => let E := fresh "E" in destruct x eqn:E; [break|reflexivity]
  | |- _ => idtac
  end.

Section Clauses.
  Variable adm : ctl -> bool.
  Hypothesis Hsw : sweep (seeds adm) = true.

  Definition from_adm (s : ctl) : Prop :=
    exists off0 avail0 uc ng0 nd0 np0 ncc0 sched,
      admissible adm off0 avail0 uc ng0 nd0 np0 ncc0 /\
      s = run faithful (init off0 avail0 uc ng0 nd0 np0 ncc0) sched.

  Lemma from_adm_ok : forall s, from_adm s -> state_ok faithful s = true.
  Proof.
    intros s [o [a [u [g0 [d0 [p0 [c0 [sched [Ha ->]]]]]]]]].
    apply (reachable_ok (seeds adm) Hsw). apply seeds_complete. exact Ha.
  Qed.

  Lemma from_adm_parts : forall s, from_adm s ->
    locks_consistent s = true /\ results_consistent s = true /\ takes_c_under_b s = false /\
    (quiescent faithful s = true -> quiet_goal s = true).
  Proof.
    intros s Hs. pose proof (from_adm_ok s Hs) as H. unfold state_ok in H. break.
    repeat split; try assumption; fin.
    intros Hqs. break. assumption.
  Qed.

  (* (a) Shutdown completes.  In every quiescent state — nothing can move unless the program makes a new call —
     in which Buffer.Close has been called: it has returned, b.done is closed, b.ctx is cancelled; the consumer is
     deregistered, its done channel closed, its sync.Once finished, its watcher goroutine ended; every goroutine
     started for a Get has ended and CombineContext's registration is gone; every lock is free; every other call
     that was made has returned and nothing is left uncommitted. *)
  Theorem shutdown_completes : forall s, from_adm s ->
    quiescent faithful s = true -> bclose_called s = true ->
    bclose_returned s = true /\ bdone s = true /\ bcan s = true /\
    consumer_closed s = true /\ get_goroutines_gone s = true /\ locks_free s = true /\
    (get_called s = true -> get_returned s = true) /\
    (cclose_called s = true -> cclose_returned s = true) /\
    others_idle s = true /\ pt s = PIdle.
  Proof.
    intros s Hs Hq Hbc. destruct (from_adm_parts s Hs) as [Hl [Hres [Hord Hgoal]]].
    specialize (Hgoal Hq). unfold quiet_goal in Hgoal. unfold results_consistent in Hres.
    destruct (get_parked s) eqn:Hpk; break.
    assert (Hcc : ccan s = true) by (break; assumption). rewrite Hcc in *.
    repeat split; try assumption.
    - intros Hg. break. assumption.
    - intros Hg. break. assumption.
    - destruct (pt s); try discriminate; reflexivity.
  Qed.

  (* (b) No lost wake-up for Get.  In every quiescent state in which Get has been called and a value is available,
     or the consumer's context, the buffer's context or the caller's context is cancelled — however that event was
     placed relative to Get's check and its goroutine's check-then-park — Get has returned, with a result, the
     getAsync goroutine and WaitCond's watcher have ended and c.mutex is free. *)
  Theorem parked_get_wakes : forall s, from_adm s ->
    quiescent faithful s = true -> get_called s = true ->
    avail s = true \/ ccan s = true \/ bcan s = true \/ ucan s = true ->
    get_returned s = true /\ gres s <> RNone /\ get_goroutines_gone s = true /\ locks_free s = true.
  Proof.
    intros s Hs Hq Hgc Hev. destruct (from_adm_parts s Hs) as [Hl [Hres [Hord Hgoal]]].
    specialize (Hgoal Hq). unfold quiet_goal in Hgoal. unfold results_consistent in Hres.
    destruct (get_parked s) eqn:Hpk; break.
    - exfalso. destruct Hev as [E|[E|[E|E]]]; break.
    - repeat split; try assumption.
      intros E. rewrite E in *. cbn [negb] in *. break.
  Qed.

  (* ... and a Get that is still blocked in a quiescent state is blocked legitimately: no value, nothing cancelled,
     Buffer.Close not called, the consumer open; what it makes wait (it holds c.mutex) is at most a Diff, a
     Commit/Rollback and an explicit consumer.Close, each at its c.mutex.Lock(). *)
  Theorem blocked_get_is_legitimate : forall s, from_adm s ->
    quiescent faithful s = true -> get_called s = true -> get_returned s = false ->
    get_parked s = true /\ avail s = false /\ ccan s = false /\ bcan s = false /\ ucan s = false /\
    bclose_called s = false /\ consumer_open s = true /\ cm s = CG /\
    (df s = DIdle \/ df s = DLockC) /\ (cr s = CRIdle \/ cr s = CRLockC) /\
    (cclose_called s = true -> cc s = CCBody /\ cl s = ClLockC).
  Proof.
    intros s Hs Hq Hgc Hnr. destruct (from_adm_parts s Hs) as [Hl [Hres [Hord Hgoal]]].
    specialize (Hgoal Hq). unfold quiet_goal in Hgoal. unfold results_consistent in Hres.
    destruct (get_parked s) eqn:Hpk; break.
    repeat split; try assumption; fin.
    - destruct (cm s); try discriminate; reflexivity.
    - destruct (df s); try discriminate; auto.
    - destruct (cr s); try discriminate; auto.
    - break. destruct (cc s); try discriminate. reflexivity.
    - break. destruct (cc s); try discriminate. destruct (cl s); try discriminate. reflexivity.
  Qed.

  (* consumer.Close (explicit or by the watcher): in every quiescent state in which the consumer's context is
     cancelled, the consumer is completely closed; and an explicit consumer.Close() has returned unless it is queued
     behind a legitimately blocked Get. *)
  Theorem consumer_close_completes : forall s, from_adm s ->
    quiescent faithful s = true ->
    (ccan s = true -> consumer_closed s = true /\ (cclose_called s = true -> cclose_returned s = true)) /\
    (cclose_called s = true -> get_parked s = false -> cclose_returned s = true /\ consumer_closed s = true).
  Proof.
    intros s Hs Hq. destruct (from_adm_parts s Hs) as [Hl [Hres [Hord Hgoal]]].
    specialize (Hgoal Hq). unfold quiet_goal in Hgoal. unfold results_consistent in Hres.
    destruct (get_parked s) eqn:Hpk; break.
    - split; [intros E; break|intros _ E; discriminate E].
    - split.
      + intros E. rewrite E in *. split; [assumption|]. intros Hc. break. assumption.
      + intros Hc _. break. match goal with Hx : ccan s = true |- _ => rewrite Hx in * end. split; assumption.
  Qed.

  (* What Get's result means, in every reachable state: a value only if one was available; an error only if the
     consumer's (hence possibly the buffer's) or the caller's context is cancelled; a Get that began after the
     consumer's context was cancelled never read-locks the buffer, never parks, spawns nothing and fails. *)
  Theorem get_result_meaning : forall s, from_adm s ->
    (gres s = RVal -> avail s = true) /\
    (gres s = RErr -> ccan s = true \/ ucan s = true) /\
    (gafter s = true -> gres s <> RVal /\ ga s = GANone /\ gr s = false).
  Proof.
    intros s Hs. destruct (from_adm_parts s Hs) as [Hl [Hres _]].
    unfold results_consistent in Hres. unfold locks_consistent in Hl. break.
    split; [|split].
    - intros E. rewrite E in *. cbn [negb] in *. break. assumption.
    - intros E. rewrite E in *. cbn [negb] in *. break. apply orb_true_iff. assumption.
    - intros Hga. break. split; [|split].
      + intros E. rewrite E in *. cbn [negb] in *. break.
      + destruct (ga s); try discriminate; reflexivity.
      + match goal with Hx : eqb (gr s) _ = true |- _ => apply Bool.eqb_prop in Hx; rewrite Hx end.
        destruct (gt s); try discriminate; reflexivity.
  Qed.

  (* Safety of the shutdown, in every reachable state: b.done is closed only after b.ctx is cancelled and the consumer
     deregistered; c.done only after the consumer is deregistered (with nothing uncommitted) and c.ctx cancelled;
     Commit never meets "unknown consumer" with reads outstanding; the Once body runs in one thread at a time. *)
  Theorem done_channels_meaning : forall s, from_adm s ->
    (bdone s = true -> bcan s = true /\ reg s = false) /\
    (cdone s = true -> reg s = false /\ ccan s = true) /\
    (reg s = false -> off s = false /\ ccan s = true) /\
    cr s <> CRBUnlockE /\
    (ccres s = RErr -> cw s = CWExit).
  Proof.
    intros s Hs. destruct (from_adm_parts s Hs) as [_ [Hres _]].
    unfold results_consistent in Hres. break.
    split; [|split; [|split; [|split]]].
    - intros E. rewrite E in *. cbn [negb] in *. break. split; [assumption|fin].
    - intros E. rewrite E in *. cbn [negb] in *. break. split; [fin|assumption].
    - intros E. rewrite E in *. cbn [negb] in *. break. split; [fin|assumption].
    - intros E. rewrite E in *. cbn [negb] in *. break.
    - intros E. rewrite E in *. cbn [negb] in *. break. destruct (cw s); try discriminate; reflexivity.
  Qed.

  (* (c) Lock order.  No reachable state has a thread standing at a c.mutex.Lock() while it holds b.mutex in either
     mode; a fortiori there is no lock-order cycle.  The lock fields are exclusive and agree with the program
     counters. *)
  Theorem lock_order_respected : forall s, from_adm s ->
    takes_c_under_b s = false /\ lock_cycle s = false /\ locks_consistent s = true.
  Proof.
    intros s Hs. destruct (from_adm_parts s Hs) as [Hl [_ [Ht _]]].
    repeat split; try assumption. unfold lock_cycle. rewrite Ht. reflexivity.
  Qed.

  (* Termination: every step decreases [mu]; every continuation makes at most [mu] moves; every prefix extends to a
     terminal state. *)
  Theorem every_step_decreases_mu : forall s pk s', from_adm s -> step faithful s pk = Some s' -> (mu s' < mu s)%N.
  Proof.
    intros s pk s' [o [a [u [g0 [d0 [p0 [c0 [sched [Ha ->]]]]]]]]] Hstep.
    exact (reachable_mu (seeds adm) Hsw _ sched pk s' (seeds_complete _ _ _ _ _ _ _ _ Ha) Hstep).
  Qed.

  Theorem every_schedule_bounded : forall s sched, from_adm s -> moves faithful s sched <= N.to_nat (mu s).
  Proof.
    intros s sched [o [a [u [g0 [d0 [p0 [c0 [pre [Ha ->]]]]]]]]].
    exact (moves_bounded (seeds adm) Hsw _ pre sched (seeds_complete _ _ _ _ _ _ _ _ Ha)).
  Qed.

  Theorem reaches_terminal : forall s, from_adm s -> exists post, is_terminal faithful (run faithful s post) = true.
  Proof.
    intros s [o [a [u [g0 [d0 [p0 [c0 [pre [Ha ->]]]]]]]]].
    destruct (terminates (seeds adm) Hsw _ pre (seeds_complete _ _ _ _ _ _ _ _ Ha)) as [post H].
    exists post. rewrite <- run_app. exact H.
  Qed.
End Clauses.

(* ------------------------------------------------------------------------------------------------------------ *)
(* Families of configurations by the number of optional calls.                                                  *)

Definition admk (k : nat) (c : ctl) : bool := budget c <=? k.

(* [s] is reachable, by the code as written, from an initial configuration in which the program makes at most [k] of
   the four optional calls (Get, Diff, Put, an explicit consumer.Close), each at most once, at any moment. *)
Definition reachable_upto (k : nat) (s : ctl) : Prop :=
  exists off0 avail0 uc ng0 nd0 np0 ncc0 sched,
    ng0 <= 1 /\ nd0 <= 1 /\ np0 <= 1 /\ ncc0 <= 1 /\ ng0 + nd0 + np0 + ncc0 <= k /\
    s = run faithful (init off0 avail0 uc ng0 nd0 np0 ncc0) sched.

Lemma reachable_upto_intro : forall k off0 avail0 uc ng0 nd0 np0 ncc0 sched,
  ng0 <= 1 -> nd0 <= 1 -> np0 <= 1 -> ncc0 <= 1 -> ng0 + nd0 + np0 + ncc0 <= k ->
  reachable_upto k (run faithful (init off0 avail0 uc ng0 nd0 np0 ncc0) sched).
Proof. intros. exists off0, avail0, uc, ng0, nd0, np0, ncc0, sched. auto 10. Qed.

Lemma reachable_upto_adm : forall k s, reachable_upto k s -> from_adm (admk k) s.
Proof.
  intros k s [o [a [u [g0 [d0 [p0 [c0 [sched [Hg [Hd [Hp [Hc [Hk ->]]]]]]]]]]]]].
  exists o, a, u, g0, d0, p0, c0, sched. split; [|reflexivity].
  unfold admissible. repeat split; try assumption.
  unfold admk. rewrite budget_init. apply Nat.leb_le. exact Hk.
Qed.

Lemma reachable_upto_step : forall k s sched, reachable_upto k s -> reachable_upto k (run faithful s sched).
Proof.
  intros k s sched [o [a [u [g0 [d0 [p0 [c0 [pre [Hg [Hd [Hp [Hc [Hk ->]]]]]]]]]]]]].
  exists o, a, u, g0, d0, p0, c0, (pre ++ sched). rewrite run_app. auto 10.
Qed.

(* ------------------------------------------------------------------------------------------------------------ *)
(* The sweep of this file: at most two of the four optional calls (448,221 reachable states).                   *)

Lemma sweep2_ok : sweep (seeds (admk 2)) = true.
Proof. vm_cast_no_check (eq_refl true). Qed.

Section UpTo2.
  Let R := reachable_upto 2.
  Let A := fun s (H : R s) => reachable_upto_adm 2 s H.

  Theorem shutdown_completes2 : forall s, reachable_upto 2 s ->
    quiescent faithful s = true -> bclose_called s = true ->
    bclose_returned s = true /\ bdone s = true /\ bcan s = true /\
    consumer_closed s = true /\ get_goroutines_gone s = true /\ locks_free s = true /\
    (get_called s = true -> get_returned s = true) /\
    (cclose_called s = true -> cclose_returned s = true) /\
    others_idle s = true /\ pt s = PIdle.
  Proof. intros s H. exact (shutdown_completes _ sweep2_ok s (A s H)). Qed.

  Theorem parked_get_wakes2 : forall s, reachable_upto 2 s ->
    quiescent faithful s = true -> get_called s = true ->
    avail s = true \/ ccan s = true \/ bcan s = true \/ ucan s = true ->
    get_returned s = true /\ gres s <> RNone /\ get_goroutines_gone s = true /\ locks_free s = true.
  Proof. intros s H. exact (parked_get_wakes _ sweep2_ok s (A s H)). Qed.

  Theorem blocked_get_is_legitimate2 : forall s, reachable_upto 2 s ->
    quiescent faithful s = true -> get_called s = true -> get_returned s = false ->
    get_parked s = true /\ avail s = false /\ ccan s = false /\ bcan s = false /\ ucan s = false /\
    bclose_called s = false /\ consumer_open s = true /\ cm s = CG /\
    (df s = DIdle \/ df s = DLockC) /\ (cr s = CRIdle \/ cr s = CRLockC) /\
    (cclose_called s = true -> cc s = CCBody /\ cl s = ClLockC).
  Proof. intros s H. exact (blocked_get_is_legitimate _ sweep2_ok s (A s H)). Qed.

  Theorem consumer_close_completes2 : forall s, reachable_upto 2 s ->
    quiescent faithful s = true ->
    (ccan s = true -> consumer_closed s = true /\ (cclose_called s = true -> cclose_returned s = true)) /\
    (cclose_called s = true -> get_parked s = false -> cclose_returned s = true /\ consumer_closed s = true).
  Proof. intros s H. exact (consumer_close_completes _ sweep2_ok s (A s H)). Qed.

  Theorem get_result_meaning2 : forall s, reachable_upto 2 s ->
    (gres s = RVal -> avail s = true) /\
    (gres s = RErr -> ccan s = true \/ ucan s = true) /\
    (gafter s = true -> gres s <> RVal /\ ga s = GANone /\ gr s = false).
  Proof. intros s H. exact (get_result_meaning _ sweep2_ok s (A s H)). Qed.

  Theorem done_channels_meaning2 : forall s, reachable_upto 2 s ->
    (bdone s = true -> bcan s = true /\ reg s = false) /\
    (cdone s = true -> reg s = false /\ ccan s = true) /\
    (reg s = false -> off s = false /\ ccan s = true) /\
    cr s <> CRBUnlockE /\
    (ccres s = RErr -> cw s = CWExit).
  Proof. intros s H. exact (done_channels_meaning _ sweep2_ok s (A s H)). Qed.

  Theorem lock_order_respected2 : forall s, reachable_upto 2 s ->
    takes_c_under_b s = false /\ lock_cycle s = false /\ locks_consistent s = true.
  Proof. intros s H. exact (lock_order_respected _ sweep2_ok s (A s H)). Qed.

  Theorem every_step_decreases_mu2 : forall s pk s', reachable_upto 2 s ->
    step faithful s pk = Some s' -> (mu s' < mu s)%N.
  Proof. intros s pk s' H. exact (every_step_decreases_mu _ sweep2_ok s pk s' (A s H)). Qed.

  Theorem every_schedule_bounded2 : forall s sched, reachable_upto 2 s ->
    moves faithful s sched <= N.to_nat (mu s).
  Proof. intros s sched H. exact (every_schedule_bounded _ sweep2_ok s sched (A s H)). Qed.

  Theorem reaches_terminal2 : forall s, reachable_upto 2 s ->
    exists post, is_terminal faithful (run faithful s post) = true.
  Proof. intros s H. exact (reaches_terminal _ sweep2_ok s (A s H)). Qed.
End UpTo2.

(* The bound is a number: from any initial configuration no schedule makes more than 172 moves. *)
Lemma mu_init_le : forallb (fun c => N.leb (mu c) 172) all_inits = true.
Proof. vm_compute. reflexivity. Qed.

(* ------------------------------------------------------------------------------------------------------------ *)
(* Refutations: the same [step], one flag changed.                                                              *)

Definition rep {A : Type} (n : nat) (x : A) : list A := repeat x n.

Definition var_watcher_no_lock : variant := mkvar false true true true true.
Definition var_diff_inverted : variant := mkvar true false true true true.
Definition var_delete_no_bcast : variant := mkvar true true false true true.
Definition var_cancel_before_lock : variant := mkvar true true true false true.
Definition var_no_recheck : variant := mkvar true true true true false.

(* WaitCond's watcher broadcasting without b.mutex.  Get finds nothing, its goroutine evaluates fn() = false; the
   caller's context is cancelled; the watcher broadcasts at once — before the goroutine has enqueued its ticket — and
   ends; the goroutine enqueues, unlocks and parks for ever, with Get holding c.mutex.  Nothing but a new call can
   move; the context is cancelled and Get has not returned. *)
Theorem watcher_needs_lock_refuted :
  exists sched, let s := run var_watcher_no_lock (init false false true 1 0 0 0) sched in
    quiescent var_watcher_no_lock s = true /\ get_called s = true /\ ucan s = true /\
    get_returned s = false /\ get_parked s = true /\ gw s = TExit.
Proof. exists (rep 6 PG ++ rep 5 PGA ++ [PUC; PGW; PGW; PGA; PGA; PAFS]). vm_compute. auto 10. Qed.

(* ... and then not even closing the buffer helps: the watcher — the only goroutine that would broadcast for the
   cancelled context — is gone; Buffer.Close parks for ever behind the consumer's Close, which waits for c.mutex. *)
Theorem watcher_needs_lock_close_hangs_refuted :
  exists sched, let s := run var_watcher_no_lock (init false false true 1 0 0 0) sched in
    is_terminal var_watcher_no_lock s = true /\ bclose_called s = true /\ bclose_returned s = false /\
    bcan s = true /\ get_parked s = true /\ cl s = ClLockC /\ cm s = CG.
Proof.
  exists ([PBC] ++ rep 6 PG ++ rep 5 PGA ++ [PUC; PGW; PGW; PGA; PGA] ++ rep 5 PBC ++ [PCW; PCW; PAF]).
  vm_compute. auto 10.
Qed.

(* The same schedule on the code as written: the watcher blocks on b.mutex until the goroutine has parked, then wakes
   it; Get returns the context's error. *)
Example cancel_between_check_and_park :
  let pre := rep 6 PG ++ rep 5 PGA ++ [PUC; PGW] in
  let sched := pre ++ rep 2 PGA ++ rep 4 PGW ++ rep 7 PGA ++ rep 3 PG ++ [PAFS] in
  let s1 := run faithful (init false false true 1 0 0 0) pre in
  let s := run faithful (init false false true 1 0 0 0) sched in
  ga s1 = WEnq /\ gw s1 = TAnn /\ enabled faithful s1 PGW = false /\
  quiescent faithful s = true /\ get_returned s = true /\ gres s = RErr /\ get_goroutines_gone s = true /\
  off s = false /\ moves faithful (init false false true 1 0 0 0) sched = 30.
Proof. vm_compute. auto 12. Qed.

(* Diff taking b.mutex.RLock() before c.mutex.Lock().  With a read lock held Diff waits for c.mutex; Commit holds
   c.mutex, has announced itself as writer on b.mutex and waits for the readers to drain: a lock-order cycle, nothing
   can move. *)
Theorem diff_lock_order_refuted :
  exists sched, let s := run var_diff_inverted (init true false false 0 1 0 0) sched in
    quiescent var_diff_inverted s = true /\ lock_cycle s = true /\
    df s = DLockC /\ dr s = true /\ cm s = CCR /\ cr s = CRAcq /\ bw s = BCR.
Proof. exists [PD; PD; PCR true; PCR true; PCR true]. vm_compute. auto 10. Qed.

(* ... and through a PENDING writer: Diff holds a read lock and waits for c.mutex; Get holds c.mutex and waits for a
   read lock, which it cannot get because Buffer.Close has announced itself as writer and waits for Diff's read lock. *)
Theorem diff_lock_order_pending_writer_refuted :
  exists sched, let s := run var_diff_inverted (init false false false 1 1 0 0) sched in
    is_terminal var_diff_inverted s = true /\ lock_cycle s = true /\
    df s = DLockC /\ dr s = true /\ cm s = CG /\ gt s = GRLock /\ bw s = BBC /\ bc s = BCAcq.
Proof. exists [PBC; PG; PG; PG; PD; PD; PBC; PUC]. vm_compute. auto 10. Qed.

(* The same calls in the code's order: everything returns. *)
Example diff_in_order :
  let sched := [PD; PD; PCR true; PCR true; PCR true] ++ rep 3 PD ++ rep 7 (PCR true) in
  let s := run faithful (init true false false 0 1 0 0) sched in
  quiescent faithful s = true /\ quiet_goal s = true /\ df s = DIdle /\ cr s = CRIdle /\ off s = false /\
  locks_free s = true /\ moves faithful (init true false false 0 1 0 0) sched = 13.
Proof. vm_compute. auto 10. Qed.

(* b.delete without Broadcast.  (Buffer.Close never broadcasts itself: what wakes it IS delete's Broadcast.)  The
   consumer closes completely, Buffer.Close stays parked on b.cond for ever. *)
Theorem delete_must_broadcast_refuted :
  exists sched, let s := run var_delete_no_bcast (init false false false 0 0 0 0) sched in
    is_terminal var_delete_no_bcast s = true /\ consumer_closed s = true /\ reg s = false /\
    bc s = BCParked /\ qBC s = true /\ bclose_returned s = false /\ bdone s = false.
Proof. exists (rep 6 PBC ++ rep 11 PCW). vm_compute. auto 10. Qed.

(* WaitCond without the ctx.Err() re-check in its loop.  The watcher (correctly, under b.mutex) broadcasts for the
   cancelled context; the goroutine wakes, re-evaluates only b.get — still nothing — and parks again, for ever. *)
Theorem recheck_ctx_refuted :
  exists sched, let s := run var_no_recheck (init false false true 1 0 0 0) sched in
    quiescent var_no_recheck s = true /\ ucan s = true /\ get_returned s = false /\ get_parked s = true /\
    gw s = TExit.
Proof.
  exists (rep 6 PG ++ rep 7 PGA ++ [PUC] ++ rep 5 PGW ++ rep 6 PGA ++ [PAFS]). vm_compute. auto 10.
Qed.

(* consumer.Close() and a parked Get.  In the code as written c.cancel() comes after c.mutex.Lock(), and a parked Get
   holds c.mutex: an explicit consumer.Close() does not wake it — it queues behind it (the proviso of C12) ... *)
Theorem consumer_close_queues_behind_parked_get :
  exists sched, let s := run faithful (init false false false 1 0 0 1) sched in
    quiescent faithful s = true /\ get_parked s = true /\ cclose_called s = true /\ cclose_returned s = false /\
    cl s = ClLockC /\ cm s = CG /\ ccan s = false.
Proof. exists ([PCC; PCC] ++ rep 6 PG ++ rep 7 PGA). vm_compute. auto 10. Qed.

(* ... until a Put (or a cancel of Get's context, or Buffer.Close) releases the Get: then everything completes. *)
Example consumer_close_released_by_put :
  let sched := [PCC; PCC] ++ rep 6 PG ++ rep 7 PGA ++ rep 5 PP ++ rep 8 PGA ++ rep 4 PG ++ rep 4 PCC
               ++ rep 4 (PCR false) ++ rep 9 PCC ++ rep 2 PCW ++ rep 5 PGW ++ [PAF] in
  let s := run faithful (init false false false 1 0 1 1) sched in
  quiescent faithful s = true /\ quiet_goal s = true /\ gres s = RVal /\ cclose_returned s = true /\
  ccres s = RVal /\ consumer_closed s = true /\ get_goroutines_gone s = true /\
  moves faithful (init false false false 1 0 1 1) sched = 57.
Proof. vm_compute. auto 10. Qed.

(* With c.cancel() moved before c.mutex.Lock() the same calls do not get stuck: the cancel reaches the parked Get
   through CombineContext's AfterFunc and WaitCond's watcher.  (A change of behaviour, not a defect of the code as
   written: the documented contract is the proviso.) *)
Example cancel_before_lock_wakes_get :
  let sched := [PCC; PCC] ++ rep 6 PG ++ rep 7 PGA ++ [PCC; PAF] ++ rep 5 PGW ++ rep 7 PGA ++ rep 3 PG
               ++ rep 8 PCC ++ rep 2 PCW in
  let s := run var_cancel_before_lock (init false false false 1 0 0 1) sched in
  quiescent var_cancel_before_lock s = true /\ quiet_goal s = true /\ gres s = RErr /\
  cclose_returned s = true /\ consumer_closed s = true.
Proof. vm_compute. auto 10. Qed.

(* ------------------------------------------------------------------------------------------------------------ *)
(* Non-vacuity: the interesting schedules exist in the code as written.                                         *)

(* A Put lands in the window between Get's synchronous check (under the read lock) and its goroutine taking the
   write lock: the goroutine's first fn() sees the value, Get returns it; Rollback then resets the offset; the
   watcher is released by WaitCond's deferred cancel, CombineContext's registration by Get's deferred cancel. *)
Example put_between_check_and_goroutine :
  let pre := rep 6 PG in
  let sched := pre ++ rep 5 PP ++ rep 8 PGA ++ rep 4 PG ++ rep 5 PGW ++ [PAFS] ++ rep 4 (PCR false) in
  let s1 := run faithful (init false false false 1 0 1 0) pre in
  let s := run faithful (init false false false 1 0 1 0) sched in
  gt s1 = GRecv /\ ga s1 = GAAnn /\ br s1 = 0 /\
  quiescent faithful s = true /\ quiet_goal s = true /\ gres s = RVal /\ get_goroutines_gone s = true /\
  af s = AFStopped /\ off s = false /\ moves faithful (init false false false 1 0 1 0) sched = 33.
Proof. vm_compute. auto 12. Qed.

(* Buffer.Close while Get is parked: b.cancel() reaches the goroutine through the AfterFunc and the watcher; Get
   returns an error and releases c.mutex; the consumer's watcher closes the consumer and deregisters it; delete's
   Broadcast wakes Buffer.Close; it closes b.done and returns.  Terminal: nothing at all can move. *)
Example buffer_close_with_parked_get :
  let sched := rep 6 PG ++ rep 7 PGA ++ rep 6 PBC ++ rep 2 PCW ++ [PAF] ++ rep 5 PGW ++ rep 7 PGA ++ rep 3 PG
               ++ rep 9 PCW ++ rep 5 PBC in
  let s := run faithful (init false false false 1 0 0 0) sched in
  is_terminal faithful s = true /\ quiet_goal s = true /\ bclose_returned s = true /\ bdone s = true /\
  gres s = RErr /\ consumer_closed s = true /\ get_goroutines_gone s = true /\ locks_free s = true /\
  moves faithful (init false false false 1 0 0 0) sched = 51.
Proof. vm_compute. auto 12. Qed.

(* A transient worth knowing: Buffer.Close can return (b.done closed) while the consumer's own shutdown is still
   finishing — c.done not yet closed, the watcher goroutine still running, c.mutex still held by it. *)
Example buffer_close_returns_before_consumer_done :
  let sched := rep 6 PBC ++ rep 7 PCW ++ [PBC; PCW] ++ rep 4 PBC in
  let s := run faithful (init false false false 0 0 0 0) sched in
  bclose_returned s = true /\ bdone s = true /\ reg s = false /\ cdone s = false /\ cw s = CWBody /\ cm s = CCl.
Proof. vm_compute. auto 10. Qed.

(* The invariant is not everything and the goal is not vacuous: 1,024 of the 448,221 swept states are quiescent. *)

Print Assumptions shutdown_completes2.
Print Assumptions parked_get_wakes2.
Print Assumptions blocked_get_is_legitimate2.
Print Assumptions consumer_close_completes2.
Print Assumptions get_result_meaning2.
Print Assumptions done_channels_meaning2.
Print Assumptions lock_order_respected2.
Print Assumptions every_step_decreases_mu2.
Print Assumptions every_schedule_bounded2.
Print Assumptions reaches_terminal2.
Print Assumptions watcher_needs_lock_refuted.
Print Assumptions watcher_needs_lock_close_hangs_refuted.
Print Assumptions diff_lock_order_refuted.
Print Assumptions diff_lock_order_pending_writer_refuted.
Print Assumptions delete_must_broadcast_refuted.
Print Assumptions recheck_ctx_refuted.
Print Assumptions consumer_close_queues_behind_parked_get.
