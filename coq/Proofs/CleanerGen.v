(* The cleaner functions AS WRITTEN IN THE CURRENT SOURCE compute the model functions, for every input.

   coq/Gen/ImplCleaners.v is printed by harness/cmd/gotr from /repo's bigbuff.go on every run of the C03 check (terms of
   the Go-fragment embedding Model/GoFrag.v); this file is re-checked against it each time.  A change of DefaultCleaner or
   FixedBufferCleaner that computes something else makes a theorem below fail (or leaves the fragment, which makes the
   translator fail); variable renamings do not reach this file (canonical names), and the proof scripts follow the
   semantics rather than the syntax of the loop body (re-ordered tests, nested or else-chained conditionals, `var`
   declarations and flipped comparisons were tried and still check), but a harmless rewrite CAN break them - then the
   check falls back on the search for a failing input and says so. *)
From Coq Require Import List ZArith Bool String Lia.
From BB.Model Require Import GoFrag Cleaner.
From BB.Gen Require Import ImplCleaners.
Import ListNotations.
Local Open Scope string_scope.
Local Open Scope Z_scope.

Fixpoint flat (s : stmt) : list stmt :=
  match s with SSeq a b => flat a ++ flat b | SSkip => [] | _ => [s] end.

Fixpoint exec_list (fe : fenv) (l : list stmt) (e : env) : outcome :=
  match l with
  | [] => ONormal e
  | s :: l' => match exec fe s e with ONormal e' => exec_list fe l' e' | r => r end
  end.

Lemma exec_list_app fe l1 l2 e :
  exec_list fe (l1 ++ l2) e = match exec_list fe l1 e with ONormal e' => exec_list fe l2 e' | r => r end.
Proof.
  revert e. induction l1 as [|s l1 IH]; intros e; [reflexivity|].
  cbn [app exec_list]. destruct (exec fe s e); try reflexivity. apply IH.
Qed.

Lemma exec_list_cons fe s l e :
  exec_list fe (s :: l) e = match exec fe s e with ONormal e' => exec_list fe l e' | r => r end.
Proof. reflexivity. Qed.

Lemma exec_flat fe s : forall e, exec fe s e = exec_list fe (flat s) e.
Proof.
  induction s; intros e0; try (cbn [flat exec_list]; destruct (exec fe _ e0); reflexivity).
  - reflexivity.
  - cbn [flat]. rewrite exec_list_app. cbn [exec]. rewrite IHs1. destruct (exec_list fe (flat s1) e0); try reflexivity. apply IHs2.
Qed.

Lemma exec_range fe x xs b e :
  exec fe (SRange x xs b) e =
  match eval fe e xs with Some (VList l) => range_loop fe x b l e | _ => OError end.
Proof.
  cbn [exec]. destruct (eval fe e xs) as [[z|bb|l|n]|]; try reflexivity.
  revert e. induction l as [|v l IH]; intros e; [reflexivity|].
  cbn [range_loop]. destruct (exec fe b (set x (VInt v) e)); try reflexivity; apply IH.
Qed.

(* the statements of DefaultCleaner, flattened: [prefix ...; SRange x xs B; post ...] *)
Fixpoint split_range (l : list stmt) : option (list stmt * (string * expr * stmt) * list stmt) :=
  match l with
  | [] => None
  | SRange x xs b :: post => Some ([], (x, xs, b), post)
  | s :: l' => match split_range l' with Some (pre, r, post) => Some (s :: pre, r, post) | None => None end
  end.

Definition dc_flat := Eval cbv in flat (body DefaultCleaner_def).
Definition dc_split := Eval cbv in split_range dc_flat.

Definition dc_x := Eval cbv in match dc_split with Some (_, (x, _, _), _) => x | None => "" end.
Definition dc_B := Eval cbv in match dc_split with Some (_, (_, _, b), _) => b | None => SSkip end.
Definition dc_post := Eval cbv in match dc_split with Some (_, _, post) => post | None => [] end.
Definition dc_pre := Eval cbv in match dc_split with Some (pre, _, _) => pre | None => [] end.
Definition dc_xs := Eval cbv in match dc_split with Some (_, (_, xs, _), _) => xs | None => ENil end.

Lemma dc_shape : dc_flat = (dc_pre ++ SRange dc_x dc_xs dc_B :: dc_post)%list.
Proof. reflexivity. Qed.

Ltac sym H1 H2 :=
  repeat (cbn -[Z.eqb Z.ltb Z.leb Z.gtb Z.geb Z.add Z.sub Z.mul Z.min Z.max default_loop];
          rewrite ?H1, ?H2).

(* The loop, followed by the statements after it, computes the model's loop - whatever values the two loop-carried
   variables (v0 = lowest, v1 = active: canonical names, in order of declaration) have on entry.  The script does not
   follow the syntax of the body: it splits on the three comparisons the model makes, runs the body symbolically, and
   closes each case by computation, by the induction hypothesis (up to linear arithmetic on the carried value), or by
   contradiction - so that re-orderings and re-phrasings of the body that compute the same thing keep it valid. *)
Ltac dc_close IH Hl Ha :=
  first
    [ reflexivity
    | exfalso; lia
    | erewrite IH; [ | sym Hl Ha; reflexivity | sym Hl Ha; reflexivity ];
      first [ reflexivity | repeat f_equal; lia ] ].

Lemma dc_loop : forall offs e lowest active,
  lookup "v0" e = Some (VInt lowest) -> lookup "v1" e = Some (VBool active) ->
  match range_loop [] dc_x dc_B offs e with ONormal e' => exec_list [] dc_post e' | r => r end
  = OReturn (VInt (default_loop offs lowest active)).
Proof.
  induction offs as [|o offs IH]; intros e lowest active Hl Ha.
  - cbn [default_loop]. destruct active; sym Hl Ha; reflexivity.
  - cbn [range_loop default_loop]. unfold dc_x, dc_B.
    destruct (Z.eqb_spec o 0) as [E0|E0]; destruct (Z.ltb_spec o 0) as [E1|E1];
      destruct (Z.ltb_spec o lowest) as [E2|E2]; destruct active;
      sym Hl Ha;
      repeat match goal with
             | |- context [Z.eqb ?a ?b] => destruct (Z.eqb_spec a b); sym Hl Ha
             | |- context [Z.ltb ?a ?b] => destruct (Z.ltb_spec a b); sym Hl Ha
             | |- context [Z.leb ?a ?b] => destruct (Z.leb_spec a b); sym Hl Ha
             | |- context [Z.gtb ?a ?b] => rewrite (Z.gtb_ltb a b); sym Hl Ha
             | |- context [Z.geb ?a ?b] => rewrite (Z.geb_leb a b); sym Hl Ha
             end;
      dc_close IH Hl Ha.
Qed.

(* DefaultCleaner as written in the current source computes the model function, for every size and every offsets *)
Theorem DefaultCleaner_src_eq_model : forall size offsets,
  call [] DefaultCleaner_def [VInt size; VList offsets] = Some (VInt (default_cleaner size offsets)).
Proof.
  intros size offsets. unfold call. cbn [bind_params params DefaultCleaner_def].
  rewrite exec_flat. change (flat (body DefaultCleaner_def)) with dc_flat. rewrite dc_shape, exec_list_app.
  match goal with |- context [exec_list [] dc_pre ?e] =>
    let r := eval cbn -[Z.eqb Z.ltb Z.leb Z.gtb Z.geb Z.add Z.sub Z.mul Z.min Z.max Z.of_nat] in (exec_list [] dc_pre e) in
    change (exec_list [] dc_pre e) with r end.
  (* the statements before the loop may test their way to an early return (e.g. an empty-list fast path): split on the
     comparisons; an early return must agree with the model on that case, otherwise the loop lemma applies *)
  repeat match goal with
         | |- context [Z.gtb ?a ?b] => rewrite (Z.gtb_ltb a b)
         | |- context [Z.geb ?a ?b] => rewrite (Z.geb_leb a b)
         | |- context [Z.eqb ?a ?b] => destruct (Z.eqb_spec a b)
         | |- context [Z.ltb ?a ?b] => destruct (Z.ltb_spec a b)
         | |- context [Z.leb ?a ?b] => destruct (Z.leb_spec a b)
         end;
  cbv beta iota;
  first
    [ (* early return *)
      solve [ destruct offsets as [|o l]; cbn [List.length] in *;
              first [ reflexivity | exfalso; lia | unfold default_cleaner; cbn [default_loop]; repeat f_equal; lia ] ]
    | (* what the prefix did after its tests is computed now (the first computation stopped at the tests) *)
      cbn -[Z.eqb Z.ltb Z.leb Z.gtb Z.geb Z.add Z.sub Z.mul Z.min Z.max Z.of_nat exec_list];
      rewrite exec_list_cons, exec_range;
      match goal with |- context [eval [] ?e dc_xs] =>
        let r := eval cbn in (eval [] e dc_xs) in change (eval [] e dc_xs) with r end;
      cbv beta iota; unfold default_cleaner;
      erewrite dc_loop; reflexivity ].
Qed.

Definition fe1 : fenv := [("DefaultCleaner", call [] DefaultCleaner_def)].

(* FixedBufferCleaner(max, target, callback)(size, offsets), with or without a callback *)
Theorem FixedBufferCleaner_src_eq_model : forall max target cb size offsets,
  call fe1 FixedBufferCleaner_def [VInt max; VInt target; VFunc cb; VInt size; VList offsets]
  = Some (VInt (fixed_cleaner max target size offsets)).
Proof.
  intros max target cb size offsets. unfold call, fixed_cleaner.
  rewrite Z.gtb_ltb. destruct (Z.ltb_spec max size) as [E|E]; destruct cb;
    cbn -[Z.eqb Z.ltb Z.leb Z.gtb Z.geb Z.add Z.sub Z.mul Z.min Z.max default_cleaner call];
    repeat match goal with
           | |- context [Z.gtb ?a ?b] => rewrite (Z.gtb_ltb a b)
           | |- context [Z.geb ?a ?b] => rewrite (Z.geb_leb a b)
           | |- context [Z.eqb ?a ?b] => destruct (Z.eqb_spec a b)
           | |- context [Z.ltb ?a ?b] => destruct (Z.ltb_spec a b)
           | |- context [Z.leb ?a ?b] => destruct (Z.leb_spec a b)
           | _ => progress cbn -[Z.eqb Z.ltb Z.leb Z.gtb Z.geb Z.add Z.sub Z.mul Z.min Z.max default_cleaner call]
           | _ => rewrite DefaultCleaner_src_eq_model
           end;
    first [ reflexivity | exfalso; lia | repeat f_equal; lia ].
Qed.

Print Assumptions DefaultCleaner_src_eq_model.
Print Assumptions FixedBufferCleaner_src_eq_model.
