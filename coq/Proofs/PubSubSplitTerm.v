(* Termination of the split-granularity model (Model/PubSubSplit.v): every enabled step from a state satisfying the invariant
   decreases a natural-number measure, so no schedule is infinite; in particular the CAS retry loop of the arming step
   (X5a Load / X5b CompareAndSwap, back to X5a on failure) cannot livelock: a CAS fails only if the caster word changed since the
   Load, i.e. a counted subscriber left through the caster, and the measure charges the sender 2 per unit of the loaded value. *)
From Coq Require Import List Arith Lia Bool ZifyBool.
From BB.Model Require Import PubSubAbs PubSubSplit.
From BB.Proofs Require Import PubSubAbs PubSubSplit.
Import ListNotations.
Arguments Nat.sub : simpl never. Arguments Nat.ltb : simpl never. Arguments Nat.leb : simpl never.
Arguments Nat.eqb : simpl never. Arguments Nat.mul : simpl never. Arguments Nat.add : simpl never.

Definition xsp_w (s : xst) : nat :=
  match xp s with
  | XNone => 0 | X10 => 1 | X9 => 2 | X8 => 3 | X7b => 4 | X7a => 5 | X6 => 6
  | X5b => 7 + 2 * l5 s | X5a => 8 + 2 * xv s cnt | X4b => 9 + 2 * l4 s
  | X4a => 10 | X3 => 11 | X2 => 12
  end.

Definition xsp_pre (c : xpc) : nat := match c with X2 | X3 | X4a => 1 | _ => 0 end.
Definition xrounds (s : xst) : nat := xv s nsend + xv s sq + xsp_pre (xp s).
Definition xlive (f : var -> nat) : nat := f u0 + f u1 + f u2 + f b0o + f b0n + f b1 + f n1o + f n1n.

Definition xlin (s : xst) : nat :=
  let f := xv s in
  xsp_w s + 14 * f nsend + 13 * f sq +
  8 * f u0 + 7 * f u1 + 6 * f u2 + 7 * f b0o + 5 * f b0n + 6 * f b1 +
  4 * f n1o + 4 * f n1n + 2 * f n2ko + 2 * f n2kn + f n3k +
  3 * f n2fo + 3 * f n2fn + 2 * f n4o + 2 * f n4n + f n5.

Definition xmeasure (s : xst) : nat := xlin s + 4 * (xrounds s * xlive (xv s)).

Lemma xmeas_lt : forall R T l R' T' l',
  T' <= T ->
  (R' = R /\ l' < l) \/ (R' + 1 = R /\ l' < l + 4 * T') ->
  l' + 4 * (R' * T') < l + 4 * (R * T).
Proof.
  intros R T l R' T' l' HT [[-> Hl] | [<- Hl]].
  - pose proof (Nat.mul_le_mono_l T' T R HT). lia.
  - pose proof (Nat.mul_le_mono_l T' T R' HT). rewrite Nat.mul_add_distr_r. lia.
Qed.

Ltac xfinish_meas :=
  unfold xmeasure; apply xmeas_lt;
  unfold xrounds, xlive, xlin, xsp_w, xsp_pre, XInv, common, xlock_inv, xphase_inv, idle in *;
  xred; xbrk_goal; lia.

Theorem split_measure_decreases : forall s p s', XInv s -> xstep s p = Some s' -> xmeasure s' < xmeasure s.
Proof.
  intros [c f a4 a5 a0 a7 a7a] p s' (HC & HL & HP) Hs. unfold xphase_inv in HP. cbn [xp xv l4 l5 rc0 l7 l7a] in HC, HL, HP.
  unfold xstep, xstep_gen in Hs. cbn [xp xv l4 l5 rc0 l7 l7a] in Hs. cbv zeta in Hs.
  destruct p; try xdeleg Hs; unfold pos in Hs; destruct c; cbn [proj] in Hs; try discriminate Hs;
    xbrk_in Hs; injection Hs as <-; xfinish_meas.
Qed.

Fixpoint xmoves (s : xst) (sched : list pick) : nat :=
  match sched with
  | [] => 0
  | p :: rest => match xstep s p with Some s' => S (xmoves s' rest) | None => xmoves s rest end
  end.

Lemma xmoves_bounded_from : forall sched s, XInv s -> xmoves s sched + xmeasure (xrun s sched) <= xmeasure s.
Proof.
  induction sched as [|p rest IH]; intros s HI; [cbn; lia|].
  unfold xrun in *. cbn [xrun_gen xmoves]. fold (xstep s p).
  destruct (xstep s p) as [s'|] eqn:Hs.
  - pose proof (split_measure_decreases s p s' HI Hs). pose proof (IH s' (XInv_step s p s' HI Hs)). lia.
  - apply IH, HI.
Qed.

Lemma xmeasure_init : forall senders subscribers,
  xmeasure (xinit senders subscribers) = 14 * senders + 8 * subscribers + 4 * (senders * subscribers).
Proof.
  intros a b. unfold xmeasure, xlin, xrounds, xlive, xinit, init, xsp_w, xsp_pre. cbn [xmk xp xv mk sp v]. lia.
Qed.

(* Every run of the split model is finite, CAS retries included. *)
Theorem split_every_run_finite : forall senders subscribers sched,
  xmoves (xinit senders subscribers) sched <= 14 * senders + 8 * subscribers + 4 * (senders * subscribers).
Proof.
  intros a b sched. pose proof (xmoves_bounded_from sched (xinit a b) (XInv_init a b)) as H.
  rewrite xmeasure_init in H. lia.
Qed.

(* the demo run of Proofs/PubSubSplit.v (with one failed CAS) makes 28 moves; the bound for 1 sender, 2 subscribers is 38 *)
Example xdemo_moves :
  xmoves (xinit 1 2) xsched_demo = length xsched_demo /\ length xsched_demo = 28 /\ xmeasure (xinit 1 2) = 38.
Proof. vm_compute. repeat split. Qed.

Print Assumptions split_measure_decreases.
Print Assumptions split_every_run_finite.
