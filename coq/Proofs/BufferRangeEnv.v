(* Range (bigbuff.Range / Buffer.Range) and Rollback-replay UNDER INTERLEAVING.

   Proofs/BufferRange.v describes one Range call in isolation ([range_loop]: nothing happens between its sub-operations).
   Here the same composite is run with an arbitrary ENVIRONMENT SEGMENT (a list of [ev], executed by [erun]) before every
   one of Range's own sub-steps:

       seg; Get;  seg; callback (its Put, if any);  seg; Diff (Buffer.Range only);  seg; Commit     (seg; Rollback on
                                                                                          panic / Get failure / Commit failure)

   Environment events ([env_ev c]) are ALL events except consumer c's own Get / Commit / Rollback: Puts of any producer,
   NewConsumer, every operation of every other consumer, Size / Slice / Diff / Done / probes, cleaner runs [EClean], shutdown
   steps [ESettle], and even Close of the buffer or of consumer c itself.  [open_ev c] additionally excludes Buffer.Close
   and Close of c (so that a live consumer stays live).

   The executable definitions [range_loop_env], [buffer_range_env], [pkg_range_env], [gets], [gets_env] live in this file
   (task ruling: Model/Buffer.v is not to be changed); [range_loop_env_nil] proves that with no environment they ARE
   [range_loop].

   Scope note (as for [range_loop]): a "Get failure" is a failure of consumer.Get itself (its own context checks, the
   buffer's errors, or the caller's context expiring while the Get is parked); Range's deferred Rollback then runs.
   bigbuff.Range also tests ctx.Err() at the top of every iteration and, if the caller's context is ALREADY cancelled
   there, returns that error WITHOUT issuing Get or Rollback; that path performs no buffer operation at all and only
   differs observably when reads were pending at entry (they then stay pending instead of being rolled back; checked
   against the Go code). *)
From Coq Require Import List ZArith Bool Arith Lia.
From BB.Model Require Import Cleaner Buffer.
From BB.Proofs Require Import Buffer BufferRange.
Import ListNotations.

Arguments Nat.sub : simpl never.
Arguments Nat.eqb : simpl never.
Arguments Nat.ltb : simpl never.
Arguments Nat.leb : simpl never.
Arguments Nat.max : simpl never.

(* ---------------------------------------------------------------------------------------------------------- *)
(* environment events                                                                                           *)
(* ---------------------------------------------------------------------------------------------------------- *)
Definition env_op (c : nat) (o : op) : bool :=
  match o with
  | OGet c' | OCommit c' | ORollback c' => negb (c' =? c)
  | _ => true
  end.
Definition env_ev (c : nat) (e : ev) : bool := match e with EOp o => env_op c o | _ => true end.

Definition open_op (c : nat) (o : op) : bool :=
  match o with
  | OCloseB => false
  | OCloseC c' => negb (c' =? c)
  | _ => env_op c o
  end.
Definition open_ev (c : nat) (e : ev) : bool := match e with EOp o => open_op c o | _ => true end.

Definition seg_ok (c : nat) (seg : list ev) : Prop := Forall (fun e => env_ev c e = true) seg.
Definition seg_open (c : nat) (seg : list ev) : Prop := Forall (fun e => open_ev c e = true) seg.
Definition env_ok (c : nat) (E : list (list ev)) : Prop := Forall (seg_ok c) E.
Definition env_open (c : nat) (E : list (list ev)) : Prop := Forall (seg_open c) E.

Lemma open_ev_env c e : open_ev c e = true -> env_ev c e = true.
Proof. destruct e as [o| |]; cbn; auto. destruct o; cbn; auto; discriminate. Qed.

Lemma seg_open_ok c seg : seg_open c seg -> seg_ok c seg.
Proof. intros H. eapply Forall_impl; [|exact H]. intros e. apply open_ev_env. Qed.

Lemma env_open_ok c E : env_open c E -> env_ok c E.
Proof. intros H. eapply Forall_impl; [|exact H]. intros e. apply seg_open_ok. Qed.

(* the environment is a list of segments, one consumed before each sub-step; an exhausted list means "nothing happens" *)
Definition envstep (s : st) (E : list (list ev)) : st * list (list ev) :=
  match E with
  | [] => (s, [])
  | seg :: E' => (fst (erun s seg), E')
  end.

Definition cb_cont (x : cb) : bool := match x with CbTrue | CbPutTrue _ => true | _ => false end.
Definition cb_panics (x : cb) : bool := match x with CbPanic => true | _ => false end.

(* the callback's own effect on the buffer: CbPutTrue v puts v *)
Definition cb_apply (x : cb) (s : st) : st :=
  match cb_put x with [] => s | l => fst (step s (OPut l)) end.

(* [range_loop] with an environment segment before every sub-step.  An exhausted script behaves like CbFalse.
   Besides (final state, visited values, how it ended) the result carries two observations of the run:
   the result of the LAST Get that Range issued (ROk if none), and the length of the log at the moment of the LAST Diff
   test of the last completed iteration (0 if that iteration ended before its Diff test). *)
Fixpoint range_loop_env (fuel : nat) (bounded : bool) (s : st) (c : nat) (script : list cb) (visited : list Z)
         (E : list (list ev)) : st * list Z * range_end * (out * nat) :=
  match fuel with
  | 0 => (s, visited, ReFuel, (ROk, 0))
  | S fuel' =>
      let '(sa, E1) := envstep s E in
      let '(s1, r) := step sa (OGet c) in
      match r with
      | RVal v =>
          let visited' := visited ++ [v] in
          let x := hd CbFalse script in
          let '(sb, E2) := envstep s1 E1 in
          if cb_panics x then let '(s2, _) := step sb (ORollback c) in (s2, visited', RePanic, (r, 0))
          else
            let '(sc, E3) := envstep (cb_apply x sb) E2 in
            let more := cb_cont x && more_of bounded sc c in
            let '(sd, E4) := envstep sc E3 in
            let '(s2, r2) := step sd (OCommit c) in
            match r2 with
            | ROk => if more then range_loop_env fuel' bounded s2 c (tl script) visited' E4
                     else (s2, visited', ReNil, (r, length (log sc)))
            | _ => let '(se, _) := envstep s2 E4 in let '(s3, _) := step se (ORollback c) in
                   (s3, visited', ReErr, (r, length (log sc)))
            end
      | _ => let '(sb, _) := envstep s1 E1 in let '(s2, _) := step sb (ORollback c) in (s2, visited, ReErr, (r, 0))
      end
  end.

(* Buffer.Range: the consumer must belong to the buffer (static check), then the entry Diff test, then the bounded loop *)
Definition buffer_range_env (s : st) (c : nat) (script : list cb) (E : list (list ev))
  : st * list Z * range_end * (out * nat) :=
  match getc s c with
  | None => (s, [], ReErr, (ROk, 0))
  | Some _ =>
      let '(sa, E1) := envstep s E in
      if more_of true sa c then range_loop_env (S (length script)) true sa c script [] E1
      else (sa, [], ReNil, (ROk, length (log sa)))
  end.

Definition pkg_range_env (s : st) (c : nat) (script : list cb) (E : list (list ev))
  : st * list Z * range_end * (out * nat) :=
  range_loop_env (S (length script)) false s c script [] E.

(* n successive Gets of consumer c, and the same with an environment segment before each *)
Fixpoint gets (s : st) (c : nat) (n : nat) : st * list out :=
  match n with
  | 0 => (s, [])
  | S n' => let '(s1, r) := step s (OGet c) in let '(s2, rs) := gets s1 c n' in (s2, r :: rs)
  end.

Fixpoint gets_env (s : st) (c : nat) (n : nat) (E : list (list ev)) : st * list out :=
  match n with
  | 0 => (s, [])
  | S n' =>
      let '(sa, E1) := envstep s E in
      let '(s1, r) := step sa (OGet c) in
      let '(s2, rs) := gets_env s1 c n' E1 in (s2, r :: rs)
  end.

(* ---------------------------------------------------------------------------------------------------------- *)
(* what an environment segment can do to consumer c's record                                                    *)
(* ---------------------------------------------------------------------------------------------------------- *)
(* cursor untouched; c can be cancelled / closed by the environment, but not deregistered while it has pending reads *)
Definition cpres (k k' : cons) : Prop :=
  ccommit k' = ccommit k /\ cdelta k' = cdelta k /\ (creg k' = true -> creg k = true) /\
  (cdelta k <> 0 -> creg k' = creg k) /\ (ccancel k = true -> ccancel k' = true).

Lemma cpres_refl k : cpres k k.
Proof. unfold cpres; auto. Qed.

Lemma cpres_trans a b d : cpres a b -> cpres b d -> cpres a d.
Proof.
  intros (A1 & A2 & A3 & A4 & A5) (B1 & B2 & B3 & B4 & B5). unfold cpres.
  split; [congruence|]. split; [congruence|]. split; [auto|]. split; [|auto].
  intros Hd. rewrite B4, A4; auto. congruence.
Qed.

Lemma cpres_settle_c k : cpres k (settle_c k).
Proof.
  unfold settle_c, cpres.
  destruct (ccancel k) eqn:E1; destruct (conce k) eqn:E2; destruct (cdone k) eqn:E3; destruct (cdelta k =? 0) eqn:E4;
    cbn [andb negb c_close_begin c_finish ccommit cdelta creg ccancel conce cdone]; rewrite ?E1, ?E2, ?E3, ?E4;
    cbn [andb negb c_close_begin c_finish ccommit cdelta creg ccancel conce cdone];
    repeat split; auto; try discriminate; intros Hd; apply Nat.eqb_eq in E4; congruence.
Qed.

Lemma cpres_cancel k : cpres k (c_cancel k).
Proof. unfold cpres; cbn; auto. Qed.

Lemma cpres_close_begin k : cpres k (c_close_begin k).
Proof. unfold cpres; cbn; auto. Qed.

Lemma getc_upd_other s c c0 x d : c0 <> c -> getc (set_cs s (upd (cs s) c0 x) d) c = getc s c.
Proof. intros Hne. unfold getc; cbn [cs set_cs]. apply nth_error_upd_other; auto. Qed.

Lemma env_step_c c s o k :
  env_op c o = true -> getc s c = Some k -> exists k', getc (fst (step s o)) c = Some k' /\ cpres k k'.
Proof.
  intros He Hk.
  assert (Hsame : exists k', getc s c = Some k' /\ cpres k k') by (exists k; split; [exact Hk|apply cpres_refl]).
  destruct o; cbn [env_op] in He; unfold step; cbn [fst]; try exact Hsame.
  - destruct (bclosed s); cbn [fst]; [exact Hsame|]. exists k. split; [exact Hk|apply cpres_refl].
  - destruct (bclosed s); cbn [fst]; [exact Hsame|]. exists k. split; [|apply cpres_refl].
    unfold getc in *; cbn [cs set_cs]. rewrite nth_error_app1; auto. apply nth_error_Some. rewrite Hk. discriminate.
  - apply negb_true_iff, Nat.eqb_neq in He.
    destruct (step s (OGet c0)) as [s' r] eqn:Hs. unfold step in Hs. rewrite Hs. cbn [fst].
    destruct r; try (destruct (step_get_fail _ _ _ _ Hs) as [-> _]; [intros v0 E; discriminate E|exact Hsame]).
    destruct (step_get_val _ _ _ _ Hs) as (k0 & Hk0 & _ & _ & _ & _ & _ & ->).
    exists k. split; [rewrite getc_upd_other; auto|apply cpres_refl].
  - apply negb_true_iff, Nat.eqb_neq in He.
    destruct (getc s c0) as [k0|] eqn:Hk0; cbn [fst]; [|exact Hsame].
    destruct (cdelta k0 =? 0); cbn [fst]; [exact Hsame|]. destruct (negb (creg k0)); cbn [fst]; [exact Hsame|].
    exists k. split; [rewrite getc_upd_other; auto|apply cpres_refl].
  - apply negb_true_iff, Nat.eqb_neq in He.
    destruct (getc s c0) as [k0|] eqn:Hk0; cbn [fst]; [|exact Hsame].
    destruct (cdelta k0 =? 0); cbn [fst]; [exact Hsame|].
    exists k. split; [rewrite getc_upd_other; auto|apply cpres_refl].
  - destruct (getc s c0) as [k0|]; [destruct (creg k0)|]; exact Hsame.
  - destruct (getc s c0) as [k0|] eqn:Hk0; cbn [fst]; [|exact Hsame].
    destruct (conce k0); cbn [fst]; [exact Hsame|].
    destruct (Nat.eq_dec c0 c) as [->|Hne].
    + rewrite Hk in Hk0. inversion Hk0; subst k0.
      destruct (cdelta k =? 0) eqn:Ed; cbn [fst]; eexists; (split; [eapply getc_upd; eauto|]).
      * unfold cpres; cbn. repeat split; auto; try discriminate. intros Hd. apply Nat.eqb_eq in Ed. congruence.
      * apply cpres_close_begin.
    + destruct (cdelta k0 =? 0); cbn [fst]; exists k; (split; [rewrite getc_upd_other; auto|apply cpres_refl]).
  - destruct (bonce s); cbn [fst]; [exact Hsame|].
    exists (settle_c (c_cancel k)). split.
    + unfold getc in *; cbn [settle cs]. rewrite !nth_error_map, Hk. reflexivity.
    + eapply cpres_trans; [apply cpres_cancel|apply cpres_settle_c].
  - destruct (getc s c0); exact Hsame.
  - match goal with |- exists _, getc (fst (if ?b then _ else _)) _ = _ /\ _ => destruct b end; exact Hsame.
  - destruct (getc s c0); exact Hsame.
Qed.

Lemma env_estep_c c s e k :
  Inv s -> env_ev c e = true -> getc s c = Some k -> exists k', getc (fst (estep s e)) c = Some k' /\ cpres k k'.
Proof.
  intros HI He Hk. destruct e as [o| |]; cbn [estep env_ev] in *.
  - pose proof (env_step_c c s o k He Hk) as H. destruct (step s o); exact H.
  - cbn [fst]. exists k. split; [|apply cpres_refl]. unfold clean. destruct (bclosed s); auto.
  - cbn [fst]. exists (settle_c k). split; [|apply cpres_settle_c].
    unfold getc in *; cbn [settle cs]. rewrite nth_error_map, Hk. reflexivity.
Qed.

(* the log only grows *)
Definition lext (s s' : st) : Prop := exists sfx, log s' = log s ++ sfx.

Lemma lext_refl s : lext s s.
Proof. exists []. rewrite app_nil_r. reflexivity. Qed.

Lemma lext_trans a b d : lext a b -> lext b d -> lext a d.
Proof. intros [x Hx] [y Hy]. exists (x ++ y). rewrite Hy, Hx, app_assoc. reflexivity. Qed.

Lemma lext_nth s s' p v : lext s s' -> nth_error (log s) p = Some v -> nth_error (log s') p = Some v.
Proof.
  intros [x Hx] Hn. rewrite Hx, nth_error_app1; auto. apply nth_error_Some. rewrite Hn. discriminate.
Qed.

Lemma lext_len s s' : lext s s' -> length (log s) <= length (log s').
Proof. intros [x Hx]. rewrite Hx, app_length. lia. Qed.

Lemma lext_erun s evs : Inv s -> lext s (fst (erun s evs)).
Proof. intros HI. exists (batches s evs). apply erun_log; auto. Qed.

Lemma Forall_inv_cons {A} (P : A -> Prop) a l : Forall P (a :: l) -> P a /\ Forall P l.
Proof. intros H; inversion H; auto. Qed.

(* a whole environment segment *)
Lemma env_seg_c c seg : forall s k,
  Inv s -> seg_ok c seg -> getc s c = Some k ->
  let s' := fst (erun s seg) in
  Inv s' /\ lext s s' /\ base s <= base s' /\ exists k', getc s' c = Some k' /\ cpres k k'.
Proof.
  intros s k HI Hseg Hk. cbv zeta.
  split; [apply Inv_erun; auto|]. split; [apply lext_erun; auto|].
  split; [apply (sle_erun seg s HI)|].
  revert s k HI Hseg Hk. induction seg as [|e rest IH]; intros s k HI Hseg Hk.
  - exists k. split; [exact Hk|apply cpres_refl].
  - apply Forall_inv_cons in Hseg. destruct Hseg as [He Hrest].
    destruct (env_estep_c c s e k HI He Hk) as (k1 & Hk1 & Hp1).
    rewrite erun_cons. cbn [fst].
    destruct (IH (fst (estep s e)) k1 (Inv_estep s e HI) Hrest Hk1) as (k2 & Hk2 & Hp2).
    exists k2. split; [exact Hk2|eapply cpres_trans; eauto].
Qed.

(* [envstep] consumes one segment *)
Lemma envstep_c c s E k sa E1 :
  Inv s -> env_ok c E -> getc s c = Some k -> envstep s E = (sa, E1) ->
  env_ok c E1 /\ Inv sa /\ lext s sa /\ base s <= base sa /\ exists k', getc sa c = Some k' /\ cpres k k'.
Proof.
  intros HI HE Hk Hs. destruct E as [|seg E']; cbn [envstep] in Hs; inversion Hs; subst.
  - split; [constructor|]. split; [exact HI|]. split; [apply lext_refl|]. split; [lia|].
    exists k. split; [exact Hk|apply cpres_refl].
  - apply Forall_inv_cons in HE. destruct HE as [Hseg HE']. split; [exact HE'|].
    apply env_seg_c; auto.
Qed.

(* ---------------------------------------------------------------------------------------------------------- *)
(* open environments: a live consumer of an open buffer is left exactly as it is                                *)
(* ---------------------------------------------------------------------------------------------------------- *)
Definition live (k : cons) : Prop := creg k = true /\ ccancel k = false /\ conce k = false.

Lemma settle_c_live k : live k -> settle_c k = k.
Proof. intros (H1 & H2 & H3). unfold settle_c. rewrite H2, H3. cbn [andb]. rewrite H3. reflexivity. Qed.

Lemma open_step_c c s o k :
  open_op c o = true -> getc s c = Some k -> bclosed s = false ->
  getc (fst (step s o)) c = Some k /\ bclosed (fst (step s o)) = false.
Proof.
  intros He Hk Hb.
  destruct o; cbn [open_op env_op] in He; try discriminate He; unfold step; cbn [fst]; try (split; [exact Hk|exact Hb]).
  - rewrite Hb. cbn [fst bclosed]. split; [exact Hk|reflexivity].
  - rewrite Hb. cbn [fst bclosed set_cs]. split; [|exact Hb].
    unfold getc in *; cbn [cs set_cs]. rewrite nth_error_app1; auto. apply nth_error_Some. rewrite Hk. discriminate.
  - apply negb_true_iff, Nat.eqb_neq in He.
    destruct (step s (OGet c0)) as [s' r] eqn:Hs. unfold step in Hs. rewrite Hs. cbn [fst].
    destruct r; try (destruct (step_get_fail _ _ _ _ Hs) as [-> _]; [intros v0 E; discriminate E|split; [exact Hk|exact Hb]]).
    destruct (step_get_val _ _ _ _ Hs) as (k0 & Hk0 & _ & _ & _ & _ & _ & ->).
    split; [rewrite getc_upd_other; auto|exact Hb].
  - apply negb_true_iff, Nat.eqb_neq in He.
    destruct (getc s c0) as [k0|] eqn:Hk0; cbn [fst]; [|split; [exact Hk|exact Hb]].
    destruct (cdelta k0 =? 0); cbn [fst]; [split; [exact Hk|exact Hb]|].
    destruct (negb (creg k0)); cbn [fst]; [split; [exact Hk|exact Hb]|].
    split; [rewrite getc_upd_other; auto|exact Hb].
  - apply negb_true_iff, Nat.eqb_neq in He.
    destruct (getc s c0) as [k0|] eqn:Hk0; cbn [fst]; [|split; [exact Hk|exact Hb]].
    destruct (cdelta k0 =? 0); cbn [fst]; [split; [exact Hk|exact Hb]|].
    split; [rewrite getc_upd_other; auto|exact Hb].
  - destruct (getc s c0) as [k0|]; [destruct (creg k0)|]; (split; [exact Hk|exact Hb]).
  - apply negb_true_iff, Nat.eqb_neq in He.
    destruct (getc s c0) as [k0|] eqn:Hk0; cbn [fst]; [|split; [exact Hk|exact Hb]].
    destruct (conce k0); cbn [fst]; [split; [exact Hk|exact Hb]|].
    destruct (cdelta k0 =? 0); cbn [fst]; (split; [rewrite getc_upd_other; auto|exact Hb]).
  - destruct (getc s c0); (split; [exact Hk|exact Hb]).
  - match goal with |- getc (fst (if ?b then _ else _)) _ = _ /\ _ => destruct b end; (split; [exact Hk|exact Hb]).
  - destruct (getc s c0); (split; [exact Hk|exact Hb]).
Qed.

Lemma open_estep_c c s e k :
  Inv s -> open_ev c e = true -> getc s c = Some k -> live k -> bclosed s = false ->
  getc (fst (estep s e)) c = Some k /\ bclosed (fst (estep s e)) = false.
Proof.
  intros HI He Hk Hl Hb. destruct e as [o| |]; cbn [estep open_ev] in *.
  - pose proof (open_step_c c s o k He Hk Hb) as H. destruct (step s o); exact H.
  - cbn [fst]. unfold clean. rewrite Hb.
    destruct HI as [H1 _]. destruct (clean_with_base (cleaner_of (cfg s)) s H1) as (_ & _ & Hc & Hbc & _).
    split; [unfold getc in *; rewrite Hc; exact Hk|congruence].
  - cbn [fst]. split; [|exact Hb].
    unfold getc in *; cbn [settle cs]. rewrite nth_error_map, Hk. cbn [option_map]. rewrite settle_c_live; auto.
Qed.

Lemma open_seg_c c seg : forall s k,
  Inv s -> seg_open c seg -> getc s c = Some k -> live k -> bclosed s = false ->
  getc (fst (erun s seg)) c = Some k /\ bclosed (fst (erun s seg)) = false.
Proof.
  induction seg as [|e rest IH]; intros s k HI Hseg Hk Hl Hb; [split; assumption|].
  apply Forall_inv_cons in Hseg. destruct Hseg as [He Hrest].
  destruct (open_estep_c c s e k HI He Hk Hl Hb) as [Hk1 Hb1].
  rewrite erun_cons. cbn [fst]. apply IH; auto. apply Inv_estep; auto.
Qed.

Lemma envstep_open c s E k sa E1 :
  Inv s -> env_open c E -> getc s c = Some k -> live k -> bclosed s = false -> envstep s E = (sa, E1) ->
  env_open c E1 /\ getc sa c = Some k /\ bclosed sa = false.
Proof.
  intros HI HE Hk Hl Hb Hs. destruct E as [|seg E']; cbn [envstep] in Hs; inversion Hs; subst.
  - split; [constructor|]. auto.
  - apply Forall_inv_cons in HE. destruct HE as [Hseg HE']. split; [exact HE'|]. apply open_seg_c; auto.
Qed.

(* ---------------------------------------------------------------------------------------------------------- *)
(* one unfolding of range_loop_env, per case                                                                    *)
(* ---------------------------------------------------------------------------------------------------------- *)
Lemma rle_get_fail f b s c script visited E sa E1 s1 r sb E2 s2 r2 :
  envstep s E = (sa, E1) -> step sa (OGet c) = (s1, r) -> (forall v, r <> RVal v) ->
  envstep s1 E1 = (sb, E2) -> step sb (ORollback c) = (s2, r2) ->
  range_loop_env (S f) b s c script visited E = (s2, visited, ReErr, (r, 0)).
Proof.
  intros H1 H2 Hnv H3 H4. cbn [range_loop_env]. rewrite H1, H2.
  destruct r; try (rewrite H3, H4; reflexivity). exfalso. eapply Hnv; reflexivity.
Qed.

Lemma rle_panic_eq f b s c script visited E sa E1 s1 v sb E2 s2 r2 :
  envstep s E = (sa, E1) -> step sa (OGet c) = (s1, RVal v) -> envstep s1 E1 = (sb, E2) ->
  cb_panics (hd CbFalse script) = true -> step sb (ORollback c) = (s2, r2) ->
  range_loop_env (S f) b s c script visited E = (s2, visited ++ [v], RePanic, (RVal v, 0)).
Proof. intros H1 H2 H3 H4 H5. cbn [range_loop_env]. rewrite H1, H2, H3, H4, H5. reflexivity. Qed.

Lemma rle_commit_eq f b s c script visited E sa E1 s1 v sb E2 sc E3 sd E4 s2 :
  envstep s E = (sa, E1) -> step sa (OGet c) = (s1, RVal v) -> envstep s1 E1 = (sb, E2) ->
  cb_panics (hd CbFalse script) = false ->
  envstep (cb_apply (hd CbFalse script) sb) E2 = (sc, E3) -> envstep sc E3 = (sd, E4) ->
  step sd (OCommit c) = (s2, ROk) ->
  range_loop_env (S f) b s c script visited E =
  if cb_cont (hd CbFalse script) && more_of b sc c
  then range_loop_env f b s2 c (tl script) (visited ++ [v]) E4
  else (s2, visited ++ [v], ReNil, (RVal v, length (log sc))).
Proof. intros H1 H2 H3 H4 H5 H6 H7. cbn [range_loop_env]. rewrite H1, H2, H3, H4, H5, H6, H7. reflexivity. Qed.

(* ---------------------------------------------------------------------------------------------------------- *)
(* the chain of states of one iteration                                                                         *)
(* ---------------------------------------------------------------------------------------------------------- *)
Lemma cb_apply_c c x s k :
  Inv s -> getc s c = Some k ->
  Inv (cb_apply x s) /\ lext s (cb_apply x s) /\ base (cb_apply x s) = base s /\ getc (cb_apply x s) c = Some k /\
  bclosed (cb_apply x s) = bclosed s /\ cfg (cb_apply x s) = cfg s.
Proof.
  intros HI Hk. unfold cb_apply. destruct (cb_put x) as [|a l] eqn:Hp.
  - split; [exact HI|]. split; [apply lext_refl|]. auto.
  - split; [apply Inv_step; auto|]. split; [eexists; apply step_log|].
    unfold step. destruct (bclosed s) eqn:Hb; cbn [fst base getc cs bclosed cfg]; auto.
Qed.

(* the final Rollback of a failing / panicking run *)
Lemma rollback_end c s k s2 r :
  Inv s -> getc s c = Some k -> step s (ORollback c) = (s2, r) ->
  Inv s2 /\ log s2 = log s /\ base s2 = base s /\ bclosed s2 = bclosed s /\ cfg s2 = cfg s /\
  exists k2, getc s2 c = Some k2 /\ cdelta k2 = 0 /\ ccommit k2 = ccommit k /\
             creg k2 = creg k /\ ccancel k2 = ccancel k /\ conce k2 = conce k.
Proof.
  intros HI Hk Hs. pose proof (Inv_step_eq _ _ _ _ HI Hs) as HI2. split; [exact HI2|].
  unfold step in Hs. rewrite Hk in Hs. destruct (cdelta k =? 0) eqn:Ed; inversion Hs; subst.
  - repeat split; auto. exists k. apply Nat.eqb_eq in Ed. repeat split; auto.
  - cbn [set_cs log base bclosed cfg]. repeat split; auto. exists (c_rollback k).
    split; [eapply getc_upd; eauto|]. cbn. repeat split; auto.
Qed.

(* segment; Get that returns a value; segment *)
Lemma iter_get c s E k sa E1 s1 v sb E2 :
  Inv s -> env_ok c E -> getc s c = Some k ->
  envstep s E = (sa, E1) -> step sa (OGet c) = (s1, RVal v) -> envstep s1 E1 = (sb, E2) ->
  env_ok c E2 /\ Inv sb /\ lext s sb /\ base s <= base sb /\
  nth_error (log sb) (ccommit k + cdelta k) = Some v /\ creg k = true /\ ccancel k = false /\
  exists kb, getc sb c = Some kb /\ ccommit kb = ccommit k /\ cdelta kb = S (cdelta k) /\ creg kb = true.
Proof.
  intros HI HE Hk HA Hg HB.
  destruct (envstep_c c s E k sa E1 HI HE Hk HA) as (HE1 & HIa & HLa & HBa & ka & Hka & Pa1 & Pa2 & Pa3 & Pa4 & Pa5).
  destruct (get_ok_frame _ _ _ _ _ HIa Hka Hg) as ((F1 & F2 & F3 & F4) & HI1 & Hk1 & Hn & Hr & Hc & Hbc & Hb).
  destruct (envstep_c c s1 E1 _ sb E2 HI1 HE1 Hk1 HB) as (HE2 & HIb & HLb & HBb & kb & Hkb & Pb1 & Pb2 & Pb3 & Pb4 & Pb5).
  cbn [c_get ccommit cdelta creg ccancel] in *.
  assert (HL1 : lext sa s1) by (exists []; exact F1).
  split; [exact HE2|]. split; [exact HIb|]. split; [eapply lext_trans; [exact HLa|eapply lext_trans; eauto]|].
  split; [lia|]. split.
  { rewrite <- Pa1, <- Pa2. eapply lext_nth; [eapply lext_trans; eauto|exact Hn]. }
  split; [auto|]. split; [destruct (ccancel k); auto; specialize (Pa5 eq_refl); congruence|].
  exists kb. split; [exact Hkb|]. split; [congruence|]. split; [congruence|]. rewrite Pb4; auto.
Qed.

(* callback effect; segment; (Diff); segment; Commit -- from a state where c has pending reads and is registered *)
Lemma iter_commit c sb kb x E2 sc E3 sd E4 :
  Inv sb -> env_ok c E2 -> getc sb c = Some kb -> cdelta kb <> 0 -> creg kb = true ->
  envstep (cb_apply x sb) E2 = (sc, E3) -> envstep sc E3 = (sd, E4) ->
  env_ok c E4 /\ Inv sc /\ lext sb sc /\
  (exists kc, getc sc c = Some kc /\ ccommit kc = ccommit kb /\ cdelta kc = cdelta kb /\ creg kc = true) /\
  exists s2 k2, step sd (OCommit c) = (s2, ROk) /\ Inv s2 /\ lext sc s2 /\ base sb <= base s2 /\
    getc s2 c = Some k2 /\ ccommit k2 = ccommit kb + cdelta kb /\ cdelta k2 = 0 /\ creg k2 = true /\
    (ccancel kb = true -> ccancel k2 = true).
Proof.
  intros HIb HE2 Hkb Hd Hr HC HD.
  destruct (cb_apply_c c x sb kb HIb Hkb) as (HIp & HLp & HBp & Hkp & _).
  destruct (envstep_c c _ E2 kb sc E3 HIp HE2 Hkp HC) as (HE3 & HIc & HLc & HBc & kc & Hkc & Pc1 & Pc2 & Pc3 & Pc4 & Pc5).
  destruct (envstep_c c sc E3 kc sd E4 HIc HE3 Hkc HD) as (HE4 & HId & HLd & HBd & kd & Hkd & Pd1 & Pd2 & Pd3 & Pd4 & Pd5).
  assert (Hrc : creg kc = true) by (rewrite Pc4; auto).
  assert (Hrd : creg kd = true) by (rewrite Pd4; auto; congruence).
  destruct (commit_ok_frame sd c kd HId Hkd) as (s2 & Hs2 & (F1 & F2 & F3 & F4) & HI2 & Hk2); [congruence|exact Hrd|].
  split; [exact HE4|]. split; [exact HIc|]. split; [eapply lext_trans; eauto|].
  split; [exists kc; auto|].
  exists s2, (c_commit kd). split; [exact Hs2|]. split; [exact HI2|].
  split; [eapply lext_trans; [exact HLd|exists []; exact F1]|]. split; [lia|].
  split; [exact Hk2|]. cbn [c_commit ccommit cdelta creg ccancel]. split; [congruence|]. split; [reflexivity|].
  split; [exact Hrd|]. auto.
Qed.

(* ---------------------------------------------------------------------------------------------------------- *)
(* A + B.  the main specification of range_loop_env, for ANY number of pending reads at entry                   *)
(* ---------------------------------------------------------------------------------------------------------- *)
Definition renv_post (b : bool) (c : nat) (s : st) (k : cons) (script : list cb) (visited0 : list Z)
           (s' : st) (visited : list Z) (e : range_end) (g : out) (lend : nat) : Prop :=
  exists k' vs,
    getc s' c = Some k' /\
    (e <> ReFuel -> cdelta k' = 0) /\ (cdelta k = 0 -> cdelta k' = 0) /\
    visited = visited0 ++ vs /\
    (forall i, i < length vs -> nth_error vs i = nth_error (log s') (ccommit k + cdelta k + i)) /\
    ccommit k' = (if committed_of e (length vs) =? 0 then ccommit k
                  else ccommit k + cdelta k + committed_of e (length vs)) /\
    (e = RePanic -> 1 <= length vs) /\
    (e = ReNil -> 1 <= length vs) /\
    base s <= base s' /\ lext s s' /\ Inv s' /\
    (creg k' = true -> creg k = true) /\ (ccancel k = true -> ccancel k' = true) /\
    (e = ReErr -> g = REmpty \/ g = RErr) /\
    (e = ReNil -> b = true -> cb_cont (nth (length vs - 1) script CbFalse) = true ->
       ccommit k' = lend /\ lend <= length (log s')).

Lemma nth0_hd {A} (l : list A) d : nth 0 l d = hd d l.
Proof. destruct l; reflexivity. Qed.

(* no value visited *)
Lemma epost_nil b c s k script visited0 s' k' e g lend :
  getc s' c = Some k' -> (e <> ReFuel -> cdelta k' = 0) -> (cdelta k = 0 -> cdelta k' = 0) ->
  ccommit k' = ccommit k -> e <> RePanic -> e <> ReNil ->
  base s <= base s' -> lext s s' -> Inv s' -> (creg k' = true -> creg k = true) ->
  (ccancel k = true -> ccancel k' = true) -> (e = ReErr -> g = REmpty \/ g = RErr) ->
  renv_post b c s k script visited0 s' visited0 e g lend.
Proof.
  intros H1 H2 H3 H4 H5 H6 H7 H8 H9 H10 H11 H12. exists k', []. cbn [length].
  split; [exact H1|]. split; [exact H2|]. split; [exact H3|]. split; [rewrite app_nil_r; reflexivity|].
  split; [intros i Hi; lia|].
  split; [replace (committed_of e 0) with 0 by (destruct e; cbn [committed_of]; lia); exact H4|].
  split; [intros E; congruence|]. split; [intros E; congruence|].
  split; [exact H7|]. split; [exact H8|]. split; [exact H9|]. split; [exact H10|]. split; [exact H11|].
  split; [exact H12|]. intros E; congruence.
Qed.

(* the run ends in the iteration that visits v *)
Lemma epost_one b c s k script visited0 s' k' v e g lend :
  getc s' c = Some k' -> cdelta k' = 0 ->
  nth_error (log s') (ccommit k + cdelta k) = Some v ->
  ccommit k' = (if committed_of e 1 =? 0 then ccommit k else ccommit k + cdelta k + committed_of e 1) ->
  base s <= base s' -> lext s s' -> Inv s' -> (creg k' = true -> creg k = true) ->
  (ccancel k = true -> ccancel k' = true) -> (e = ReErr -> g = REmpty \/ g = RErr) ->
  (e = ReNil -> b = true -> cb_cont (hd CbFalse script) = true -> ccommit k' = lend /\ lend <= length (log s')) ->
  renv_post b c s k script visited0 s' (visited0 ++ [v]) e g lend.
Proof.
  intros H1 H2 H3 H4 H5 H6 H7 H8 H9 H10 H11. exists k', [v]. cbn [length].
  split; [exact H1|]. split; [auto|]. split; [auto|]. split; [reflexivity|]. split.
  { intros i Hi. assert (i = 0) by lia. subst i. rewrite Nat.add_0_r, H3. reflexivity. }
  split; [exact H4|]. split; [intros _; lia|]. split; [intros _; lia|].
  split; [exact H5|]. split; [exact H6|]. split; [exact H7|]. split; [exact H8|]. split; [exact H9|].
  split; [exact H10|]. replace (1 - 1) with 0 by lia. rewrite nth0_hd. exact H11.
Qed.

(* the iteration that visits v commits it and the run continues from s2 *)
Lemma epost_cons b c s k script visited0 s2 k2 v s' visited e g lend :
  cb_cont (hd CbFalse script) = true ->
  getc s2 c = Some k2 -> cdelta k2 = 0 -> ccommit k2 = ccommit k + cdelta k + 1 ->
  nth_error (log s2) (ccommit k + cdelta k) = Some v ->
  base s <= base s2 -> lext s s2 -> (creg k2 = true -> creg k = true) -> (ccancel k = true -> ccancel k2 = true) ->
  renv_post b c s2 k2 (tl script) (visited0 ++ [v]) s' visited e g lend ->
  renv_post b c s k script visited0 s' visited e g lend.
Proof.
  intros Hx Hk2 Hd2 Hc2 Hn Hb HL Hr Hcc
         (k' & vs & P1 & P2 & P3 & P4 & P5 & P6 & P7 & P8 & P9 & P10 & P11 & P12 & P13 & P14 & P15).
  exists k', (v :: vs). cbn [length].
  split; [exact P1|]. split; [exact P2|]. split; [auto|]. split; [rewrite P4, <- app_assoc; reflexivity|]. split.
  { intros [|j] Hi.
    - rewrite Nat.add_0_r. cbn [nth_error]. symmetry. eapply lext_nth; [exact P10|exact Hn].
    - cbn [nth_error]. rewrite P5 by lia. f_equal. lia. }
  split.
  { rewrite P6. assert (Hm : committed_of e (S (length vs)) = S (committed_of e (length vs))).
    { destruct e; cbn [committed_of]; try lia. specialize (P7 eq_refl). lia. }
    rewrite Hm. replace (S (committed_of e (length vs)) =? 0) with false by (symmetry; apply Nat.eqb_neq; lia).
    destruct (Nat.eqb_spec (committed_of e (length vs)) 0); lia. }
  split; [intros _; lia|]. split; [intros _; lia|].
  split; [lia|]. split; [eapply lext_trans; eauto|]. split; [exact P11|]. split; [auto|]. split; [auto|].
  split; [exact P14|].
  intros E Hbb Hcont. specialize (P8 E). apply P15; auto.
  destruct script as [|x script']; [cbn in Hx; discriminate|]. cbn [tl].
  replace (S (length vs) - 1) with (S (length vs - 1)) in Hcont by lia. exact Hcont.
Qed.

Lemma range_loop_env_post : forall fuel b c script s k visited0 E s' visited e g lend,
  Inv s -> env_ok c E -> getc s c = Some k ->
  range_loop_env fuel b s c script visited0 E = (s', visited, e, (g, lend)) ->
  renv_post b c s k script visited0 s' visited e g lend.
Proof.
  induction fuel as [|f IH]; intros b c script s k visited0 E s' visited e g lend HI HE Hk Hrun.
  - cbn [range_loop_env] in Hrun. inversion Hrun; subst.
    eapply epost_nil; eauto; try discriminate; try apply lext_refl. intros Hne; congruence.
  - destruct (envstep s E) as [sa E1] eqn:HA. destruct (step sa (OGet c)) as [s1 r] eqn:Hg.
    destruct (envstep s1 E1) as [sb E2] eqn:HB.
    assert (Hcase : (exists v, r = RVal v) \/ (forall v, r <> RVal v))
      by (destruct r; eauto; right; intros v0 E0; discriminate E0).
    destruct Hcase as [[v ->]|Hnv].
    2:{ destruct (step sb (ORollback c)) as [s2 r2] eqn:HR.
        rewrite (rle_get_fail f b s c script visited0 E sa E1 s1 r sb E2 s2 r2 HA Hg Hnv HB HR) in Hrun.
        inversion Hrun; subst.
        destruct (step_get_fail _ _ _ _ Hg Hnv) as [-> Hgr].
        destruct (envstep_c c s E k sa E1 HI HE Hk HA) as (HE1 & HIa & HLa & HBa & ka & Hka & Pa1 & Pa2 & Pa3 & Pa4 & Pa5).
        destruct (envstep_c c sa E1 ka sb E2 HIa HE1 Hka HB) as (HE2 & HIb & HLb & HBb & kb & Hkb & Pb1 & Pb2 & Pb3 & Pb4 & Pb5).
        destruct (rollback_end c sb kb s' r2 HIb Hkb HR) as (HI2 & L2 & B2 & _ & _ & k2 & Hk2 & Q1 & Q2 & Q3 & Q4 & _).
        assert (HLs : lext s s').
        { eapply lext_trans; [exact HLa|]. eapply lext_trans; [exact HLb|]. exists []. rewrite app_nil_r. exact L2. }
        eapply epost_nil; eauto; try discriminate; try congruence; try lia. }
    destruct (iter_get c s E k sa E1 s1 v sb E2 HI HE Hk HA Hg HB)
      as (HE2 & HIb & HLb & HBb & Hn & Hrk & Hck & kb & Hkb & Cb & Db & Rb).
    destruct (cb_panics (hd CbFalse script)) eqn:Hpan.
    + destruct (step sb (ORollback c)) as [s2 r2] eqn:HR.
      rewrite (rle_panic_eq f b s c script visited0 E sa E1 s1 v sb E2 s2 r2 HA Hg HB Hpan HR) in Hrun.
      inversion Hrun; subst.
      destruct (rollback_end c sb kb s' r2 HIb Hkb HR) as (HI2 & L2 & B2 & _ & _ & k2 & Hk2 & Q1 & Q2 & Q3 & Q4 & _).
      eapply epost_one; eauto; try discriminate; try congruence; try lia.
      * cbn [committed_of]. replace (1 - 1 =? 0) with true by (symmetry; apply Nat.eqb_eq; lia). congruence.
      * eapply lext_trans; [exact HLb|]. exists []. rewrite app_nil_r. exact L2.
    + destruct (envstep (cb_apply (hd CbFalse script) sb) E2) as [sc E3] eqn:HC.
      destruct (envstep sc E3) as [sd E4] eqn:HD.
      destruct (iter_commit c sb kb (hd CbFalse script) E2 sc E3 sd E4 HIb HE2 Hkb ltac:(lia) Rb HC HD)
        as (HE4 & HIc & HLc & (kc & Hkc & Cc & Dc & Rc) & s2 & k2 & Hs2 & HI2 & HL2 & HB2 & Hk2 & C2 & D2 & R2 & CC2).
      rewrite (rle_commit_eq f b s c script visited0 E sa E1 s1 v sb E2 sc E3 sd E4 s2 HA Hg HB Hpan HC HD Hs2) in Hrun.
      assert (HLs2 : lext s s2) by (eapply lext_trans; [exact HLb|eapply lext_trans; eauto]).
      assert (Hn2 : nth_error (log s2) (ccommit k + cdelta k) = Some v).
      { eapply lext_nth; [|exact Hn]. eapply lext_trans; eauto. }
      destruct (cb_cont (hd CbFalse script) && more_of b sc c) eqn:Hmore.
      * apply andb_true_iff in Hmore. destruct Hmore as [Hx _].
        eapply epost_cons with (s2 := s2) (k2 := k2); eauto; try lia.
        -- intros Hc. congruence.
      * inversion Hrun; subst.
        eapply epost_one; eauto; try discriminate; try lia.
        -- cbn [committed_of]. replace (1 =? 0) with false by (symmetry; apply Nat.eqb_neq; lia). lia.
        -- intros Hc. congruence.
        -- intros _ -> Hx. rewrite Hx in Hmore. cbn [andb] in Hmore.
           rewrite (more_of_bounded sc c kc Hkc Rc) in Hmore. apply Nat.ltb_ge in Hmore.
           destruct HIc as [_ HF]. pose proof (Forall_nth_error _ _ _ _ HF Hkc) as (_ & A1 & A2 & _).
           split; [lia|]. apply lext_len; auto.
Qed.

(* The specification, spelled out.  d = cdelta k reads may be pending at entry (Range does not check).  Whatever the
   environment does between the sub-steps and however the run ends:
   - the n values visited are the consecutive entries of the FINAL log starting at the entry cursor ccommit k + d
     (so Range continues AFTER the pending reads; it never re-visits them);
   - with m = the number of visited values that are committed (all of them, except the in-flight one of a panicking
     callback): if m > 0 the committed offset is ccommit k + d + m -- the first Commit committed the d pending reads too;
     if m = 0 (the first Get failed, or the first callback panicked) the committed offset is unchanged and the deferred
     Rollback rolled back the d pending reads together with the in-flight value;
   - nothing is left uncommitted at return;
   - an error return is always caused by a Get that did not return a value: a Commit that follows a successful Get never
     fails, even if the environment closes the consumer or the buffer in between;
   - base and log only grow; consumer c cannot have been (re-)registered or un-cancelled.
   What is NOT preserved under interleaving (and is under [range_loop]): the base, the other consumers, c's own
   cancellation/registration flags, and the log may contain values other than the callbacks' Puts. *)
Theorem range_loop_env_spec : forall fuel bounded s c k script visited0 E s' visited e g lend,
  Inv s -> env_ok c E -> getc s c = Some k ->
  range_loop_env fuel bounded s c script visited0 E = (s', visited, e, (g, lend)) ->
  exists k' n vs,
    getc s' c = Some k' /\ (e <> ReFuel -> cdelta k' = 0) /\
    visited = visited0 ++ vs /\ length vs = n /\
    (forall i, i < n -> nth_error vs i = nth_error (log s') (ccommit k + cdelta k + i)) /\
    (let m := match e with RePanic => n - 1 | _ => n end in
     ccommit k' = if m =? 0 then ccommit k else ccommit k + cdelta k + m) /\
    (e = RePanic -> 1 <= n) /\ (e = ReNil -> 1 <= n) /\
    (e = ReErr -> g = REmpty \/ g = RErr) /\
    base s <= base s' /\ (exists sfx, log s' = log s ++ sfx) /\ Inv s' /\
    (creg k' = true -> creg k = true) /\ (ccancel k = true -> ccancel k' = true).
Proof.
  intros fuel bounded s c k script visited0 E s' visited e g lend HI HE Hk Hrun.
  destruct (range_loop_env_post _ _ _ _ _ _ _ _ _ _ _ _ _ HI HE Hk Hrun)
    as (k' & vs & P1 & P2 & P3 & P4 & P5 & P6 & P7 & P8 & P9 & P10 & P11 & P12 & P13 & P14 & P15).
  exists k', (length vs), vs. cbv zeta. unfold committed_of in P6.
  repeat (split; [assumption || reflexivity|]). exact P13.
Qed.

(* with no environment, range_loop_env IS range_loop *)
Theorem range_loop_env_nil : forall fuel b s c script visited,
  fst (range_loop_env fuel b s c script visited []) = range_loop fuel b s c script visited.
Proof.
  induction fuel as [|f IH]; intros b s c script visited; [reflexivity|].
  cbn [range_loop_env range_loop envstep].
  destruct (step s (OGet c)) as [s1 r].
  destruct r; try (destruct (step s1 (ORollback c)); reflexivity).
  destruct script as [|[| | |pv] script']; cbn [hd tl cb_panics cb_cont cb_apply cb_put andb envstep].
  - destruct (step s1 (OCommit c)) as [s2 r2]. destruct r2; try (destruct (step s2 (ORollback c)); reflexivity).
  - destruct (step s1 (OCommit c)) as [s2 r2]. destruct r2; try (destruct (step s2 (ORollback c)); reflexivity).
    fold (more_of b s1 c). destruct (more_of b s1 c); [apply IH|reflexivity].
  - destruct (step s1 (OCommit c)) as [s2 r2]. destruct r2; try (destruct (step s2 (ORollback c)); reflexivity).
  - destruct (step s1 (ORollback c)); reflexivity.
  - destruct (step (fst (step s1 (OPut [pv]))) (OCommit c)) as [s2 r2].
    destruct r2; try (destruct (step s2 (ORollback c)); reflexivity).
    fold (more_of b (fst (step s1 (OPut [pv]))) c). destruct (more_of b (fst (step s1 (OPut [pv]))) c); [apply IH|reflexivity].
Qed.

(* fuel is never the reason a run ends *)
Lemma range_loop_env_fuel_enough : forall fuel b s c script visited0 E s' visited e o,
  length script < fuel -> range_loop_env fuel b s c script visited0 E = (s', visited, e, o) -> e <> ReFuel.
Proof.
  induction fuel as [|f IH]; intros b s c script visited0 E s' visited e o Hlen Hrun; [lia|].
  cbn [range_loop_env] in Hrun.
  destruct (envstep s E) as [sa E1]. destruct (step sa (OGet c)) as [s1 r].
  destruct (envstep s1 E1) as [sb E2].
  destruct r; try (destruct (step sb (ORollback c)); inversion Hrun; subst; discriminate).
  destruct (cb_panics (hd CbFalse script)); [destruct (step sb (ORollback c)); inversion Hrun; subst; discriminate|].
  destruct (envstep (cb_apply (hd CbFalse script) sb) E2) as [sc E3]. destruct (envstep sc E3) as [sd E4].
  destruct (step sd (OCommit c)) as [s2 r2].
  destruct r2; try (destruct (envstep s2 E4) as [se E5]; destruct (step se (ORollback c)); inversion Hrun; subst; discriminate).
  destruct (cb_cont (hd CbFalse script)) eqn:Hx; cbn [andb] in Hrun; [|inversion Hrun; subst; discriminate].
  destruct (more_of b sc c); [|inversion Hrun; subst; discriminate].
  eapply IH; [|exact Hrun]. destruct script as [|x script']; [cbn in Hx; discriminate|]. cbn [tl length] in *. lia.
Qed.

(* ---------------------------------------------------------------------------------------------------------- *)
(* open environments: the consumer stays live; never parks (Buffer.Range); never evicted (default cleaner)      *)
(* ---------------------------------------------------------------------------------------------------------- *)
Definition DD (s : st) : Prop := cfg s = CDefault /\ DInv s.
Definition okc (c : nat) (s : st) (k : cons) : Prop := Inv s /\ getc s c = Some k /\ live k /\ bclosed s = false.

Lemma cfg_erun evs : forall s, cfg (fst (erun s evs)) = cfg s.
Proof.
  induction evs as [|e rest IH]; intros s; [reflexivity|]. rewrite erun_cons. cbn [fst]. rewrite IH. apply cfg_estep.
Qed.

Lemma DD_erun evs s : Inv s -> DD s -> DD (fst (erun s evs)).
Proof. intros HI [Hc HD]. split; [rewrite cfg_erun; auto|apply default_never_evicts_unread; auto]. Qed.

Lemma DD_step s o : Inv s -> DD s -> DD (fst (step s o)).
Proof.
  intros HI [Hc HD]. split; [|apply DInv_step; auto].
  pose proof (cfg_estep s (EOp o)) as H. cbn [estep] in H. destruct (step s o). cbn [fst] in *. congruence.
Qed.

Lemma envstep_okc c s E k sa E1 :
  okc c s k -> env_open c E -> envstep s E = (sa, E1) ->
  env_open c E1 /\ okc c sa k /\ lext s sa /\ (DD s -> DD sa).
Proof.
  intros (HI & Hk & Hl & Hb) HE Hs.
  destruct (envstep_open c s E k sa E1 HI HE Hk Hl Hb Hs) as (HE1 & Hka & Hba).
  destruct E as [|seg E']; cbn [envstep] in Hs; inversion Hs; subst.
  - split; [exact HE1|]. split; [split; auto|]. split; [apply lext_refl|auto].
  - split; [exact HE1|]. split; [split; [apply Inv_erun; auto|auto]|]. split; [apply lext_erun; auto|].
    intros HD. apply DD_erun; auto.
Qed.

Lemma live_flags k k' : creg k' = creg k -> ccancel k' = ccancel k -> conce k' = conce k -> live k -> live k'.
Proof. unfold live. intros -> -> ->. auto. Qed.

(* consumer c's own Get in such a state *)
Lemma get_okc c s k s1 r :
  okc c s k -> step s (OGet c) = (s1, r) ->
  (r = REmpty \/ r = RErr \/ exists v, r = RVal v) /\
  (DD s -> r <> RErr) /\ (ccommit k + cdelta k < length (log s) -> r <> REmpty) /\
  (forall v, r = RVal v -> okc c s1 (c_get k (ccommit k + cdelta k)) /\ log s1 = log s /\ (DD s -> DD s1)) /\
  ((forall v, r <> RVal v) -> s1 = s).
Proof.
  intros (HI & Hk & (L1 & L2 & L3) & Hb) Hs.
  assert (Hcase : (exists v, r = RVal v) \/ (forall v, r <> RVal v))
    by (destruct r; eauto; right; intros v0 E0; discriminate E0).
  destruct Hcase as [[v ->]|Hnv].
  - destruct (get_ok_frame _ _ _ _ _ HI Hk Hs) as ((F1 & F2 & F3 & F4) & HI1 & Hk1 & _).
    split; [eauto|]. split; [intros _; discriminate|]. split; [intros _; discriminate|]. split; [|intros H; exfalso; eapply H; eauto].
    intros v0 _. rewrite app_nil_r in F1. split; [|split; [exact F1|]].
    + split; [exact HI1|]. split; [exact Hk1|]. split; [apply (live_flags k); auto; split; auto|congruence].
    + intros HD. pose proof (DD_step s (OGet c) HI HD) as H. rewrite Hs in H. exact H.
  - destruct (step_get_fail _ _ _ _ Hs Hnv) as [-> Hr].
    split; [tauto|]. split; [|split; [|split; [intros v E; exfalso; eapply Hnv; eauto|auto]]].
    + intros [_ HD] ->. pose proof (Forall_nth_error _ _ _ _ HD Hk L1) as Hle.
      unfold step, get_attempt in Hs. rewrite Hk, L2, Hb, L1 in Hs. cbn [negb] in Hs.
      replace (ccommit k + cdelta k <? base s) with false in Hs by (symmetry; apply Nat.ltb_ge; lia).
      destruct (nth_error (log s) (ccommit k + cdelta k)); inversion Hs.
    + intros Hlt ->.
      unfold step, get_attempt in Hs. rewrite Hk, L2, Hb, L1 in Hs. cbn [negb] in Hs.
      destruct (ccommit k + cdelta k <? base s); [inversion Hs|].
      destruct (nth_error (log s) (ccommit k + cdelta k)) eqn:Hn; [inversion Hs|].
      apply nth_error_None in Hn. lia.
Qed.

Lemma cb_apply_okc c x s k :
  okc c s k -> okc c (cb_apply x s) k /\ lext s (cb_apply x s) /\ (DD s -> DD (cb_apply x s)).
Proof.
  intros (HI & Hk & Hl & Hb). destruct (cb_apply_c c x s k HI Hk) as (HIp & HLp & HBp & Hkp & Hbp & Hcp).
  split; [split; [exact HIp|]; split; [exact Hkp|]; split; [exact Hl|congruence]|]. split; [exact HLp|].
  intros HD. unfold cb_apply. destruct (cb_put x); [exact HD|apply DD_step; auto].
Qed.

Lemma rollback_okc c s k s2 r :
  okc c s k -> step s (ORollback c) = (s2, r) ->
  exists k2, okc c s2 k2 /\ log s2 = log s /\ (DD s -> DD s2).
Proof.
  intros (HI & Hk & (L1 & L2 & L3) & Hb) Hs.
  destruct (rollback_end c s k s2 r HI Hk Hs) as (HI2 & Q1 & Q2 & Q3 & Q4 & k2 & Hk2 & _ & _ & R1 & R2 & R3).
  exists k2. split; [split; [exact HI2|]; split; [exact Hk2|]; split; [unfold live; repeat split; congruence|congruence]|].
  split; [exact Q1|]. intros HD. pose proof (DD_step s (ORollback c) HI HD) as H. rewrite Hs in H. exact H.
Qed.

Definition ropen_post (b : bool) (c : nat) (s : st) (k : cons) (s' : st) (e : range_end) (g : out) : Prop :=
  exists k', getc s' c = Some k' /\ live k' /\ bclosed s' = false /\
    (DD s -> DD s' /\ g <> RErr) /\
    (b = true -> ccommit k + cdelta k < length (log s) -> g <> REmpty).

Lemma range_loop_env_open : forall fuel b c script s k visited0 E s' visited e g lend,
  okc c s k -> env_open c E ->
  range_loop_env fuel b s c script visited0 E = (s', visited, e, (g, lend)) ->
  ropen_post b c s k s' e g.
Proof.
  induction fuel as [|f IH]; intros b c script s k visited0 E s' visited e g lend Hok HE Hrun.
  - cbn [range_loop_env] in Hrun. inversion Hrun; subst. destruct Hok as (HI & Hk & Hl & Hb).
    exists k. split; [exact Hk|]. split; [exact Hl|]. split; [exact Hb|].
    split; [intros HD; split; [exact HD|discriminate]|intros _ _; discriminate].
  - destruct (envstep s E) as [sa E1] eqn:HA. destruct (step sa (OGet c)) as [s1 r] eqn:Hg.
    destruct (envstep s1 E1) as [sb E2] eqn:HB.
    destruct (envstep_okc c s E k sa E1 Hok HE HA) as (HE1 & Hoka & HLa & HDa).
    destruct (get_okc c sa k s1 r Hoka Hg) as (Hshape & HnoErr & HnoEmpty & Hval & Hfail).
    assert (Hcase : (exists v, r = RVal v) \/ (forall v, r <> RVal v))
      by (destruct r; eauto; right; intros v0 E0; discriminate E0).
    destruct Hcase as [[v ->]|Hnv].
    2:{ destruct (step sb (ORollback c)) as [s2 r2] eqn:HR.
        rewrite (rle_get_fail f b s c script visited0 E sa E1 s1 r sb E2 s2 r2 HA Hg Hnv HB HR) in Hrun.
        inversion Hrun; subst. rewrite (Hfail Hnv) in *.
        destruct (envstep_okc c sa E1 k sb E2 Hoka HE1 HB) as (HE2 & Hokb & HLb & HDb).
        destruct (rollback_okc c sb k s' r2 Hokb HR) as (k2 & (HI2 & Hk2 & Hl2 & Hb2) & _ & HD2).
        exists k2. split; [exact Hk2|]. split; [exact Hl2|]. split; [exact Hb2|]. split.
        - intros HD. split; auto.
        - intros _ Hlt. apply HnoEmpty. pose proof (lext_len _ _ HLa). lia. }
    destruct (Hval v eq_refl) as (Hok1 & HL1 & HD1).
    destruct (envstep_okc c s1 E1 _ sb E2 Hok1 HE1 HB) as (HE2 & Hokb & HLb & HDb).
    destruct (cb_panics (hd CbFalse script)) eqn:Hpan.
    + destruct (step sb (ORollback c)) as [s2 r2] eqn:HR.
      rewrite (rle_panic_eq f b s c script visited0 E sa E1 s1 v sb E2 s2 r2 HA Hg HB Hpan HR) in Hrun.
      inversion Hrun; subst.
      destruct (rollback_okc c sb _ s' r2 Hokb HR) as (k2 & (HI2 & Hk2 & Hl2 & Hb2) & _ & HD2).
      exists k2. split; [exact Hk2|]. split; [exact Hl2|]. split; [exact Hb2|]. split.
      * intros HD. split; [auto|discriminate].
      * intros _ _. discriminate.
    + destruct (envstep (cb_apply (hd CbFalse script) sb) E2) as [sc E3] eqn:HC.
      destruct (envstep sc E3) as [sd E4] eqn:HD.
      destruct (cb_apply_okc c (hd CbFalse script) sb _ Hokb) as (Hokp & HLp & HDp).
      destruct (envstep_okc c _ E2 _ sc E3 Hokp HE2 HC) as (HE3 & Hokc & HLc & HDc).
      destruct (envstep_okc c sc E3 _ sd E4 Hokc HE3 HD) as (HE4 & Hokd & HLd & HDd).
      pose proof Hokd as (HId & Hkd & (Ld1 & Ld2 & Ld3) & Hbd).
      destruct (commit_ok_frame sd c _ HId Hkd) as (s2 & Hs2 & (F1 & F2 & F3 & F4) & HI2 & Hk2);
        [cbn; lia|exact Ld1|].
      rewrite (rle_commit_eq f b s c script visited0 E sa E1 s1 v sb E2 sc E3 sd E4 s2 HA Hg HB Hpan HC HD Hs2) in Hrun.
      assert (Hok2 : okc c s2 (c_commit (c_get k (ccommit k + cdelta k)))).
      { split; [exact HI2|]. split; [exact Hk2|]. split; [|congruence]. unfold live; cbn. auto. }
      assert (HD2 : DD s -> DD s2).
      { intros H0. pose proof (DD_step sd (OCommit c) HId (HDd (HDc (HDp (HDb (HD1 (HDa H0))))))) as H.
        rewrite Hs2 in H. exact H. }
      destruct (cb_cont (hd CbFalse script) && more_of b sc c) eqn:Hmore.
      * destruct (IH b c (tl script) s2 _ (visited0 ++ [v]) E4 s' visited e g lend Hok2 HE4 Hrun)
          as (k' & Hk' & Hl' & Hb' & HDD' & Hne').
        exists k'. split; [exact Hk'|]. split; [exact Hl'|]. split; [exact Hb'|]. split; [auto|].
        intros -> _. apply Hne'; [reflexivity|].
        apply andb_true_iff in Hmore. destruct Hmore as [_ Hm].
        destruct Hokc as (HIc & Hkc & (Lc1 & _) & _).
        rewrite (more_of_bounded sc c _ Hkc Lc1) in Hm. apply Nat.ltb_lt in Hm.
        cbn [c_commit c_get ccommit cdelta] in *.
        assert (length (log sc) <= length (log s2)).
        { rewrite F1, app_nil_r. apply lext_len; auto. }
        lia.
      * inversion Hrun; subst. exists (c_commit (c_get k (ccommit k + cdelta k))).
        destruct Hok2 as (_ & _ & Hl2 & Hb2).
        split; [exact Hk2|]. split; [exact Hl2|]. split; [exact Hb2|]. split.
        -- intros H0. split; [auto|discriminate].
        -- intros _ _. discriminate.
Qed.

(* ---------------------------------------------------------------------------------------------------------- *)
(* C.  Rollback replays: n successive Gets, with the environment in between                                     *)
(* ---------------------------------------------------------------------------------------------------------- *)
Lemma gets_env_nil : forall n s c, gets_env s c n [] = gets s c n.
Proof.
  induction n as [|n IH]; intros s c; [reflexivity|]. cbn [gets_env gets envstep].
  destruct (step s (OGet c)) as [s1 r]. rewrite IH. reflexivity.
Qed.

Lemma firstn_skipn_cons {A} (l : list A) p v n :
  nth_error l p = Some v -> firstn (S n) (skipn p l) = v :: firstn n (skipn (S p) l).
Proof. intros H. rewrite (skipn_nth_cons _ _ _ H). reflexivity. Qed.

Lemma firstn_skipn_ext {A} (l x : list A) p n :
  p + n <= length l -> firstn n (skipn p (l ++ x)) = firstn n (skipn p l).
Proof.
  intros H. rewrite skipn_app, firstn_app, skipn_length.
  replace (n - (length l - p)) with 0 by lia. cbn [firstn]. rewrite app_nil_r. reflexivity.
Qed.

(* The environment must not close c or the buffer ([env_open]); the base must stay at or below c's committed offset:
   guaranteed by the default cleaner (DD), or trivially when there is no environment at all. *)
Lemma gets_env_spec : forall n s c k E s2 rs,
  okc c s k -> base s <= ccommit k -> (DD s \/ E = []) -> env_open c E ->
  ccommit k + cdelta k + n <= length (log s) ->
  gets_env s c n E = (s2, rs) ->
  rs = map RVal (firstn n (skipn (ccommit k + cdelta k) (log s))) /\
  lext s s2 /\ (DD s -> DD s2) /\
  exists k2, okc c s2 k2 /\ ccommit k2 = ccommit k /\ cdelta k2 = cdelta k + n.
Proof.
  induction n as [|n IH]; intros s c k E s2 rs Hok Hbase HDE HE Hlen Hrun.
  - cbn [gets_env] in Hrun. inversion Hrun; subst. split; [reflexivity|]. split; [apply lext_refl|]. split; [auto|].
    exists k. split; [exact Hok|]. lia.
  - cbn [gets_env] in Hrun. destruct (envstep s E) as [sa E1] eqn:HA.
    destruct (envstep_okc c s E k sa E1 Hok HE HA) as (HE1 & Hoka & HLa & HDa).
    pose proof Hoka as (HIa & Hka & (La1 & La2 & La3) & Hba).
    assert (Hbasea : base sa <= ccommit k).
    { destruct HDE as [HD| ->].
      - destruct (HDa HD) as [_ HDI]. exact (Forall_nth_error _ _ _ _ HDI Hka La1).
      - cbn [envstep] in HA. inversion HA; subst. exact Hbase. }
    assert (HDE1 : DD sa \/ E1 = []).
    { destruct HDE as [HD| ->]; [left; auto|right]. cbn [envstep] in HA. inversion HA; reflexivity. }
    destruct (nth_error (log s) (ccommit k + cdelta k)) as [v|] eqn:Hn; [|apply nth_error_None in Hn; lia].
    pose proof (lext_nth _ _ _ _ HLa Hn) as Hna.
    pose proof (get_succeeds sa c k v Hka La2 Hba La1 ltac:(lia) Hna) as Hg.
    rewrite Hg in Hrun.
    match type of Hg with _ = (?x, _) => set (s1 := x) in * end.
    destruct (get_okc c sa k s1 (RVal v) Hoka Hg) as (_ & _ & _ & Hval & _).
    destruct (Hval v eq_refl) as (Hok1 & HL1 & HD1).
    destruct (gets_env s1 c n E1) as [s3 rs3] eqn:Hrec. inversion Hrun; subst s3 rs.
    assert (Hlen1 : length (log s) <= length (log s1)) by (rewrite HL1; apply lext_len; auto).
    destruct (IH s1 c _ E1 s2 rs3 Hok1) as (R1 & R2 & R3 & k2 & R4 & R5 & R6); auto.
    { destruct HDE1 as [HD|HE0]; [left; auto|right; auto]. }
    { cbn [c_get ccommit cdelta]. lia. }
    cbn [c_get ccommit cdelta] in *.
    split.
    { rewrite (firstn_skipn_cons _ _ _ n Hn). cbn [map]. f_equal. rewrite R1. f_equal.
      destruct HLa as [x Hx]. rewrite HL1, Hx.
      replace (ccommit k + S (cdelta k)) with (S (ccommit k + cdelta k)) by lia.
      apply firstn_skipn_ext. lia. }
    split; [eapply lext_trans; [exact HLa|]; eapply lext_trans; [exists []; rewrite app_nil_r; exact HL1|exact R2]|].
    split; [auto|]. exists k2. split; [exact R4|]. lia.
Qed.

Lemma map_nth_seq (l : list Z) : forall n a,
  a + n <= length l -> map (fun p => nth p l 0%Z) (seq a n) = firstn n (skipn a l).
Proof.
  induction n as [|n IH]; intros a Hle; [reflexivity|].
  destruct (nth_error l a) as [v|] eqn:Hn; [|apply nth_error_None in Hn; lia].
  rewrite (firstn_skipn_cons _ _ _ n Hn). cbn [seq map]. rewrite IH by lia. f_equal.
  apply nth_error_nth; auto.
Qed.

(* After a successful Rollback of the n = cdelta k pending reads, the next n Gets -- whatever the (open) environment does
   before each -- return exactly the n log entries from the committed offset, in order: the values read since the last
   successful Commit (the ghost history's newest n positions, oldest first), before any newer value; afterwards n reads are
   pending again and the committed offset has not moved. *)
Theorem rollback_replays_env : forall s c k E s1 r s2 rs,
  okc c s k -> cdelta k <> 0 -> base s <= ccommit k -> (DD s \/ E = []) -> env_open c E ->
  step s (ORollback c) = (s1, r) -> gets_env s1 c (cdelta k) E = (s2, rs) ->
  r = ROk /\
  rs = map RVal (firstn (cdelta k) (skipn (ccommit k) (log s))) /\ length rs = cdelta k /\
  rs = map (fun p => RVal (nth p (log s) 0%Z)) (rev (firstn (cdelta k) (chist k))) /\
  (exists sfx, log s2 = log s ++ sfx) /\
  exists k2, getc s2 c = Some k2 /\ ccommit k2 = ccommit k /\ cdelta k2 = cdelta k /\ live k2 /\ bclosed s2 = false.
Proof.
  intros s c k E s1 r s2 rs Hok Hd Hbase HDE HE Hrb Hrun.
  pose proof Hok as (HI & Hk & (L1 & L2 & L3) & Hb).
  destruct (rollback_ok_frame s c k HI Hk Hd) as (s1' & Hs1 & (F1 & F2 & F3 & F4) & HI1 & Hk1).
  rewrite Hs1 in Hrb. inversion Hrb; subst s1' r. rewrite app_nil_r in F1.
  assert (Hok1 : okc c s1 (c_rollback k)).
  { split; [exact HI1|]. split; [exact Hk1|]. split; [unfold live; cbn; auto|congruence]. }
  assert (Hwin : ccommit k + cdelta k <= length (log s)).
  { destruct HI as [_ HF]. pose proof (Forall_nth_error _ _ _ _ HF Hk) as (_ & A1 & A2 & _). lia. }
  assert (HDE1 : DD s1 \/ E = []).
  { destruct HDE as [HD|HE0]; [left|right; auto]. pose proof (DD_step s (ORollback c) HI HD) as H. rewrite Hs1 in H. exact H. }
  destruct (gets_env_spec (cdelta k) s1 c (c_rollback k) E s2 rs Hok1) as (R1 & R2 & R3 & k2 & R4 & R5 & R6); auto.
  { cbn [c_rollback ccommit]. lia. }
  { cbn [c_rollback ccommit cdelta]. rewrite F1. lia. }
  cbn [c_rollback ccommit cdelta] in *. rewrite Nat.add_0_r, F1 in R1.
  split; [reflexivity|]. split; [exact R1|].
  split; [rewrite R1, map_length, firstn_length, skipn_length; lia|].
  split.
  { destruct HI as [_ HF]. pose proof (Forall_nth_error _ _ _ _ HF Hk) as (_ & _ & _ & _ & A5 & _).
    rewrite A5, rev_involutive, R1, <- (map_nth_seq (log s)) by lia. rewrite map_map. reflexivity. }
  split; [destruct R2 as [x Hx]; exists x; rewrite Hx, F1; reflexivity|].
  destruct R4 as (_ & Hk2 & Hl2 & Hb2). exists k2. repeat split; auto; try lia; apply Hl2.
Qed.

(* the same without any environment, for [gets]: only the base condition is needed (no cleaner runs in between) *)
Corollary rollback_replays : forall s c k s1 r s2 rs,
  okc c s k -> cdelta k <> 0 -> base s <= ccommit k ->
  step s (ORollback c) = (s1, r) -> gets s1 c (cdelta k) = (s2, rs) ->
  r = ROk /\
  rs = map RVal (firstn (cdelta k) (skipn (ccommit k) (log s))) /\ length rs = cdelta k /\
  rs = map (fun p => RVal (nth p (log s) 0%Z)) (rev (firstn (cdelta k) (chist k))) /\
  log s2 = log s /\
  exists k2, getc s2 c = Some k2 /\ ccommit k2 = ccommit k /\ cdelta k2 = cdelta k /\ live k2 /\ bclosed s2 = false.
Proof.
  intros s c k s1 r s2 rs Hok Hd Hbase Hrb Hrun. rewrite <- gets_env_nil in Hrun.
  destruct (rollback_replays_env s c k [] s1 r s2 rs Hok Hd Hbase (or_intror eq_refl) (Forall_nil _) Hrb Hrun)
    as (R1 & R2 & R3 & R4 & _ & R6).
  repeat (split; [assumption|]). split; [|exact R6].
  (* no environment: the log is unchanged *)
  clear - Hrb Hrun. rewrite gets_env_nil in Hrun.
  assert (Hl1 : log s1 = log s).
  { pose proof (step_log s (ORollback c)) as H. rewrite Hrb in H. cbn [fst appended] in H. rewrite app_nil_r in H. exact H. }
  rewrite <- Hl1. clear Hrb Hl1. revert s1 s2 rs Hrun.
  induction (cdelta k) as [|n IH]; intros s1 s2 rs Hrun; cbn [gets] in Hrun.
  - inversion Hrun; reflexivity.
  - destruct (step s1 (OGet c)) as [sx rx] eqn:Hg. destruct (gets sx c n) as [sy ry] eqn:Hrec. inversion Hrun; subst.
    rewrite (IH _ _ _ Hrec). pose proof (step_log s1 (OGet c)) as H. rewrite Hg in H. cbn [fst appended] in H.
    rewrite app_nil_r in H. exact H.
Qed.

(* ---------------------------------------------------------------------------------------------------------- *)
(* the two entry points                                                                                         *)
(* ---------------------------------------------------------------------------------------------------------- *)
Theorem pkg_range_env_spec : forall s c k script E s' visited e g lend,
  Inv s -> env_ok c E -> getc s c = Some k ->
  pkg_range_env s c script E = (s', visited, e, (g, lend)) ->
  e <> ReFuel /\
  exists k' n,
    getc s' c = Some k' /\ cdelta k' = 0 /\ length visited = n /\
    (forall i, i < n -> nth_error visited i = nth_error (log s') (ccommit k + cdelta k + i)) /\
    (let m := match e with RePanic => n - 1 | _ => n end in
     ccommit k' = if m =? 0 then ccommit k else ccommit k + cdelta k + m) /\
    (e = RePanic -> 1 <= n) /\ (e = ReNil -> 1 <= n) /\
    (e = ReErr -> g = REmpty \/ g = RErr) /\
    base s <= base s' /\ (exists sfx, log s' = log s ++ sfx) /\ Inv s' /\
    (creg k' = true -> creg k = true) /\ (ccancel k = true -> ccancel k' = true).
Proof.
  intros s c k script E s' visited e g lend HI HE Hk Hrun. unfold pkg_range_env in Hrun.
  assert (Hf : e <> ReFuel) by (eapply range_loop_env_fuel_enough; [|exact Hrun]; lia).
  split; [exact Hf|].
  destruct (range_loop_env_spec _ _ _ _ _ _ _ _ _ _ _ _ _ HI HE Hk Hrun)
    as (k' & n & vs & P1 & P2 & P3 & P4 & P5 & P6 & P7 & P8 & P9 & P10 & P11 & P12 & P13 & P14).
  cbn [app] in P3. subst vs. exists k', n.
  split; [exact P1|]. split; [auto|]. split; [exact P4|]. split; [exact P5|]. split; [exact P6|].
  repeat (split; [assumption|]). exact P14.
Qed.

(* open environment: c stays live; with the default cleaner an error return of Range can only come from a Get that
   would have parked (i.e. the call was ended by its caller's context) -- never from the past-offset error *)
Theorem pkg_range_env_open : forall s c k script E s' visited e g lend,
  okc c s k -> env_open c E ->
  pkg_range_env s c script E = (s', visited, e, (g, lend)) ->
  exists k', getc s' c = Some k' /\ live k' /\ bclosed s' = false /\
    (DD s -> DD s' /\ g <> RErr /\ (e = ReErr -> g = REmpty)).
Proof.
  intros s c k script E s' visited e g lend Hok HE Hrun. unfold pkg_range_env in Hrun.
  destruct (range_loop_env_open _ _ _ _ _ _ _ _ _ _ _ _ _ Hok HE Hrun) as (k' & Q1 & Q2 & Q3 & Q4 & _).
  destruct Hok as (HI & Hk & _).
  destruct (range_loop_env_post _ _ _ _ _ _ _ _ _ _ _ _ _ HI (env_open_ok _ _ HE) Hk Hrun)
    as (k0 & vs & _ & _ & _ & _ & _ & _ & _ & _ & _ & _ & _ & _ & _ & P14 & _).
  exists k'. split; [exact Q1|]. split; [exact Q2|]. split; [exact Q3|].
  intros HD. destruct (Q4 HD) as [H1 H2]. split; [exact H1|]. split; [exact H2|].
  intros He. destruct (P14 He) as [H|H]; [exact H|contradiction].
Qed.

Lemma more_of_true_getc s c : more_of true s c = true -> exists k, getc s c = Some k /\ creg k = true.
Proof.
  unfold more_of, step. destruct (getc s c) as [k|]; cbn [snd]; [|discriminate].
  destruct (creg k) eqn:Hr; cbn [snd]; [|discriminate]. eauto.
Qed.

(* Buffer.Range under any environment.  Everything the loop specification says, except that a call which returns at the
   entry Diff test touches nothing (so reads pending at entry STAY pending); and the stopping point: when Buffer.Range
   returns nil because of a Diff test (at entry, or after a callback that wanted to continue), the consumer's cursor is
   exactly at the end of the log AS OF THAT Diff test ([lend]).  Values put after that test (during the one environment
   segment before the final Commit) are in the final log but were not visited. *)
Theorem buffer_range_env_spec : forall s c k script E s' visited e g lend,
  Inv s -> env_ok c E -> getc s c = Some k ->
  buffer_range_env s c script E = (s', visited, e, (g, lend)) ->
  e <> ReFuel /\
  exists k' n,
    getc s' c = Some k' /\ length visited = n /\
    (cdelta k' = 0 \/ (visited = [] /\ e = ReNil /\ cdelta k' = cdelta k)) /\
    (forall i, i < n -> nth_error visited i = nth_error (log s') (ccommit k + cdelta k + i)) /\
    (let m := match e with RePanic => n - 1 | _ => n end in
     ccommit k' = if m =? 0 then ccommit k else ccommit k + cdelta k + m) /\
    (e = RePanic -> 1 <= n) /\
    (e = ReErr -> g = REmpty \/ g = RErr) /\
    base s <= base s' /\ (exists sfx, log s' = log s ++ sfx) /\ Inv s' /\
    (creg k' = true -> creg k = true) /\ (ccancel k = true -> ccancel k' = true) /\
    (e = ReNil -> (n = 0 -> creg k' = true) -> (1 <= n -> cb_cont (nth (n - 1) script CbFalse) = true) ->
       ccommit k' + cdelta k' = lend /\ lend <= length (log s')).
Proof.
  intros s c k script E s' visited e g lend HI HE Hk Hrun. unfold buffer_range_env in Hrun. rewrite Hk in Hrun.
  destruct (envstep s E) as [sa E1] eqn:HA.
  destruct (envstep_c c s E k sa E1 HI HE Hk HA) as (HE1 & HIa & HLa & HBa & ka & Hka & Pa1 & Pa2 & Pa3 & Pa4 & Pa5).
  destruct (more_of true sa c) eqn:Hmore.
  - assert (Hf : e <> ReFuel) by (eapply range_loop_env_fuel_enough; [|exact Hrun]; lia).
    split; [exact Hf|].
    destruct (range_loop_env_post _ _ _ _ _ _ _ _ _ _ _ _ _ HIa HE1 Hka Hrun)
      as (k' & vs & P1 & P2 & P3 & P4 & P5 & P6 & P7 & P8 & P9 & P10 & P11 & P12 & P13 & P14 & P15).
    cbn [app] in P4. subst vs. unfold committed_of in P6. rewrite Pa1, Pa2 in *.
    exists k', (length visited). cbv zeta.
    split; [exact P1|]. split; [reflexivity|]. split; [left; auto|]. split; [exact P5|]. split; [exact P6|].
    split; [exact P7|]. split; [exact P14|]. split; [lia|]. split; [eapply lext_trans; eauto|]. split; [exact P11|].
    split; [auto|]. split; [auto|].
    intros He _ Hc. specialize (P8 He). rewrite (P2 Hf), Nat.add_0_r. apply P15; auto.
  - inversion Hrun; subst. split; [discriminate|]. exists ka, 0. cbv zeta. cbn [length].
    split; [exact Hka|]. split; [reflexivity|]. split; [right; auto|]. split; [intros i Hi; lia|].
    split; [exact Pa1|]. split; [discriminate|]. split; [discriminate|]. split; [exact HBa|]. split; [exact HLa|].
    split; [exact HIa|]. split; [exact Pa3|]. split; [exact Pa5|].
    intros _ Hr _. specialize (Hr eq_refl). rewrite (more_of_bounded s' c ka Hka Hr) in Hmore.
    apply Nat.ltb_ge in Hmore. destruct HIa as [_ HF]. pose proof (Forall_nth_error _ _ _ _ HF Hka) as (_ & A1 & A2 & _).
    lia.
Qed.

(* Buffer.Range under an open environment never issues a Get that would park (whatever the cleaner); with the default
   cleaner it never fails at all: it returns nil or re-raises the callback's panic. *)
Theorem buffer_range_env_never_blocks : forall s c k script E s' visited e g lend,
  okc c s k -> env_open c E ->
  buffer_range_env s c script E = (s', visited, e, (g, lend)) ->
  g <> REmpty /\
  exists k', getc s' c = Some k' /\ live k' /\ bclosed s' = false /\
    (DD s -> DD s' /\ g <> RErr /\ (e = ReNil \/ e = RePanic)).
Proof.
  intros s c k script E s' visited e g lend Hok HE Hrun. unfold buffer_range_env in Hrun.
  pose proof Hok as (HI & Hk & Hl & Hb). rewrite Hk in Hrun.
  destruct (envstep s E) as [sa E1] eqn:HA.
  destruct (envstep_okc c s E k sa E1 Hok HE HA) as (HE1 & Hoka & HLa & HDa).
  pose proof Hoka as (HIa & Hka & (La1 & _) & Hba).
  destruct (more_of true sa c) eqn:Hmore.
  - rewrite (more_of_bounded sa c k Hka La1) in Hmore. apply Nat.ltb_lt in Hmore.
    destruct (range_loop_env_open _ _ _ _ _ _ _ _ _ _ _ _ _ Hoka HE1 Hrun) as (k' & Q1 & Q2 & Q3 & Q4 & Q5).
    split; [apply Q5; auto|]. exists k'. split; [exact Q1|]. split; [exact Q2|]. split; [exact Q3|].
    intros HD. destruct (Q4 (HDa HD)) as [H1 H2]. split; [exact H1|]. split; [exact H2|].
    assert (Hf : e <> ReFuel) by (eapply range_loop_env_fuel_enough; [|exact Hrun]; lia).
    destruct (range_loop_env_post _ _ _ _ _ _ _ _ _ _ _ _ _ HIa (env_open_ok _ _ HE1) Hka Hrun)
      as (k0 & vs & _ & _ & _ & _ & _ & _ & _ & _ & _ & _ & _ & _ & _ & P14 & _).
    destruct e; auto; try congruence.
    destruct (P14 eq_refl) as [H|H]; [exfalso; apply (Q5 eq_refl Hmore H)|contradiction].
  - inversion Hrun; subst. split; [discriminate|]. exists k. split; [exact Hka|]. split; [exact Hl|]. split; [exact Hba|].
    intros HD. split; [auto|]. split; [discriminate|auto].
Qed.

(* Get failure (error, or would-park until the caller's context expired), any environment, d reads pending at entry:
   every value this call visited is committed and nothing is pending.  If the call visited at least one value the
   committed offset is the entry cursor plus the number visited (the d pending reads were committed by the first Commit);
   if it visited none, the committed offset is unchanged and the d pending reads have been rolled back.  The next
   successful read of this consumer (in any later state where its record is unchanged) returns the log entry at that
   offset. *)
Theorem range_env_get_failure_cursor : forall fuel bounded s c k script visited0 E s' visited g lend,
  Inv s -> env_ok c E -> getc s c = Some k ->
  range_loop_env fuel bounded s c script visited0 E = (s', visited, ReErr, (g, lend)) ->
  exists k' vs,
    visited = visited0 ++ vs /\ (g = REmpty \/ g = RErr) /\
    getc s' c = Some k' /\ cdelta k' = 0 /\
    (ccommit k' = if length vs =? 0 then ccommit k else ccommit k + cdelta k + length vs) /\
    (forall i, i < length vs -> nth_error vs i = nth_error (log s') (ccommit k + cdelta k + i)) /\
    (forall s2 s3 v, getc s2 c = Some k' -> step s2 (OGet c) = (s3, RVal v) ->
                     nth_error (log s2) (ccommit k') = Some v).
Proof.
  intros fuel bounded s c k script visited0 E s' visited g lend HI HE Hk Hrun.
  destruct (range_loop_env_post _ _ _ _ _ _ _ _ _ _ _ _ _ HI HE Hk Hrun)
    as (k' & vs & P1 & P2 & P3 & P4 & P5 & P6 & P7 & P8 & P9 & P10 & P11 & P12 & P13 & P14 & P15).
  cbn [committed_of] in P6. specialize (P2 ltac:(discriminate)).
  exists k', vs. split; [exact P4|]. split; [auto|]. split; [exact P1|]. split; [exact P2|]. split; [exact P6|].
  split; [exact P5|].
  intros s2 s3 v Hk2 Hg. destruct (step_get_val _ _ _ _ Hg) as (k0 & Hk0 & Hn & _).
  rewrite Hk2 in Hk0. inversion Hk0; subst k0. rewrite P2, Nat.add_0_r in Hn. exact Hn.
Qed.

(* ---------------------------------------------------------------------------------------------------------- *)
(* what the consumer reads next after a panic                                                                   *)
(* ---------------------------------------------------------------------------------------------------------- *)
Lemma nth_error_skipn_add {A} (l : list A) : forall a j, nth_error (skipn a l) j = nth_error l (a + j).
Proof.
  induction l as [|x l IH]; intros [|a] j; cbn [skipn Nat.add]; auto.
  - destruct j; reflexivity.
  - cbn [nth_error]. apply IH.
Qed.

Lemma nth_error_firstn_lt {A} (l : list A) : forall m j, j < m -> nth_error (firstn m l) j = nth_error l j.
Proof.
  induction l as [|x l IH]; intros [|m] [|j] H; cbn [firstn nth_error]; auto; try lia. apply IH. lia.
Qed.

(* After a panic, under an open environment and the default cleaner.  Let n >= 1 be the number of values this call
   visited and d the reads that were pending at entry.  The deferred Rollback rolled back the in-flight value -- and, if
   the panic happened in the FIRST iteration (n = 1), the d earlier pending reads with it, because consumer.Rollback
   zeroes the whole uncommitted window.  The following Gets (whatever the open environment does before each) return the
   log from the committed offset: first the j = (d if n = 1, else 0) older rolled-back values, then exactly the in-flight
   value.  With nothing pending at entry (d = 0) the in-flight value is the FIRST value the next Get returns. *)
Theorem range_env_panic_redelivers : forall fuel b s c k script visited0 E s' visited lo dflt E2 s2 rs,
  okc c s k -> DD s -> env_open c E -> env_open c E2 ->
  range_loop_env fuel b s c script visited0 E = (s', visited, RePanic, lo) ->
  let n := length visited - length visited0 in
  let j := if n =? 1 then cdelta k else 0 in
  gets_env s' c (S j) E2 = (s2, rs) ->
  1 <= n /\ length visited = length visited0 + n /\
  exists k', getc s' c = Some k' /\ cdelta k' = 0 /\
    rs = map RVal (firstn (S j) (skipn (ccommit k') (log s'))) /\ length rs = S j /\
    nth_error rs j = Some (RVal (last visited dflt)).
Proof.
  intros fuel b s c k script visited0 E s' visited [g lend] dflt E2 s2 rs Hok HD HE HE2 Hrun n j Hgets.
  pose proof Hok as (HI & Hk & _).
  destruct (range_loop_env_post _ _ _ _ _ _ _ _ _ _ _ _ _ HI (env_open_ok _ _ HE) Hk Hrun)
    as (k' & vs & P1 & P2 & P3 & P4 & P5 & P6 & P7 & P8 & P9 & P10 & P11 & _).
  destruct (range_loop_env_open _ _ _ _ _ _ _ _ _ _ _ _ _ Hok HE Hrun) as (k0 & Q1 & Q2 & Q3 & Q4 & _).
  rewrite P1 in Q1. inversion Q1; subst k0. destruct (Q4 HD) as [HD' _].
  specialize (P7 eq_refl). specialize (P2 ltac:(discriminate)).
  assert (Hn : n = length vs) by (unfold n; rewrite P4, app_length; lia).
  assert (Hne : vs <> []) by (intros E0; subst vs; cbn in P7; lia).
  destruct (exists_last Hne) as (vs0 & x & Evs).
  assert (Hlast : last visited dflt = x) by (rewrite P4, Evs, app_assoc; apply last_last).
  assert (Hx : nth_error (log s') (ccommit k + cdelta k + (length vs - 1)) = Some x).
  { rewrite <- P5 by lia. rewrite Evs, app_length. cbn [length].
    replace (length vs0 + 1 - 1) with (length vs0) by lia. rewrite nth_error_app2 by lia. rewrite Nat.sub_diag. reflexivity. }
  cbn [committed_of] in P6.
  assert (Hpos : ccommit k' + j = ccommit k + cdelta k + (length vs - 1)).
  { unfold j. rewrite Hn. destruct (Nat.eqb_spec (length vs) 1) as [E1|E1].
    - rewrite E1 in *. replace (1 - 1 =? 0) with true in P6 by (symmetry; apply Nat.eqb_eq; lia). lia.
    - destruct (Nat.eqb_spec (length vs - 1) 0); lia. }
  assert (Hlt : ccommit k' + j < length (log s')) by (rewrite Hpos; apply nth_error_Some; rewrite Hx; discriminate).
  assert (Hok' : okc c s' k') by (split; [exact P11|]; split; [exact P1|]; split; assumption).
  assert (Hbase : base s' <= ccommit k').
  { destruct HD' as [_ HDI]. destruct Q2 as (R1 & _). exact (Forall_nth_error _ _ _ _ HDI P1 R1). }
  destruct (gets_env_spec (S j) s' c k' E2 s2 rs Hok' Hbase (or_introl HD') HE2 ltac:(lia) Hgets) as (R1 & _).
  rewrite P2, Nat.add_0_r in R1.
  split; [lia|]. split; [rewrite P4, app_length; lia|]. exists k'. split; [exact P1|]. split; [exact P2|].
  split; [exact R1|]. split; [rewrite R1, map_length, firstn_length, skipn_length; lia|].
  rewrite R1, nth_error_map, nth_error_firstn_lt by lia. rewrite nth_error_skipn_add, Hpos, Hx, Hlast. reflexivity.
Qed.

(* ---------------------------------------------------------------------------------------------------------- *)
(* D.  Buffer.Range in isolation with callbacks that put values: it stops exactly at the end of the final log   *)
(* ---------------------------------------------------------------------------------------------------------- *)
Lemma bounded_cont_loop : forall fuel c script s k visited0 s' visited e,
  Inv s -> getc s c = Some k -> cdelta k = 0 -> creg k = true -> ccancel k = false -> bclosed s = false ->
  base s <= ccommit k -> ccommit k < length (log s) -> length script < fuel ->
  Forall (fun x => cb_cont x = true) script ->
  range_loop fuel true s c script visited0 = (s', visited, e) ->
  e = ReNil /\ exists k', getc s' c = Some k' /\ cdelta k' = 0 /\
    (ccommit k' = length (log s') \/ length visited = length visited0 + S (length script)).
Proof.
  induction fuel as [|f IH]; intros c script s k visited0 s' visited e HI Hk Hd Hr Hc Hb Hle Hlt Hf Hall Hrun; [lia|].
  destruct (nth_error (log s) (ccommit k)) as [v|] eqn:Hn; [|apply nth_error_None in Hn; lia].
  pose proof (get_succeeds s c k v Hk Hc Hb Hr) as Hg. rewrite Hd, Nat.add_0_r in Hg. specialize (Hg Hle Hn).
  match type of Hg with _ = (?x, _) => set (s1 := x) in * end.
  assert (Hk1 : getc s1 c = Some (c_get k (ccommit k))) by (eapply getc_upd; eauto).
  assert (HI1 : Inv s1) by (eapply Inv_step_eq; eauto).
  destruct script as [|x script']; cbn [length] in Hf.
  - destruct (get_then_commit s c k s1 v s1 [] HI Hk Hd Hg (frame_refl c s1) HI1 eq_refl) as (s2 & k2 & Hs2 & _ & _ & Hk2 & Hd2 & _).
    rewrite (range_loop_nil_eq f true s c visited0 s1 v s2 Hg Hs2) in Hrun. inversion Hrun; subst.
    split; [reflexivity|]. exists k2. split; [exact Hk2|]. split; [exact Hd2|]. right. rewrite app_length. cbn [length]. lia.
  - apply Forall_inv_cons in Hall. destruct Hall as [Hx Hall'].
    destruct x as [| | |pv]; cbn [cb_cont] in Hx; try discriminate Hx.
    + destruct (get_then_commit s c k s1 v s1 [] HI Hk Hd Hg (frame_refl c s1) HI1 eq_refl) as
        (s2 & k2 & Hs2 & (F1 & F2 & F3 & F4) & HI2 & Hk2 & Hd2 & Hc2 & Hr2 & Hcc2 & _).
      rewrite (range_loop_true_eq f true s c script' visited0 s1 v s2 Hg Hs2) in Hrun.
      rewrite (more_of_bounded s1 c _ Hk1 Hr) in Hrun. cbn [c_get ccommit cdelta set_cs log s1] in Hrun.
      rewrite app_nil_r in F1.
      destruct (Nat.ltb_spec (ccommit k + S (cdelta k)) (length (log s))) as [Hmore|Hstop].
      * destruct (IH c script' s2 k2 (visited0 ++ [v]) s' visited e HI2 Hk2 Hd2) as (E1 & k' & E2 & E3 & E4);
          auto; try congruence; try (rewrite ?F1, ?F2, ?Hc2; lia).
        split; [exact E1|]. exists k'. split; [exact E2|]. split; [exact E3|].
        destruct E4 as [E4|E4]; [left; exact E4|right]. rewrite E4, app_length. cbn [length]. lia.
      * inversion Hrun; subst. split; [reflexivity|]. exists k2. split; [exact Hk2|]. split; [exact Hd2|]. left.
        rewrite F1. lia.
    + assert (Hb1 : bclosed s1 = false) by exact Hb.
      destruct (put_frame s1 c [pv] HI1 Hb1) as (sp & Hsp & Hfp & HIp & Hkp).
      destruct (get_then_commit s c k s1 v sp [pv] HI Hk Hd Hg Hfp HIp (Hkp c)) as
        (s2 & k2 & Hs2 & (F1 & F2 & F3 & F4) & HI2 & Hk2 & Hd2 & Hc2 & Hr2 & Hcc2 & _).
      rewrite (range_loop_put_eq f true s c pv script' visited0 s1 v sp ROk s2 Hg Hsp Hs2) in Hrun.
      assert (Hkp1 : getc sp c = Some (c_get k (ccommit k))) by (rewrite Hkp; exact Hk1).
      rewrite (more_of_bounded sp c _ Hkp1 Hr) in Hrun. cbn [c_get ccommit cdelta] in Hrun.
      destruct Hfp as (Fp1 & _). cbn [s1 set_cs log] in Fp1.
      destruct (Nat.ltb_spec (ccommit k + S (cdelta k)) (length (log sp))) as [Hmore|Hstop].
      * destruct (IH c script' s2 k2 (visited0 ++ [v]) s' visited e HI2 Hk2 Hd2) as (E1 & k' & E2 & E3 & E4);
          auto; try congruence; try (rewrite ?F1, ?F2, ?Hc2, ?app_length; cbn [length]; lia).
        split; [exact E1|]. exists k'. split; [exact E2|]. split; [exact E3|].
        destruct E4 as [E4|E4]; [left; exact E4|right]. rewrite E4, app_length. cbn [length]. lia.
      * inversion Hrun; subst. split; [reflexivity|]. exists k2. split; [exact Hk2|]. split; [exact Hd2|]. left.
        rewrite F1, <- Fp1. rewrite Fp1 in Hstop. rewrite app_length in *. cbn [length] in *. lia.
Qed.

Lemma nth_all_skipn {A} (l : list A) : forall vs a,
  (forall i, i < length vs -> nth_error vs i = nth_error l (a + i)) -> a + length vs = length l -> vs = skipn a l.
Proof.
  induction vs as [|x vs IH]; intros a Hn Hlen; cbn [length] in *.
  - rewrite skipn_all2 by lia. reflexivity.
  - pose proof (Hn 0 ltac:(lia)) as H0. rewrite Nat.add_0_r in H0. cbn [nth_error] in H0. symmetry in H0.
    rewrite (skipn_nth_cons _ _ _ H0). f_equal. apply IH; [|lia].
    intros i Hi. specialize (Hn (S i) ltac:(lia)). cbn [nth_error] in Hn. rewrite Hn. f_equal. lia.
Qed.

(* Buffer.Range in isolation, every callback continues and may put a value (CbTrue / CbPutTrue): it ends with nil,
   everything visited is committed, and -- unless the (finite) script ran out, which the model treats as a stop -- the
   consumer is exactly at the end of the FINAL log: it visited everything from its commit point to the end, including the
   values its own callbacks put (those land before the Diff test of their iteration). *)
Theorem buffer_range_cont_stops_at_end : forall s c k script s' visited e,
  Inv s -> getc s c = Some k -> cdelta k = 0 -> creg k = true -> ccancel k = false -> bclosed s = false ->
  base s <= ccommit k -> Forall (fun x => cb_cont x = true) script ->
  buffer_range s c script = (s', visited, e) ->
  e = ReNil /\
  exists k', getc s' c = Some k' /\ cdelta k' = 0 /\ ccommit k' = ccommit k + length visited /\
    log s' = log s ++ cb_puts (firstn (length visited) script) /\ base s' = base s /\
    (forall i, i < length visited -> nth_error visited i = nth_error (log s') (ccommit k + i)) /\
    (length visited <= length script -> ccommit k' = length (log s') /\ visited = skipn (ccommit k) (log s')).
Proof.
  intros s c k script s' visited e HI Hk Hd Hr Hc Hb Hle Hall Hrun.
  assert (Hhi : ccommit k <= length (log s)).
  { destruct HI as [_ HF]. pose proof (Forall_nth_error _ _ _ _ HF Hk) as (_ & A & B & _). lia. }
  unfold buffer_range in Hrun. rewrite Hk, (diff_eq _ _ _ Hk Hr) in Hrun. cbn [snd] in Hrun.
  rewrite Hd, Nat.add_0_r in Hrun.
  destruct (Z.ltb_spec 0 (Z.of_nat (length (log s)) - Z.of_nat (ccommit k))) as [Hpos|Hzero].
  - destruct (bounded_cont_loop (S (length (log s) + length script)) c script s k [] s' visited e HI Hk Hd Hr Hc Hb Hle ltac:(lia) ltac:(lia) Hall Hrun)
      as (E1 & k' & E2 & E3 & E4).
    destruct (range_loop_post _ _ _ _ _ _ _ _ _ _ HI Hk Hd Hrun)
      as (k0 & vs & P1 & P2 & P3 & P4 & P5 & P6 & P7 & P8 & _).
    rewrite E2 in P1. inversion P1; subst k0. cbn [app] in P3. subst vs e. cbn [committed_of] in P5.
    split; [reflexivity|]. exists k'. repeat (split; [assumption|]).
    intros Hlen. cbn [length] in E4. destruct E4 as [E4|E4]; [|lia]. split; [exact E4|].
    apply nth_all_skipn; [exact P4|lia].
  - inversion Hrun; subst. split; [reflexivity|]. exists k. cbn [length firstn cb_puts flat_map].
    rewrite app_nil_r, Nat.add_0_r. split; [exact Hk|]. split; [exact Hd|]. split; [reflexivity|]. split; [reflexivity|].
    split; [reflexivity|]. split; [intros i Hi; lia|].
    intros _. split; [lia|]. rewrite skipn_all2 by lia. reflexivity.
Qed.

(* ---------------------------------------------------------------------------------------------------------- *)
(* non-vacuity, and what differs under interleaving                                                             *)
(* ---------------------------------------------------------------------------------------------------------- *)
Definition exe_state : st := fst (erun (init CDefault) [EOp (OPut [10; 20]%Z); EOp ONew]).

(* the hypotheses of the theorems above hold of a concrete state *)
Lemma exe_state_ok : exists k, okc 0 exe_state k /\ DD exe_state /\ cdelta k = 0 /\ base exe_state <= ccommit k.
Proof.
  eexists. split; [split; [apply Inv_erun, Inv_init|]; split; [reflexivity|]; split; [|reflexivity]|].
  - unfold live; cbn; auto.
  - split; [split; [reflexivity|]|split; [reflexivity|cbn; lia]].
    apply default_never_evicts_unread; [reflexivity|apply Inv_init|constructor].
Qed.

Definition exe_env : list (list ev) :=
  [ [EOp ONew; EOp (OPut [30]%Z)]; [EOp (OGet 1); EClean]; [EOp (OCommit 1); ESettle]; [EOp OSize; EClean];
    [EOp (OPut [40]%Z)]; [EClean]; [EOp (OGet 1); EOp (ORollback 1)]; [ESettle]; [EOp (ODiff 1)] ].

Lemma exe_env_open : env_open 0 exe_env.
Proof. unfold env_open, seg_open, exe_env. repeat constructor. Qed.

(* package Range with another consumer, Puts, cleaner runs and shutdown steps in between: it visits the values that other
   producers put meanwhile (30, 40), the cleaner has moved the base, the panic leaves 40 to be re-delivered *)
Example pkg_range_env_example :
  let '(s', visited, e, (g, _)) := pkg_range_env exe_state 0 [CbTrue; CbPutTrue 99%Z; CbTrue; CbPanic] exe_env in
  visited = [10; 20; 30; 40]%Z /\ e = RePanic /\ g = RVal 40%Z /\ log s' = [10; 20; 30; 40; 99]%Z /\ base s' = 1 /\
  option_map (fun k => (ccommit k, cdelta k)) (getc s' 0) = Some (3, 0) /\
  snd (step s' (OGet 0)) = RVal 40%Z.
Proof. vm_compute. repeat split. Qed.

(* WHAT DIFFERS UNDER INTERLEAVING.  Buffer.Range with willing callbacks over a backlog [10; 20]:
   - alone, it ends at the end of the log (ccommit = length log);
   - a Put that lands BEFORE the Diff test of the last iteration is seen by that test: Range goes on and visits it;
   - a Put that lands between that Diff test and the Commit is NOT seen: Range returns nil with the cursor at the end of
     the log as of the Diff test (lend = 2) while the final log already holds an unvisited value. *)
Example buffer_range_env_stopping_point_example :
  (let '(s', visited, e, (_, lend)) :=
     buffer_range_env exe_state 0 (repeat CbTrue 5) [ []; []; []; []; []; []; []; []; [EOp (OPut [30]%Z)] ] in
   visited = [10; 20]%Z /\ e = ReNil /\ lend = 2 /\ log s' = [10; 20; 30]%Z /\
   option_map (fun k => (ccommit k, cdelta k)) (getc s' 0) = Some (2, 0)) /\
  (let '(s', visited, e, (_, lend)) :=
     buffer_range_env exe_state 0 (repeat CbTrue 5) [ []; []; []; []; []; []; []; [EOp (OPut [30]%Z)]; [] ] in
   visited = [10; 20; 30]%Z /\ e = ReNil /\ lend = 3 /\ log s' = [10; 20; 30]%Z /\
   option_map (fun k => (ccommit k, cdelta k)) (getc s' 0) = Some (3, 0)) /\
  (let '(s', visited, e) := buffer_range exe_state 0 (repeat CbTrue 5) in
   visited = [10; 20]%Z /\ e = ReNil /\ log s' = [10; 20]%Z).
Proof. vm_compute. repeat split. Qed.

(* so "Buffer.Range ends at the end of the buffer" is refuted for the log AT RETURN, under an open environment *)
Theorem buffer_range_env_end_at_return_refuted :
  exists s c k script E s' visited o k',
    okc c s k /\ DD s /\ cdelta k = 0 /\ env_open c E /\ Forall (fun x => cb_cont x = true) script /\
    buffer_range_env s c script E = (s', visited, ReNil, o) /\ length visited < length script /\
    getc s' c = Some k' /\ ccommit k' < length (log s').
Proof.
  destruct exe_state_ok as (k & Hok & HD & Hd & _).
  exists exe_state, 0, k, (repeat CbTrue 5), [ []; []; []; []; []; []; []; []; [EOp (OPut [30]%Z)] ].
  eexists. eexists. eexists. eexists.
  split; [exact Hok|]. split; [exact HD|]. split; [exact Hd|].
  split; [unfold env_open, seg_open; repeat constructor|]. split; [repeat constructor|].
  split; [vm_compute; reflexivity|]. split; [cbn; lia|]. split; [vm_compute; reflexivity|]. cbn. lia.
Qed.

(* the environment may even close consumer c (or the buffer) while the callback runs: the Commit of the in-flight value
   still succeeds, the NEXT Get fails, nothing is left pending *)
Example range_env_close_during_callback_example :
  (let '(s', visited, e, (g, _)) := pkg_range_env exe_state 0 [CbTrue; CbTrue; CbTrue] [ []; [EOp (OCloseC 0)]; []; [ESettle] ] in
   visited = [10]%Z /\ e = ReErr /\ g = RErr /\ option_map (fun k => (ccommit k, cdelta k)) (getc s' 0) = Some (1, 0)) /\
  (let '(s', visited, e, (g, _)) := pkg_range_env exe_state 0 [CbTrue; CbTrue; CbTrue] [ []; [EOp OCloseB]; []; [ESettle] ] in
   visited = [10]%Z /\ e = ReErr /\ g = RErr /\ option_map (fun k => (ccommit k, cdelta k)) (getc s' 0) = Some (1, 0)).
Proof. vm_compute. repeat split. Qed.

(* B: reads pending at entry.  Two reads (1, 2) are pending, Range is entered: *)
Definition exe_pending : st := fst (erun (init CDefault) [EOp (OPut [1; 2; 3]%Z); EOp ONew; EOp (OGet 0); EOp (OGet 0)]).

Example range_pending_at_entry_example :
  (* it continues after them (visits 3); a successful Commit commits them too *)
  (let '(s', visited, e, _) := pkg_range_env exe_pending 0 [CbFalse] [] in
   visited = [3]%Z /\ e = ReNil /\ option_map (fun k => (ccommit k, cdelta k)) (getc s' 0) = Some (3, 0)) /\
  (* a panic in the first iteration rolls back all three; the next Gets return 1, 2 and only then the in-flight 3 *)
  (let '(s', visited, e, _) := pkg_range_env exe_pending 0 [CbPanic] [] in
   visited = [3]%Z /\ e = RePanic /\ option_map (fun k => (ccommit k, cdelta k)) (getc s' 0) = Some (0, 0) /\
   snd (gets s' 0 3) = [RVal 1; RVal 2; RVal 3]%Z) /\
  (* a Get failure in the first iteration (nothing left to read) rolls the two earlier reads back as well *)
  (let s := fst (erun (init CDefault) [EOp (OPut [1; 2]%Z); EOp ONew; EOp (OGet 0); EOp (OGet 0)]) in
   let '(s', visited, e, (g, _)) := pkg_range_env s 0 [CbTrue] [] in
   visited = [] /\ e = ReErr /\ g = REmpty /\ option_map (fun k => (ccommit k, cdelta k)) (getc s' 0) = Some (0, 0) /\
   (* ... while Buffer.Range returns at its entry Diff test and leaves them pending *)
   let '(s'', visited', e', _) := buffer_range_env s 0 [CbTrue] [] in
   visited' = [] /\ e' = ReNil /\ option_map (fun k => (ccommit k, cdelta k)) (getc s'' 0) = Some (0, 2)).
Proof. vm_compute. repeat split. Qed.

(* hence the property's clause "the in-flight value ... is the first value the next read of that consumer returns" is
   refuted when reads were pending at entry: the first value the next read returns is the oldest pending one *)
Theorem range_pending_panic_first_read_refuted :
  exists s c k script s' visited o dflt,
    okc c s k /\ DD s /\ cdelta k <> 0 /\
    pkg_range_env s c script [] = (s', visited, RePanic, o) /\
    snd (step s' (OGet c)) <> RVal (last visited dflt).
Proof.
  exists exe_pending, 0. eexists. exists [CbPanic]. eexists. eexists. eexists. exists 0%Z.
  split; [split; [apply Inv_erun, Inv_init|]; split; [reflexivity|]; split; [unfold live; cbn; auto|reflexivity]|].
  split; [split; [reflexivity|apply default_never_evicts_unread; [reflexivity|apply Inv_init|constructor]]|].
  split; [cbn; lia|]. split; [vm_compute; reflexivity|]. vm_compute. discriminate.
Qed.

(* C: Rollback replay on a concrete run, with the environment (another producer, the cleaner) between the Gets *)
Example rollback_replays_example :
  let s := fst (erun (init CDefault) [EOp (OPut [1; 2; 3]%Z); EOp ONew; EOp (OGet 0); EOp (OCommit 0); EOp (OGet 0); EOp (OGet 0)]) in
  let s1 := fst (step s (ORollback 0)) in
  let '(s2, rs) := gets_env s1 0 2 [ [EOp (OPut [4]%Z); EClean]; [EClean; ESettle; EOp ONew] ] in
  rs = [RVal 2; RVal 3]%Z /\ option_map (fun k => (ccommit k, cdelta k)) (getc s2 0) = Some (1, 2) /\ base s2 = 1.
Proof. vm_compute. repeat split. Qed.

(* D: Buffer.Range whose callbacks put values visits them too and ends at the end of the final log *)
Example buffer_range_cont_example :
  let '(s', visited, e) := buffer_range exe_state 0 [CbPutTrue 77%Z; CbTrue; CbPutTrue 88%Z; CbTrue; CbTrue] in
  visited = [10; 20; 77; 88]%Z /\ e = ReNil /\ log s' = [10; 20; 77; 88]%Z /\
  option_map (fun k => (ccommit k, cdelta k)) (getc s' 0) = Some (4, 0).
Proof. vm_compute. repeat split. Qed.

(* the hypotheses of the Rollback-replay / pending-at-entry theorems hold of a concrete state *)
Lemma exe_pending_ok :
  exists k, okc 0 exe_pending k /\ DD exe_pending /\ cdelta k = 2 /\ base exe_pending <= ccommit k.
Proof.
  eexists. split; [split; [apply Inv_erun, Inv_init|]; split; [reflexivity|]; split; [unfold live; cbn; auto|reflexivity]|].
  split; [split; [reflexivity|apply default_never_evicts_unread; [reflexivity|apply Inv_init|constructor]]|].
  split; [reflexivity|vm_compute; lia].
Qed.
