(* At capacity 0 the buffered protocol (Model/CasterBuf.v) IS the unbuffered protocol of Model/CasterAbs.v (counter
   level), step for step: in every state satisfying the invariant (so: in every reachable state) the buffer picks
   are disabled, and a base pick is enabled in one model iff it is enabled in the other, with the same successor
   (the counter maps agree on every variable). *)
From Coq Require Import List Arith Lia Bool ZifyBool.
From BB.Model Require Import CasterAbs CasterBuf.
From BB.Proofs Require Import CasterBuf.
Import ListNotations.
Arguments Nat.sub : simpl never. Arguments Nat.ltb : simpl never. Arguments Nat.leb : simpl never.
Arguments Nat.eqb : simpl never. Arguments Nat.mul : simpl never. Arguments Nat.add : simpl never.

Definition ext_zero (x : ext) : Prop := qo x = 0 /\ qc x = 0 /\ b0s x = 0 /\ pre x = 0.

Lemma inv0_ext_zero dg c f x : CInvB 0 dg c f x -> ext_zero x /\ (c = S7c -> f b0o = 0).
Proof.
  intros (_ & _ & HP & HA & _). destruct (HA eq_refl) as (A1 & A2 & A3 & A4 & _).
  split; [repeat split; assumption|]. intros ->. unfold phaseB in HP. lia.
Qed.

(* the buffer picks are dead *)
Theorem buf0_extra_disabled : forall dg c f x p, CInvB 0 dg c f x -> (forall b, p <> QBase b) ->
  bstep 0 good dg c f x p = None.
Proof.
  intros dg c f [xo xc xs xp xm] p HI Hp. destruct (inv0_ext_zero _ _ _ _ HI) as ((A1 & A2 & A3 & A4) & _).
  cbn [qo qc b0s pre] in *. subst.
  destruct p as [b| | | | | | | ]; [exfalso; exact (Hp b eq_refl)|..]; unfold bstep, qlen, pos; cbn [qo qc b0s pre].
  - destruct c; try reflexivity. rewrite andb_false_r. reflexivity.
  - reflexivity.
  - reflexivity.
  - reflexivity.
  - reflexivity.
  - destruct c; try reflexivity. rewrite andb_false_r. reflexivity.
  - rewrite andb_false_r. reflexivity.
Qed.

(* forward: a step of the buffered model at capacity 0 is a step of CasterAbs.cstep *)
Theorem buf0_forward : forall dg c f x b c' f' x', CInvB 0 dg c f x ->
  bstep 0 good dg c f x (QBase b) = Some (c', f', x') ->
  exists e f'', cstep good c f b = Some (e, c', f'') /\ (forall y, f' y = f'' y) /\ x' = x.
Proof.
  intros dg c f [xo xc xs xp xm] b c' f' x' HI Hs.
  destruct (inv0_ext_zero _ _ _ _ HI) as ((A1 & A2 & A3 & A4) & HB). cbn [qo qc b0s pre] in *. subst.
  unfold bstep, via_cstep, qlen in Hs. cbn [qo qc b0s pre Nat.add] in Hs.
  destruct b.
  1,2,4,5,6: destruct (cstep good c f _) as [[[e c1] f1]|]; [|discriminate Hs]; injection Hs as <- <- <-;
    exists e, f1; repeat split; reflexivity.
  - (* PS *)
    destruct c; cbv beta iota in Hs.
    1,2,4,5,7: destruct (cstep good _ f PS) as [[[e c1] f1]|]; [|discriminate Hs]; injection Hs as <- <- <-;
      exists e, f1; repeat split; reflexivity.
    + (* S4 *)
      unfold cstep, mk. unfold cstep, mk in Hs.
      destruct ((f cnt =? 0) && (f armed =? 0)); [injection Hs as <- <- <-; eexists; eexists; repeat split; reflexivity|].
      destruct (f armed =? 0); injection Hs as <- <- <-; eexists; eexists; repeat split; reflexivity.
    + (* S7c *)
      unfold cstep, mk. unfold cstep, mk in Hs. specialize (HB eq_refl).
      destruct ((f cnt =? f ret) && (f armed =? 1)); injection Hs as <- <- <-; eexists; eexists;
        (split; [reflexivity|]); (split; [|rewrite ?HB; reflexivity]).
      * intros y. unfold set. destruct y; cbn [var_beq]; try reflexivity. symmetry; exact HB.
      * intros y. reflexivity.
  - cbn [Nat.eqb] in Hs. change (0 =? 0) with true in Hs. cbv iota in Hs.
    destruct (cstep good c f PRecvO) as [[[e c1] f1]|]; [|discriminate Hs]; injection Hs as <- <- <-;
    exists e, f1; repeat split; reflexivity.
  - change (0 =? 0) with true in Hs. cbv iota in Hs.
    destruct (cstep good c f PRecvN) as [[[e c1] f1]|]; [|discriminate Hs]; injection Hs as <- <- <-;
    exists e, f1; repeat split; reflexivity.
  - change (0 =? 0) with true in Hs. cbv iota in Hs.
    destruct (cstep good c f PAbsorb) as [[[e c1] f1]|]; [|discriminate Hs]; injection Hs as <- <- <-;
    exists e, f1; repeat split; reflexivity.
  - destruct dg; [|discriminate Hs].
    destruct (cstep good c f PDeregO) as [[[e c1] f1]|]; [|discriminate Hs]; injection Hs as <- <- <-;
    exists e, f1; repeat split; reflexivity.
  - destruct dg; [|discriminate Hs].
    destruct (cstep good c f PDeregN) as [[[e c1] f1]|]; [|discriminate Hs]; injection Hs as <- <- <-;
    exists e, f1; repeat split; reflexivity.
Qed.

(* backward (receivers may give up, as in CasterAbs): a step of CasterAbs.cstep is a step of the buffered model *)
Theorem buf0_backward : forall c f x b e c' f'', CInvB 0 true c f x ->
  cstep good c f b = Some (e, c', f'') ->
  exists f', bstep 0 good true c f x (QBase b) = Some (c', f', x) /\ (forall y, f' y = f'' y).
Proof.
  intros c f [xo xc xs xp xm] b e c' f'' HI Hs.
  destruct (inv0_ext_zero _ _ _ _ HI) as ((A1 & A2 & A3 & A4) & HB). cbn [qo qc b0s pre] in *. subst.
  unfold bstep, via_cstep, qlen. cbn [qo qc b0s pre Nat.add]. change (0 =? 0) with true. cbv iota.
  destruct b.
  1,2,4,5,6,7,8,9,10,11: rewrite Hs; eexists; split; reflexivity.
  destruct c; cbv beta iota.
  1,2,4,5,7: rewrite Hs; eexists; split; reflexivity.
  - (* S4 *) unfold cstep, mk in Hs.
    destruct ((f cnt =? 0) && (f armed =? 0)) eqn:E1.
    + unfold cstep, mk. rewrite E1. injection Hs as <- <- <-. eexists; split; reflexivity.
    + destruct (f armed =? 0) eqn:E2.
      * injection Hs as <- <- <-. eexists; split; reflexivity.
      * unfold cstep, mk. rewrite E2, E1. injection Hs as <- <- <-. eexists; split; reflexivity.
  - (* S7c *) unfold cstep, mk in Hs. specialize (HB eq_refl).
    destruct ((f cnt =? f ret) && (f armed =? 1)) eqn:E1.
    + injection Hs as <- <- <-. eexists; split; [rewrite HB; reflexivity|].
      intros y. unfold set. destruct y; cbn [var_beq]; try reflexivity. symmetry; exact HB.
    + unfold cstep, mk. rewrite E1. injection Hs as <- <- <-. eexists; split; reflexivity.
Qed.

(* the invariant these are stated on holds in every reachable state of the capacity-0 model *)
Theorem buf0_invariant_reachable : forall dg senders receivers sched,
  let s := brun 0 good dg (binit senders receivers) sched in CInvB 0 dg (bsp s) (bv s) (bx s).
Proof. intros. apply (InvB_brun 0 dg senders receivers sched). left; reflexivity. Qed.

Print Assumptions buf0_extra_disabled.
Print Assumptions buf0_forward.
Print Assumptions buf0_backward.
